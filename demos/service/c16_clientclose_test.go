package service

import "testing"

// C16: when one service connection goes away the others keep working and the teamserver keeps running.
func TestC16TwoConnectionsFirstLeaves(t *testing.T) {
	s := &Service{}
	c1, c2 := &ClientService{}, &ClientService{}
	s.clients = []*ClientService{c1, c2}
	defer func() {
		if r := recover(); r != nil {
			t.Fatalf("ClientClose of the first of two connections panics: %v", r)
		}
	}()
	s.ClientClose(c1)
	if len(s.clients) != 1 || s.clients[0] != c2 {
		t.Fatalf("clients after close: %d", len(s.clients))
	}
}

// C16: exactly the agent types and listeners a connection registered disappear — all of them.
func TestC16AllRegistrationsOfOwnerRemoved(t *testing.T) {
	s := &Service{}
	c1, c2 := &ClientService{}, &ClientService{}
	s.clients = []*ClientService{c1, c2}
	s.Agents = []*AgentService{{Name: "a1", client: c1}, {Name: "b", client: c2}, {Name: "a2", client: c1}}
	s.Listeners = []*ListenerService{{Name: "l1", client: c1}, {Name: "l2", client: c1}, {Name: "m", client: c2}}
	s.ClientClose(c1)
	for _, a := range s.Agents {
		if a.client == c1 {
			t.Errorf("agent type %s of the closed connection is still registered", a.Name)
		}
	}
	for _, l := range s.Listeners {
		if l.client == c1 {
			t.Errorf("listener %s of the closed connection is still registered", l.Name)
		}
	}
	if len(s.Agents) != 1 || len(s.Listeners) != 1 {
		t.Errorf("other connection's registrations touched: %d agents %d listeners", len(s.Agents), len(s.Listeners))
	}
}
