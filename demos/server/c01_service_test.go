package server

import "testing"

// C01: a request whose magic value is not Demon's, on a teamserver without a Service block.
func TestC01NoServiceBlock(t *testing.T) {
	ts := &Teamserver{}
	defer func() {
		if r := recover(); r != nil {
			t.Fatalf("ServiceAgentExist without a Service block panics: %v", r)
		}
	}()
	if ts.ServiceAgentExist(0x41414141) {
		t.Fatal("exists?")
	}
	if ts.ServiceAgent(0x41414141) != nil {
		t.Fatal("non-nil?")
	}
}
