package server

import (
	"net/http"
	"net/http/httptest"
	"strings"
	"testing"
	"time"

	"Havoc/pkg/events"
	"Havoc/pkg/packager"

	"github.com/gorilla/websocket"
)

// C11/C01: a failed write to one operator must not leave its mutex held.
func TestC11SendEventUnlocksOnError(t *testing.T) {
	ts := &Teamserver{}
	srv := httptest.NewServer(http.HandlerFunc(func(w http.ResponseWriter, r *http.Request) {
		var up websocket.Upgrader
		ws, err := up.Upgrade(w, r, nil)
		if err != nil {
			return
		}
		ts.Clients.Store("c1", &Client{Connection: ws, Packager: packager.NewPackager(), Authenticated: true})
	}))
	defer srv.Close()
	conn, _, err := websocket.DefaultDialer.Dial("ws"+strings.TrimPrefix(srv.URL, "http"), nil)
	if err != nil {
		t.Fatal(err)
	}
	time.Sleep(100 * time.Millisecond)
	conn.Close()
	v, _ := ts.Clients.Load("c1")
	v.(*Client).Connection.Close() // the transport is cut
	pk := events.ChatLog.NewUserConnected("alice")
	if err := ts.SendEvent("c1", pk); err == nil {
		t.Skip("write to closed connection unexpectedly succeeded")
	}
	done := make(chan struct{})
	go func() { ts.SendEvent("c1", pk); close(done) }()
	select {
	case <-done:
	case <-time.After(2 * time.Second):
		t.Fatal("second SendEvent to the failed client blocks forever: the first one returned with client.Mutex held")
	}
}
