package server

import (
	"testing"

	"Havoc/pkg/agent"
	"Havoc/pkg/db"
)

// C01/C09: removing an agent with two links completes and detaches both.
func TestC09UnlinkTwoLinks(t *testing.T) {
	d, err := db.DatabaseNew(t.TempDir() + "/ts.db")
	if err != nil {
		t.Fatal(err)
	}
	ts := &Teamserver{DB: d}
	mk := func(id string) *agent.Agent {
		a := &agent.Agent{NameID: id, Active: true, Info: new(agent.AgentInfo)}
		ts.Agents.Agents = append(ts.Agents.Agents, a)
		return a
	}
	p, c1, c2 := mk("00000001"), mk("00000002"), mk("00000003")
	p.Pivots.Links = []*agent.Agent{c1, c2}
	c1.Pivots.Parent, c2.Pivots.Parent = p, p
	defer func() {
		if r := recover(); r != nil {
			t.Fatalf("UnlinkFromAll with two links panics: %v", r)
		}
	}()
	ts.UnlinkFromAll(p)
	if len(p.Pivots.Links) != 0 {
		t.Fatalf("%d links left", len(p.Pivots.Links))
	}
}
