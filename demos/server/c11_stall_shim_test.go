package server

import "time"

// setSendTimeout lowers the write timeout when the tree under test has one.
var setSendTimeout = func(d time.Duration) {}
