package server

import (
	"database/sql"
	"testing"

	"Havoc/pkg/db"
	"Havoc/pkg/handlers"
)

// C16: a listener removal whose database delete fails must not leave a stopped listener registered.
func TestC16ListenerRemoveDbFailure(t *testing.T) {
	path := t.TempDir() + "/ts.db"
	d, err := db.DatabaseNew(path)
	if err != nil {
		t.Fatal(err)
	}
	ts := &Teamserver{DB: d}
	ext := &handlers.External{}
	ext.Config.Name = "x"
	ext.Config.Endpoint = "ep"
	ts.Listeners = []*Listener{{Name: "x", Type: handlers.LISTENER_EXTERNAL, Config: ext}}
	ts.EndpointAdd(&Endpoint{Endpoint: "ep"})
	// make the delete fail
	raw, err := sql.Open("sqlite3", path)
	if err != nil {
		t.Fatal(err)
	}
	if _, err := raw.Exec(`DROP TABLE "TS_Listeners"`); err != nil {
		t.Fatal(err)
	}
	raw.Close()
	ts.ListenerRemove("x")
	registered := len(ts.Listeners) == 1
	running := len(ts.Endpoints) == 1
	if registered != running {
		t.Fatalf("after a failed database delete the listener is registered=%v but running=%v: the running set and the advertised set differ", registered, running)
	}
}
