package server

import (
	"net/http"
	"net/http/httptest"
	"strings"
	"testing"
	"time"

	"Havoc/pkg/events"
	"Havoc/pkg/packager"
	"Havoc/pkg/profile"

	"github.com/gorilla/websocket"
)

func TestC06BroadcastToUnauthenticated(t *testing.T) {
	ts := &Teamserver{}
	srv := httptest.NewServer(http.HandlerFunc(func(w http.ResponseWriter, r *http.Request) {
		var up websocket.Upgrader
		ws, err := up.Upgrade(w, r, nil)
		if err != nil {
			return
		}
		ts.Clients.Store("c1", &Client{Connection: ws, Packager: packager.NewPackager(), Authenticated: false})
	}))
	defer srv.Close()
	conn, _, err := websocket.DefaultDialer.Dial("ws"+strings.TrimPrefix(srv.URL, "http"), nil)
	if err != nil {
		t.Fatal(err)
	}
	defer conn.Close()
	time.Sleep(100 * time.Millisecond)
	ts.EventBroadcast("", events.ChatLog.NewUserConnected("alice"))
	conn.SetReadDeadline(time.Now().Add(500 * time.Millisecond))
	_, msg, err := conn.ReadMessage()
	if err == nil {
		t.Fatalf("unauthenticated socket received a broadcast: %s", msg)
	}
}

func TestC06PreAuthPanic(t *testing.T) {
	ts := &Teamserver{Profile: &profile.Profile{}}
	ts.Profile.Config.Operators = &profile.OperatorsBlock{Users: []profile.UsersBlock{{Name: "alice", Password: "pw"}}}
	p := packager.NewPackager()
	for _, msg := range []string{
		`{"Head":{"User":"alice"}}`,
		`{"Head":{"User":"alice","Event":1},"Body":{"SubEvent":3,"Info":{}}}`,
		`{"Head":{"User":"alice","Event":1},"Body":{"SubEvent":3,"Info":{"Password":5}}}`,
		`garbage`,
	} {
		func() {
			defer func() {
				if r := recover(); r != nil {
					t.Errorf("first message %q panics: %v", msg, r)
				}
			}()
			if ts.ClientAuthenticate(p.CreatePackage(msg)) {
				t.Errorf("authenticated with %q", msg)
			}
		}()
	}
}
