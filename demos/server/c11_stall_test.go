package server

import (
	"net"
	"net/http"
	"net/http/httptest"
	"strings"
	"testing"
	"time"

	"Havoc/pkg/events"
	"Havoc/pkg/packager"

	"github.com/gorilla/websocket"
)

// C11: an operator whose connection stalls (peer stops reading) must not block later sends forever.
func TestC11StalledOperator(t *testing.T) {
	setSendTimeout(500 * time.Millisecond) // no-op before the fix (see c11_stall_shim_test.go)
	ts := &Teamserver{}
	srv := httptest.NewServer(http.HandlerFunc(func(w http.ResponseWriter, r *http.Request) {
		var up websocket.Upgrader
		ws, err := up.Upgrade(w, r, nil)
		if err != nil {
			return
		}
		ts.Clients.Store("c1", &Client{Connection: ws, Packager: packager.NewPackager(), Authenticated: true})
	}))
	defer srv.Close()
	conn, _, err := websocket.DefaultDialer.Dial("ws"+strings.TrimPrefix(srv.URL, "http"), nil)
	if err != nil {
		t.Fatal(err)
	}
	defer conn.Close()
	if tc, ok := conn.UnderlyingConn().(*net.TCPConn); ok {
		tc.SetReadBuffer(1024)
	}
	time.Sleep(100 * time.Millisecond)
	// the peer never reads; keep sending until the kernel buffers are full
	big := events.Teamserver.Logger(strings.Repeat("x", 4<<20))
	done := make(chan int)
	go func() {
		n := 0
		for i := 0; i < 64; i++ {
			if err := ts.SendEvent("c1", big); err != nil {
				break
			}
			n++
		}
		done <- n
	}()
	select {
	case <-done:
	case <-time.After(25 * time.Second):
		t.Fatal("SendEvent to an operator that stopped reading never returns: the broadcast (and the agent request behind it) is stuck")
	}
}
