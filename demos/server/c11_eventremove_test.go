package server

import (
	"testing"

	"Havoc/pkg/packager"
)

// C11: EventRemove spliced the retained list twice: the second append shifted
// the shared backing array again, overwriting the event after the removed one
// and duplicating the newest.
func TestC11EventRemoveSplicesOnce(t *testing.T) {
	ts := &Teamserver{}
	for _, n := range []string{"a", "b", "c", "d"} {
		ts.EventsList = append(ts.EventsList, packager.Package{Head: packager.Head{User: n}})
	}
	ts.EventRemove(1)
	got := ""
	for _, p := range ts.EventsList {
		got += p.Head.User
	}
	if got != "acd" {
		t.Fatalf("retained list after removing index 1 of abcd = %q, want \"acd\"", got)
	}
}
