package server

import (
	"testing"

	"Havoc/pkg/agent"
	"Havoc/pkg/db"
)

// C09: after a disconnect the child is in the parent's links exactly when the parent is its parent.
func TestC09DisconnectClearsParent(t *testing.T) {
	d, err := db.DatabaseNew(t.TempDir() + "/ts.db")
	if err != nil {
		t.Fatal(err)
	}
	ts := &Teamserver{DB: d}
	p := &agent.Agent{NameID: "00000001", Active: true, Info: new(agent.AgentInfo)}
	c := &agent.Agent{NameID: "00000002", Active: true, Info: new(agent.AgentInfo)}
	ts.Agents.Agents = []*agent.Agent{p, c}
	p.Pivots.Links = []*agent.Agent{c}
	c.Pivots.Parent = p
	ts.LinkRemove(p, c, true)
	if len(p.Pivots.Links) != 0 {
		t.Fatal("still linked")
	}
	if c.Pivots.Parent != nil {
		t.Fatalf("child %s still names %s as its parent although it is no longer among its links", c.NameID, c.Pivots.Parent.NameID)
	}
}
