package agent

import (
	"testing"

	"Havoc/pkg/common/parser"
)

// C05: the final callback of an inject-dll task must complete its request id.
func TestC05InjectDllReplay(t *testing.T) {
	ts := &mockTS{}
	a := &Agent{NameID: "0000abcd", Info: new(AgentInfo)}
	a.AddRequest(Job{Command: COMMAND_INJECT_DLL, RequestID: 7})
	a.TaskDispatch(7, COMMAND_INJECT_DLL, parser.NewParser(be32(0)), ts)
	a.TaskDispatch(7, COMMAND_INJECT_DLL, parser.NewParser(be32(0)), ts)
	if len(ts.console) != 1 {
		t.Fatalf("replayed final callback was accepted %d times", len(ts.console))
	}
}
