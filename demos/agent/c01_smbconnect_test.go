package agent

import (
	"testing"

	"Havoc/pkg/common/parser"
)

// C01: relayed SMB connect for an unknown agent whose register body is too short.
func TestC01SmbConnectShortRegister(t *testing.T) {
	ts := &mockTS{}
	a := &Agent{NameID: "0000abcd", Info: new(AgentInfo)}
	ts.agents = []*Agent{a}
	var inner []byte
	inner = append(inner, be32(40)...)               // size
	inner = append(inner, be32(DEMON_MAGIC_VALUE)...) // magic
	inner = append(inner, be32(0x1234)...)           // unknown agent id
	inner = append(inner, be32(DEMON_INIT)...)       // command
	inner = append(inner, be32(0)...)                // request id
	inner = append(inner, make([]byte, 8)...)        // < 48 bytes of key material
	var b []byte
	b = append(b, be32(DEMON_PIVOT_SMB_CONNECT)...)
	b = append(b, be32(1)...) // success
	b = append(b, beBytes(inner)...)
	noPanic(t, "SMB connect with a short register body", func() {
		a.TaskDispatch(0, COMMAND_PIVOT, parser.NewParser(b), ts)
	})
	if len(a.Pivots.Links) != 0 {
		t.Errorf("a nil agent was linked")
	}
}
