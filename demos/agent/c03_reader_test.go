package agent

import (
	"bytes"
	"testing"

	"Havoc/pkg/common/parser"
)

// C03: a length-prefixed string followed by fewer than 4 trailing bytes must still decode.
func TestC03ReaderWidth(t *testing.T) {
	for extra := 0; extra <= 9; extra++ {
		buf := append(be32(0x01020304), bytes.Repeat([]byte{0xAA}, extra)...)
		p := parser.NewParser(buf)
		if v := p.ParseInt32(); v != 0x01020304 {
			t.Errorf("ParseInt32 with %d trailing bytes = %#x, want 0x01020304", extra, v)
		}
		if p.Length() != extra {
			t.Errorf("ParseInt32 with %d trailing bytes left %d", extra, p.Length())
		}
		buf8 := append([]byte{1, 2, 3, 4, 5, 6, 7, 8}, bytes.Repeat([]byte{0xAA}, extra)...)
		p = parser.NewParser(buf8)
		if v := p.ParseInt64(); v != 0x0102030405060708 {
			t.Errorf("ParseInt64 with %d trailing bytes = %#x", extra, v)
		}
		p = parser.NewParser(append(be32(1), bytes.Repeat([]byte{0}, extra)...))
		if !p.ParseBool() {
			t.Errorf("ParseBool with %d trailing bytes = false", extra)
		}
	}
	p := parser.NewParser(beBytes([]byte("ok")))
	if s := p.ParseString(); s != "ok" {
		t.Errorf("short trailing string decoded as %q", s)
	}
}

func regBody(short int) []byte {
	var b []byte
	b = append(b, be32(0xabcd)...)            // demon id
	for i := 0; i < 5; i++ {                   // host, user, domain, ip, process
		b = append(b, beBytes(nil)...)
	}
	for i := 0; i < 5; i++ { // pid tid ppid arch elevated
		b = append(b, be32(1)...)
	}
	b = append(b, 0, 0, 0, 0, 0, 0, 0, 1) // base address
	for i := 0; i < 8; i++ {              // os version x5, os arch, sleep, jitter
		b = append(b, be32(2)...)
	}
	b = append(b, 0, 0, 0, 0, 0, 0, 0, 9) // kill date
	b = append(b, be32(7)...)             // working hours
	return b[:len(b)-short]
}

// C03: the pre-flight check of a registration succeeds exactly when all fields are there.
func TestC03RegisterGuard(t *testing.T) {
	mk := func(short int) *parser.Parser {
		return parser.NewParser(append(make([]byte, 48), regBody(short)...))
	}
	if a := ParseDemonRegisterRequest(0xabcd, mk(0), ""); a == nil || a.Info.KillDate != 9 || a.Info.WorkingHours != 7 {
		t.Fatalf("complete registration not decoded")
	}
	for short := 1; short <= 12; short++ {
		if a := ParseDemonRegisterRequest(0xabcd, mk(short), ""); a != nil {
			t.Errorf("registration truncated by %d bytes accepted (KillDate=%d WorkingHours=%d)", short, a.Info.KillDate, a.Info.WorkingHours)
		}
	}
}
