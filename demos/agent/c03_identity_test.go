package agent

import (
	"testing"

	"Havoc/pkg/common/parser"
)

// C03: a registration creates a session whose id is the sender's (header) id.
func TestC03RegisterIdentity(t *testing.T) {
	body := append(make([]byte, 48), regBody(0)...) // inner id 0xabcd
	if a := ParseDemonRegisterRequest(0, parser.NewParser(body), ""); a != nil {
		t.Fatalf("header id 0 registered a session named %s: the exists-check was made on id 0, so a live session %s can be duplicated", a.NameID, a.NameID)
	}
}
