package agent

import (
	"testing"

	"Havoc/pkg/common/parser"
	"Havoc/pkg/logr"
)

// C03: an agent's id never changes after registration.
func TestC03CheckinRename(t *testing.T) {
	logr.LogrInstance = &logr.Logr{AgentPath: t.TempDir()}
	ts := &mockTS{}
	a := &Agent{NameID: "0000aaaa", Info: new(AgentInfo)}
	other := &Agent{NameID: "0000bbbb", Info: new(AgentInfo)}
	ts.agents = []*Agent{a, other}
	a.AddRequest(Job{Command: COMMAND_CHECKIN, RequestID: 5})
	body := append(make([]byte, 48), regBody(0)...)
	// regBody carries demon id 0xabcd; make it 0xbbbb (the id of another live session)
	body[48+2], body[48+3] = 0xbb, 0xbb
	a.TaskDispatch(5, COMMAND_CHECKIN, parser.NewParser(body), ts)
	if a.NameID != "0000aaaa" {
		t.Fatalf("check-in callback renamed session 0000aaaa to %s (now shares the id of another session)", a.NameID)
	}
}
