package agent

import (
	"testing"

	"Havoc/pkg/common/parser"
)

func smbConnectReconnect(id uint32) []byte {
	var inner []byte
	inner = append(inner, be32(20)...)
	inner = append(inner, be32(DEMON_MAGIC_VALUE)...)
	inner = append(inner, be32(id)...)
	inner = append(inner, be32(DEMON_INIT)...)
	inner = append(inner, be32(0)...)
	inner = append(inner, make([]byte, 4)...)
	var b []byte
	b = append(b, be32(DEMON_PIVOT_SMB_CONNECT)...)
	b = append(b, be32(1)...)
	b = append(b, beBytes(inner)...)
	return b
}

// C09: a reconnect must move the child: the old parent's link (incl. its database row) goes away.
func TestC09ReconnectMovesLink(t *testing.T) {
	ts := &mockTS{}
	p1 := &Agent{NameID: "00000001", Info: new(AgentInfo)}
	p2 := &Agent{NameID: "00000002", Info: new(AgentInfo)}
	c := &Agent{NameID: "00000003", Info: new(AgentInfo)}
	ts.agents = []*Agent{p1, p2, c}
	c.Pivots.Parent = p1
	p1.Pivots.Links = []*Agent{c}
	p2.TaskDispatch(0, COMMAND_PIVOT, parser.NewParser(smbConnectReconnect(3)), ts)
	if c.Pivots.Parent != p2 || len(p2.Pivots.Links) != 1 || len(p1.Pivots.Links) != 0 {
		t.Fatalf("in-memory links wrong")
	}
	found := false
	for _, u := range ts.unlinks {
		if u == [2]string{"00000001", "00000003"} {
			found = true
		}
	}
	if !found {
		t.Errorf("the old link 00000001->00000003 was never removed from the persisted link table (LinkRemove not called): after a restart the child has two parents")
	}
}

// C09: no agent may become its own ancestor.
func TestC09ReconnectCycle(t *testing.T) {
	ts := &mockTS{}
	a := &Agent{NameID: "00000001", Info: new(AgentInfo)}
	b := &Agent{NameID: "00000002", Info: new(AgentInfo)}
	ts.agents = []*Agent{a, b}
	b.Pivots.Parent = a
	a.Pivots.Links = []*Agent{b}
	// b reports that its own ancestor a connected to it as a child
	b.TaskDispatch(0, COMMAND_PIVOT, parser.NewParser(smbConnectReconnect(1)), ts)
	for p, n := b, 0; p != nil; p, n = p.Pivots.Parent, n+1 {
		if n > 4 {
			t.Fatalf("cycle in the pivot graph: %s is its own ancestor", b.NameID)
		}
	}
	// the sender itself
	a.TaskDispatch(0, COMMAND_PIVOT, parser.NewParser(smbConnectReconnect(1)), ts)
	if a.Pivots.Parent == a {
		t.Fatalf("agent %s became its own parent", a.NameID)
	}
}
