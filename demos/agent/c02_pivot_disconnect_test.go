package agent

import "testing"

// C02: `pivot disconnect <agent id>` parsed the id with strconv.ParseInt(…, 16, 32): every
// agent id with the top bit set was refused ("value out of range"), and the accepted ones
// were sent as an 8-byte integer although the Demon reads the id with ParserGetInt32.
func TestC02PivotDisconnectTopBitID(t *testing.T) {
	a := &Agent{NameID: "0000beef", Info: new(AgentInfo)}
	msg := map[string]string{}
	job, err := a.TaskPrepare(COMMAND_PIVOT, map[string]interface{}{"Command": "11", "Param": "deadbeef", "TaskID": "1"}, &msg, "", &mockTS{})
	if err != nil || job == nil {
		t.Fatalf("pivot disconnect deadbeef refused: %v", err)
	}
	if v, ok := job.Data[1].(uint32); !ok || v != 0xdeadbeef {
		t.Fatalf("pivot disconnect: agent id sent as %T(%v), want uint32(0xdeadbeef) — the Demon reads ParserGetInt32", job.Data[1], job.Data[1])
	}
}
