package agent

import (
	"sync"
	"testing"
)

// C04 (known finding, run with -race): queueing and check-ins run on different goroutines
// (operator websocket / relay readers vs. the listener) and share JobQueue and Tasks without a lock.
// Without -race the symptom is probabilistic: lost or re-delivered tasks.
func TestC04QueueRace(t *testing.T) {
	a := &Agent{NameID: "0000abcd", Info: new(AgentInfo)}
	const n = 2000
	var wg sync.WaitGroup
	wg.Add(2)
	delivered := 0
	go func() { // operator goroutine
		defer wg.Done()
		for i := 0; i < n; i++ {
			a.AddJobToQueue(Job{Command: COMMAND_SLEEP, RequestID: uint32(i + 1), Data: []interface{}{1, 2}})
		}
	}()
	go func() { // listener goroutine
		defer wg.Done()
		for i := 0; i < 4*n; i++ {
			delivered += len(a.GetQueuedJobs())
		}
	}()
	wg.Wait()
	delivered += len(a.GetQueuedJobs())
	if delivered != n {
		t.Fatalf("queued %d tasks, delivered %d (lost or duplicated under concurrency)", n, delivered)
	}
}
