package agent

import (
	"testing"

	"Havoc/pkg/socks"
)

// C15: `socks clear` with two proxies on one agent.
func TestC15SocksClearTwoProxies(t *testing.T) {
	ts := &mockTS{}
	a := &Agent{NameID: "0000abcd", Info: new(AgentInfo)}
	a.SocksSvr = []*SocksServer{{Server: socks.NewSocks("127.0.0.1:0"), Addr: "1"}, {Server: socks.NewSocks("127.0.0.1:0"), Addr: "2"}}
	var msg map[string]string
	noPanic(t, "socks clear with two proxies", func() {
		a.TaskPrepare(COMMAND_SOCKET, map[string]interface{}{"Command": "socks clear", "Params": ""}, &msg, "", ts)
	})
	if len(a.SocksSvr) != 0 {
		t.Errorf("%d proxies left after clear", len(a.SocksSvr))
	}
}
