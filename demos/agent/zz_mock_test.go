package agent

import (
	"Havoc/pkg/packager"
)

// mockTS is a minimal agent.TeamServer used by the demonstration tests under
// /verif/demos (triage only; never part of a check).
type mockTS struct {
	agents   []*Agent
	console  []map[string]string
	died     []*Agent
	sendLogs bool
	links    [][2]string
	unlinks  [][2]string
}

func (m *mockTS) AgentUpdate(agent *Agent)                  {}
func (m *mockTS) Died(a *Agent)                             { m.died = append(m.died, a) }
func (m *mockTS) ParentOf(a *Agent) (int, error)            { return 0, nil }
func (m *mockTS) LinksOf(a *Agent) []int                    { return nil }
func (m *mockTS) LinkRemove(p *Agent, l *Agent, u bool) {
	// mirrors (*server.Teamserver).LinkRemove
	m.unlinks = append(m.unlinks, [2]string{p.NameID, l.NameID})
	l.Active = false
	if l.Pivots.Parent == p {
		l.Pivots.Parent = nil
	}
	if u {
		for i := range p.Pivots.Links {
			if p.Pivots.Links[i].NameID == l.NameID {
				p.Pivots.Links = append(p.Pivots.Links[:i], p.Pivots.Links[i+1:]...)
				break
			}
		}
	}
}
func (m *mockTS) LinkAdd(p *Agent, l *Agent) error          { m.links = append(m.links, [2]string{p.NameID, l.NameID}); return nil }
func (m *mockTS) AgentHasDied(a *Agent) bool                { return false }
func (m *mockTS) AgentAdd(a *Agent) []*Agent                { m.agents = append(m.agents, a); return m.agents }
func (m *mockTS) PythonModuleCallback(c, a string, i int, o map[string]string) {}
func (m *mockTS) AgentSendNotify(a *Agent)                  {}
func (m *mockTS) AgentCallbackSize(a *Agent, i int)         {}
func (m *mockTS) AgentInstance(id int) *Agent {
	for _, a := range m.agents {
		if a.NameID == hex8(id) {
			return a
		}
	}
	return nil
}
func (m *mockTS) AgentLastTimeCalled(a string, l string, s int, j int, k int64, w int32) {}
func (m *mockTS) AgentExist(id int) bool                                        { return m.AgentInstance(id) != nil }
func (m *mockTS) AgentConsole(d string, c int, o map[string]string)             { m.console = append(m.console, o) }
func (m *mockTS) EventAppend(e packager.Package) []packager.Package             { return nil }
func (m *mockTS) EventBroadcast(x string, pk packager.Package)                  {}
func (m *mockTS) EventNewDemon(a *Agent) packager.Package                       { return packager.Package{} }
func (m *mockTS) EventAgentMark(a, mk string)                                   {}
func (m *mockTS) EventListenerError(n string, e error)                          {}
func (m *mockTS) ListenerAdd(f string, t int, c any) packager.Package           { return packager.Package{} }
func (m *mockTS) ServiceAgent(mv int) ServiceAgentInterface                     { return nil }
func (m *mockTS) ServiceAgentExist(mv int) bool                                 { return false }
func (m *mockTS) GetDotNetPipeTemplate() string                                 { return "" }
func (m *mockTS) SendLogs() bool                                                { return m.sendLogs }

func hex8(id int) string {
	const d = "0123456789abcdef"
	b := make([]byte, 8)
	for i := 7; i >= 0; i-- {
		b[i] = d[id&0xf]
		id >>= 4
	}
	return string(b)
}

// be32 / be-bytes builders for Demon->teamserver packets (big endian)
func be32(v uint32) []byte { return []byte{byte(v >> 24), byte(v >> 16), byte(v >> 8), byte(v)} }
func beBytes(b []byte) []byte { return append(be32(uint32(len(b))), b...) }
