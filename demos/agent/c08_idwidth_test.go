package agent

import "testing"

// C08: a task for a pivot child whose id has the top bit set must reach the parent's queue.
func TestC08HighBitPivotID(t *testing.T) {
	parent := &Agent{NameID: "00000001", Info: new(AgentInfo)}
	parent.Encryption.AESKey = make([]byte, 32)
	parent.Encryption.AESIv = make([]byte, 16)
	child := &Agent{NameID: "80000001", Info: new(AgentInfo)}
	child.Encryption.AESKey = make([]byte, 32)
	child.Encryption.AESIv = make([]byte, 16)
	child.Pivots.Parent = parent
	parent.Pivots.Links = append(parent.Pivots.Links, child)
	child.AddJobToQueue(Job{Command: COMMAND_SLEEP, RequestID: 1, Data: []interface{}{1, 2}})
	if len(parent.JobQueue) != 1 {
		t.Fatalf("task for pivot child 80000001 was silently dropped: parent queue has %d jobs", len(parent.JobQueue))
	}
	if id := parent.JobQueue[0].Data[1].(uint32); id != 0x80000001 {
		t.Fatalf("wrong destination id %x", id)
	}
}
