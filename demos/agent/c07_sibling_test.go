package agent

import (
	"os"
	"testing"

	"Havoc/pkg/logr"
)

func TestC07Sibling(t *testing.T) {
	dir := t.TempDir()
	logr.LogrInstance = &logr.Logr{AgentPath: dir + "/agents"}
	os.MkdirAll(dir+"/agents/0000abcd", 0o755)
	a := &Agent{NameID: "0000abcd"}
	err := a.DownloadAdd(1, "..\\Download_x\\f", 0)
	if _, serr := os.Stat(dir + "/agents/0000abcd/Download_x/f"); serr == nil {
		t.Fatalf("file created in sibling directory Download_x (err=%v)", err)
	}
	if err := a.DownloadAdd(2, "C:\\Users\\x\\f.txt", 0); err != nil {
		t.Fatalf("legit nested download rejected: %v", err)
	}
	if err := a.DownloadAdd(3, "g.txt", 0); err != nil {
		t.Fatalf("legit root download rejected: %v", err)
	}
}
