package agent

import "testing"

// C02: `transfer stop|resume|remove <id>` parsed the file id with
// strconv.ParseInt(…, 16, 32): every id with the top bit set (half of the ids the
// Demon draws) was refused, and the accepted ones were sent as 8 bytes although the
// Demon reads 4.
func TestC02TransferStopTopBitID(t *testing.T) {
	a := &Agent{NameID: "0000beef", Info: new(AgentInfo)}
	msg := map[string]string{}
	for _, sub := range []string{"stop", "resume", "remove"} {
		job, err := a.TaskPrepare(COMMAND_TRANSFER, map[string]interface{}{"Command": sub, "FileID": "deadbeef", "TaskID": "1"}, &msg, "", &mockTS{})
		if err != nil || job == nil {
			t.Fatalf("transfer %s deadbeef refused: %v", sub, err)
		}
		if v, ok := job.Data[1].(uint32); !ok || v != 0xdeadbeef {
			t.Fatalf("transfer %s: file id sent as %T(%v), want uint32(0xdeadbeef) — the Demon reads ParserGetInt32", sub, job.Data[1], job.Data[1])
		}
	}
}

// C02: the offset of `config inject.spoofaddr lib!func+0x10` (and of
// implant.sleep-obf.start-addr) was sent as an 8-byte integer; the Demon reads 4.
func TestC02ConfigOffsetWidth(t *testing.T) {
	a := &Agent{NameID: "0000beef", Info: new(AgentInfo)}
	msg := map[string]string{}
	for _, key := range []string{"inject.spoofaddr", "implant.sleep-obf.start-addr"} {
		job, err := a.TaskPrepare(COMMAND_CONFIG, map[string]interface{}{"ConfigKey": key, "ConfigVal": "ntdll!RtlUserThreadStart+0x21", "TaskID": "1"}, &msg, "", &mockTS{})
		if err != nil || job == nil {
			t.Fatalf("config %s refused: %v", key, err)
		}
		if v, ok := job.Data[3].(uint32); !ok || v != 0x21 {
			t.Fatalf("config %s: offset sent as %T(%v), want uint32(0x21) — the Demon reads ParserGetInt32", key, job.Data[3], job.Data[3])
		}
	}
}
