package agent

import (
	"testing"

	"Havoc/pkg/common/parser"
)

func noPanic(t *testing.T, what string, f func()) {
	t.Helper()
	defer func() {
		if r := recover(); r != nil {
			t.Errorf("%s panics: %v", what, r)
		}
	}()
	f()
}

// C01: FS_DIR list-only callback with an empty root path and one entry.
func TestC01FsDirEmptyRoot(t *testing.T) {
	ts := &mockTS{}
	a := &Agent{NameID: "0000abcd", Info: new(AgentInfo)}
	a.AddRequest(Job{Command: COMMAND_FS, RequestID: 9})
	var b []byte
	b = append(b, be32(DEMON_COMMAND_FS_DIR)...)
	b = append(b, be32(0)...)      // explorer
	b = append(b, be32(1)...)      // list only
	b = append(b, beBytes(nil)...) // start path
	b = append(b, be32(1)...)      // success
	b = append(b, beBytes(nil)...) // root dir path (empty)
	b = append(b, be32(1)...)      // num files
	b = append(b, be32(0)...)      // num dirs
	b = append(b, beBytes([]byte{'f', 0})...)
	noPanic(t, "FS_DIR list-only with empty root path", func() {
		a.TaskDispatch(9, COMMAND_FS, parser.NewParser(b), ts)
	})
}

// C01/C16: a service-registered agent whose OS version has fewer than five parts.
func TestC01ShortOSVersion(t *testing.T) {
	noPanic(t, "RegisterInfoToInstance with OS Version 1.2", func() {
		RegisterInfoToInstance(Header{AgentID: 1}, map[string]any{"OS Version": "1.2"})
	})
}
