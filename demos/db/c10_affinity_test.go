package db

import (
	"testing"

	"Havoc/pkg/agent"
)

// C10: metadata strings must come back byte for byte after a restart.
func TestC10NumericLookingText(t *testing.T) {
	path := t.TempDir() + "/ts.db"
	d, err := DatabaseNew(path)
	if err != nil {
		t.Fatal(err)
	}
	a := &agent.Agent{NameID: "0000abcd", Active: true, Info: new(agent.AgentInfo)}
	a.Info.Hostname = "007"
	a.Info.Username = "1e3"
	a.Info.DomainName = " 12 "
	if err := d.AgentAdd(a); err != nil {
		t.Fatal(err)
	}
	d2, err := DatabaseNew(path)
	if err != nil {
		t.Fatal(err)
	}
	all := d2.AgentAll()
	if len(all) != 1 {
		t.Fatalf("restored %d agents", len(all))
	}
	if g := all[0].Info.Hostname; g != "007" {
		t.Errorf("Hostname %q restored as %q", "007", g)
	}
	if g := all[0].Info.Username; g != "1e3" {
		t.Errorf("Username %q restored as %q", "1e3", g)
	}
	if g := all[0].Info.DomainName; g != " 12 " {
		t.Errorf("DomainName %q restored as %q", " 12 ", g)
	}
}
