package builder

import (
	"encoding/binary"
	"os"
	"testing"

	"Havoc/pkg/handlers"
)

const cfgJSON = `{"Sleep":"2","Jitter":"10","Indirect Syscall":false,"Service Name":%q,
 "Injection":{"Alloc":"Win32","Execute":"Win32","Spawn64":"a","Spawn32":"b"},
 "Sleep Technique":%q,"Sleep Jmp Gadget":%q,"Stack Duplication":false,"Proxy Loading":"None (LdrLoadDll)","Amsi/Etw Patch":"None"}`

func newB(t *testing.T, svc, tech, gadget string) *Builder {
	b := NewBuilder(BuilderConfig{Compiler64: "/bin/false", Compiler86: "/bin/false", Nasm: "/bin/false"})
	b.SetSilent(true)
	b.SendConsoleMessage = func(string, string) {}
	smb := &handlers.SMB{}
	smb.Config.PipeName = "p"
	b.SetListener(handlers.LISTENER_PIVOT_SMB, smb)
	if err := b.SetConfig(sprintf(cfgJSON, svc, tech, gadget)); err != nil {
		t.Fatal(err)
	}
	return b
}

// C13: the sleep technique and the jump gadget chosen by the operator are the ones packed.
func TestC13JmpRaxTechnique(t *testing.T) {
	b := newB(t, "", "Zilean", "jmp rax")
	cfg, err := b.PatchConfig()
	if err != nil {
		t.Fatal(err)
	}
	// layout: sleep, jitter, alloc, exec (4 x int32), spawn64, spawn32 (len-prefixed), technique, bypass, ...
	off := 16
	for i := 0; i < 2; i++ {
		off += 4 + int(binary.LittleEndian.Uint32(cfg[off:]))
	}
	tech := binary.LittleEndian.Uint32(cfg[off:])
	bypass := binary.LittleEndian.Uint32(cfg[off+4:])
	if tech != SLEEPOBF_ZILEAN || bypass != SLEEPOBF_BYPASS_JMPRAX {
		t.Fatalf("operator chose Zilean + jmp rax; packed technique=%d (want %d) gadget=%d (want %d)", tech, SLEEPOBF_ZILEAN, bypass, SLEEPOBF_BYPASS_JMPRAX)
	}
}

// C13: operator-supplied build strings are data, never shell commands.
func TestC13ServiceNameShell(t *testing.T) {
	marker := t.TempDir() + "/pwned"
	b := newB(t, `x\";touch `+marker+`;\"`, "WaitForSingleObjectEx", "None")
	b.SetFormat(FILETYPE_WINDOWS_SERVICE_EXE)
	b.SetExtension(".exe")
	b.sourcePath = t.TempDir()
	b.Build()
	if _, err := os.Stat(marker); err == nil {
		t.Fatalf("the service name was executed by the shell: %s exists", marker)
	}
}
