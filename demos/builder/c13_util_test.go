package builder

import "fmt"

func sprintf(f string, a ...any) string { return fmt.Sprintf(f, a...) }
