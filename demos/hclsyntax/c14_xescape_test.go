package hclsyntax

import (
	"testing"

	hcl "Havoc/pkg/profile/yaotl"
)

// C14: a malformed \xHH escape must be reported, not silently dropped or shortened.
func TestC14HexEscape(t *testing.T) {
	for _, tc := range []struct {
		src  string
		want string // "" = must be an error
	}{
		{`"\x41"`, "A"},
		{`"\x41\x42"`, "AB"},
		{`"a\x4"`, ""},
		{`"a\xZZb"`, ""},
	} {
		expr, diags := ParseExpression([]byte(tc.src), "t.yaotl", hcl.Pos{Line: 1, Column: 1})
		var got string
		hasErr := diags.HasErrors()
		if !hasErr {
			v, d2 := expr.Value(nil)
			hasErr = d2.HasErrors()
			if !hasErr {
				got = v.AsString()
			}
		}
		switch {
		case tc.want == "" && !hasErr:
			t.Errorf("%s: malformed escape accepted without a diagnostic, value %q", tc.src, got)
		case tc.want != "" && (hasErr || got != tc.want):
			t.Errorf("%s: got %q err=%v, want %q", tc.src, got, hasErr, tc.want)
		}
	}
}
