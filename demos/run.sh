#!/bin/sh
# usage: run.sh <commit-ish> [go test -run pattern]
# Runs the demonstration tests of /verif/demos against /repo at <commit> in a
# scratch worktree (removed afterwards). Triage aid only: a demonstration fails
# on the commit before its fix and passes after it.
set -e
rev=${1:-HEAD}; pat=${2:-.}
w=$(mktemp -d /tmp/hvdemo.XXXXXX)
git -C /repo worktree add -q --detach "$w" "$rev"
trap 'git -C /repo worktree remove --force "$w"; rm -rf "$w"' EXIT
cp /verif/demos/agent/*_test.go "$w/teamserver/pkg/agent/" 2>/dev/null || true
cp /verif/demos/server/*_test.go "$w/teamserver/cmd/server/" 2>/dev/null || true
cp /verif/demos/logr/*_test.go "$w/teamserver/pkg/logr/" 2>/dev/null || true
for d in handlers service socks common db; do
  [ -d /verif/demos/$d ] && cp /verif/demos/$d/*_test.go "$w/teamserver/pkg/$d/" 2>/dev/null || true
done
# shims for demonstrations that must compile against both the original and the repaired tree
if grep -q "func peerAddress" "$w/teamserver/pkg/handlers/handlers.go"; then
  cp /verif/demos/handlers/c12_shim_fixed.txt "$w/teamserver/pkg/handlers/c12_shim_test.go"
fi
[ -d /verif/demos/builder ] && cp /verif/demos/builder/*_test.go "$w/teamserver/pkg/common/builder/" 2>/dev/null || true
[ -d /verif/demos/profile ] && cp /verif/demos/profile/*_test.go "$w/teamserver/pkg/profile/" 2>/dev/null || true
[ -d /verif/demos/hclsyntax ] && cp /verif/demos/hclsyntax/*_test.go "$w/teamserver/pkg/profile/yaotl/hclsyntax/" 2>/dev/null || true
[ -d /verif/demos/hclwrite ] && cp /verif/demos/hclwrite/*_test.go "$w/teamserver/pkg/profile/yaotl/hclwrite/" 2>/dev/null || true
cd "$w/teamserver"
export GOFLAGS=-mod=mod GOPROXY=off GOSUMDB=off GOTOOLCHAIN=local
go test -vet=off -count=1 -run "$pat" ./pkg/agent/ ./cmd/server/ ./pkg/logr/ ./pkg/handlers/ ./pkg/service/ ./pkg/socks/ ./pkg/common/ ./pkg/common/builder/ ./pkg/profile/ ./pkg/profile/yaotl/hclsyntax/ ./pkg/profile/yaotl/hclwrite/ ./pkg/db/ 2>&1 | grep -v "no test files" | tail -40
