package hclwrite

import (
	"testing"

	"Havoc/pkg/profile/yaotl"
)

// C20: tokens between a block's type and its first label (an inline comment)
// were partitioned off by parseBlockLabels and then dropped by parseBlock:
// loading and serialising the file lost them.
func TestC20CommentBeforeFirstLabelSurvives(t *testing.T) {
	src := "listener /* primary */ \"http\" {\n  port = 443\n}\n"
	f, diags := ParseConfig([]byte(src), "x.hcl", hcl.Pos{Line: 1, Column: 1})
	if diags.HasErrors() {
		t.Fatalf("valid input rejected: %s", diags)
	}
	if got := string(f.Bytes()); got != src {
		t.Fatalf("round trip changed the file:\n in: %q\nout: %q", src, got)
	}
}
