package profile

import (
	"os"
	"testing"
)

// C14: a profile that leaves out the Demon / Operators / Teamserver blocks must not crash its consumers.
func TestC14MissingBlocks(t *testing.T) {
	path := t.TempDir() + "/p.yaotl"
	os.WriteFile(path, []byte("Listeners {\n}\n"), 0o644)
	p := NewProfile()
	if err := p.SetProfile(path, true); err != nil {
		t.Skipf("profile rejected (fine): %v", err)
	}
	defer func() {
		if r := recover(); r != nil {
			t.Fatalf("profile without Operators/Demon blocks was accepted but using it panics: %v", r)
		}
	}()
	_ = p.ListOfUsernames()
	_ = p.Config.Demon.TrustXForwardedFor
	_ = p.Config.Server.Build
}
