package socks

import (
	"net"
	"testing"
	"time"
)

func withTimeout(t *testing.T, what string, f func()) {
	t.Helper()
	done := make(chan struct{})
	go func() { f(); close(done) }()
	select {
	case <-done:
	case <-time.After(2 * time.Second):
		t.Fatalf("%s: timed out", what)
	}
}

// C15: a SOCKS request split across TCP segments must still parse.
func TestC15RequestSplitAcrossSegments(t *testing.T) {
	c, s := net.Pipe()
	defer c.Close()
	defer s.Close()
	go func() {
		c.Write([]byte{5, 1, 0, 1, 10, 0}) // VER CMD RSV ATYP + first two address bytes
		time.Sleep(50 * time.Millisecond)
		c.Write([]byte{0, 7, 0x1f, 0x90}) // rest of the address, port 8080
	}()
	withTimeout(t, "ReadSocksHeader", func() {
		h, err := ReadSocksHeader(s)
		if err != nil {
			t.Errorf("request split across two segments rejected: %v", err)
			return
		}
		if h.Port != 8080 || len(h.IpDomain) != 4 || h.IpDomain[3] != 7 {
			t.Errorf("parsed %+v", h)
		}
	})
}

// C15: greeting and request sent back to back (pipelined) — the request bytes must not be swallowed.
func TestC15PipelinedGreetingAndRequest(t *testing.T) {
	c, s := net.Pipe()
	defer c.Close()
	defer s.Close()
	go func() {
		c.Write([]byte{5, 1, 0 /* greeting */, 5, 1, 0, 1, 10, 0, 0, 7, 0x1f, 0x90 /* request */})
	}()
	withTimeout(t, "negotiation + request", func() {
		if _, err := SubNegotiationClient(s); err != nil {
			t.Errorf("greeting: %v", err)
			return
		}
		h, err := ReadSocksHeader(s)
		if err != nil {
			t.Errorf("request after a pipelined greeting: %v", err)
			return
		}
		if h.Port != 8080 {
			t.Errorf("parsed %+v", h)
		}
	})
}
