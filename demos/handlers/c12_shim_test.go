package handlers

import "strings"

// Shims so that the demonstrations compile against both the original tree and the repaired one.
// registerDecoy mirrors what Start registers besides POST/GET; peerIP mirrors how request() derives the peer address.
var registerDecoy = func(h *HTTP) {}

var peerIP = func(remoteAddr string) string { return strings.Split(remoteAddr, ":")[0] }
