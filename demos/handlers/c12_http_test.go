package handlers

import (
	"net/http"
	"os"
	"net/http/httptest"
	"strings"
	"testing"

	"github.com/gin-gonic/gin"
)

func newTestHTTP() *HTTP {
	gin.SetMode(gin.ReleaseMode)
	h := NewConfigHttp()
	h.Config.Name = "t"
	h.routes()
	return h
}

// routes registers the listener's routes the way Start does (without binding a socket).
func (h *HTTP) routes() {
	h.GinEngine.POST("/*endpoint", h.request)
	h.GinEngine.GET("/*endpoint", h.fake404)
	registerDecoy(h)
}

// C12: configured response headers are sent with their full values.
func TestC12ResponseHeaderFullValue(t *testing.T) {
	h := newTestHTTP()
	h.Config.Response.Headers = []string{"Location: http://example.com/a:b", "X-Test:v"}
	rec := httptest.NewRecorder()
	req := httptest.NewRequest("POST", "/", strings.NewReader("xx"))
	h.GinEngine.ServeHTTP(rec, req)
	if got := rec.Header().Get("Location"); got != "http://example.com/a:b" {
		t.Errorf("Location header sent as %q, configured %q", got, "http://example.com/a:b")
	}
	if got := rec.Header().Get("X-Test"); got != "v" {
		t.Errorf("X-Test header sent as %q", got)
	}
}

// C12: a configured request header whose value contains ": " must be compared in full.
func TestC12RequestHeaderFullValue(t *testing.T) {
	h := newTestHTTP()
	h.Config.Headers = []string{"X-Key: a: b"}
	h.Config.Response.Headers = []string{"X-Admitted: yes"}
	for _, tc := range []struct {
		val   string
		admit bool
	}{{"a: b", true}, {"a", false}, {"a: c", false}} {
		rec := httptest.NewRecorder()
		req := httptest.NewRequest("POST", "/", strings.NewReader("xx"))
		req.Header.Set("X-Key", tc.val)
		h.GinEngine.ServeHTTP(rec, req)
		admitted := rec.Header().Get("X-Admitted") == "yes"
		if admitted != tc.admit {
			t.Errorf("request with X-Key=%q admitted=%v, want %v", tc.val, admitted, tc.admit)
		}
	}
}

// C12: every non-POST request gets the decoy, not the framework's default 404.
func TestC12OtherMethodsDecoy(t *testing.T) {
	// fake404 reads teamserver/pkg/handlers/404.html relative to the repository root
	wd, _ := os.Getwd()
	os.Chdir("../../..")
	defer os.Chdir(wd)
	h := newTestHTTP()
	for _, m := range []string{"GET", "PUT", "DELETE", "OPTIONS", "PATCH", "HEAD"} {
		rec := httptest.NewRecorder()
		h.GinEngine.ServeHTTP(rec, httptest.NewRequest(m, "/x", nil))
		if rec.Code != http.StatusNotFound || strings.Contains(rec.Body.String(), "404 page not found") {
			t.Errorf("%s answered with code %d body %q (framework default, not the decoy)", m, rec.Code, rec.Body.String())
		}
	}
}

// C12: the recorded sender address of an IPv6 peer.
func TestC12PeerAddressIPv6(t *testing.T) {
	if got := peerIP("[2001:db8::1]:4444"); got != "2001:db8::1" {
		t.Errorf("peer address of [2001:db8::1]:4444 recorded as %q", got)
	}
	if got := peerIP("10.0.0.5:4444"); got != "10.0.0.5" {
		t.Errorf("peer address of 10.0.0.5:4444 recorded as %q", got)
	}
}
