package common

import "testing"

// C01: an odd-length UTF-16 field must not crash the handler.
func TestC01DecodeUTF16Odd(t *testing.T) {
	for _, b := range [][]byte{{}, {0x41}, {0x41, 0, 0x42}, {0x41, 0, 0x42, 0}} {
		func() {
			defer func() {
				if r := recover(); r != nil {
					t.Errorf("DecodeUTF16(% x) panics: %v", b, r)
				}
			}()
			DecodeUTF16(b)
		}()
	}
	if s := DecodeUTF16([]byte{0x41, 0, 0x42, 0}); s != "AB" {
		t.Errorf("got %q", s)
	}
}
