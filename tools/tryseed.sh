#!/bin/sh
# usage: tryseed.sh <seed out dir (with patch.diff, demo_test.go, meta.json)> <property> [more properties...]
# 1) confirms the demonstration: fails with the patch, passes without (scratch worktree, removed afterwards)
# 2) applies the patch to /repo, runs the quick checks of the given properties, reverts /repo
set -u
d=$1; shift
export GOFLAGS=-mod=mod GOPROXY=off GOSUMDB=off GOTOOLCHAIN=local
pkgdir=$(grep -o 'teamserver/[a-zA-Z0-9_/]*' "$d/demo_test.go" | head -1)
pat="^($(grep -o '^func Test[A-Za-z0-9_]*' "$d/demo_test.go" | sed 's/^func //' | paste -sd'|'))\$"
w=$(mktemp -d /tmp/hvseed.XXXXXX)
git -C /repo worktree add -q --detach "$w" HEAD
cp "$d/demo_test.go" "$w/$pkgdir/zz_seed_demo_test.go"
( cd "$w/$pkgdir" && go test -vet=off -count=1 -run "$pat" . >/tmp/seed_clean.txt 2>&1 ); clean=$?
( cd "$w" && git apply "$d/patch.diff" ) || echo "PATCH DOES NOT APPLY"
( cd "$w/teamserver" && go build ./... ) || echo "PATCHED TREE DOES NOT BUILD"
( cd "$w/$pkgdir" && go test -vet=off -count=1 -run "$pat" . >/tmp/seed_patched.txt 2>&1 ); patched=$?
git -C /repo worktree remove --force "$w"; rm -rf "$w"
echo "demo: clean exit=$clean patched exit=$patched (want 0 / non-zero)"
git -C /repo apply "$d/patch.diff" || { echo "cannot apply to /repo"; exit 2; }
for p in "$@"; do
  out=$(/verif/bin/hv check --property $p --no-evidence 2>&1); code=$?
  echo "check $p exit=$code"
  echo "$out" | grep "rule=" | cut -c1-260 | head -5
done
git -C /repo checkout -- .
