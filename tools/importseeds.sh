#!/bin/sh
# usage: importseeds.sh <property> <dir with out/1..3> : copies a sub-agent's three changes to /verif/seeded/<property>-<n> (next free numbers),
# confirms each demonstration and records the outcome of the property's check (tools/seedmeta.py)
p=$1; src=$2
n=$(ls -d /verif/seeded/$p-* 2>/dev/null | sed "s/.*-//" | sort -n | tail -1); n=${n:-0}
for i in 1 2 3; do
  [ -f "$src/out/$i/patch.diff" ] || continue
  n=$((n+1)); d=/verif/seeded/$p-$n
  mkdir -p $d && cp $src/out/$i/patch.diff $src/out/$i/demo_test.go $src/out/$i/meta.json $d/
  python3 /verif/tools/seedmeta.py $p-$n $p
done
