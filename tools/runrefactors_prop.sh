#!/bin/sh
# usage: runrefactors_prop.sh <property>...   — like runrefactors_mem.sh, for the given properties only
tmp=$(mktemp -d /tmp/hvrefac.XXXXXX)
for d in /verif/refactors/*/; do
  id=$(basename $d)
  [ -f "$d/patch.diff" ] || continue
  for p in "$@"; do
    printf '{"patch":"refactors/%s/patch.diff","property":"%s","rule":"","expect":"silent"}' "$id" "$p" > $tmp/$id.$p.json
  done
done
ls $tmp/*.json | xargs -P 12 -I{} sh -c 'f={}; b=$(basename $f .json); p=${b##*.}; out=$(timeout 300 /verif/bin/hv check --property $p --mutant $f --no-evidence 2>&1); c=$?; [ $c -ne 0 ] && echo "ALARM $b exit=$c $(echo "$out" | grep "rule=\|BROKEN" | head -2 | cut -c1-200)"'
n=$(ls $tmp/*.json | wc -l)
rm -rf $tmp
echo "pairs replayed: $n"
