#!/usr/bin/env python3
# usage: seedmeta.py <seed-id> <prop>   (runs tryseed.sh and records the outcome in meta.json)
import json,subprocess,sys,re
sid,prop=sys.argv[1],sys.argv[2]
d=f"/verif/seeded/{sid}"
out=subprocess.run(["/verif/tools/tryseed.sh",d,prop],capture_output=True,text=True).stdout
m=json.load(open(d+"/meta.json"))
demo=[l for l in out.splitlines() if l.startswith("demo:")]
chk=[l for l in out.splitlines() if l.startswith("check ")]
rules=sorted(set(re.findall(r"rule=([A-Za-z0-9-]+)",out)))
m["breaks_property"]=prop
m["origin"]="written by an independent sub-agent that saw only the property text and a scratch worktree"
m["confirmed"]=demo[0] if demo else "?"
m["ran"]=f"/verif/tools/tryseed.sh {d} {prop}  (demo in a scratch worktree with and without the patch; then git -C /repo apply, hv check --property {prop}, git checkout)"
m["check_result"]=chk[0] if chk else "?"
m["detected_by"]=rules
if len(sys.argv)>3: m["note"]=sys.argv[3]
json.dump(m,open(d+"/meta.json","w"),indent=1)
print(sid,m["confirmed"],m["check_result"],rules)
