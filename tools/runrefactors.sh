#!/bin/sh
# replays every behaviour-preserving refactoring under /verif/refactors against all claimed checks;
# prints one line per refactoring; any alarm is a false alarm of the machinery.
n=0; bad=0
for d in /verif/refactors/*/; do
  d=${d%/}
  [ -f "$d/patch.diff" ] || continue
  n=$((n+1))
  out=$(/verif/tools/tryrefac.sh "$d" 2>&1 | tail -1)
  case "$out" in silent) ;; *) bad=$((bad+1)); echo "$(basename $d): $out";; esac
done
echo "refactorings: $n, with alarms: $bad"
