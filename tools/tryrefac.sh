#!/bin/sh
# usage: tryrefac.sh <dir with patch.diff, meta.json>
# applies a behaviour-preserving refactoring to /repo, runs every claimed check (quick), reverts /repo.
# Any exit != 0 is an alarm on code whose behaviour is unchanged.
d=$1
export GOFLAGS=-mod=mod GOPROXY=off GOSUMDB=off GOTOOLCHAIN=local
git -C /repo apply "$d/patch.diff" || { echo "cannot apply"; exit 2; }
( cd /repo/teamserver && go build ./... ) || { echo "DOES NOT BUILD"; git -C /repo checkout -- .; exit 2; }
alarms=""
for p in $(python3 -c "import json;print(' '.join(c['property_id'] for c in json.load(open('/verif/MANIFEST.json'))['checks']))"); do
  out=$(/verif/bin/hv check --property $p --no-evidence 2>&1); code=$?
  if [ $code -ne 0 ]; then alarms="$alarms $p"; echo "ALARM $p exit=$code"; echo "$out" | grep "rule=\|BROKEN" | cut -c1-300 | head -4; fi
done
git -C /repo checkout -- .
[ -z "$alarms" ] && echo "silent" || echo "alarms:$alarms"
