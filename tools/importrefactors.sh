#!/bin/sh
# usage: importrefactors.sh <tag> : copies /tmp/refac_<tag>/out/<i> to /verif/refactors/<tag>-<i>, replays each against all checks
# and records the first outcome in its meta.json ("silent" or "alarms: …")
t=$1
for i in 1 2 3 4 5; do
  s=/tmp/refac_$t/out/$i
  [ -f "$s/patch.diff" ] || continue
  d=/verif/refactors/$t-$i
  mkdir -p $d && cp $s/patch.diff $s/meta.json $d/
  out=$(/verif/tools/tryrefac.sh $d 2>&1)
  res=$(echo "$out" | tail -1)
  python3 - "$d" "$res" <<'PY'
import json,sys
p=sys.argv[1]+'/meta.json'; m=json.load(open(p)); m['result']=sys.argv[2]; json.dump(m,open(p,'w'),indent=1)
PY
  echo "$t-$i: $res"
  echo "$out" | grep "rule=" | cut -c1-260
done
