#!/bin/sh
# re-applies every seeded change and runs its property's check; compares with the outcome recorded in meta.json
n=0; chg=0
for d in /verif/seeded/*/; do
  d=${d%/}; id=$(basename $d); p=${id%%-*}
  [ -f "$d/patch.diff" ] || continue
  exp=$(python3 -c "import json;m=json.load(open('$d/meta.json'));print('obsolete' if m.get('status')=='obsolete' else ('1' if 'exit=1' in m.get('check_result','') else '0'))")
  [ "$exp" = "obsolete" ] && continue
  git -C /repo apply "$d/patch.diff" 2>/dev/null || { echo "$id: patch no longer applies"; chg=$((chg+1)); continue; }
  /verif/bin/hv check --property $p --no-evidence >/dev/null 2>&1; code=$?
  git -C /repo checkout -- .
  n=$((n+1))
  if [ "$code" != "$exp" ]; then chg=$((chg+1)); echo "$id: recorded exit=$exp, now exit=$code"; fi
done
echo "seeds replayed: $n, outcome changed: $chg"
