#!/usr/bin/env python3
"""Registers every confirmed seeded change that its property's check reports, and every refactoring that once raised a
false alarm, as patch mutants (applied in memory by `hv check --mutant`): mutants/<prop>/seed_<id>.json expects the
recorded rule to fire, mutants/<prop>/refactor_<id>.json expects silence. Re-run after importing seeds/refactorings."""
import json, glob, os, re
V = "/verif"
n = 0
for f in glob.glob(f"{V}/mutants/*/seed_*.json") + glob.glob(f"{V}/mutants/*/refactor_*.json"):
    os.remove(f)
for p in sorted(glob.glob(f"{V}/seeded/*/meta.json")):
    m = json.load(open(p)); sid = os.path.basename(os.path.dirname(p))
    if m.get("status") == "obsolete" or "exit=1" not in m.get("check_result", "") or not m.get("detected_by"):
        continue
    prop = m.get("breaks_property") or sid.split("-")[0]
    os.makedirs(f"{V}/mutants/{prop}", exist_ok=True)
    json.dump({"patch": f"seeded/{sid}/patch.diff", "property": prop, "rule": "|".join(m["detected_by"]), "expect": "violation",
               "note": "seeded change " + sid + ": " + m.get("summary", "")[:200]},
              open(f"{V}/mutants/{prop}/seed_{sid}.json", "w"), indent=1)
    n += 1
r = 0
for p in sorted(glob.glob(f"{V}/refactors/*/meta.json")):
    m = json.load(open(p)); rid = os.path.basename(os.path.dirname(p))
    props = sorted(set(re.findall(r"\bC\d\d\b", m.get("result", "")) + m.get("properties", [])))
    for prop in props:
        os.makedirs(f"{V}/mutants/{prop}", exist_ok=True)
        json.dump({"patch": f"refactors/{rid}/patch.diff", "property": prop, "rule": "", "expect": "silent",
                   "note": "behaviour-preserving refactoring " + rid + ": " + m.get("summary", "")[:200]},
                  open(f"{V}/mutants/{prop}/refactor_{rid}.json", "w"), indent=1)
        r += 1
print("seed mutants:", n, "refactor mutants:", r)
