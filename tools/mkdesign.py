#!/usr/bin/env python3
"""Assembles /verif/DESIGN.md from the hand-written parts in /verif/design and from the
machinery's own data (MANIFEST.json, evidence/*.json of the last run, known_findings.json,
seeded/*/meta.json, mutants/). Run after tools/mkmanifest.py and tools/runall.sh."""
import json, glob, os, re, collections

V = "/verif"
def rd(p): return open(os.path.join(V, p)).read()

man = json.load(open(f"{V}/MANIFEST.json"))
props = {}
for l in open(f"{V}/properties.jsonl"):
    d = json.loads(l); props[d["id"]] = d
checks = {c["property_id"]: c for c in man["checks"]}
na = {x["property_id"]: x["reason"] for x in man["not_applicable"]}
kf = json.load(open(f"{V}/known_findings.json"))
seeds = []
for p in sorted(glob.glob(f"{V}/seeded/*/meta.json")):
    m = json.load(open(p)); m["id"] = os.path.basename(os.path.dirname(p)); seeds.append(m)
mutants = collections.Counter(); silent = collections.Counter()
for p in glob.glob(f"{V}/mutants/*/*.json"):
    m = json.load(open(p)); mutants[m["property"]] += 1
    if m.get("expect") == "silent": silent[m["property"]] += 1

# rule catalogue from the evidence of the last run
rules = {}   # name -> {decides, uses: {prop: (instances, floor)}}
ev = {}
for pid in checks:
    f = f"{V}/evidence/{pid}.json"
    if not os.path.exists(f): continue
    e = json.load(open(f)); ev[pid] = e
    for name, r in (e["coverage"].get("rules") or {}).items():
        rr = rules.setdefault(name, {"decides": r.get("decides", ""), "uses": {}})
        rr["uses"][pid] = (r.get("instances"), r.get("floor"))

out = []
out.append(rd("design/head.md"))
out.append(rd("design/codebase.md"))
out.append(rd("design/machinery.md").replace("{MUTANTS}", f"{sum(mutants.values())} ({sum(silent.values())} of them behaviour-preserving)"))

out.append("## 3. Rule catalogue (as built; text and counts are those of the last run's evidence files)\n")
out.append("Each rule is implemented in `checker/internal/rules/`; `instances/floor` is the number of obligations the rule produced on the current tree and the floor below which the check fails as vacuous.\n")
def rkey(n):
    m = re.match(r"R(\d+)", n); return (int(m.group(1)) if m else 99, n)
for name in sorted(rules, key=rkey):
    r = rules[name]
    uses = ", ".join(f"{p} ({i}/{fl})" for p, (i, fl) in sorted(r["uses"].items()))
    out.append(f"* **{name}** — {r['decides']}  \n  used by: {uses}\n")

out.append("\n## 4. Properties\n")
out.append("For each property: the method, what is decided and what is not (the text of the MANIFEST claim), the rules with today's instance counts, the findings on the pinned tree, and the independent seeded changes with the rule that caught them.\n")
for pid in sorted(props):
    p = props[pid]
    out.append(f"### {pid} — {p['title']}\n")
    if pid in na:
        out.append(f"Not applicable: see section 5.\n"); continue
    c = checks[pid]
    out.append(f"*Method.* {c['technique']}\n")
    out.append(f"*Claim (level `other`).* {c['level_claimed']['text']}\n")
    e = ev.get(pid)
    if e:
        cov = e["coverage"]
        rl = ", ".join(f"{n} {r.get('instances')}" for n, r in sorted((cov.get("rules") or {}).items(), key=lambda x: rkey(x[0])))
        out.append(f"*Last run.* {cov.get('obligations')} obligations ({cov.get('distinct_nontrivial')} non-trivial), {cov.get('discharged')} discharged, {cov.get('known_findings')} known, {cov.get('violated')} violated, {cov.get('functions_analysed')} functions. Rules: {rl}.\n")
    fx = [k for k in kf if k["property"] == pid and k["status"] == "fixed"]
    kn = [k for k in kf if k["property"] == pid and k["status"] == "known"]
    if fx:
        out.append(f"*Repaired in /repo ({len(fx)}).* " + " ".join(f"`{k.get('commit','?')}` ({k['rule']})" for k in fx) + " — see section 6.\n")
    if kn:
        out.append("*Known findings.* " + " ".join(f"{k['rule']}: {k['what'][:160]}…" for k in kn) + "\n")
    ss = [s for s in seeds if s.get("breaks_property") == pid or s["id"].startswith(pid)]
    if ss:
        det = sum(1 for s in ss if s.get("detected_by") and s.get("status") != "obsolete" and "exit=1" in s.get("check_result", ""))
        out.append(f"*Seeded changes.* {len(ss)} ({det} detected); mutants in the corpus: {mutants[pid]} ({silent[pid]} behaviour-preserving). See section 7.\n")
    else:
        out.append(f"*Seeded changes.* none yet; mutants in the corpus: {mutants[pid]} ({silent[pid]} behaviour-preserving).\n")

tail = rd("design/tail.md")
# findings
fl = []
fixed = [k for k in kf if k["status"] == "fixed"]
known = [k for k in kf if k["status"] == "known"]
fl.append(f"### Repaired ({len(fixed)} entries, each a `fix:` commit in /repo)\n")
for k in sorted(fixed, key=lambda k: k["property"]):
    what = re.sub(r"^fixed: property=\S+ \S+ ", "", k["what"])
    fl.append(f"* **{k['property']}** `{k.get('commit','?')}` ({k['rule']}) — {what}  \n  failing input: {k.get('input','—')}")
fl.append(f"\n### Known, not repaired ({len(known)})\n")
for k in known:
    fl.append(f"* **{k['property']}** ({k['rule']}, key `{k['key']}`) — {k['what']}  \n  failing input: {k.get('input','—')}")
tail = tail.replace("{FINDINGS}", "\n".join(fl))
# seeds
live = [s for s in seeds if s.get("status") != "obsolete"]
det = [s for s in live if "exit=1" in s.get("check_result", "")]
missed_first = [s for s in det if "missed at first" in s.get("note", "") or "first reported only" in s.get("note", "")]
intro = (f"{len(seeds)} changes were written by independent sub-agents in four rounds (one agent per property and round, three changes each; round 2 was told what round 1 had tried, round 3 was asked for mistakes that look like ordinary maintenance — section 7c — and round 4 to plant them in supporting code beyond the anchors — section 7d). Each agent saw only the property text and a scratch worktree. "
         f"Every one was confirmed before it was kept: its demonstration passes on the clean tree and fails with the patch. "
         f"{len(det)} of the {len(live)} live ones are reported by the property's check; {len(missed_first)} of those were missed at first and led to a new or stronger rule (noted per row); "
         f"{len(live)-len(det)} are not detected and the row says why; {len(seeds)-len(live)} became obsolete when the defect it relied on was repaired. "
         "`tools/tryseed.sh <dir> <property>` reproduces a row: demonstration with and without the patch in a scratch worktree, then `git -C /repo apply`, the check, `git -C /repo checkout -- .`.")
rows = ["| seed | what was changed | check | caught by | note |", "|---|---|---|---|---|"]
for s in seeds:
    res = "obsolete" if s.get("status") == "obsolete" else ("**reported**" if "exit=1" in s.get("check_result", "") else "not detected")
    rows.append(f"| {s['id']} | {s.get('summary','').replace('|','/')[:260]} | {res} | {', '.join(s.get('detected_by') or []) or '—'} | {s.get('note','').replace('|','/')[:300]} |")
tail = tail.replace("{SEEDS_INTRO}", intro).replace("{SEEDS}", "\n".join(rows))
rrows = ["| refactoring | what was rewritten | all checks |", "|---|---|---|"]
for p in sorted(glob.glob(f"{V}/refactors/*/meta.json")):
    m = json.load(open(p)); rid = os.path.basename(os.path.dirname(p))
    rrows.append(f"| {rid} | {m.get('summary','').replace('|','/')[:230]} | {m.get('result','silent')} |")
tail = tail.replace("{REFACTORS}", "\n".join(rrows))
out.append(tail)
out.append(rd("design/appendix_a.md"))
open(f"{V}/DESIGN.md", "w").write("\n".join(out))
print("DESIGN.md:", sum(len(x.splitlines()) for x in out), "lines;", len(rules), "rules;", len(seeds), "seeds;", len(fixed), "fixed;", len(known), "known")
