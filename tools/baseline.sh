#!/bin/sh
# Runs the pinned test suite on /repo's working tree and compares with the stable_pass list of /root/.vp/BASELINE.json.
export GOFLAGS=-mod=mod GOPROXY=off GOSUMDB=off GOTOOLCHAIN=local
cd /repo/teamserver && go test -json -vet=off -count=1 -timeout 25m ./... 2>/dev/null > /tmp/baseline.gotest.json
python3 - <<'PY'
import json
want=set(json.load(open('/root/.vp/BASELINE.json'))['stable_pass'])
got=set()
for l in open('/tmp/baseline.gotest.json'):
    try: e=json.loads(l)
    except: continue
    if e.get('Action')=='pass' and e.get('Test'):
        got.add(e['Package']+'::'+e['Test'])
missing=sorted(want-got)
print(f"stable_pass={len(want)} passing_now={len(want&got)} missing={len(missing)}")
for m in missing[:20]: print("  MISSING", m)
PY
rm -f /tmp/baseline.gotest.json
