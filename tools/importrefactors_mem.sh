#!/bin/sh
# usage: importrefactors_mem.sh <tag>... : copies /tmp/refac_<tag>/out/<i> to /verif/refactors/<tag>-<i> and replays each
# against all claimed checks in memory (overlay; /repo untouched, 8 at a time); records the outcome in meta.json
props=$(python3 -c "import json;print(' '.join(c['property_id'] for c in json.load(open('/verif/MANIFEST.json'))['checks']))")
tmp=$(mktemp -d /tmp/hvimp.XXXXXX)
for t in "$@"; do
  for i in 1 2 3 4 5; do
    s=/tmp/refac_$t/out/$i
    [ -f "$s/patch.diff" ] || continue
    d=/verif/refactors/$t-$i
    mkdir -p $d && cp $s/patch.diff $s/meta.json $d/
    for p in $props; do
      printf '{"patch":"refactors/%s/patch.diff","property":"%s","rule":"","expect":"silent"}' "$t-$i" "$p" > $tmp/$t-$i.$p.json
    done
  done
done
ls $tmp/*.json | xargs -P 8 -I{} sh -c 'f={}; b=$(basename $f .json); p=${b##*.}; id=${b%.*}; out=$(timeout 300 /verif/bin/hv check --property $p --mutant $f --no-evidence 2>&1); c=$?; [ $c -ne 0 ] && { echo "ALARM $id $p"; echo "$out" | grep "rule=\|BROKEN" | head -3 | cut -c1-260; }' > $tmp/alarms.txt
cat $tmp/alarms.txt
python3 - "$tmp/alarms.txt" "$@" <<'PY'
import json,sys,glob,collections
al=collections.defaultdict(list)
for l in open(sys.argv[1]):
    if l.startswith("ALARM "):
        _,rid,p=l.split(); al[rid].append(p)
for t in sys.argv[2:]:
    for mp in sorted(glob.glob(f'/verif/refactors/{t}-*/meta.json')):
        rid=mp.split('/')[3]; m=json.load(open(mp))
        m['result']='silent' if rid not in al else 'alarms: '+' '.join(sorted(al[rid]))
        json.dump(m,open(mp,'w'),indent=1); print(rid,m['result'])
PY
rm -rf $tmp
