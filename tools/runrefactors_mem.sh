#!/bin/sh
# replays every behaviour-preserving refactoring against every claimed check IN MEMORY (go/packages overlay,
# /repo is not touched), 12 checks at a time; prints the (refactoring, property) pairs that raise an alarm.
tmp=$(mktemp -d /tmp/hvrefac.XXXXXX)
props=$(python3 -c "import json;print(' '.join(c['property_id'] for c in json.load(open('/verif/MANIFEST.json'))['checks']))")
for d in /verif/refactors/*/; do
  id=$(basename $d)
  [ -f "$d/patch.diff" ] || continue
  for p in $props; do
    printf '{"patch":"refactors/%s/patch.diff","property":"%s","rule":"","expect":"silent"}' "$id" "$p" > $tmp/$id.$p.json
  done
done
ls $tmp/*.json | xargs -P 12 -I{} sh -c 'f={}; b=$(basename $f .json); p=${b##*.}; out=$(timeout 300 /verif/bin/hv check --property $p --mutant $f --no-evidence 2>&1); c=$?; [ $c -ne 0 ] && echo "ALARM $b exit=$c $(echo "$out" | grep "rule=\|BROKEN" | head -2 | cut -c1-200)"' 
n=$(ls $tmp/*.json | wc -l)
rm -rf $tmp
echo "pairs replayed: $n"
