#!/usr/bin/env python3
"""Generates /verif/MANIFEST.json from the claim table below (kept next to the code so that the
manifest, DESIGN.md and the checker's property registry stay in step)."""
import json, sys

CLAIMS = {}
NA = {}

def claim(pid, technique, text, note, design_ref):
    CLAIMS[pid] = dict(technique=technique, text=text, note=note, design_ref=design_ref)

def na(pid, reason):
    NA[pid] = reason

TRUST = ("Go type checker and x/tools v0.29.0 SSA/CFG construction; stdlib and third-party packages behave as documented; "
         "CHA over-approximates calls; tables under /verif/tables encode knowledge obtained by reading (each entry carries its reason). "
         "Decides necessary structural conditions only — a tree can satisfy every rule and still mis-handle a value.")

claim("C05", "static analysis: SSA dominance of the IsKnownRequestID gate over TaskDispatch, enumerated accept paths, must-call of AddRequest, path classification of RequestCompleted per callback arm against a reviewed table",
      "Decides, on every run from /repo's source: the request-id gate dominates every block of TaskDispatch and is evaluated on the dispatch's own (agent, request id, command id); IsKnownRequestID returns true only on the three enumerated accept paths; AddJobToQueue always records the job; RequestCompleted removes only a matching id; each callback arm classified final in tables/completion.json completes the dispatch's own request id on every path that passes its CanIRead guards. Not decided: histories across agents, the semantic choice of which callbacks are final beyond the reviewed table.",
      TRUST, "DESIGN.md §3 R6, §4 C05")
claim("C06", "static analysis: SSA dominance / cut-set rules over handleRequest, ClientAuthenticate, Clients.Range fan-outs and the service handshake; comma-ok discipline for type assertions in pre-authentication code",
      "Decides: client.Authenticated is set only on the true edge of ClientAuthenticate; dispatch, replay and broadcast calls are dominated by it; the pre-auth region calls only the reply/close allow-list and sends only the three error/ack events; ClientAuthenticate accepts only through the comparison of Info[Password] with hex(sha3(profile password)) of the user found by name; every fan-out send is control-dependent on the Authenticated flag (or on Username, assigned only after authentication); service routine/dispatch/registration are dominated by authenticate()==true which accepts only under the digest comparison; no unchecked type assertion on first-message data. Not decided: timing windows as schedules, gorilla/websocket internals.",
      TRUST, "DESIGN.md §3 R10, §4 C06")
claim("C07", "static analysis: def-use + cut-set check that every file-creating call reachable (CHA) from agent/service traffic takes a path vouched for by a separator-safe clean-then-prefix test; control dependence of file-handle writes on the file-id equality",
      "Decides: every os.Create/OpenFile(write)/WriteFile/Mkdir(All)/Rename reachable from the listener handlers or the service dispatcher takes a path that is the tested path (or tested directory + separator-free component, or the base directory) of a strings.HasPrefix(filepath.Clean(p), base+sep) test (or with the p==base alternative) whose failing edge cannot reach the call; paths read from struct fields are vouched at every store; writes/closes of a download handle are control-dependent on FileID == parameter. Not decided: symlink races, content equality under write errors, chunk interleavings.",
      TRUST, "DESIGN.md §3 R7, §4 C07")

claim("C02", "static analysis: type-switch exhaustiveness over all Job.Data literals, sibling case/width agreement, byte-order selectors, SSA def-use proof that only XCryptBytesAES256(body, key, iv) output is appended to the package, request-id provenance, terminator edge rule",
      "Decides: every element type placed in a task's argument list is an encoder case; GetQueuedJobs and BuildPayloadMessage agree on case set and widths; every byte-order selector on the teamserver->agent path is LittleEndian and the parser defaults to big-endian; every append to the returned package is a 4-byte header field or XCryptBytesAES256(body, AesKey, AesIv) on the function's own parameters, XCryptBytesAES256 keys a fresh AES-CTR stream per call, every caller passes key and IV of one agent; TaskPrepare stores only rand or the hex TaskID into RequestID; terminators appended exactly when missing. Not decided: argument order vs the Demon's C handlers, value fidelity (UTF-16 transcoding, integer conversions), AES itself.",
      TRUST, "DESIGN.md §3 R8, §4 C02")
claim("C08", "static analysis: constant-argument rule on every ParseInt(NameID,16,N); SSA value-identity (same-object) rules for pivot layer key/id pairs and for the relay re-dispatch receiver, with dominance of its nil check",
      "Decides: every parse of an agent's NameID is wide enough for all 32-bit ids; in PivotAddJob each layer is encrypted with the key/IV of the agent whose id is packed as that layer's destination; in the relay arm the agent returned by AgentInstance(inner header id) is nil-checked, supplies the decryption key and is the receiver of the re-entered TaskDispatch (so C05's gate applies to the child's tasks), over a parser built from ParseBytes() of the frame. Not decided: the nested encode/decode round trip as values for depth <= 5.",
      TRUST, "DESIGN.md §3 R8, §4 C08")

claim("C10", "static analysis: SQL-subset reader over the string constants of pkg/db compared with the type-checked Exec/Scan call sites (counts, positional name agreement, SQLite affinity rules), restore filter and field-copy def-use, dominance of persist-before-acknowledge, id width",
      "Decides: for every statement of pkg/db the column, placeholder and bound-argument counts agree and the i-th bound value / Scan destination is the field named like the i-th column; insert, update and restore of TS_Agents use the same column set; every column that carries a Go string has TEXT/BLOB affinity under SQLite's documented rules; the restore query filters WHERE Active = 1 and copies every scanned column into the like-named agent field; in handleDemonAgent Teamserver.AgentAdd (which calls DB.AgentAdd on every path) dominates the acknowledgement write; agent ids are parsed with 64 bits. Not decided: crash points (SQLite's journal), behaviour when DB.AgentAdd returns an error (only logged), listener configuration JSON round trip.",
      TRUST, "DESIGN.md §3 R9, §4 C10")

claim("C03", "static analysis: memoised SSA path walk from the true edge of every CanIRead guard comparing the Parse* sequence on the same parser with the guard's literal list (boolean-fact and phi-of-literals aware), cut-set reachability for unguarded reads, reader/pre-flight width model, who-may-write and dominance rules for session identity",
      "Decides: ParseInt32/ParseBool/ParseInt64 copy exactly the field's leading bytes and advance by its width, and CanIRead advances by the same width per ReadType; at each of the ~148 guard sites every path's read sequence is a prefix of the guard's list by width class and some path consumes the whole list; every Parse* in TaskDispatch is reachable only through the true edge of a guard on its parser; CanIRead-conditioned loops consume on every path back; Agent.NameID is stored only by the three constructors; AgentAdd is on the !AgentExist(header id) edge; ParseDemonRegisterRequest returns a session only where inner id == header id and stores the 32+16 key/IV bytes read. Not decided: UTF-16/NUL-stripping semantics, console formatting fidelity, the Demon's PackageAdd order (wire schema vs C source).",
      TRUST, "DESIGN.md §3 R2, §4 C03")

claim("C01", "static analysis over the CHA-reachable scope of the listener handlers: difference-constraint bounds prover on SSA with field-stability (mod-summary) reasoning, dynamic-type and nullable-result dataflow, lock-pairing and range-mutation CFG rules, loop classification, reachability of state changes before rejections",
      "Decides for the ~120 functions reachable from HTTP.request / External.Request: every index/slice is in bounds (proved, or listed with its argument in tables/bounds_reviewed.json); every unchecked type assertion has a dynamic type fixed by construction; every dereference of a nullable result or optional field (incl. nullable arguments to callees that dereference them) is dominated by a nil/existence test; no reachable panic/Fatal/Exit, divide-by-zero or nil-map write; every loop is range/counted/CanIRead-conditioned with progress or reviewed; every mutex acquired is released on every path; no slice is shrunk inside its own range loop without leaving it; no state-changing call precedes a rejecting return and the failing edge reaches the decoy. Not decided: stack/memory exhaustion, blocking inside third-party service round-trips, concurrency (see C04/C15).",
      TRUST + " tables/bounds_reviewed.json lists the residue (index, nil, loop and abort obligations) the prover cannot reach, each with its argument; heap-slice equalities assume no concurrent writer.", "DESIGN.md §3 R1/R3/R5, §4 C01")

claim("C09", "static analysis: SSA same-object pairing of every store to Pivots.Links with the Parent store and the LinkAdd/LinkRemove call, must-call of the DB mirror, dominance of the reconnect append by an ancestor-walk guard, range-mutation rule, append-only session table",
      "Decides: every append of a child to a parent's links is paired (same straight-line region, same SSA objects) with child.Parent = parent and LinkAdd(parent, child); every removal outside LinkRemove is accompanied by LinkRemove for that parent; LinkRemove always reaches DB.LinkRemove and clears the child's Parent; LinkAdd always reaches DB.LinkAdd; the reconnect append of a packet-named existing agent is dominated by the negative outcome of a walk over .Pivots.Parent from the sender comparing with that agent, with nothing else conditioning the flag; no link list is shrunk inside its own range loop without leaving it. Not decided: the invariant over arbitrary event sequences, DB/list equality after failures of individual SQL statements.",
      TRUST, "DESIGN.md §4 C09")

claim("C11", "static analysis: who-may-write and dominance rules on the retained event list, AST shape of the replay, lock dataflow (must-held set at the single websocket write, release on every exit), presence/dominance of a write deadline, control dependence of every fan-out send on the exclusion and authentication tests",
      "Decides: EventAppend stores to the retained list exactly once, appending its argument, only on the OneTime != \"true\" edge and outside any loop; only ListenerRemove/EventRemove otherwise write the list; SendAllPackagesToNewClient ranges the retained list in index order sending each element to the new client, then the sessions skipping inactive ones; SendEvent performs exactly one WriteMessage per call with the client's mutex in the must-held set, preceded by SetWriteDeadline on the same connection, and every mutex is released on every exit; the EventBroadcast send is control-dependent on ExceptClient != key and on the client's Authenticated flag. Not decided: completeness under concurrent broadcasters (the retained list has no lock), delivery order across goroutines.",
      TRUST, "DESIGN.md §3 R13/R3, §4 C11")

claim("C12", "static analysis: SSA classification of the three admission checks in (*HTTP).request with polarity, reject-edge reachability and a cut-set bypass check; split-idiom rule; def-use of the recorded peer address; route registration rule",
      "Decides: the User-Agent, URI and request-header checks each have a failing outcome that reaches fake404+return and cannot reach parseAgentRequest, with the right polarity and initial flag value; without a check's accepting edge and the configuration-only skip edges (conditions over the same Config field only) the parser is unreachable; no teamserver/agent call precedes the parser; every `Name: value` string whose piece [1] is used is cut with SplitN(…, 2); the address handed to the parser is X-Forwarded-For only under BehindRedir and otherwise net.SplitHostPort(RemoteAddr); Start routes POST to request and registers the decoy as catch-all. Not decided: gin's routing/query handling, header canonicalisation in net/http, that ListenerEdit's stores are seen by concurrent requests.",
      TRUST, "DESIGN.md §3 R11, §4 C12")

claim("C16", "static analysis: dominance of every registry growth by a name-existence test (inline loop, predicate call, or at every caller), order/guard rule in ListenerRemove, AST shape of the owner-scoped cleanup loops, range-mutation rule, exact-comparison rule for name predicates, panic-source rules over the service connection handler",
      "Decides: every append to t.Listeners / s.Listeners / s.Agents is preceded by an existence test on the name; ListenerRemove deletes the database row first and stops/unregisters only on its success, and does all of stop, unregister and event pruning; ClientClose visits and drops every agent type and listener owned by the closing connection (no early break) and leaves its client loop after shrinking it; existence predicates compare names with ==; bounds/nil obligations and lock pairing in the pkg/service functions reachable from handleConnection. Known finding (printed as KNOWN-FINDING): ExternalC2 listeners started for a service connection are never removed when it closes. Not decided: that a stopped http.Server refuses connections, three-view equality across arbitrary histories.",
      TRUST, "DESIGN.md §3 R12, §4 C16")

claim("C04", "static analysis: who-may-write classification of every store to Agent.JobQueue, SSA shape rules for the bounded batch, the no-job decision and the chunker, lockset discipline (intersection of must-held mutexes over all accesses of a shared table, with one-level caller summaries)",
      "Decides: JobQueue is written only by tail appends to the same agent's queue, the single-index prefix/suffix split of GetQueuedJobs and the operator's clear; the batch loop leaves before counting the job that reaches DEMON_MAX_RESPONSE_LENGTH and the oversized-first-job escape exists; jobs are handed out exactly when asked and the queue is non-empty; UploadMemFileInChunks cuts [start:min(start+chunk,size)] with stride chunk, one id, the total size, enqueues in order and returns the id; every issued job is recorded once. Known findings (printed as KNOWN-FINDING): JobQueue and Tasks have no common lock although several goroutines touch them. Not decided: exactly-once/FIFO as a history property, fairness.",
      TRUST, "DESIGN.md §3 R4, §4 C04")

claim("C15", "static analysis: per-access lockset rule for the three guarded relay tables (mutex held in the function or at every call site), lock pairing, range-mutation rule, SSA shape rules for method selection, command filter, reply layout, handshake readers and relay task construction, exit-path rule for close propagation",
      "Decides: every access to PortFwds/SocksCli/SocksSvr holds its declared mutex; every relay mutex is released on every path; no relay table is shrunk inside its own range loop without leaving it; {VER,NOAUTH} is written only where NOAUTH was offered and {VER,NOMATCH} otherwise; only CONNECT registers a client; the reply is VER REP 0x00 ATYP [len iff FQDN] addr port(big-endian) and is built from the connection/ATYP/address/port stored for that client, which are the parsed request's; the handshake readers use no bufio and return complete fields (io.ReadFull); relay tasks carry the client's own socket id. Known finding (printed as KNOWN-FINDING): a client-side EOF leaves the socket registered and the agent uninformed. Not decided: byte-stream integrity over all chunkings, ordering between relay goroutines, races on fields of elements handed out of the critical section (SocksClient.Conn).",
      TRUST, "DESIGN.md §3 R4/R5/R3, §4 C15")

claim("C13", "static analysis: cross-language wire-schema comparison (shape of the DemonConfig.Add* sequence in PatchConfig vs the ParserGet* sequence of DemonConfig() in Demon.c, per TRANSPORT_* branch), option-to-ordinal provenance over SSA, enum-family rule, error-discipline rule, bit-layout rule, taint analysis from operator options to shell command lines",
      "Decides: the configuration block packed for HTTP and SMB listeners has exactly the field kinds, order, loops and optional parts that the Demon's start-up reader consumes (both sides re-read from source on every run); each of the twelve option fields is packed at the ordinal the Demon reads it from and its variable is assigned only under its own option; no variable mixes constants of two enumerations; every Atoi/ParseWorkingHours error makes PatchConfig fail and Build return false; working hours are packed in disjoint masked fields. Known finding (printed as KNOWN-FINDING): operator build strings reach `sh -c`. Not decided: value fidelity of strings (UTF-16), interface address resolution, the compiler invocation itself, host:port splitting of IPv6 hosts.",
      TRUST + " The C reader is a purpose-built scanner for DemonConfig() (calls, for/if nesting, #ifdef TRANSPORT_*), not a C front end.", "DESIGN.md §3 R14-R16, §4 C13")

claim("C14", "static analysis: well-formedness rules over the struct tags of every type reachable from profile.HavocConfig (go/types), nil-test dominance for optional profile blocks at all consumers (with the SetProfile normalisation recognised), discarded error/diagnostics rule over the CHA-reachable decode path",
      "Decides: every exported field of the profile schema has a yaotl tag of a kind gohcl accepts (others panic at load), names are unique per struct, block/label/attribute fields have decodable types; every dereference of a pointer-typed profile block anywhere in the module is dominated by a nil test of the same path, or the block is replaced by an empty struct in SetProfile when omitted; in the functions of hclsimple/gohcl/hclsyntax/profile reachable from DecodeFile no error or hcl.Diagnostics result is bound to _ or dropped (three upstream idioms listed with their reason). Not decided: the decode round trip over the value space, diagnostics' text and ranges, heredoc/template spelling equivalences.",
      TRUST, "DESIGN.md §3 R17/R18, §4 C14")

claim("C18", "static analysis: comparison of the resolved operator tables (token constant -> operation -> implementing stdlib function and result type, by precedence level) with a reference table from the language definition; SSA value-provenance rules on the precedence-climbing parser (operand levels, lookup, node construction, conditional) and on the Value methods of binary/unary/conditional nodes",
      "Decides the structural part of 'usual precedence and associativity' and of operator evaluation: the binary operator table has the six levels of the language in order with the defined operators on each, each Operation is bound to the stdlib function and result type that define it and is never rewritten, unary - and ! build the defined operation over a term; parseBinaryOps looks the next token up in the first level only, parses both operands with the strict tail of its table, gives each node the looked-up operation, the accumulated left operand and a right operand parsed after the operator; the conditional parses condition/true/false in source order behind ? and :; BinaryOpExpr/UnaryOpExpr.Value apply the node's own Impl to the operands' values in order; ConditionalExpr.Value returns the true result on the True() branch of the condition and the false result on the other. Not decided: the arithmetic itself (go-cty), templates, splats, for-expressions, index/attribute semantics, and the error-diagnostic clause - these quantify over values and have no structural necessary condition we can check soundly.",
      TRUST, "DESIGN.md §3 R19, §4 C18")

claim("C20", "static analysis: write-effect analysis over the call-graph closure of hclwrite.format (which fields of which objects the formatter may store to), and SSA shape/provenance rules on the serialiser Tokens.WriteTo and on writerTokens",
      "Decides the structural part of 'formatting changes nothing but spaces' and of byte-for-byte serialisation: in every function reachable from hclwrite.format the only store through a *Token is to SpacesBefore, no token-slice element is replaced, no token slice is appended to or copied over, no byte of Token.Bytes is written, and token bytes leave the analysed set only towards listed pure readers; Tokens.WriteTo writes, per token in slice order, a run of the constant ' ' counted down from SpacesBefore and then the whole Bytes; writerTokens builds token i from native token i with the same Type, a full private copy of its Bytes, SpacesBefore = Range.Start.Byte - previous Range.End.Byte, ret[i] = &tokBuf[i]. Not decided: that the scanner's tokens tile the input (C17), idempotence of Format, parse/decode equality of the formatted file, and every programmatic-edit clause (SetAttribute/RemoveBlock ... over edit histories) - those quantify over source texts and edit sequences.",
      TRUST, "DESIGN.md §3 R20, §4 C20")

na("C17", "Static analysis cannot decide this property and no clause of it has (yet) a sound structural check here. Totality of the ragel-generated scanners (scan_tokens.go, scan_string_lit.go: table-driven state machines, ~10k lines of generated gotos) and of the recursive-descent parsers over all byte strings, token tiling of the input and range containment are statements about run-time values of positions and lengths; the explicit panic(...) guards in the parser are caller-contract assertions whose discharge needs the token stream's contents. The one structural necessary condition in reach - every parser loop and recursion consumes a token per turn - is listed in DESIGN.md section 5 as the intended future clause; until it is built and silent on the tree the property is not claimed rather than served by a proxy. Declined, not switched to fuzzing, because this task is restricted to static analysis.")
na("C19", "The property relates two decoders (hcldec, gohcl) and two syntaxes (native, JSON) and merged/dynamic-block rewrites over all generated configurations: it is an equivalence of results over a space of programs. It has no clause whose truth is visible in the shape of the code: the two hcl.Body implementations share no table or registry that could be cross-checked sibling against sibling, and agreement of their Content/PartialContent/JustAttributes results depends on the values held in the parsed trees. A static rule would either be a frozen-fragment match or would fire on behaviour-preserving edits, so the honest answer for this technique is not applicable.")

for i in range(1, 21):
    pid = "C%02d" % i
    if pid not in CLAIMS and pid not in NA:
        na(pid, "rule set not built yet in this round; see DESIGN.md section 7 (claimed only once its rules exist, are silent-or-triaged on the pinned tree and kill their seed mutants)")

ENV = "GOFLAGS=-mod=mod GOPROXY=off GOSUMDB=off GOTOOLCHAIN=local GOWORK=off"
m = {
 "version": 1,
 "setup_cmd": f"cd /verif/checker && {ENV} go build -o /verif/bin/hv ./cmd/hv",
 "hooks": {
  "guard": "verif",
  "enable": "none needed: the checker reads /repo/teamserver source (go/packages + go/ssa + go/cfg) and needs no instrumentation; no hook commits exist",
  "baseline_off_cmd": "cd /repo/teamserver && GOFLAGS=-mod=mod GOPROXY=off GOSUMDB=off go test -vet=off -count=1 -timeout 25m ./...",
  "source_commits": [],
  "add_only": True
 },
 "engines": [{"name": "hv", "path": "/verif/checker", "serves_properties": sorted(CLAIMS), "kind_free_text": "repository-specific static analyser (go/packages, go/ssa, go/cfg, CHA/VTA call graph) deciding structural rules per property; rebuilds nothing of /repo, re-reads and re-type-checks its source on every run"}],
 "checks": [],
 "notes": "All claims are level 'other': necessary structural conditions decided exactly from source, not proofs of the behavioural property. Known findings: /verif/known_findings.json. Checker validation: `hv selftest` replays /verif/mutants through go/packages overlays.",
 "not_applicable": [{"property_id": k, "reason": v} for k, v in sorted(NA.items())],
}
for pid in sorted(CLAIMS):
    c = CLAIMS[pid]
    m["checks"].append({
        "property_id": pid,
        "quick_cmd": f"/verif/bin/hv check --property {pid} --tier quick",
        "thorough_cmd": f"/verif/bin/hv check --property {pid} --tier thorough",
        "evidence_file": f"/verif/evidence/{pid}.json",
        "replay_cmd_template": "/verif/bin/hv replay {path}",
        "engine": "hv",
        "level_claimed": {"category": "other", "text": c["text"], "design_ref": c["design_ref"]},
        "level_note": c["note"],
        "technique": c["technique"],
    })
json.dump(m, open("/verif/MANIFEST.json", "w"), indent=1)
print("claimed:", sorted(CLAIMS), "n/a:", sorted(NA))
