#!/bin/sh
# runs the quick check of every claimed property on /repo as it is and prints one line each
for p in $(python3 -c "import json;print(' '.join(c['property_id'] for c in json.load(open('/verif/MANIFEST.json'))['checks']))"); do
  out=$(/verif/bin/hv check --property $p 2>&1); code=$?
  echo "$p exit=$code $(echo "$out" | head -1 | cut -c1-120)"
  [ $code -ne 0 ] && echo "$out" | grep "rule=\|BROKEN" | cut -c1-250 | head -8
done
