// Package core holds the shared loader, obligation model, known-findings
// handling and evidence writer used by every rule of the hv checker.
package core

import (
	"fmt"
	"go/ast"
	"go/token"
	"go/types"
	"os"
	"path/filepath"
	"sort"
	"strings"

	"golang.org/x/tools/go/callgraph"
	"golang.org/x/tools/go/callgraph/cha"
	"golang.org/x/tools/go/callgraph/vta"
	"golang.org/x/tools/go/packages"
	"golang.org/x/tools/go/ssa"
	"golang.org/x/tools/go/ssa/ssautil"
)

// Prog is the type-checked program plus its SSA form.
type Prog struct {
	Root    string // module root, e.g. /repo/teamserver
	Fset    *token.FileSet
	Initial []*packages.Package
	ByPath  map[string]*packages.Package
	SSA     *ssa.Program
	SSAPkg  map[string]*ssa.Package
	ModPath string // "Havoc"

	cha *callgraph.Graph
	vta *callgraph.Graph
	all map[*ssa.Function]bool
}

// LoadOptions control loading.
type LoadOptions struct {
	Dir     string            // module root
	Overlay map[string][]byte // absolute file -> content
	Tags    string
}

// Load loads ./... under opts.Dir with full syntax and builds SSA for the
// whole program. Any type error is fatal: a blind analyser must not pass.
func Load(opts LoadOptions) (*Prog, error) {
	env := os.Environ()
	set := func(k, v string) {
		for i, e := range env {
			if strings.HasPrefix(e, k+"=") {
				env[i] = k + "=" + v
				return
			}
		}
		env = append(env, k+"="+v)
	}
	set("GOFLAGS", "-mod=mod")
	set("GOPROXY", "off")
	set("GOSUMDB", "off")
	set("GOTOOLCHAIN", "local")
	set("GOWORK", "off")
	set("CGO_ENABLED", "1")
	cfg := &packages.Config{
		Mode: packages.NeedName | packages.NeedFiles | packages.NeedCompiledGoFiles |
			packages.NeedImports | packages.NeedDeps | packages.NeedTypes |
			packages.NeedSyntax | packages.NeedTypesInfo | packages.NeedTypesSizes | packages.NeedModule,
		Dir:     opts.Dir,
		Env:     env,
		Overlay: opts.Overlay,
		Fset:    token.NewFileSet(),
	}
	if opts.Tags != "" {
		cfg.BuildFlags = []string{"-tags=" + opts.Tags}
	}
	pkgs, err := packages.Load(cfg, "./...")
	if err != nil {
		return nil, fmt.Errorf("packages.Load: %w", err)
	}
	if len(pkgs) == 0 {
		return nil, fmt.Errorf("no packages loaded from %s", opts.Dir)
	}
	var errs []string
	packages.Visit(pkgs, nil, func(p *packages.Package) {
		for _, e := range p.Errors {
			errs = append(errs, e.Error())
		}
	})
	if len(errs) > 0 {
		sort.Strings(errs)
		if len(errs) > 10 {
			errs = errs[:10]
		}
		return nil, fmt.Errorf("type/load errors:\n  %s", strings.Join(errs, "\n  "))
	}
	p := &Prog{Root: opts.Dir, Fset: cfg.Fset, Initial: pkgs, ByPath: map[string]*packages.Package{}, SSAPkg: map[string]*ssa.Package{}}
	packages.Visit(pkgs, nil, func(pk *packages.Package) { p.ByPath[pk.PkgPath] = pk })
	for _, pk := range pkgs {
		if pk.Module != nil && pk.Module.Main {
			p.ModPath = pk.Module.Path
			break
		}
	}
	prog, _ := ssautil.AllPackages(pkgs, ssa.InstantiateGenerics)
	prog.Build()
	p.SSA = prog
	for _, sp := range prog.AllPackages() {
		p.SSAPkg[sp.Pkg.Path()] = sp
	}
	return p, nil
}

// InModule reports whether a package path belongs to the analysed module.
func (p *Prog) InModule(path string) bool {
	return path == p.ModPath || strings.HasPrefix(path, p.ModPath+"/")
}

// Pkg returns the loaded package or nil.
func (p *Prog) Pkg(path string) *packages.Package { return p.ByPath[path] }

// Func resolves "Name" or "Type.Method" (pointer or value receiver) in pkg.
func (p *Prog) Func(pkgPath, name string) *ssa.Function {
	sp := p.SSAPkg[pkgPath]
	if sp == nil {
		return nil
	}
	if i := strings.Index(name, "."); i >= 0 {
		tn, mn := name[:i], name[i+1:]
		obj := sp.Pkg.Scope().Lookup(tn)
		if obj == nil {
			return nil
		}
		named, ok := obj.Type().(*types.Named)
		if !ok {
			return nil
		}
		for _, t := range []types.Type{named, types.NewPointer(named)} {
			ms := p.SSA.MethodSets.MethodSet(t)
			for i := 0; i < ms.Len(); i++ {
				if ms.At(i).Obj().Name() == mn && ms.At(i).Obj().Pkg() == sp.Pkg {
					if fn := p.SSA.MethodValue(ms.At(i)); fn != nil && fn.Synthetic == "" {
						return fn
					}
				}
			}
		}
		// fall back to declared method object
		for i := 0; i < named.NumMethods(); i++ {
			if named.Method(i).Name() == mn {
				return p.SSA.FuncValue(named.Method(i))
			}
		}
		return nil
	}
	return sp.Func(name)
}

// AllFuncs returns every function of the program (incl. anonymous).
func (p *Prog) AllFuncs() map[*ssa.Function]bool {
	if p.all == nil {
		p.all = ssautil.AllFunctions(p.SSA)
	}
	return p.all
}

// ModuleFuncs returns the source functions (incl. closures) defined in module
// packages matching the filter, sorted by position.
func (p *Prog) ModuleFuncs(filter func(pkgPath string) bool) []*ssa.Function {
	var out []*ssa.Function
	for fn := range p.AllFuncs() {
		if fn.Pkg == nil && fn.Parent() == nil {
			continue
		}
		pk := FuncPkgPath(fn)
		if pk == "" || !p.InModule(pk) {
			continue
		}
		if fn.Synthetic != "" && fn.Parent() == nil {
			continue
		}
		if fn.Blocks == nil {
			continue
		}
		if filter != nil && !filter(pk) {
			continue
		}
		out = append(out, fn)
	}
	sort.Slice(out, func(i, j int) bool {
		pi, pj := p.Fset.Position(out[i].Pos()), p.Fset.Position(out[j].Pos())
		if pi.Filename != pj.Filename {
			return pi.Filename < pj.Filename
		}
		if pi.Offset != pj.Offset {
			return pi.Offset < pj.Offset
		}
		return out[i].String() < out[j].String()
	})
	return out
}

// FuncPkgPath returns the package path a function (or its outermost parent) is declared in.
func FuncPkgPath(fn *ssa.Function) string {
	for fn.Parent() != nil {
		fn = fn.Parent()
	}
	if fn.Pkg != nil {
		return fn.Pkg.Pkg.Path()
	}
	if fn.Object() != nil && fn.Object().Pkg() != nil {
		return fn.Object().Pkg().Path()
	}
	if o := fn.Origin(); o != nil && o != fn {
		return FuncPkgPath(o)
	}
	return ""
}

// CHA returns the class-hierarchy call graph.
func (p *Prog) CHA() *callgraph.Graph {
	if p.cha == nil {
		p.cha = cha.CallGraph(p.SSA)
	}
	return p.cha
}

// VTA returns the variable-type-analysis call graph seeded with CHA.
func (p *Prog) VTA() *callgraph.Graph {
	if p.vta == nil {
		p.vta = vta.CallGraph(p.AllFuncs(), p.CHA())
	}
	return p.vta
}

// Reachable computes the set of functions reachable from roots in g, following
// only edges whose callee satisfies follow (nil = all).
func Reachable(g *callgraph.Graph, roots []*ssa.Function, follow func(*ssa.Function) bool) map[*ssa.Function]bool {
	seen := map[*ssa.Function]bool{}
	var stack []*ssa.Function
	for _, r := range roots {
		if r != nil && !seen[r] {
			seen[r] = true
			stack = append(stack, r)
		}
	}
	for len(stack) > 0 {
		fn := stack[len(stack)-1]
		stack = stack[:len(stack)-1]
		n := g.Nodes[fn]
		if n == nil {
			continue
		}
		for _, e := range n.Out {
			c := e.Callee.Func
			if seen[c] {
				continue
			}
			if follow != nil && !follow(c) {
				continue
			}
			seen[c] = true
			stack = append(stack, c)
		}
		// closures defined inside fn are reachable when fn is
		for _, an := range fn.AnonFuncs {
			if !seen[an] {
				seen[an] = true
				stack = append(stack, an)
			}
		}
	}
	return seen
}

// Pos formats a position relative to the repository root's parent (/repo).
func (p *Prog) Pos(pos token.Pos) string {
	if !pos.IsValid() {
		return "-"
	}
	ps := p.Fset.Position(pos)
	rel := ps.Filename
	if r, err := filepath.Rel(filepath.Dir(p.Root), ps.Filename); err == nil && !strings.HasPrefix(r, "..") {
		rel = r
	}
	return fmt.Sprintf("%s:%d:%d", rel, ps.Line, ps.Column)
}

// FuncName gives a stable readable name: pkgpath.(*T).M or pkgpath.F$1.
func FuncName(fn *ssa.Function) string {
	if fn == nil {
		return "<nil>"
	}
	return fn.String()
}

// FileOf returns the parsed file containing pos.
func (p *Prog) FileOf(pkg *packages.Package, pos token.Pos) *ast.File {
	for _, f := range pkg.Syntax {
		if f.Pos() <= pos && pos <= f.End() {
			return f
		}
	}
	return nil
}

// FuncDecl finds the declaration of a function or method by name in a package.
// name is "F" or "T.M".
func (p *Prog) FuncDecl(pkgPath, name string) (*ast.FuncDecl, *packages.Package) {
	pk := p.ByPath[pkgPath]
	if pk == nil {
		return nil, nil
	}
	tn, mn := "", name
	if i := strings.Index(name, "."); i >= 0 {
		tn, mn = name[:i], name[i+1:]
	}
	for _, f := range pk.Syntax {
		for _, d := range f.Decls {
			fd, ok := d.(*ast.FuncDecl)
			if !ok || fd.Name.Name != mn {
				continue
			}
			if tn == "" {
				if fd.Recv == nil {
					return fd, pk
				}
				continue
			}
			if fd.Recv == nil || len(fd.Recv.List) == 0 {
				continue
			}
			t := fd.Recv.List[0].Type
			if s, ok := t.(*ast.StarExpr); ok {
				t = s.X
			}
			if id, ok := t.(*ast.Ident); ok && id.Name == tn {
				return fd, pk
			}
		}
	}
	return nil, nil
}
