package core

import (
	"encoding/json"
	"fmt"
	"os"
	"path/filepath"
	"sort"
	"strings"
	"time"
)

// Status of an obligation.
const (
	Discharged = "discharged"
	Violated   = "violated"
	Known      = "known"
	Undecided  = "undecided"
	Note       = "note" // informational: printed in evidence, never fails
)

// Ob is one obligation: an instance of a rule and its verdict.
type Ob struct {
	Rule       string   `json:"rule"`
	Property   string   `json:"property"`
	Key        string   `json:"key"`
	Pos        string   `json:"pos"`
	Func       string   `json:"func,omitempty"`
	Construct  string   `json:"construct"`
	Status     string   `json:"status"`
	Reason     string   `json:"reason,omitempty"`
	Path       []string `json:"path,omitempty"`
	Kind       string   `json:"kind,omitempty"` // "", "undecided", "anchor", "vacuous", "control"
	NonTrivial bool     `json:"nontrivial,omitempty"`
	What       string   `json:"what,omitempty"` // for known findings
}

// Finding is an entry of /verif/known_findings.json.
type Finding struct {
	Property string `json:"property"`
	Rule     string `json:"rule"`
	Key      string `json:"key"`
	What     string `json:"what"`
	Status   string `json:"status"` // known | fixed
	Commit   string `json:"commit,omitempty"`
	Input    string `json:"input,omitempty"`
}

// Report accumulates obligations for one property run.
type Report struct {
	Property string
	Tier     string
	Seed     int64
	VerifDir string
	Start    time.Time

	Obs        []*Ob
	keyCount   map[string]int
	RuleCount  map[string]int
	RuleFloor  map[string]int
	RuleDoc    map[string]string
	Funcs      map[string]bool
	CallSites  int
	Paths      int
	Trusted    []string
	Assume     []string
	Notes      []string
	Explain    []string
	NotDecided []string
	Extra      map[string]any
	known      []Finding
	Broken     []string
}

// NewReport creates a report and loads the known-findings file.
func NewReport(verifDir, property, tier string, seed int64) (*Report, error) {
	r := &Report{Property: property, Tier: tier, Seed: seed, VerifDir: verifDir, Start: time.Now(),
		keyCount: map[string]int{}, RuleCount: map[string]int{}, RuleFloor: map[string]int{}, RuleDoc: map[string]string{},
		Funcs: map[string]bool{}, Extra: map[string]any{}}
	b, err := os.ReadFile(filepath.Join(verifDir, "known_findings.json"))
	if err == nil {
		if err := json.Unmarshal(b, &r.known); err != nil {
			return nil, fmt.Errorf("known_findings.json: %w", err)
		}
	} else if !os.IsNotExist(err) {
		return nil, err
	}
	return r, nil
}

// Rule registers documentation and the vacuity floor of a rule.
func (r *Report) Rule(name, doc string, floor int) {
	r.RuleDoc[name] = doc
	r.RuleFloor[name] = floor
	if _, ok := r.RuleCount[name]; !ok {
		r.RuleCount[name] = 0
	}
}

// MakeKey builds an obligation key rule|func|construct and appends an ordinal
// so that several identical constructs in one function stay distinct.
func (r *Report) MakeKey(rule, fn, construct string) string {
	base := rule + "|" + fn + "|" + construct
	r.keyCount[base]++
	return fmt.Sprintf("%s#%d", base, r.keyCount[base])
}

// Add records an obligation. Key must be set (use MakeKey).
func (r *Report) Add(o *Ob) *Ob {
	o.Property = r.Property
	if o.Func != "" {
		r.Funcs[o.Func] = true
	}
	if o.Status != Note {
		r.RuleCount[o.Rule]++
	}
	if o.Status == Violated || o.Status == Undecided {
		for _, k := range r.known {
			if k.Status == "known" && k.Property == r.Property && k.Key == o.Key {
				o.Status = Known
				o.What = k.What
				break
			}
		}
	}
	r.Obs = append(r.Obs, o)
	return o
}

// Ok adds a discharged obligation.
func (r *Report) Ok(rule, fn, construct, pos, reason string, nontrivial bool) {
	r.Add(&Ob{Rule: rule, Key: r.MakeKey(rule, fn, construct), Pos: pos, Func: fn, Construct: construct, Status: Discharged, Reason: reason, NonTrivial: nontrivial})
}

// Bad adds a violated obligation.
func (r *Report) Bad(rule, fn, construct, pos, reason string, path ...string) *Ob {
	return r.Add(&Ob{Rule: rule, Key: r.MakeKey(rule, fn, construct), Pos: pos, Func: fn, Construct: construct, Status: Violated, Reason: reason, Path: path, NonTrivial: true})
}

// Und adds an undecided obligation (fails the check).
func (r *Report) Und(rule, fn, construct, pos, reason string) *Ob {
	return r.Add(&Ob{Rule: rule, Key: r.MakeKey(rule, fn, construct), Pos: pos, Func: fn, Construct: construct, Status: Undecided, Kind: "undecided", Reason: reason, NonTrivial: true})
}

// Anchor records an unresolved anchor (fails the check).
func (r *Report) Anchor(rule, what string) {
	r.Add(&Ob{Rule: rule, Key: r.MakeKey(rule, "-", "anchor:"+what), Pos: "-", Construct: "anchor " + what, Status: Violated, Kind: "anchor",
		Reason: "the rule is parameterised by " + what + " which no longer resolves in /repo; the rule cannot be decided"})
}

// NoteOb records an informational observation.
func (r *Report) NoteOb(rule, fn, construct, pos, reason string) {
	r.Add(&Ob{Rule: rule, Key: r.MakeKey(rule, fn, construct), Pos: pos, Func: fn, Construct: construct, Status: Note, Reason: reason})
}

// Finish checks floors, writes evidence and replay files, prints verdict lines
// and returns the process exit code.
func (r *Report) Finish() int {
	// vacuity
	var rules []string
	for name := range r.RuleFloor {
		rules = append(rules, name)
	}
	sort.Strings(rules)
	for _, name := range rules {
		if r.RuleCount[name] < r.RuleFloor[name] {
			r.Add(&Ob{Rule: name, Key: r.MakeKey(name, "-", "vacuous"), Pos: "-", Construct: fmt.Sprintf("instances=%d floor=%d", r.RuleCount[name], r.RuleFloor[name]),
				Status: Violated, Kind: "vacuous", Reason: "rule matched fewer instances than its confirmed floor; it would pass vacuously"})
		}
	}
	sort.SliceStable(r.Obs, func(i, j int) bool { return r.Obs[i].Key < r.Obs[j].Key })

	replayDir := filepath.Join(r.VerifDir, "evidence", "replay")
	os.MkdirAll(replayDir, 0o755)
	// remove stale replay files of this property
	if old, _ := filepath.Glob(filepath.Join(replayDir, r.Property+"-*.json")); old != nil {
		for _, f := range old {
			os.Remove(f)
		}
	}

	var nOb, nDis, nKnown, nViol, nNon int
	distinct := map[string]bool{}
	exit := 0
	var lines []string
	n := 0
	for _, o := range r.Obs {
		if o.Status == Note {
			continue
		}
		nOb++
		if o.NonTrivial {
			base := o.Key
			if !distinct[base] {
				distinct[base] = true
				nNon++
			}
		}
		switch o.Status {
		case Discharged:
			nDis++
		case Known:
			nKnown++
			lines = append(lines, fmt.Sprintf("KNOWN-FINDING: property=%s %s [%s at %s]", r.Property, o.What, o.Key, o.Pos))
		case Violated, Undecided:
			nViol++
			n++
			path := filepath.Join(replayDir, fmt.Sprintf("%s-%d.json", r.Property, n))
			b, _ := json.MarshalIndent(o, "", " ")
			os.WriteFile(path, b, 0o644)
			lines = append(lines, fmt.Sprintf("VIOLATION property=%s replay=%s", r.Property, path))
			lines = append(lines, fmt.Sprintf("  rule=%s at %s in %s: %s — %s", o.Rule, o.Pos, o.Func, o.Construct, o.Reason))
			for _, p := range o.Path {
				lines = append(lines, "    "+p)
			}
			exit = 1
		}
	}
	for _, b := range r.Broken {
		lines = append(lines, "BROKEN: "+b)
		exit = 2
	}

	// samples: up to 12 obligations, preferring non-trivial ones of distinct rules
	var samples []any
	perRule := map[string]int{}
	for _, o := range r.Obs {
		if o.Status == Note || !o.NonTrivial {
			continue
		}
		if perRule[o.Rule] >= 3 || len(samples) >= 30 {
			continue
		}
		perRule[o.Rule]++
		samples = append(samples, o)
	}
	if len(samples) == 0 {
		for _, o := range r.Obs {
			if len(samples) >= 5 {
				break
			}
			samples = append(samples, o)
		}
	}
	var notes []any
	for _, o := range r.Obs {
		if o.Status == Note && len(notes) < 40 {
			notes = append(notes, map[string]string{"rule": o.Rule, "pos": o.Pos, "construct": o.Construct, "note": o.Reason})
		}
	}
	perRuleStats := map[string]any{}
	for _, name := range rules {
		perRuleStats[name] = map[string]any{"instances": r.RuleCount[name], "floor": r.RuleFloor[name], "decides": r.RuleDoc[name]}
	}
	var funcs []string
	for f := range r.Funcs {
		funcs = append(funcs, f)
	}
	sort.Strings(funcs)
	if len(r.Explain) == 0 {
		r.Explain = append(r.Explain, "Static analysis of /repo/teamserver (type-checked program, SSA, CFG, call graph) deciding necessary structural conditions of the property; not a proof of the behaviour. Rules decided on this run:")
		for _, name := range rules {
			r.Explain = append(r.Explain, name+": "+r.RuleDoc[name]+".")
		}
	}
	if r.Trusted == nil {
		r.Trusted = []string{"go/types type checker", "golang.org/x/tools v0.29.0 go/ssa, go/cfg, go/callgraph (CHA)", "documented behaviour of the Go standard library and third-party packages", "tables under /verif/tables (knowledge obtained by reading, each entry with its reason)"}
	}
	if r.Assume == nil {
		r.Assume = []string{"start-up singletons (logr.LogrInstance, logger, t.DB, t.Profile) are set before any listener exists", "reflection, unsafe and cgo bodies are opaque", "claims are necessary conditions: a tree may satisfy every rule and still violate the behavioural property"}
	}
	if r.NotDecided == nil {
		r.NotDecided = []string{}
	}
	cov := map[string]any{
		"explanation":         strings.Join(r.Explain, " "),
		"not_decided":         r.NotDecided,
		"obligations":         nOb,
		"discharged":          nDis,
		"known_findings":      nKnown,
		"violated":            nViol,
		"evaluations":         nOb,
		"distinct_nontrivial": nNon,
		"rule":                "one obligation per rule instance found in /repo's source on this run (call site, index expression, lock acquisition, literal, SQL statement, switch case ...); non-trivial = its decision needed a path, dominance, dataflow or table comparison rather than a syntactic match; distinct by obligation key rule|function|construct#ordinal",
		"samples":             samples,
		"rules":               perRuleStats,
		"functions_analysed":  len(funcs),
		"functions":           funcs,
		"call_sites":          r.CallSites,
		"paths":               r.Paths,
		"checker_cmd":         fmt.Sprintf("/verif/bin/hv check --property %s --tier %s", r.Property, r.Tier),
		"trusted_base":        r.Trusted,
		"notes":               notes,
		"exhaustive":          true,
	}
	for k, v := range r.Extra {
		cov[k] = v
	}
	ev := map[string]any{
		"property_id": r.Property,
		"tier":        r.Tier,
		"seed":        r.Seed,
		"level":       "other",
		"coverage":    cov,
		"assumptions": r.Assume,
		"wall_s":      time.Since(r.Start).Seconds(),
		"violations":  nViol,
	}
	b, _ := json.MarshalIndent(ev, "", " ")
	os.MkdirAll(filepath.Join(r.VerifDir, "evidence"), 0o755)
	if err := os.WriteFile(filepath.Join(r.VerifDir, "evidence", r.Property+".json"), b, 0o644); err != nil {
		fmt.Println("BROKEN: cannot write evidence:", err)
		return 2
	}
	fmt.Printf("hv: property=%s tier=%s obligations=%d discharged=%d known=%d violated=%d functions=%d wall=%.1fs\n",
		r.Property, r.Tier, nOb, nDis, nKnown, nViol, len(funcs), time.Since(r.Start).Seconds())
	for _, name := range rules {
		fmt.Printf("  rule %-28s instances=%-4d floor=%d\n", name, r.RuleCount[name], r.RuleFloor[name])
	}
	for _, l := range lines {
		fmt.Println(l)
	}
	if os.Getenv("HV_LIST") != "" {
		for _, o := range r.Obs {
			fmt.Printf("OB %s %s %s %s | %s\n", o.Rule, o.Status, o.Pos, o.Func, o.Construct)
		}
	}
	return exit
}
