package rules

import (
	"fmt"
	"go/ast"
	"go/token"
	"go/types"
	"sort"
	"strings"

	"golang.org/x/tools/go/packages"
	"golang.org/x/tools/go/ssa"
)

// sharedField describes a struct field reached from several goroutines.
type sharedField struct {
	Type, Field string
	Guard       string // declared mutex field ("" = none declared)
	Why         string // which goroutines touch it (confirmed by reading)
}

var sharedAgentQueue = []sharedField{
	{PkgAgent + ".Agent", "JobQueue", "", "appended by operator (handleRequest→DispatchEvent→TaskPrepare), relay goroutines (socks/rportfwd readers) and service goroutines; split by the listener goroutine in GetQueuedJobs"},
	{PkgAgent + ".Agent", "Tasks", "", "appended with every AddJobToQueue (operator/relay/service goroutines); scanned and shrunk by the listener goroutine (IsKnownRequestID / RequestCompleted)"},
}

var sharedRelayTables = []sharedField{
	{PkgAgent + ".Agent", "PortFwds", "PortFwdsMtx", "agent callbacks (listener goroutine), operator commands, rportfwd reader goroutines"},
	{PkgAgent + ".Agent", "SocksCli", "SocksCliMtx", "socks accept goroutines, agent callbacks, operator commands"},
	{PkgAgent + ".Agent", "SocksSvr", "SocksSvrMtx", "operator socks add/list/kill/clear, agent callbacks"},
}

type fieldAccess struct {
	pk    *packages.Package
	fn    string
	pos   token.Pos
	write bool
	locks map[string]bool // must-held mutex field names (last selector component)
	call  bool
}

// lockFieldName reduces "a.SocksCliMtx" / "client.Mutex" to the mutex field name.
func lockFieldName(path string) string {
	if i := strings.LastIndex(path, "."); i >= 0 {
		return path[i+1:]
	}
	return path
}

// collectAccesses finds every access to T.F in module code together with the
// mutexes certainly held there (in the function itself or at every call site).
func (c *Ctx) collectAccesses(sf sharedField) []*fieldAccess {
	var out []*fieldAccess
	type unitInfo struct {
		u    *LockUnit
		body *ast.BlockStmt
		name string
		pk   *packages.Package
		fd   *ast.FuncDecl
	}
	var units []*unitInfo
	c.EachBody(NonYaotl, func(pk *packages.Package, fd *ast.FuncDecl, body *ast.BlockStmt, name string) {
		units = append(units, &unitInfo{body: body, name: name, pk: pk, fd: fd})
	})
	// entry locks: held at every static call site of a declared function (one level, iterated)
	entry := map[string]map[string]bool{}
	getUnit := func(ui *unitInfo) *LockUnit {
		if ui.u == nil {
			ui.u = c.AnalyseLocks(ui.pk, ui.fd, ui.body, ui.name)
		}
		return ui.u
	}
	mustAtNode := func(ui *unitInfo, pos token.Pos) map[string]bool {
		u := getUnit(ui)
		res := map[string]bool{}
		for node, must := range u.MustAt {
			if node.Pos() <= pos && pos < node.End() {
				for k := range must {
					res[lockFieldName(k)] = true
				}
			}
		}
		for k := range entry[ui.name] {
			res[k] = true
		}
		return res
	}
	// only analyse units that mention a mutex or the field (cheap pre-filter by text is not available: use AST scan)
	mentions := func(body *ast.BlockStmt) bool {
		found := false
		ast.Inspect(body, func(n ast.Node) bool {
			if sel, ok := n.(*ast.SelectorExpr); ok && (sel.Sel.Name == sf.Field || strings.HasSuffix(sel.Sel.Name, "Mtx") || sel.Sel.Name == "Mutex") {
				found = true
			}
			return !found
		})
		return found
	}
	for round := 0; round < 3; round++ {
		callLocks := map[string][]map[string]bool{}
		for _, ui := range units {
			if !mentions(ui.body) && round == 0 {
				// still need call sites of functions that access the field; handled below lazily
			}
			ast.Inspect(ui.body, func(n ast.Node) bool {
				if fl, ok := n.(*ast.FuncLit); ok && fl.Body != ui.body {
					return false
				}
				call, ok := n.(*ast.CallExpr)
				if !ok {
					return true
				}
				fn := Callee(ui.pk.TypesInfo, call)
				if fn == nil || fn.Pkg() == nil || !c.P.InModule(fn.Pkg().Path()) {
					return true
				}
				callee := shortCallee(strings.ReplaceAll(fn.FullName(), "", ""))
				callLocks[callee] = append(callLocks[callee], mustAtNode(ui, call.Pos()))
				return true
			})
		}
		changed := false
		for callee, sets := range callLocks {
			inter := map[string]bool{}
			for k := range sets[0] {
				inter[k] = true
			}
			for _, s := range sets[1:] {
				for k := range inter {
					if !s[k] {
						delete(inter, k)
					}
				}
			}
			if len(inter) > 0 {
				if entry[callee] == nil {
					entry[callee] = map[string]bool{}
				}
				for k := range inter {
					if !entry[callee][k] {
						entry[callee][k] = true
						changed = true
					}
				}
			}
		}
		if !changed {
			break
		}
	}
	for _, ui := range units {
		var writes = map[*ast.SelectorExpr]bool{}
		// mark writes
		ast.Inspect(ui.body, func(n ast.Node) bool {
			if fl, ok := n.(*ast.FuncLit); ok && fl.Body != ui.body {
				return false
			}
			mark := func(e ast.Expr) {
				for {
					switch x := ast.Unparen(e).(type) {
					case *ast.IndexExpr:
						e = x.X
						continue
					case *ast.SliceExpr:
						e = x.X
						continue
					case *ast.SelectorExpr:
						writes[x] = true
					}
					return
				}
			}
			switch x := n.(type) {
			case *ast.AssignStmt:
				for _, l := range x.Lhs {
					mark(l)
				}
			case *ast.IncDecStmt:
				mark(x.X)
			}
			return true
		})
		ast.Inspect(ui.body, func(n ast.Node) bool {
			if fl, ok := n.(*ast.FuncLit); ok && fl.Body != ui.body {
				return false
			}
			sel, ok := n.(*ast.SelectorExpr)
			if !ok || sel.Sel.Name != sf.Field {
				return true
			}
			s := ui.pk.TypesInfo.Selections[sel]
			if s == nil || s.Kind() != types.FieldVal {
				return true
			}
			rt := s.Recv()
			if p, ok := rt.Underlying().(*types.Pointer); ok {
				rt = p.Elem()
			}
			nn, ok := rt.(*types.Named)
			if !ok || nn.Obj().Pkg() == nil || nn.Obj().Pkg().Path()+"."+nn.Obj().Name() != sf.Type {
				return true
			}
			out = append(out, &fieldAccess{pk: ui.pk, fn: ui.name, pos: sel.Pos(), write: writes[sel], locks: mustAtNode(ui, sel.Pos())})
			return true
		})
	}
	sort.Slice(out, func(i, j int) bool { return out[i].pos < out[j].pos })
	return out
}

// R4Lockset — a shared table is only touched under one common lock.
func R4Lockset(c *Ctx, fields []sharedField, floor int) {
	const rule = "R4-lockset"
	c.R.Rule(rule, "for every shared table: the intersection of the mutexes certainly held (in the function or at every one of its call sites) over all its accesses is non-empty and, where a guard mutex is declared, contains it — otherwise two goroutines can touch the table at once", floor)
	for _, sf := range fields {
		acc := c.collectAccesses(sf)
		// accesses in constructors / literals before publication are not in selector form and thus not listed
		if len(acc) == 0 {
			c.R.Anchor(rule, "accesses to "+sf.Type+"."+sf.Field)
			continue
		}
		common := map[string]bool{}
		first := true
		nW := 0
		var unguarded []*fieldAccess
		for _, a := range acc {
			if a.write {
				nW++
			}
			if first {
				for k := range a.locks {
					common[k] = true
				}
				first = false
			} else {
				for k := range common {
					if !a.locks[k] {
						delete(common, k)
					}
				}
			}
			if sf.Guard != "" && !a.locks[sf.Guard] {
				unguarded = append(unguarded, a)
			}
		}
		short := sf.Type[strings.LastIndex(sf.Type, "/")+1:] + "." + sf.Field
		if sf.Guard != "" {
			// per-access obligations for declared guards
			for _, a := range acc {
				construct := short + " access"
				if a.write {
					construct = short + " write"
				}
				if a.locks[sf.Guard] {
					c.R.Ok(rule, a.fn, construct, c.pos(a.pos), "under "+sf.Guard, true)
				} else {
					c.R.Bad(rule, a.fn, construct, c.pos(a.pos), "the table is touched without its mutex "+sf.Guard+" (declared guard; held neither here nor at every call site of this function): concurrent callbacks, operator commands and relay goroutines race on it")
				}
			}
			continue
		}
		construct := fmt.Sprintf("%s: common lockset over %d accesses (%d writes)", short, len(acc), nW)
		key := short + ": common lockset"
		if len(common) > 0 {
			var ks []string
			for k := range common {
				ks = append(ks, k)
			}
			sort.Strings(ks)
			c.R.Ok(rule, "-", key, c.pos(acc[0].pos), construct+" = {"+strings.Join(ks, ",")+"}", true)
		} else {
			var where []string
			for i, a := range acc {
				if i < 12 {
					w := "read "
					if a.write {
						w = "write"
					}
					where = append(where, w+" at "+c.pos(a.pos)+" in "+a.fn+" holding "+setStr(a.locks))
				}
			}
			c.R.Bad(rule, "-", key, c.pos(acc[0].pos), construct+" is empty: no mutex protects the table although it is reached from several goroutines ("+sf.Why+") — data race: lost, duplicated or reordered entries", where...)
		}
	}
}

func setStr(m map[string]bool) string {
	var ks []string
	for k := range m {
		ks = append(ks, k)
	}
	sort.Strings(ks)
	return "{" + strings.Join(ks, ",") + "}"
}

var _ = ssa.BuilderMode(0)
