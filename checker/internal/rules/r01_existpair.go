package rules

import (
	"fmt"
	"go/token"
	"go/types"
	"sort"
	"strings"

	"golang.org/x/tools/go/ssa"
)

// canonExpr prints a value in a vocabulary that two sibling functions share: parameters by position, the cursor of
// a counted loop as $i, everything else structurally (operands of == and != in sorted order, variadic argument
// slices by their stored elements). Values that cannot be described get a unique name, so they never compare equal.
func canonExpr(v ssa.Value, fn *ssa.Function, depth int) string {
	if depth > 12 {
		return fmt.Sprintf("?%p", v)
	}
	rec := func(x ssa.Value) string { return canonExpr(x, fn, depth+1) }
	switch x := v.(type) {
	case *ssa.Parameter:
		for i, p := range fn.Params {
			if p == x {
				return fmt.Sprintf("$p%d", i)
			}
		}
	case *ssa.Const:
		if x.Value == nil {
			return "nil"
		}
		return x.Value.ExactString()
	case *ssa.Global:
		return x.String()
	case *ssa.FieldAddr:
		return rec(x.X) + "." + fieldName(x.X.Type(), x.Field)
	case *ssa.Field:
		return rec(x.X) + "." + fieldName(x.X.Type(), x.Field)
	case *ssa.IndexAddr:
		return rec(x.X) + "[" + rec(x.Index) + "]"
	case *ssa.Index:
		return rec(x.X) + "[" + rec(x.Index) + "]"
	case *ssa.UnOp:
		if x.Op == token.MUL {
			if al, ok := x.X.(*ssa.Alloc); ok {
				// a local copy of one value (range element spilled to a cell)
				var val ssa.Value
				n := 0
				for _, r := range *al.Referrers() {
					if st, ok := r.(*ssa.Store); ok && st.Addr == ssa.Value(al) {
						val = st.Val
						n++
					}
				}
				if n == 1 {
					return rec(val)
				}
				return fmt.Sprintf("?%p", v)
			}
			return rec(x.X)
		}
		return x.Op.String() + "(" + rec(x.X) + ")"
	case *ssa.BinOp:
		a, b := rec(x.X), rec(x.Y)
		if (x.Op == token.EQL || x.Op == token.NEQ) && a > b {
			a, b = b, a
		}
		return "(" + a + " " + x.Op.String() + " " + b + ")"
	case *ssa.Phi:
		// the cursor of a counted loop
		if len(x.Edges) == 2 {
			for _, e := range x.Edges {
				if bo, ok := e.(*ssa.BinOp); ok && bo.Op == token.ADD && bo.X == ssa.Value(x) {
					if c1, ok := ConstInt(bo.Y); ok && c1 == 1 {
						return "$i"
					}
				}
			}
		}
	case *ssa.Convert:
		return "conv<" + x.Type().String() + ">(" + rec(x.X) + ")"
	case *ssa.ChangeType:
		return rec(x.X)
	case *ssa.MakeInterface:
		return rec(x.X)
	case *ssa.Extract:
		return rec(x.Tuple) + "#" + itoa(x.Index)
	case *ssa.Slice:
		if al, ok := x.X.(*ssa.Alloc); ok && x.Low == nil && x.High == nil {
			// variadic argument array: its elements in index order
			elems := map[int64]string{}
			for _, r := range *al.Referrers() {
				ia, ok := r.(*ssa.IndexAddr)
				if !ok {
					continue
				}
				idx, isC := ConstInt(ia.Index)
				if !isC {
					return fmt.Sprintf("?%p", v)
				}
				for _, r2 := range *ia.Referrers() {
					if st, ok := r2.(*ssa.Store); ok && st.Addr == ssa.Value(ia) {
						elems[idx] = rec(st.Val)
					}
				}
			}
			var ks []int64
			for k := range elems {
				ks = append(ks, k)
			}
			sort.Slice(ks, func(i, j int) bool { return ks[i] < ks[j] })
			var parts []string
			for _, k := range ks {
				parts = append(parts, elems[k])
			}
			return "[" + strings.Join(parts, ",") + "]"
		}
	case *ssa.Call:
		var parts []string
		for _, a := range x.Call.Args {
			parts = append(parts, rec(a))
		}
		name := CalleeName(x)
		if x.Call.IsInvoke() {
			name = rec(x.Call.Value) + "." + x.Call.Method.Name()
		}
		return name + "(" + strings.Join(parts, ",") + ")"
	}
	return fmt.Sprintf("?%p", v)
}

// canonFacts: the branch conditions under which block b runs, as canonical strings.
func canonFacts(b *ssa.BasicBlock) map[string]bool {
	out := map[string]bool{}
	for _, f := range FactsAt(b) {
		cond, truth := StripNot(f.Cond, f.Truth)
		s := canonExpr(cond, b.Parent(), 0)
		if bo, ok := cond.(*ssa.BinOp); ok && bo.Op == token.NEQ {
			// a != b is !(a == b)
			s = strings.Replace(s, " != ", " == ", 1)
			truth = !truth
		}
		out[fmt.Sprintf("%s=%v", s, truth)] = true
	}
	return out
}

// R1ExistPairs — the existence tests that the nil rule accepts in place of a nil test really imply a non-nil result.
func R1ExistPairs(c *Ctx) {
	const rule = "R1-exist-pair"
	c.R.Rule(rule, "for each pair (Exist(x), Get(x)) that R1-nil uses as `Exist(x) true => Get(x) != nil`, on every type that has both: Exist returns true only under branch conditions that include all conditions under which Get returns its element (compared structurally, parameters by position), and Get has no nil result and no other exit inside its search loop — so the two searches stop at the same element", 2)
	var getters []string
	for g := range nilImplications {
		getters = append(getters, g)
	}
	sort.Strings(getters)
	for _, g := range getters {
		gname, ename := strings.TrimPrefix(g, "."), strings.TrimPrefix(nilImplications[g], ".")
		n := 0
		for fn := range c.P.AllFuncs() {
			if fn.Blocks == nil || fn.Name() != gname || fn.Signature.Recv() == nil || !c.P.InModule(FuncPkgPathOf(fn)) {
				continue
			}
			ex := c.P.SSA.LookupMethod(fn.Signature.Recv().Type(), fn.Pkg.Pkg, ename)
			if ex == nil || ex.Blocks == nil {
				continue
			}
			n++
			construct := ename + "(x) => " + gname + "(x) != nil"
			why := existImplies(ex, fn)
			if why == "" {
				c.R.Ok(rule, FuncShort(fn), construct, c.pos(fn.Pos()), "the existence test holds only under the conditions under which the getter returns its element", true)
			} else {
				c.R.Bad(rule, FuncShort(fn), construct, c.pos(ex.Pos()), why+": a caller that tested "+ename+" dereferences a nil "+gname+" result")
			}
		}
		if n == 0 {
			c.R.Anchor(rule, "a type with both "+gname+" and "+ename)
		}
	}
}

func existImplies(ex, get *ssa.Function) string {
	// Exist defined through Get
	trueBlocks := []*ssa.BasicBlock{}
	for _, b := range ex.Blocks {
		ret, ok := b.Instrs[len(b.Instrs)-1].(*ssa.Return)
		if !ok || len(ret.Results) != 1 {
			continue
		}
		if bo, ok := ret.Results[0].(*ssa.BinOp); ok && bo.Op == token.NEQ && (isNilConst(bo.X) || isNilConst(bo.Y)) {
			other := bo.X
			if isNilConst(bo.X) {
				other = bo.Y
			}
			if call, ok := other.(*ssa.Call); ok && call.Call.StaticCallee() == get {
				same := len(call.Call.Args) == len(ex.Params)
				for i := range call.Call.Args {
					if same && call.Call.Args[i] != ssa.Value(ex.Params[i]) {
						same = false
					}
				}
				if same {
					continue
				}
			}
			return "the existence test returns a comparison the rule cannot relate to the getter"
		}
		srcs, other := trueSources(ret.Results[0])
		if len(other) > 0 {
			return "the existence test returns a value that is not a constant on some path"
		}
		for _, sb := range srcs {
			if sb == nil {
				sb = b
			}
			trueBlocks = append(trueBlocks, sb)
		}
	}
	// Get: the non-nil results and where nil can come from
	loops := naturalLoops(get)
	inLoop := func(b *ssa.BasicBlock) *natLoop {
		for _, l := range loops {
			if l.body[b] {
				return l
			}
		}
		return nil
	}
	var elemFacts []map[string]bool
	for _, b := range get.Blocks {
		ret, ok := b.Instrs[len(b.Instrs)-1].(*ssa.Return)
		if !ok || len(ret.Results) == 0 {
			continue
		}
		r := ret.Results[0]
		if isNilConst(r) {
			if inLoop(b) != nil {
				return "the getter gives up with nil inside its search loop"
			}
			continue
		}
		if _, isPhi := r.(*ssa.Phi); isPhi {
			return "the getter returns a joined value the rule cannot follow"
		}
		elemFacts = append(elemFacts, canonFacts(b))
	}
	if len(elemFacts) == 0 {
		return "the getter never returns an element"
	}
	for _, l := range loops {
		for b := range l.body {
			if b == l.header {
				continue
			}
			for _, s := range b.Succs {
				if l.body[s] {
					continue
				}
				// the only way out of the loop body is returning the element found
				ret, isRet := s.Instrs[len(s.Instrs)-1].(*ssa.Return)
				if !isRet || len(ret.Results) == 0 || isNilConst(ret.Results[0]) {
					return "the getter leaves its search loop early (a break or a nil result before the collection is exhausted)"
				}
			}
		}
	}
	for _, tb := range trueBlocks {
		ef := canonFacts(tb)
		okAny := false
		var missing string
		for _, gf := range elemFacts {
			all := true
			for k := range gf {
				if !ef[k] {
					all = false
					missing = k
				}
			}
			if all {
				okAny = true
			}
		}
		if !okAny {
			return "the existence test answers true under conditions that do not include the getter's match condition " + missing
		}
	}
	return ""
}

var _ = types.Typ
