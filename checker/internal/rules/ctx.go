// Package rules holds the repository-specific rules R1..R20 and the mapping
// from properties to the rule instances that decide their structural clauses.
package rules

import (
	"go/ast"
	"go/token"
	"go/types"
	"sort"
	"strings"

	"golang.org/x/tools/go/cfg"
	"golang.org/x/tools/go/packages"
	"golang.org/x/tools/go/ssa"

	"hv/internal/core"
)

// Ctx is what every rule receives.
type Ctx struct {
	P          *core.Prog
	R          *core.Report
	Repo       string
	Verif      string
	Thorough   bool
	findIdx    map[*ssa.Function]*findIndex
	nonEmpty   map[*ssa.Parameter]int
	addrTaken  map[*ssa.Function]bool
	sliceIdx   map[*ssa.Function][3]int64
	shrinkers  map[*types.Var]map[*types.Func]bool
	boundsSeen map[string]bool

	cfgs     map[*ast.FuncDecl]*cfg.CFG
	mods     map[*ssa.Function]map[string]bool
	mapLits  map[string]int64
	nullable map[*ssa.Function]map[int]bool
	mayNilFn func(v ssa.Value, seen map[ssa.Value]bool) bool
	derefs   map[*ssa.Function]map[int]bool
}

// Package paths of the module under analysis.
const (
	PkgAgent    = "Havoc/pkg/agent"
	PkgServer   = "Havoc/cmd/server"
	PkgHandlers = "Havoc/pkg/handlers"
	PkgParser   = "Havoc/pkg/common/parser"
	PkgCommon   = "Havoc/pkg/common"
	PkgPacker   = "Havoc/pkg/common/packer"
	PkgCrypt    = "Havoc/pkg/common/crypt"
	PkgBuilder  = "Havoc/pkg/common/builder"
	PkgDB       = "Havoc/pkg/db"
	PkgService  = "Havoc/pkg/service"
	PkgSocks    = "Havoc/pkg/socks"
	PkgLogr     = "Havoc/pkg/logr"
	PkgLogger   = "Havoc/pkg/logger"
	PkgProfile  = "Havoc/pkg/profile"
	PkgEvents   = "Havoc/pkg/events"
	PkgPackager = "Havoc/pkg/packager"
	PkgWebhook  = "Havoc/pkg/webhook"
	PkgYaotl    = "Havoc/pkg/profile/yaotl"
)

// IsYaotl reports whether a package path is part of the in-tree HCL copy.
func IsYaotl(path string) bool { return path == PkgYaotl || strings.HasPrefix(path, PkgYaotl+"/") }

// NonYaotl selects the teamserver's own packages.
func NonYaotl(path string) bool { return !IsYaotl(path) }

// FuncShort gives "pkg.F" / "pkg.(*T).M" with the module prefix stripped.
func FuncShort(fn *ssa.Function) string {
	s := fn.String()
	s = strings.ReplaceAll(s, "Havoc/pkg/", "")
	s = strings.ReplaceAll(s, "Havoc/cmd/", "")
	return s
}

// DeclShort names an ast.FuncDecl in the same format as FuncShort:
// pkg.F, (*pkg.T).M or (pkg.T).M with the module prefix stripped.
func DeclShort(pk *packages.Package, fd *ast.FuncDecl) string {
	p := strings.TrimPrefix(strings.TrimPrefix(pk.PkgPath, "Havoc/pkg/"), "Havoc/cmd/")
	name := fd.Name.Name
	if fd.Recv != nil && len(fd.Recv.List) > 0 {
		t := fd.Recv.List[0].Type
		star := ""
		if s, ok := t.(*ast.StarExpr); ok {
			t = s.X
			star = "*"
		}
		if id, ok := t.(*ast.Ident); ok {
			return "(" + star + p + "." + id.Name + ")." + name
		}
	}
	return p + "." + name
}

// CFG returns (and caches) the go/cfg graph of a function declaration.
func (c *Ctx) CFG(pk *packages.Package, fd *ast.FuncDecl) *cfg.CFG {
	if c.cfgs == nil {
		c.cfgs = map[*ast.FuncDecl]*cfg.CFG{}
	}
	if g, ok := c.cfgs[fd]; ok {
		return g
	}
	g := cfg.New(fd.Body, func(call *ast.CallExpr) bool { return mayReturn(pk, call) })
	c.cfgs[fd] = g
	return g
}

func mayReturn(pk *packages.Package, call *ast.CallExpr) bool {
	switch f := call.Fun.(type) {
	case *ast.Ident:
		if f.Name == "panic" {
			if _, ok := pk.TypesInfo.Uses[f].(*types.Builtin); ok {
				return false
			}
		}
	case *ast.SelectorExpr:
		if obj, ok := pk.TypesInfo.Uses[f.Sel].(*types.Func); ok && obj.Pkg() != nil {
			full := obj.Pkg().Path() + "." + obj.Name()
			switch full {
			case "os.Exit", "log.Fatal", "log.Fatalf", "log.Fatalln", "log.Panic", "log.Panicf", "log.Panicln":
				return false
			}
		}
	}
	return true
}

// EachFuncDecl visits every function declaration with a body in module
// packages accepted by filter, in deterministic order.
func (c *Ctx) EachFuncDecl(filter func(string) bool, f func(pk *packages.Package, fd *ast.FuncDecl)) {
	var paths []string
	for path := range c.P.ByPath {
		if c.P.InModule(path) && (filter == nil || filter(path)) {
			paths = append(paths, path)
		}
	}
	sort.Strings(paths)
	for _, path := range paths {
		pk := c.P.ByPath[path]
		for _, file := range pk.Syntax {
			for _, d := range file.Decls {
				if fd, ok := d.(*ast.FuncDecl); ok && fd.Body != nil {
					f(pk, fd)
				}
			}
		}
	}
}

// ExprStr prints an expression compactly.
func ExprStr(e ast.Expr) string { return types.ExprString(e) }

// Callee resolves the static callee object of a call expression (function or
// method), or nil for dynamic calls, conversions and builtins.
func Callee(info *types.Info, call *ast.CallExpr) *types.Func {
	var id *ast.Ident
	switch f := ast.Unparen(call.Fun).(type) {
	case *ast.Ident:
		id = f
	case *ast.SelectorExpr:
		id = f.Sel
	case *ast.IndexExpr:
		switch g := f.X.(type) {
		case *ast.Ident:
			id = g
		case *ast.SelectorExpr:
			id = g.Sel
		}
	}
	if id == nil {
		return nil
	}
	if fn, ok := info.Uses[id].(*types.Func); ok {
		return fn
	}
	return nil
}

// FullName gives pkgpath.Name or pkgpath.(T).Name for a function object.
func FullName(fn *types.Func) string {
	if fn == nil {
		return ""
	}
	sig, _ := fn.Type().(*types.Signature)
	if sig != nil && sig.Recv() != nil {
		t := sig.Recv().Type()
		if p, ok := t.(*types.Pointer); ok {
			t = p.Elem()
		}
		if n, ok := t.(*types.Named); ok {
			pkg := ""
			if n.Obj().Pkg() != nil {
				pkg = n.Obj().Pkg().Path() + "."
			}
			return pkg + n.Obj().Name() + "." + fn.Name()
		}
		if _, ok := t.Underlying().(*types.Interface); ok {
			return "interface." + fn.Name()
		}
	}
	if fn.Pkg() != nil {
		return fn.Pkg().Path() + "." + fn.Name()
	}
	return fn.Name()
}

// IsBuiltin reports whether call is a call of the named builtin.
func IsBuiltin(info *types.Info, call *ast.CallExpr, name string) bool {
	id, ok := ast.Unparen(call.Fun).(*ast.Ident)
	if !ok || id.Name != name {
		return false
	}
	_, ok = info.Uses[id].(*types.Builtin)
	return ok
}

// blockOf finds the CFG block and node index that contains pos.
func blockOf(g *cfg.CFG, n ast.Node) (*cfg.Block, int) {
	for _, b := range g.Blocks {
		for i, nd := range b.Nodes {
			if nd.Pos() <= n.Pos() && n.End() <= nd.End() {
				return b, i
			}
		}
	}
	return nil, -1
}

// posLine renders a token position compactly.
func (c *Ctx) pos(p token.Pos) string { return c.P.Pos(p) }
