package rules

import (
	"go/ast"
	"go/constant"
	"go/token"
	"go/types"
	"strings"

	"golang.org/x/tools/go/ssa"

	"hv/internal/core"
)

// linksStore describes a store to some agent's Pivots.Links.
type linksStore struct {
	fn     *ssa.Function
	st     *ssa.Store
	owner  ssa.Value // the *Agent whose Pivots.Links is written
	grow   bool      // append(Links, L)
	shrink bool      // append(Links[:i], Links[i+1:]...) / nil / re-slice
	elem   ssa.Value // the appended element (grow)
}

// linksOwner: addr is &X.Pivots.Links -> X.
func linksOwner(addr ssa.Value) (ssa.Value, bool) {
	t, f, base, ok := FieldOf(addr)
	if !ok || t != PkgAgent+".Pivots" || f != "Links" {
		return nil, false
	}
	_, f2, owner, ok := FieldOf(base)
	if !ok || f2 != "Pivots" {
		return nil, false
	}
	return owner, true
}

func (c *Ctx) findLinksStores() []*linksStore {
	var out []*linksStore
	for _, fn := range c.P.ModuleFuncs(NonYaotl) {
		for _, b := range fn.Blocks {
			for _, in := range b.Instrs {
				st, ok := in.(*ssa.Store)
				if !ok {
					continue
				}
				owner, ok := linksOwner(st.Addr)
				if !ok {
					continue
				}
				ls := &linksStore{fn: fn, st: st, owner: owner}
				switch v := st.Val.(type) {
				case *ssa.Call:
					if CalleeName(v) == "builtin.append" {
						if _, isSlice := v.Call.Args[0].(*ssa.Slice); isSlice {
							ls.shrink = true
						} else {
							ls.grow = true
							// the single appended element
							if sl, ok := v.Call.Args[1].(*ssa.Slice); ok {
								if al, ok := sl.X.(*ssa.Alloc); ok {
									for _, r := range *al.Referrers() {
										if ia, ok := r.(*ssa.IndexAddr); ok {
											for _, r2 := range *ia.Referrers() {
												if s2, ok := r2.(*ssa.Store); ok && s2.Addr == ssa.Value(ia) {
													ls.elem = s2.Val
												}
											}
										}
									}
								}
							}
						}
					}
				case *ssa.Const:
					ls.shrink = true
				case *ssa.Slice:
					ls.shrink = true
				}
				out = append(out, ls)
			}
		}
	}
	return out
}

func sameAgent(a, b ssa.Value) bool {
	if a == b {
		return true
	}
	if pa, pb := ParamOf(a), ParamOf(b); pa != nil && pa == pb {
		return true
	}
	return AccessPath(a) == AccessPath(b) && AccessPath(a) != ""
}

// R9Pivot — the pivot graph is updated consistently and mirrored in the database.
func R9Pivot(c *Ctx) {
	const rule = "R9-pivot-paired-update"
	c.R.Rule(rule, "every append of L to P.Pivots.Links is accompanied (same straight-line region) by L.Pivots.Parent = P and LinkAdd(P, L); every removal from P.Pivots.Links outside LinkRemove is accompanied by LinkRemove(P, …); LinkRemove clears the child's Parent and always reaches DB.LinkRemove; LinkAdd always reaches DB.LinkAdd", 4)
	stores := c.findLinksStores()
	if len(stores) < 3 {
		c.R.Anchor(rule, "stores to agent.Pivots.Links (found "+itoa(len(stores))+")")
	}
	related := func(a, b ssa.Instruction) bool { return InstrDominates(a, b) || InstrDominates(b, a) }
	for _, ls := range stores {
		fname := FuncShort(ls.fn)
		// restore at start-up reads the database: pairing is the database's
		isRestore := fname == "(*server.Teamserver).Start"
		switch {
		case ls.grow:
			construct := AccessPath(ls.owner) + ".Pivots.Links = append(…, " + AccessPath(ls.elem) + ")"
			if isRestore {
				// the restore sets Parent from ParentOf and Links from LinksOf of the same table
				c.R.Ok(rule, fname, construct, c.pos(ls.st.Pos()), "restore from the link table (both directions read from TS_Links)", false)
				continue
			}
			parentSet, linkAdd := false, false
			for _, b := range ls.fn.Blocks {
				for _, in := range b.Instrs {
					switch x := in.(type) {
					case *ssa.Store:
						if t, f, base, ok := FieldOf(x.Addr); ok && t == PkgAgent+".Pivots" && f == "Parent" {
							if _, f2, child, ok := FieldOf(base); ok && f2 == "Pivots" && ls.elem != nil && sameAgent(child, ls.elem) && sameAgent(x.Val, ls.owner) && related(x, ls.st) {
								parentSet = true
							}
						}
					case ssa.CallInstruction:
						if strings.HasSuffix(CalleeName(x), ".LinkAdd") {
							args := CallArgs(x)
							if len(args) == 2 && sameAgent(args[0], ls.owner) && ls.elem != nil && sameAgent(args[1], ls.elem) && related(x, ls.st) {
								linkAdd = true
							}
						}
					}
				}
			}
			var miss []string
			if !parentSet {
				miss = append(miss, "the child's Pivots.Parent is not set to this parent")
			}
			if !linkAdd {
				miss = append(miss, "LinkAdd(parent, child) is not called (the link table misses the row)")
			}
			if len(miss) == 0 {
				c.R.Ok(rule, fname, construct, c.pos(ls.st.Pos()), "paired with child.Pivots.Parent = parent and LinkAdd(parent, child)", true)
			} else {
				c.R.Bad(rule, fname, construct, c.pos(ls.st.Pos()), "a link is added on one side only: "+strings.Join(miss, "; "))
			}
		case ls.shrink:
			construct := AccessPath(ls.owner) + ".Pivots.Links = <removal>"
			if fname == "(*server.Teamserver).LinkRemove" {
				c.R.Ok(rule, fname, construct, c.pos(ls.st.Pos()), "the removal primitive itself (checked below)", false)
				continue
			}
			ok := false
			EachCall(ls.fn, func(call ssa.CallInstruction) {
				if strings.HasSuffix(CalleeName(call), ".LinkRemove") {
					args := CallArgs(call)
					if len(args) == 3 && sameAgent(args[0], ls.owner) {
						ok = true
					}
				}
			})
			if !ok {
				// a splice helper: the owner is its parameter, and the pairing is the business of every call site —
				// inside LinkRemove, or next to a LinkRemove call for the agent passed as owner
				if prm := ParamOf(ls.owner); prm != nil && prm.Parent() == ls.fn {
					idx := -1
					for i, q := range ls.fn.Params {
						if q == prm {
							idx = i
						}
					}
					ok = idx >= 0 && c.EveryCallSite(ls.fn, func(site ssa.CallInstruction) bool {
						caller := site.Parent()
						if FuncShort(caller) == "(*server.Teamserver).LinkRemove" {
							return true
						}
						if idx >= len(site.Common().Args) {
							return false
						}
						owner := site.Common().Args[idx]
						paired := false
						EachCall(caller, func(call ssa.CallInstruction) {
							if strings.HasSuffix(CalleeName(call), ".LinkRemove") {
								args := CallArgs(call)
								if len(args) == 3 && sameAgent(args[0], owner) {
									paired = true
								}
							}
						})
						return paired
					})
				}
			}
			if ok {
				c.R.Ok(rule, fname, construct, c.pos(ls.st.Pos()), "accompanied by LinkRemove for the same parent (table row and child's Parent updated)", true)
			} else {
				c.R.Bad(rule, fname, construct, c.pos(ls.st.Pos()), "a child is spliced out of a parent's links without LinkRemove: the link table keeps the row and the child keeps naming the parent")
			}
		default:
			c.R.Und(rule, fname, AccessPath(ls.owner)+".Pivots.Links = "+AccessPath(ls.st.Val), c.pos(ls.st.Pos()), "unrecognised update of a link list")
		}
	}
	// LinkRemove / LinkAdd primitives
	lr := c.P.Func(PkgServer, "Teamserver.LinkRemove")
	la := c.P.Func(PkgServer, "Teamserver.LinkAdd")
	if lr == nil || la == nil {
		c.R.Anchor(rule, "server.(*Teamserver).LinkRemove / LinkAdd")
		return
	}
	mustCall := func(fn *ssa.Function, callee string) bool {
		var call ssa.CallInstruction
		EachCall(fn, func(ci ssa.CallInstruction) {
			if CalleeName(ci) == callee {
				call = ci
			}
		})
		if call == nil {
			return false
		}
		for _, b := range fn.Blocks {
			if len(b.Instrs) > 0 {
				if _, isRet := b.Instrs[len(b.Instrs)-1].(*ssa.Return); isRet && !(call.Block() == b || call.Block().Dominates(b)) {
					return false
				}
			}
		}
		// arguments derive from the two agents' ids
		return true
	}
	if mustCall(lr, "(*Havoc/pkg/db.DB).LinkRemove") {
		c.R.Ok(rule, FuncShort(lr), "t.DB.LinkRemove(parent, child)", c.pos(lr.Pos()), "reached on every path", true)
	} else {
		c.R.Bad(rule, FuncShort(lr), "t.DB.LinkRemove(parent, child)", c.pos(lr.Pos()), "LinkRemove has a path that leaves the row in the link table")
	}
	if mustCall(la, "(*Havoc/pkg/db.DB).LinkAdd") {
		c.R.Ok(rule, FuncShort(la), "t.DB.LinkAdd(parent, child)", c.pos(la.Pos()), "reached on every path", true)
	} else {
		c.R.Bad(rule, FuncShort(la), "t.DB.LinkAdd(parent, child)", c.pos(la.Pos()), "LinkAdd has a path that does not insert the row")
	}
	// Died detaches everything on every path
	if died := c.P.Func(PkgServer, "Teamserver.Died"); died == nil {
		c.R.Anchor(rule, "server.(*Teamserver).Died")
	} else {
		for _, callee := range []string{"(*Havoc/cmd/server.Teamserver).UnlinkFromAll", "(*Havoc/cmd/server.Teamserver).AgentUpdate"} {
			if mustCall(died, callee) {
				c.R.Ok(rule, FuncShort(died), "call "+shortCallee(callee), c.pos(died.Pos()), "reached on every path of Died", true)
			} else {
				c.R.Bad(rule, FuncShort(died), "call "+shortCallee(callee), c.pos(died.Pos()), "Died has a path that skips it: an agent that dies keeps its links (in memory and in the link table)")
			}
		}
	}
	// the link-table statements key on both columns
	if pk := c.P.ByPath[PkgDB]; pk != nil {
		for _, f := range pk.Syntax {
			for _, d := range f.Decls {
				fd, ok := d.(*ast.FuncDecl)
				if !ok || fd.Body == nil || (fd.Name.Name != "LinkRemove" && fd.Name.Name != "LinkExist") {
					continue
				}
				ast.Inspect(fd.Body, func(n ast.Node) bool {
					call, ok := n.(*ast.CallExpr)
					if !ok || len(call.Args) == 0 {
						return true
					}
					tv, ok := pk.TypesInfo.Types[call.Args[0]]
					if !ok || tv.Value == nil || tv.Value.Kind() != constant.String {
						return true
					}
					st := parseSQL(constant.StringVal(tv.Value))
					if st == nil || st.Table != "TS_Links" {
						return true
					}
					has := map[string]bool{}
					for _, w := range st.Where {
						has[w] = true
					}
					construct := strings.ToUpper(st.Kind) + " TS_Links WHERE " + st.WhereTx
					if has["ParentAgentID"] && has["LinkAgentID"] && len(st.Where) == 2 && strings.Contains(strings.ToUpper(st.WhereTx), " AND ") {
						c.R.Ok(rule, DeclShort(pk, fd), construct, c.pos(call.Pos()), "a link row is identified by (parent, child)", true)
					} else {
						c.R.Bad(rule, DeclShort(pk, fd), construct, c.pos(call.Pos()), "the statement does not key on both ParentAgentID and LinkAgentID: removing/looking up one link touches the rows of other parents or children")
					}
					return true
				})
			}
		}
	}
	// LinkRemove clears the child's Parent (when it is this parent) on every path
	cleared := false
	for _, b := range lr.Blocks {
		for _, in := range b.Instrs {
			st, ok := in.(*ssa.Store)
			if !ok {
				continue
			}
			if t, f, base, ok := FieldOf(st.Addr); ok && t == PkgAgent+".Pivots" && f == "Parent" && isNilConst(st.Val) {
				if _, f2, child, ok := FieldOf(base); ok && f2 == "Pivots" && IsParam(child, lr.Params[2]) {
					// allowed guard: only `child.Pivots.Parent == ParentAgent`
					guardOK := true
					for _, fct := range FactsAt(b) {
						bo, isBin := fct.Cond.(*ssa.BinOp)
						if !isBin {
							guardOK = false
							continue
						}
						isParentCmp := (DerivesFrom(bo.X, IsFieldLoad(PkgAgent+".Pivots", "Parent")) && IsParam(bo.Y, lr.Params[1])) || (DerivesFrom(bo.Y, IsFieldLoad(PkgAgent+".Pivots", "Parent")) && IsParam(bo.X, lr.Params[1]))
						if !(isParentCmp && bo.Op == token.EQL && fct.Truth) {
							guardOK = false
						}
					}
					if guardOK {
						cleared = true
					}
				}
			}
		}
	}
	if cleared {
		c.R.Ok(rule, FuncShort(lr), "LinkAgent.Pivots.Parent = nil", c.pos(lr.Pos()), "the unlinked child stops naming the parent", true)
	} else {
		c.R.Bad(rule, FuncShort(lr), "LinkAgent.Pivots.Parent = nil", c.pos(lr.Pos()), "LinkRemove does not clear the child's parent pointer: the child names a parent that no longer lists it")
	}
}

// R9CycleGuard — a reconnect cannot create a cycle.
func R9CycleGuard(c *Ctx) {
	const rule = "R9-cycle-guard"
	c.R.Rule(rule, "in TaskDispatch the append of an existing agent (AgentInstance of the packet's id) to the sender's links is dominated by the negative outcome of an ancestor walk: a loop over .Pivots.Parent starting at the sender that compares each ancestor with that agent", 1)
	td := c.P.Func(PkgAgent, "Agent.TaskDispatch")
	if td == nil {
		c.R.Anchor(rule, "agent.(*Agent).TaskDispatch")
		return
	}
	n := 0
	for _, ls := range c.findLinksStores() {
		if ls.fn != td || !ls.grow || ls.elem == nil {
			continue
		}
		// only the reconnect branch: the element comes from AgentInstance
		fromInstance := DerivesFrom(ls.elem, func(v ssa.Value) bool {
			cl, ok := v.(*ssa.Call)
			return ok && strings.HasSuffix(CalleeName(cl), ".AgentInstance")
		})
		fromParse := DerivesFrom(ls.elem, func(v ssa.Value) bool {
			cl, ok := v.(*ssa.Call)
			return ok && CalleeName(cl) == "Havoc/pkg/agent.ParseDemonRegisterRequest"
		})
		if !fromInstance || (fromParse && !fromInstance) {
			continue
		}
		// phi elements (DemonInfo merged from both branches) are handled by looking at the store's block facts
		n++
		guarded := false
		sameElem := func(el ssa.Value) bool {
			return el == ls.elem || DerivesFrom(ls.elem, func(v ssa.Value) bool { return v == el }) || DerivesFrom(el, func(v ssa.Value) bool { return v == ls.elem })
		}
		for _, f := range FactsAt(ls.st.Block()) {
			if f.Truth {
				continue
			}
			switch cond := f.Cond.(type) {
			case *ssa.Phi:
				// a boolean flag (phi of constants) that is false here and becomes true only under `ancestor == elem`
				srcs, other := trueSources(cond)
				if len(other) > 0 || len(srcs) == 0 {
					continue
				}
				all := true
				for _, sb := range srcs {
					if sb == nil || !ancestorCompareAt(sb, func(v ssa.Value) bool { return IsParam(v, td.Params[0]) }, sameElem) {
						all = false
					}
				}
				if all {
					guarded = true
				}
			case *ssa.Call:
				// the walk extracted into a helper: helper(start, elem) is true exactly when the walk from start meets elem
				h := cond.Call.StaticCallee()
				if h == nil || h.Blocks == nil || len(cond.Call.Args) != len(h.Params) {
					continue
				}
				si, ei, ok := ancestorWalkSummary(h)
				if ok && IsParam(cond.Call.Args[si], td.Params[0]) && sameElem(cond.Call.Args[ei]) {
					guarded = true
				}
			}
		}
		construct := "a.Pivots.Links = append(…, AgentInstance(<packet id>))"
		if guarded {
			c.R.Ok(rule, FuncShort(td), construct, c.pos(ls.st.Pos()), "dominated by the negative outcome of the ancestor walk from the sender", true)
		} else {
			c.R.Bad(rule, FuncShort(td), construct, c.pos(ls.st.Pos()), "an agent named by the packet is linked below the sender without checking that it is not the sender itself or one of its ancestors: the pivot graph gets a cycle and the parent-chain walk in PivotAddJob never ends")
		}
	}
	if n == 0 {
		c.R.Anchor(rule, "the reconnect append of an AgentInstance result to a.Pivots.Links")
	}
	_ = core.Discharged
}

// R9MoveUnlinks — re-linking an existing agent first removes its old link.
func R9MoveUnlinks(c *Ctx) {
	const rule = "R9-move-unlinks"
	c.R.Rule(rule, "where TaskDispatch appends an existing agent (AgentInstance of the packet's id) to the sender's links, every path to that append on which the agent still had a parent passes teamserver.LinkRemove(<that agent>.Pivots.Parent, <that agent>, true): the only way around the LinkRemove call is the edge on which Pivots.Parent == nil — otherwise the child stays listed under its old parent (or twice under the same one)", 1)
	td := c.P.Func(PkgAgent, "Agent.TaskDispatch")
	if td == nil {
		c.R.Anchor(rule, "agent.(*Agent).TaskDispatch")
		return
	}
	n := 0
	for _, ls := range c.findLinksStores() {
		if ls.fn != td || !ls.grow || ls.elem == nil {
			continue
		}
		var inst *ssa.Call
		DerivesFrom(ls.elem, func(v ssa.Value) bool {
			cl, ok := v.(*ssa.Call)
			if ok && strings.HasSuffix(CalleeName(cl), ".AgentInstance") {
				inst = cl
				return true
			}
			return false
		})
		if inst == nil {
			continue
		}
		n++
		// cut: blocks with LinkRemove(elem.Pivots.Parent, elem, true); edges on which elem.Pivots.Parent == nil
		cutBlock := map[*ssa.BasicBlock]bool{}
		cutEdge := map[[2]*ssa.BasicBlock]bool{}
		for _, b := range td.Blocks {
			for _, in := range b.Instrs {
				if call, ok := in.(ssa.CallInstruction); ok && strings.HasSuffix(CalleeName(call), ".LinkRemove") {
					args := CallArgs(call)
					if len(args) == 3 && isBoolConst(args[2], true) &&
						DerivesFrom(args[1], func(v ssa.Value) bool { return v == ssa.Value(inst) }) &&
						DerivesFrom(args[0], IsFieldLoad(PkgAgent+".Pivots", "Parent")) && DerivesFrom(args[0], func(v ssa.Value) bool { return v == ssa.Value(inst) }) {
						cutBlock[b] = true
					}
				}
			}
			if len(b.Instrs) == 0 {
				continue
			}
			iff, ok := b.Instrs[len(b.Instrs)-1].(*ssa.If)
			if !ok {
				continue
			}
			bo, ok := iff.Cond.(*ssa.BinOp)
			if !ok || !(isNilConst(bo.X) || isNilConst(bo.Y)) {
				continue
			}
			v := bo.X
			if isNilConst(bo.X) {
				v = bo.Y
			}
			if DerivesFrom(v, IsFieldLoad(PkgAgent+".Pivots", "Parent")) && DerivesFrom(v, func(x ssa.Value) bool { return x == ssa.Value(inst) }) {
				// the edge on which the parent is nil
				if bo.Op == token.NEQ {
					cutEdge[[2]*ssa.BasicBlock{b, b.Succs[1]}] = true
				} else if bo.Op == token.EQL {
					cutEdge[[2]*ssa.BasicBlock{b, b.Succs[0]}] = true
				}
			}
		}
		// reach the append from the AgentInstance call without passing a cut
		seen := map[*ssa.BasicBlock]bool{}
		reached := false
		var walk func(b *ssa.BasicBlock)
		walk = func(b *ssa.BasicBlock) {
			if seen[b] || reached {
				return
			}
			seen[b] = true
			if b == ls.st.Block() {
				reached = true
				return
			}
			if cutBlock[b] {
				return
			}
			for _, s := range b.Succs {
				if cutEdge[[2]*ssa.BasicBlock{b, s}] {
					continue
				}
				walk(s)
			}
		}
		if inst.Block() == ls.st.Block() {
			reached = !cutBlock[inst.Block()]
		} else {
			walk(inst.Block())
		}
		construct := "re-link of an existing agent drops its old link first"
		if !reached && len(cutBlock) > 0 {
			c.R.Ok(rule, FuncShort(td), construct, c.pos(ls.st.Pos()), "every path to the append with a non-nil old parent passes LinkRemove(old parent, child, true)", true)
		} else {
			c.R.Bad(rule, FuncShort(td), construct, c.pos(ls.st.Pos()), "the append can be reached with the agent still linked under a parent and without LinkRemove(old parent, child, true): the child is then listed under two parents, or twice under the same one, and a later disconnect leaves a stale entry")
		}
	}
	if n == 0 {
		c.R.Anchor(rule, "the reconnect append of an AgentInstance result to a.Pivots.Links")
	}
}

// ancestorCompareAt: block sb is reached only under `anc == el` where anc is the cursor of an ancestor walk (a phi
// that starts at a value accepted by isStart and steps through .Pivots.Parent) and el is accepted by isElem; inside
// the walk nothing but the loop condition (anc != nil) and this comparison conditions sb.
func ancestorCompareAt(sb *ssa.BasicBlock, isStart, isElem func(ssa.Value) bool) bool {
	facts := FactsAt(sb)
	for _, f2 := range facts {
		bo, isBin := f2.Cond.(*ssa.BinOp)
		if !isBin || bo.Op != token.EQL || !f2.Truth {
			continue
		}
		for _, pair := range [][2]ssa.Value{{bo.X, bo.Y}, {bo.Y, bo.X}} {
			anc, el := pair[0], pair[1]
			aph, isPhi := anc.(*ssa.Phi)
			if !isPhi || !isElem(el) {
				continue
			}
			startsAtRecv, stepsParent, otherStart := false, false, false
			for _, e := range aph.Edges {
				switch {
				case isStart(e):
					startsAtRecv = true
				case DerivesFrom(e, IsFieldLoad(PkgAgent+".Pivots", "Parent")) && DerivesFrom(e, func(v ssa.Value) bool { return v == ssa.Value(aph) }):
					stepsParent = true
				default:
					otherStart = true
				}
			}
			if !startsAtRecv || !stepsParent || otherStart {
				continue
			}
			clean := true
			for _, f3 := range facts {
				if !aph.Block().Dominates(f3.If.Block()) || f3.If == f2.If {
					continue
				}
				b3, isBin3 := f3.Cond.(*ssa.BinOp)
				if isBin3 && (b3.X == ssa.Value(aph) || b3.Y == ssa.Value(aph)) && (isNilConst(b3.X) || isNilConst(b3.Y)) {
					continue
				}
				clean = false
			}
			if clean {
				return true
			}
		}
	}
	return false
}

// ancestorWalkSummary: h is a boolean helper whose result is true only where an ancestor walk that starts at its
// parameter `start` meets its parameter `elem`, and false only after the walk ran off the top (cursor == nil).
func ancestorWalkSummary(h *ssa.Function) (start, elem int, ok bool) {
	if h.Signature.Results().Len() != 1 || !isBoolType(h.Signature.Results().At(0).Type()) {
		return 0, 0, false
	}
	for si, sp := range h.Params {
		for ei, ep := range h.Params {
			if si == ei {
				continue
			}
			isStart := func(v ssa.Value) bool { return IsParam(v, sp) }
			isElem := func(v ssa.Value) bool { return IsParam(v, ep) }
			good, nTrue := true, 0
			for _, b := range h.Blocks {
				ret, isRet := b.Instrs[len(b.Instrs)-1].(*ssa.Return)
				if !isRet || len(ret.Results) != 1 {
					continue
				}
				srcs, other := trueSources(ret.Results[0])
				if len(other) > 0 {
					good = false
					break
				}
				for _, sb := range srcs {
					if sb == nil {
						sb = b
					}
					nTrue++
					if !ancestorCompareAt(sb, isStart, isElem) {
						good = false
					}
				}
				// a false result: only once the cursor is nil (not an early give-up inside the walk)
				if isBoolConst(ret.Results[0], false) {
					ended := false
					for _, f := range FactsAt(b) {
						bo, isBin := f.Cond.(*ssa.BinOp)
						if !isBin {
							continue
						}
						if _, isPhi := bo.X.(*ssa.Phi); !isPhi {
							if _, isPhi2 := bo.Y.(*ssa.Phi); !isPhi2 {
								continue
							}
						}
						if (isNilConst(bo.X) || isNilConst(bo.Y)) && ((bo.Op == token.NEQ && !f.Truth) || (bo.Op == token.EQL && f.Truth)) {
							ended = true
						}
					}
					if !ended {
						good = false
					}
				}
			}
			if good && nTrue > 0 {
				return si, ei, true
			}
		}
	}
	return 0, 0, false
}

func isBoolType(t types.Type) bool {
	b, ok := t.Underlying().(*types.Basic)
	return ok && b.Info()&types.IsBoolean != 0
}

// R9UnlinkTarget — the agent unlinked on a callback is the one the callback names.
func R9UnlinkTarget(c *Ctx) {
	const rule = "R9-unlink-target"
	c.R.Rule(rule, "every teamserver.LinkRemove(parent, child, …) in TaskDispatch takes as child an AgentInstance(id) whose id was parsed out of the callback being handled (Parser.Parse*, or the header parsed from it), never the receiving agent's own id: a disconnect report would otherwise detach (and deactivate) the reporting parent and leave the child routed through it", 1)
	td := c.P.Func(PkgAgent, "Agent.TaskDispatch")
	if td == nil {
		c.R.Anchor(rule, "agent.(*Agent).TaskDispatch")
		return
	}
	n := 0
	for _, fn := range HelperClosure(td, 1) {
		EachCall(fn, func(call ssa.CallInstruction) {
			if !strings.HasSuffix(CalleeName(call), ".LinkRemove") {
				return
			}
			args := CallArgs(call)
			if len(args) < 2 {
				return
			}
			n++
			child := args[1]
			construct := "LinkRemove(…, AgentInstance(<id from the callback>), …)"
			var inst *ssa.Call
			DerivesFromNarrowCalls(child, func(v ssa.Value) bool {
				if cl, ok := v.(*ssa.Call); ok && strings.HasSuffix(CalleeName(cl), ".AgentInstance") {
					inst = cl
					return true
				}
				return false
			})
			if inst == nil {
				c.R.Bad(rule, FuncShort(fn), construct, c.pos(call.Pos()), "the agent that is unlinked is not looked up by an id (AgentInstance)")
				return
			}
			ids := CallArgs(inst)
			fromPacket := len(ids) == 1 && DerivesFrom(ids[0], func(v ssa.Value) bool {
				cl, ok := v.(*ssa.Call)
				if !ok {
					return false
				}
				nm := CalleeName(cl)
				return strings.HasPrefix(nm, "(*Havoc/pkg/common/parser.Parser).Parse") || strings.HasSuffix(nm, ".ParseHeader")
			})
			fromSelf := len(ids) == 1 && DerivesFrom(ids[0], IsFieldLoad(PkgAgent+".Agent", "NameID"))
			if fromPacket && !fromSelf {
				c.R.Ok(rule, FuncShort(fn), construct, c.pos(call.Pos()), "the id comes out of the callback", true)
			} else {
				c.R.Bad(rule, FuncShort(fn), construct, c.pos(call.Pos()), "the id looked up for the unlink does not come out of the callback (it is the receiving agent's own id, or a value not parsed from the packet): the wrong agent is detached")
			}
		})
	}
	if n == 0 {
		c.R.Anchor(rule, "a teamserver.LinkRemove call in TaskDispatch")
	}
}

// R9ParentAfterUnlink — the new parent is recorded after the old link is gone.
func R9ParentAfterUnlink(c *Ctx) {
	const rule = "R9-parent-after-unlink"
	c.R.Rule(rule, "in TaskDispatch no teamserver.LinkRemove(…, X, …) can run after X.Pivots.Parent was set to a new parent: LinkRemove clears the child's parent pointer when it equals the parent being removed (R9-pivot-paired-update), so on a reconnect through the same parent the pointer just written would be wiped while the child is listed again", 1)
	td := c.P.Func(PkgAgent, "Agent.TaskDispatch")
	if td == nil {
		c.R.Anchor(rule, "agent.(*Agent).TaskDispatch")
		return
	}
	n := 0
	for _, fn := range HelperClosure(td, 1) {
		var removes []ssa.CallInstruction
		EachCall(fn, func(call ssa.CallInstruction) {
			if strings.HasSuffix(CalleeName(call), ".LinkRemove") && len(CallArgs(call)) >= 2 {
				removes = append(removes, call)
			}
		})
		for _, b := range fn.Blocks {
			for _, in := range b.Instrs {
				st, ok := in.(*ssa.Store)
				if !ok || isNilConst(st.Val) {
					continue
				}
				t, f, base, ok := FieldOf(st.Addr)
				if !ok || t != PkgAgent+".Pivots" || f != "Parent" {
					continue
				}
				// base is &X.Pivots
				_, _, owner, ok := FieldOf(base)
				if !ok {
					continue
				}
				n++
				construct := "X.Pivots.Parent = <new parent> after the unlink of X"
				bad := ""
				for _, rm := range removes {
					child := CallArgs(rm)[1]
					if AccessPath(child) != AccessPath(owner) && child != owner {
						continue
					}
					rin := rm.(ssa.Instruction)
					after := false
					if rin.Block() == st.Block() {
						after = InstrBlockIndex(rin) > InstrBlockIndex(st)
					} else {
						after = BlockReaches(st.Block(), rin.Block(), nil)
					}
					if after {
						bad = c.pos(rm.Pos())
					}
				}
				if bad == "" {
					c.R.Ok(rule, FuncShort(fn), construct, c.pos(st.Pos()), "no unlink of that agent can follow the assignment", true)
				} else {
					c.R.Bad(rule, FuncShort(fn), construct, bad, "a LinkRemove of the same agent can run after its new parent was recorded: when old and new parent are the same agent the call resets the pointer to nil, leaving a child that is listed by a parent it does not point to")
				}
			}
		}
	}
	if n == 0 {
		c.R.Anchor(rule, "a store to <agent>.Pivots.Parent in TaskDispatch")
	}
}

// R9DeadDetaches — an agent that is marked dead leaves the pivot graph.
func R9DeadDetaches(c *Ctx) {
	const rule = "R9-dead-detaches"
	c.R.Rule(rule, "in cmd/server every store of the constant false to Agent.Active outside Died/LinkRemove is inside a function that reaches UnlinkFromAll for that path (Died does), and the operator's Session.MarkAsDead handler in DispatchEvent calls Died under Marked == \"Dead\": marking an agent dead without detaching it leaves it listed under its parent, keeps its children pointing at it and keeps its link rows", 1)
	de := c.P.Func(PkgServer, "Teamserver.DispatchEvent")
	if de == nil {
		c.R.Anchor(rule, "server.(*Teamserver).DispatchEvent")
		return
	}
	// the handler: a comparison of Info["Marked"] with "Dead" whose true edge reaches Died
	n := 0
	for _, fn := range HelperClosure(de, 1) {
		for _, b := range fn.Blocks {
			iff, ok := b.Instrs[len(b.Instrs)-1].(*ssa.If)
			if !ok {
				continue
			}
			bo, ok := iff.Cond.(*ssa.BinOp)
			if !ok || bo.Op != token.EQL {
				continue
			}
			isDead := false
			for _, side := range []ssa.Value{bo.X, bo.Y} {
				if s, isC := ConstString(side); isC && s == "Dead" {
					isDead = true
				}
				if mi, isMI := side.(*ssa.MakeInterface); isMI {
					if s, isC := ConstString(mi.X); isC && s == "Dead" {
						isDead = true
					}
				}
			}
			if !isDead {
				continue
			}
			n++
			construct := "Marked == \"Dead\" → Died(agent)"
			reaches := false
			seen := map[*ssa.BasicBlock]bool{}
			var walk func(x *ssa.BasicBlock)
			walk = func(x *ssa.BasicBlock) {
				if seen[x] || reaches {
					return
				}
				seen[x] = true
				for _, in := range x.Instrs {
					if ci, ok := in.(ssa.CallInstruction); ok {
						if nm := CalleeName(ci); strings.HasSuffix(nm, "Teamserver).Died") || strings.HasSuffix(nm, "Teamserver).UnlinkFromAll") {
							reaches = true
						}
					}
				}
				// stay on the "Dead" side: stop at the join with the other side
				for _, s := range x.Succs {
					if b.Succs[0].Dominates(s) || s == b.Succs[0] {
						walk(s)
					}
				}
			}
			walk(b.Succs[0])
			if reaches {
				c.R.Ok(rule, FuncShort(fn), construct, c.pos(iff.Cond.Pos()), "the dead mark goes through Died, which detaches the agent from the pivot graph", true)
			} else {
				c.R.Bad(rule, FuncShort(fn), construct, c.pos(iff.Cond.Pos()), "the branch that marks an agent dead does not reach Died/UnlinkFromAll: the agent stays in its parent's links and keeps its children and link rows")
			}
		}
	}
	if n == 0 {
		c.R.Anchor(rule, "the Marked == \"Dead\" test of the Session.MarkAsDead handler")
	}
}
