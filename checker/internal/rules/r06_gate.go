package rules

import (
	"encoding/json"
	"fmt"
	"go/ast"
	"go/constant"
	"go/token"
	"go/types"
	"os"
	"path/filepath"
	"sort"
	"strings"

	"golang.org/x/tools/go/cfg"
	"golang.org/x/tools/go/packages"
	"golang.org/x/tools/go/ssa"
)

// pkgConst returns the integer value of a package-level constant.
func (c *Ctx) pkgConst(pkgPath, name string) (int64, bool) {
	pk := c.P.ByPath[pkgPath]
	if pk == nil {
		return 0, false
	}
	obj, ok := pk.Types.Scope().Lookup(name).(*types.Const)
	if !ok {
		return 0, false
	}
	v, ok := constant.Int64Val(constant.ToInt(obj.Val()))
	return v, ok
}

// R6a — the gate dominates everything in TaskDispatch.
func R6GateDominance(c *Ctx) {
	const rule = "R6-gate-dominance"
	c.R.Rule(rule, "in TaskDispatch the IsKnownRequestID(ts, RequestID, CommandID) test on the function's own parameters guards the whole body: its failing edge only logs and returns, every other block is dominated by its passing edge, and nothing with an effect precedes it", 3)
	fn := c.P.Func(PkgAgent, "Agent.TaskDispatch")
	if fn == nil {
		c.R.Anchor(rule, "agent.(*Agent).TaskDispatch")
		return
	}
	fname := FuncShort(fn)
	var gate *ssa.Call
	EachCall(fn, func(call ssa.CallInstruction) {
		if CalleeName(call) == "(*Havoc/pkg/agent.Agent).IsKnownRequestID" {
			if cv, ok := call.(*ssa.Call); ok && gate == nil {
				gate = cv
			}
		}
	})
	if gate == nil {
		c.R.Bad(rule, fname, "IsKnownRequestID gate", c.pos(fn.Pos()), "TaskDispatch no longer calls IsKnownRequestID: every callback is acted upon")
		return
	}
	// arguments are the function's own parameters
	args := gate.Call.Args
	okArgs := len(args) == 4 && len(fn.Params) == 5 &&
		IsParam(args[0], fn.Params[0]) && IsParam(args[1], fn.Params[4]) && IsParam(args[2], fn.Params[1]) && IsParam(args[3], fn.Params[2])
	if okArgs {
		c.R.Ok(rule, fname, "IsKnownRequestID(teamserver, RequestID, CommandID) on receiver a", c.pos(gate.Pos()), "gate consults the dispatching agent with the callback's own ids", true)
	} else {
		c.R.Bad(rule, fname, "IsKnownRequestID arguments", c.pos(gate.Pos()), "the gate is not evaluated on (a, teamserver, RequestID, CommandID) of this very dispatch")
	}
	// the If using the gate
	var iff *ssa.If
	var passIdx int
	for _, r := range *gate.Referrers() {
		switch x := r.(type) {
		case *ssa.If:
			iff, passIdx = x, 0
		case *ssa.BinOp, *ssa.UnOp:
			v := x.(ssa.Value)
			for _, r2 := range *v.Referrers() {
				if i2, ok := r2.(*ssa.If); ok {
					cnd, truth := StripNot(i2.Cond, true)
					if cnd == ssa.Value(gate) {
						iff = i2
						if truth {
							passIdx = 0
						} else {
							passIdx = 1
						}
					}
				}
			}
		}
	}
	if iff == nil {
		c.R.Bad(rule, fname, "branch on IsKnownRequestID", c.pos(gate.Pos()), "the result of the gate is not branched on")
		return
	}
	gb := iff.Block()
	// nothing with an effect before the gate: only blocks dominating gb, and only pure calls in them
	pure := func(name string) bool {
		return strings.HasPrefix(name, "strconv.") || strings.HasPrefix(name, "fmt.") || strings.HasPrefix(name, "Havoc/pkg/logger.") || name == "(*Havoc/pkg/agent.Agent).IsKnownRequestID"
	}
	pre := true
	for _, b := range fn.Blocks {
		if b != gb && !b.Dominates(gb) {
			continue
		}
		for _, in := range b.Instrs {
			switch x := in.(type) {
			case ssa.CallInstruction:
				if n := CalleeName(x); !pure(n) {
					pre = false
					c.R.Bad(rule, fname, "call "+shortCallee(n)+" before the gate", c.pos(x.Pos()), "a call with possible effects runs before the request id was checked")
				}
			case *ssa.Store:
				if _, isAlloc := x.Addr.(*ssa.Alloc); !isAlloc {
					pre = false
					c.R.Bad(rule, fname, "store before the gate", c.pos(x.Pos()), "state is written before the request id was checked")
				}
			}
		}
	}
	if pre {
		c.R.Ok(rule, fname, "prefix of the gate", c.pos(gate.Pos()), "only id parsing and logging precede the gate", true)
	}
	// failing edge: only logging then return
	fail := gb.Succs[1-passIdx]
	failOK := true
	seen := map[*ssa.BasicBlock]bool{}
	var walk func(b *ssa.BasicBlock)
	walk = func(b *ssa.BasicBlock) {
		if seen[b] {
			return
		}
		seen[b] = true
		for _, in := range b.Instrs {
			switch x := in.(type) {
			case ssa.CallInstruction:
				if n := CalleeName(x); !(strings.HasPrefix(n, "fmt.") || strings.HasPrefix(n, "Havoc/pkg/logger.")) {
					failOK = false
				}
			case *ssa.Store:
				if _, isAlloc := x.Addr.(*ssa.Alloc); !isAlloc {
					if _, isIdx := x.Addr.(*ssa.IndexAddr); !isIdx { // varargs slice fill
						failOK = false
					}
				}
			}
		}
		for _, s := range b.Succs {
			walk(s)
		}
	}
	walk(fail)
	if len(seen) > 3 {
		failOK = false
	}
	if failOK {
		c.R.Ok(rule, fname, "rejected-callback edge", c.pos(iff.Pos()), "the failing edge only logs and returns", true)
	} else {
		c.R.Bad(rule, fname, "rejected-callback edge", c.pos(iff.Pos()), "the failing edge of the gate does more than log and return: an unknown request id still has an effect")
	}
	// everything else is dominated by the passing edge
	bad := 0
	for _, b := range fn.Blocks {
		if b == gb || b.Dominates(gb) || seen[b] {
			continue
		}
		if !EdgeDominates(gb, passIdx, b) {
			bad++
			if bad <= 3 {
				pos := token.NoPos
				for _, in := range b.Instrs {
					if in.Pos().IsValid() {
						pos = in.Pos()
						break
					}
				}
				c.R.Bad(rule, fname, "block not dominated by the gate", c.pos(pos), "code in TaskDispatch is reachable without passing IsKnownRequestID == true")
			}
		}
	}
	if bad == 0 {
		c.R.Ok(rule, fname, "all "+itoa(len(fn.Blocks))+" blocks behind the gate", c.pos(iff.Pos()), "every block other than the prefix and the reject edge is dominated by the passing edge", true)
	}
	c.R.Extra["taskdispatch_blocks"] = len(fn.Blocks)
}

// R6b — accept list of IsKnownRequestID.
func R6AcceptList(c *Ctx) {
	const rule = "R6-accept-list"
	c.R.Rule(rule, "IsKnownRequestID returns true only (1) for CommandID ∈ {COMMAND_SOCKET, COMMAND_PIVOT}, (2) under SendLogs() && CommandID == BEACON_OUTPUT, (3) when an element of the receiver's own Tasks has the callback's RequestID", 3)
	fn := c.P.Func(PkgAgent, "Agent.IsKnownRequestID")
	if fn == nil {
		c.R.Anchor(rule, "agent.(*Agent).IsKnownRequestID")
		return
	}
	fname := FuncShort(fn)
	if len(fn.Params) != 4 {
		c.R.Anchor(rule, "IsKnownRequestID(teamserver, RequestID, CommandID) signature")
		return
	}
	recv, reqID, cmdID := fn.Params[0], fn.Params[2], fn.Params[3]
	allowed := map[int64]string{}
	for _, n := range []string{"COMMAND_SOCKET", "COMMAND_PIVOT"} {
		if v, ok := c.pkgConst(PkgAgent, n); ok {
			allowed[v] = n
		} else {
			c.R.Anchor(rule, "constant agent."+n)
		}
	}
	beacon, okb := c.pkgConst(PkgAgent, "BEACON_OUTPUT")
	if !okb {
		c.R.Anchor(rule, "constant agent.BEACON_OUTPUT")
	}
	n := 0
	for _, b := range fn.Blocks {
		if len(b.Instrs) == 0 {
			continue
		}
		ret, ok := b.Instrs[len(b.Instrs)-1].(*ssa.Return)
		if !ok || len(ret.Results) != 1 {
			continue
		}
		srcs, other := trueSources(ret.Results[0])
		if isBoolConst(ret.Results[0], true) {
			srcs = []*ssa.BasicBlock{b}
		}
		for _, o := range other {
			// `return a.find(RequestID) != NOTFOUND` is the membership path written through a find-index helper
			if bo, ok := o.(*ssa.BinOp); ok && (bo.Op == token.NEQ || bo.Op == token.GEQ || bo.Op == token.GTR) {
				if call, ok := bo.X.(*ssa.Call); ok {
					if fi := c.FindIndexOf(call.Call.StaticCallee()); fi != nil {
						k, isC := ConstInt(bo.Y)
						okCmp := isC && ((bo.Op == token.NEQ && k == fi.notFound) || (bo.Op == token.GTR && k == fi.notFound) || (bo.Op == token.GEQ && k == fi.notFound+1))
						if okCmp && fi.sliceType == PkgAgent+".Agent" && fi.slice == "Tasks" && fi.elemField == "RequestID" &&
							fi.sliceArg < len(call.Call.Args) && IsParam(call.Call.Args[fi.sliceArg], recv) &&
							fi.keyArg < len(call.Call.Args) && IsParam(call.Call.Args[fi.keyArg], reqID) {
							n++
							c.R.Ok(rule, fname, "return true [membership: a.Tasks[i].RequestID == RequestID on the receiver's own task list]", c.pos(ret.Pos()), "membership through the find-index helper "+call.Call.StaticCallee().Name(), true)
							continue
						}
					}
				}
			}
			c.R.Bad(rule, fname, "return "+AccessPath(o), c.pos(ret.Pos()), "the gate returns a computed value instead of one of the three enumerated accept paths")
		}
		for _, sb := range srcs {
			if sb == nil {
				sb = b
			}
			n++
			// the block may be entered from several tests (`a || b`): every incoming edge must be an accept path
			var alts [][]CondFact
			if len(sb.Preds) <= 1 {
				alts = [][]CondFact{FactsAt(sb)}
			} else {
				for _, pred := range sb.Preds {
					fs := append([]CondFact{}, FactsAt(pred)...)
					if iff, isIf := pred.Instrs[len(pred.Instrs)-1].(*ssa.If); isIf && pred.Succs[0] != pred.Succs[1] {
						fs = append(fs, CondFact{Cond: iff.Cond, Truth: pred.Succs[0] == sb, If: iff})
					}
					alts = append(alts, fs)
				}
			}
			why := ""
			var cmdEq []int64
			sendLogs := false
			for ai, facts := range alts {
				cmdEq = nil
				sendLogs = false
				taskMatch := false
				for _, f := range facts {
					if call, ok := f.Cond.(*ssa.Call); ok && f.Truth && strings.HasSuffix(CalleeName(call), ".SendLogs") {
						sendLogs = true
					}
					bo, ok := f.Cond.(*ssa.BinOp)
					if !ok || !((bo.Op == token.EQL && f.Truth) || (bo.Op == token.NEQ && !f.Truth)) {
						continue
					}
					for _, pair := range [][2]ssa.Value{{bo.X, bo.Y}, {bo.Y, bo.X}} {
						if pair[0] == ssa.Value(cmdID) {
							if v, ok := ConstInt(pair[1]); ok {
								cmdEq = append(cmdEq, v)
							}
						}
						if pair[0] == ssa.Value(reqID) {
							// other side: load of .RequestID of an element of recv.Tasks
							if la, ok := Deref(pair[1]); ok {
								if t, f2, base, ok := FieldOf(la); ok && t == PkgAgent+".Job" && f2 == "RequestID" {
									if DerivesFrom(base, func(v ssa.Value) bool {
										t3, f3, b3, ok := FieldOf(v)
										return ok && t3 == PkgAgent+".Agent" && f3 == "Tasks" && b3 == ssa.Value(recv)
									}) {
										taskMatch = true
									}
								}
							}
						}
					}
				}
				w := ""
				switch {
				case taskMatch:
					w = "membership: a.Tasks[i].RequestID == RequestID on the receiver's own task list"
				case len(cmdEq) == 1 && allowed[cmdEq[0]] != "":
					w = "relay command " + allowed[cmdEq[0]]
				case len(cmdEq) == 1 && okb && cmdEq[0] == beacon && sendLogs:
					w = "SendLogs() && CommandID == BEACON_OUTPUT"
				}
				if w == "" {
					why = ""
					break
				}
				if ai == 0 {
					why = w
				} else if why != w {
					why += " | " + w
				}
			}
			if why != "" {
				c.R.Ok(rule, fname, "return true ["+why+"]", c.pos(ret.Pos()), why, true)
			} else {
				c.R.Bad(rule, fname, "return true", c.pos(ret.Pos()), fmt.Sprintf("an accept path outside the three enumerated ones (command constants on the path: %v, SendLogs=%v)", cmdEq, sendLogs))
			}
		}
	}
	if n < 3 {
		c.R.Anchor(rule, "the three accept paths of IsKnownRequestID (found "+itoa(n)+")")
	}
}

// R6c — issue and completion primitives.
func R6Issue(c *Ctx) {
	const rule = "R6-issue"
	c.R.Rule(rule, "AddJobToQueue records its job with AddRequest on every path; AddRequest appends exactly its argument to the receiver's Tasks; RequestCompleted removes only an element whose RequestID equals its argument and stops after the first", 3)
	aj := c.P.Func(PkgAgent, "Agent.AddJobToQueue")
	ar := c.P.Func(PkgAgent, "Agent.AddRequest")
	rc := c.P.Func(PkgAgent, "Agent.RequestCompleted")
	if aj == nil || ar == nil || rc == nil {
		c.R.Anchor(rule, "agent.(*Agent).AddJobToQueue/AddRequest/RequestCompleted")
		return
	}
	// AddJobToQueue: call AddRequest(job) dominating all returns
	var call ssa.CallInstruction
	EachCall(aj, func(ci ssa.CallInstruction) {
		if CalleeName(ci) == "(*Havoc/pkg/agent.Agent).AddRequest" {
			call = ci
		}
	})
	if call == nil {
		c.R.Bad(rule, FuncShort(aj), "a.AddRequest(job)", c.pos(aj.Pos()), "AddJobToQueue no longer records the request id: every callback for the queued task is dropped as unknown (or ids are never outstanding)")
	} else {
		args := call.Common().Args
		ok := len(args) == 2 && args[0] == ssa.Value(aj.Params[0]) && args[1] == ssa.Value(aj.Params[1])
		for _, b := range aj.Blocks {
			if len(b.Instrs) > 0 {
				if _, isRet := b.Instrs[len(b.Instrs)-1].(*ssa.Return); isRet && !(call.Block() == b || call.Block().Dominates(b)) {
					ok = false
				}
			}
		}
		if ok {
			c.R.Ok(rule, FuncShort(aj), "a.AddRequest(job)", c.pos(call.Pos()), "called with the receiver and the job parameter on every path to a return", true)
		} else {
			c.R.Bad(rule, FuncShort(aj), "a.AddRequest(job)", c.pos(call.Pos()), "AddRequest is skipped on some path or is given another job/agent")
		}
	}
	// AddRequest: a.Tasks = append(a.Tasks, job)
	okAR := false
	for _, b := range ar.Blocks {
		for _, in := range b.Instrs {
			st, ok := in.(*ssa.Store)
			if !ok {
				continue
			}
			if t, f, base, ok := FieldOf(st.Addr); ok && t == PkgAgent+".Agent" && f == "Tasks" && base == ssa.Value(ar.Params[0]) {
				if ap, ok := st.Val.(*ssa.Call); ok && CalleeName(ap) == "builtin.append" {
					if DerivesFrom(ap.Call.Args[1], func(v ssa.Value) bool { return v == ssa.Value(ar.Params[1]) }) {
						okAR = true
					}
				}
			}
		}
	}
	if okAR {
		c.R.Ok(rule, FuncShort(ar), "a.Tasks = append(a.Tasks, job)", c.pos(ar.Pos()), "appends its argument to the receiver's Tasks", true)
	} else {
		c.R.Bad(rule, FuncShort(ar), "a.Tasks = append(a.Tasks, job)", c.pos(ar.Pos()), "AddRequest does not append its argument to the receiver's task list")
	}
	// RequestCompleted: store to a.Tasks dominated by Tasks[i].RequestID == param, and the loop is left afterwards (R5 covers the break)
	nSt := 0
	for _, b := range rc.Blocks {
		for _, in := range b.Instrs {
			st, ok := in.(*ssa.Store)
			if !ok {
				continue
			}
			if t, f, _, ok := FieldOf(st.Addr); !ok || t != PkgAgent+".Agent" || f != "Tasks" {
				continue
			}
			nSt++
			match := false
			for _, fct := range FactsAt(b) {
				bo, ok := fct.Cond.(*ssa.BinOp)
				if !ok || !((bo.Op == token.EQL && fct.Truth) || (bo.Op == token.NEQ && !fct.Truth)) {
					continue
				}
				for _, pair := range [][2]ssa.Value{{bo.X, bo.Y}, {bo.Y, bo.X}} {
					if pair[0] != ssa.Value(rc.Params[1]) {
						continue
					}
					if la, ok := Deref(pair[1]); ok {
						if t, f2, _, ok := FieldOf(la); ok && t == PkgAgent+".Job" && f2 == "RequestID" {
							match = true
						}
					}
				}
			}
			if !match {
				// or: the removed index comes from a find-index helper over the receiver's Tasks keyed by
				// RequestID == this function's RequestID, and the store is on its "found" side
				if ap, ok := st.Val.(*ssa.Call); ok && CalleeName(ap) == "builtin.append" && len(ap.Call.Args) > 0 {
					if sl, ok := ap.Call.Args[0].(*ssa.Slice); ok && sl.High != nil {
						if fi, call := c.foundIndexAt(sl.High, b); fi != nil && fi.sliceType == PkgAgent+".Agent" && fi.slice == "Tasks" && fi.elemField == "RequestID" &&
							fi.sliceArg < len(call.Call.Args) && IsParam(call.Call.Args[fi.sliceArg], rc.Params[0]) &&
							fi.keyArg < len(call.Call.Args) && IsParam(call.Call.Args[fi.keyArg], rc.Params[1]) {
							match = true
						}
					}
				}
			}
			if match {
				c.R.Ok(rule, FuncShort(rc), "a.Tasks = append(a.Tasks[:i], a.Tasks[i+1:]...)", c.pos(st.Pos()), "removal is control-dependent on a.Tasks[i].RequestID == RequestID", true)
			} else {
				c.R.Bad(rule, FuncShort(rc), "a.Tasks = …", c.pos(st.Pos()), "the task list is shrunk without a dominating `Tasks[i].RequestID == RequestID` test: another task's id is forgotten (or all of them)")
			}
		}
	}
	if nSt == 0 {
		c.R.Bad(rule, FuncShort(rc), "a.Tasks = …", c.pos(rc.Pos()), "RequestCompleted no longer removes anything: completed ids stay accepted forever")
	}
	// who may record / forget: Agent.Tasks is written only by AddRequest and RequestCompleted,
	// and AddRequest is called only from AddJobToQueue (one record per issued task)
	for _, fn := range c.P.ModuleFuncs(NonYaotl) {
		for _, b := range fn.Blocks {
			for _, in := range b.Instrs {
				switch x := in.(type) {
				case *ssa.Store:
					if t, f, _, ok := FieldOf(x.Addr); ok && t == PkgAgent+".Agent" && f == "Tasks" && fn != ar && fn != rc {
						c.R.Bad(rule, FuncShort(fn), "store Agent.Tasks", c.pos(x.Pos()), "the outstanding-task list is written outside AddRequest/RequestCompleted: ids can be recorded twice, for the wrong agent, or forgotten without a final callback")
					}
				case ssa.CallInstruction:
					if CalleeName(x) == "(*Havoc/pkg/agent.Agent).AddRequest" && fn != aj {
						c.R.Bad(rule, FuncShort(fn), "call AddRequest", c.pos(x.Pos()), "a request id is recorded outside AddJobToQueue: the same task is recorded more than once (RequestCompleted forgets only one copy) or for an agent it was not issued to")
					}
				}
			}
		}
	}
}

// ---- completion table ------------------------------------------------------

// ArmClass is the completion classification of one (command, sub-command) arm.
type ArmClass struct {
	Arm   string `json:"arm"`
	Class string `json:"class"` // all | some | none
	Calls int    `json:"calls"`
	Pos   string `json:"-"`
	Why   string `json:"why,omitempty"`
}

func caseLabel(cc *ast.CaseClause) string {
	if cc.List == nil {
		return "default"
	}
	var l []string
	for _, e := range cc.List {
		l = append(l, ExprStr(e))
	}
	return strings.Join(l, ",")
}

func isCallTo(pk *packages.Package, n ast.Node, full string) bool {
	call, ok := n.(*ast.CallExpr)
	if !ok {
		return false
	}
	return FullName(Callee(pk.TypesInfo, call)) == full
}

// containsCallTo reports whether node n contains (outside function literals) a call to full.
func containsCallTo(pk *packages.Package, n ast.Node, full string) int {
	cnt := 0
	ast.Inspect(n, func(m ast.Node) bool {
		if _, ok := m.(*ast.FuncLit); ok {
			return false
		}
		if isCallTo(pk, m, full) {
			cnt++
		}
		return true
	})
	return cnt
}

// ClassifyCompletion computes the arm classes of TaskDispatch.
func (c *Ctx) ClassifyCompletion() ([]ArmClass, string) {
	fd, pk := c.P.FuncDecl(PkgAgent, "Agent.TaskDispatch")
	if fd == nil {
		return nil, "agent.(*Agent).TaskDispatch"
	}
	const rcName = PkgAgent + ".Agent.RequestCompleted"
	const cirName = PkgParser + ".Parser.CanIRead"
	g := c.CFG(pk, fd)
	// top-level switch on the CommandID parameter
	var top *ast.SwitchStmt
	for _, st := range fd.Body.List {
		if sw, ok := st.(*ast.SwitchStmt); ok {
			if id, ok := sw.Tag.(*ast.Ident); ok && id.Name == "CommandID" {
				top = sw
			}
		}
	}
	if top == nil {
		return nil, "switch CommandID in TaskDispatch"
	}
	entryOf := map[ast.Stmt]*cfg.Block{}
	for _, b := range g.Blocks {
		if b.Kind == cfg.KindSwitchCaseBody {
			entryOf[b.Stmt] = b
		}
	}
	// RC blocks and prunable CanIRead-false edges
	rcBlock := map[*cfg.Block]bool{}
	for _, b := range g.Blocks {
		for _, n := range b.Nodes {
			if containsCallTo(pk, n, rcName) > 0 {
				// only when the call's argument is the RequestID parameter
				rcBlock[b] = true
			}
		}
	}
	pruned := func(b *cfg.Block, i int) bool {
		if len(b.Succs) != 2 || len(b.Nodes) == 0 {
			return false
		}
		s := b.Succs[0]
		if s.Kind != cfg.KindIfThen {
			return false
		}
		ifs, ok := s.Stmt.(*ast.IfStmt)
		if !ok {
			return false
		}
		cond := ast.Unparen(ifs.Cond)
		neg := false
		if u, ok := cond.(*ast.UnaryExpr); ok && u.Op == token.NOT {
			cond, neg = ast.Unparen(u.X), true
		}
		if be, ok := cond.(*ast.BinaryExpr); ok && (be.Op == token.EQL || be.Op == token.NEQ) {
			if id, ok := be.Y.(*ast.Ident); ok && (id.Name == "false" || id.Name == "true") {
				if (id.Name == "false") == (be.Op == token.EQL) {
					neg = !neg
				}
				cond = ast.Unparen(be.X)
			}
		}
		if !isCallTo(pk, cond, cirName) {
			return false
		}
		// prune the edge on which CanIRead is false
		if neg {
			return i == 0
		}
		return i == 1
	}
	classify := func(start *cfg.Block, arm ast.Node, scope ast.Node) ArmClass {
		calls := containsCallTo(pk, arm, rcName)
		// reach an exit of `scope` avoiding RC blocks
		seen := map[*cfg.Block]bool{}
		var stack []*cfg.Block
		if !rcBlock[start] {
			stack = append(stack, start)
		}
		escapes := false
		for len(stack) > 0 && !escapes {
			b := stack[len(stack)-1]
			stack = stack[:len(stack)-1]
			if seen[b] {
				continue
			}
			seen[b] = true
			if len(b.Succs) == 0 {
				escapes = true
				break
			}
			for i, s := range b.Succs {
				if pruned(b, i) {
					continue
				}
				if !blockWithin(s, scope) {
					escapes = true
					break
				}
				if rcBlock[s] {
					continue
				}
				stack = append(stack, s)
			}
		}
		// does any path complete at all?
		anyRC := false
		seen2 := map[*cfg.Block]bool{}
		st2 := []*cfg.Block{start}
		for len(st2) > 0 {
			b := st2[len(st2)-1]
			st2 = st2[:len(st2)-1]
			if seen2[b] {
				continue
			}
			seen2[b] = true
			if rcBlock[b] {
				anyRC = true
				break
			}
			for _, s := range b.Succs {
				if blockWithin(s, scope) {
					st2 = append(st2, s)
				}
			}
		}
		cl := "some"
		if !escapes {
			cl = "all"
		} else if !anyRC {
			cl = "none"
		}
		return ArmClass{Class: cl, Calls: calls}
	}
	var out []ArmClass
	for _, st := range top.Body.List {
		cc := st.(*ast.CaseClause)
		label := caseLabel(cc)
		start := entryOf[cc]
		if start == nil {
			continue
		}
		// nested sub-command switch: first switch in the arm whose tag is an identifier
		var sub *ast.SwitchStmt
		ast.Inspect(cc, func(n ast.Node) bool {
			if sub != nil {
				return false
			}
			if _, ok := n.(*ast.FuncLit); ok {
				return false
			}
			if sw, ok := n.(*ast.SwitchStmt); ok && sw != top {
				if _, ok := sw.Tag.(*ast.Ident); ok && len(sw.Body.List) >= 2 {
					sub = sw
					return false
				}
			}
			return true
		})
		if sub == nil {
			ac := classify(start, cc, cc)
			ac.Arm, ac.Pos = label, c.pos(cc.Pos())
			out = append(out, ac)
			continue
		}
		for _, s2 := range sub.Body.List {
			c2 := s2.(*ast.CaseClause)
			st2 := entryOf[c2]
			if st2 == nil {
				continue
			}
			ac := classify(st2, c2, cc)
			ac.Arm, ac.Pos = label+"/"+caseLabel(c2), c.pos(c2.Pos())
			out = append(out, ac)
		}
	}
	return out, ""
}

// blockWithin reports whether block b lies inside the source range of node n.
func blockWithin(b *cfg.Block, n ast.Node) bool {
	if b.Stmt != nil {
		if b.Stmt.Pos() < n.Pos() || b.Stmt.End() > n.End() {
			return false
		}
		if b.Stmt == n {
			return b.Kind == cfg.KindSwitchCaseBody
		}
		// the Done block of a statement that *is* the scope's parent is outside; handled by position above
		return true
	}
	for _, nd := range b.Nodes {
		if nd.Pos() < n.Pos() || nd.End() > n.End() {
			return false
		}
	}
	return len(b.Nodes) > 0
}

// R6d — completion table.
func R6Completion(c *Ctx) {
	const rule = "R6-completion"
	c.R.Rule(rule, "per (command, sub-command) arm of TaskDispatch: arms whose callback is final (tables/completion.json, class all) call a.RequestCompleted(RequestID) on every path that does not fail a CanIRead guard; arms listed some/none are not required to; every arm has a row and every row an arm", 60)
	arms, missing := c.ClassifyCompletion()
	if missing != "" {
		c.R.Anchor(rule, missing)
		return
	}
	b, err := os.ReadFile(filepath.Join(c.Verif, "tables", "completion.json"))
	if err != nil {
		c.R.Broken = append(c.R.Broken, "tables/completion.json: "+err.Error())
		return
	}
	var rows []ArmClass
	if err := json.Unmarshal(b, &rows); err != nil {
		c.R.Broken = append(c.R.Broken, "tables/completion.json: "+err.Error())
		return
	}
	want := map[string]ArmClass{}
	for _, r := range rows {
		want[r.Arm] = r
	}
	got := map[string]bool{}
	rank := map[string]int{"none": 0, "some": 1, "all": 2}
	for _, a := range arms {
		got[a.Arm] = true
		w, ok := want[a.Arm]
		construct := "case " + a.Arm
		if !ok {
			c.R.Bad(rule, "agent.(*Agent).TaskDispatch", construct, a.Pos, "callback arm without a row in tables/completion.json: decide whether its callback is final (must complete the request id) and add the row")
			continue
		}
		switch {
		case rank[a.Class] < rank[w.Class]:
			c.R.Bad(rule, "agent.(*Agent).TaskDispatch", construct, a.Pos,
				fmt.Sprintf("completion weakened: the table says %q (final callback completes its request id on %s paths) but the code now classifies as %q — a processed final callback leaves its id accepted for replay", w.Class, w.Class, a.Class))
		default:
			c.R.Ok(rule, "agent.(*Agent).TaskDispatch", construct, a.Pos, "class "+a.Class+" (table: "+w.Class+")", w.Class != "none")
		}
	}
	var stale []string
	for arm := range want {
		if !got[arm] {
			stale = append(stale, arm)
		}
	}
	sort.Strings(stale)
	for _, arm := range stale {
		c.R.Bad(rule, "agent.(*Agent).TaskDispatch", "row "+arm, "-", "tables/completion.json has a row for an arm that no longer exists in TaskDispatch (stale table entry)")
	}
	// every RequestCompleted call passes the dispatch's own RequestID parameter
	fn := c.P.Func(PkgAgent, "Agent.TaskDispatch")
	if fn != nil {
		n, badN := 0, 0
		EachCall(fn, func(call ssa.CallInstruction) {
			if CalleeName(call) != "(*Havoc/pkg/agent.Agent).RequestCompleted" {
				return
			}
			n++
			args := call.Common().Args
			if !(len(args) == 2 && IsParam(args[0], fn.Params[0]) && IsParam(args[1], fn.Params[1])) {
				badN++
				c.R.Bad(rule, FuncShort(fn), "a.RequestCompleted(<not RequestID>)", c.pos(call.Pos()), "completes another id / another agent's id than the one this callback carried")
			}
		})
		if badN == 0 {
			c.R.Ok(rule, FuncShort(fn), itoa(n)+" RequestCompleted calls", c.pos(fn.Pos()), "each passes (a, RequestID) of this dispatch", true)
		}
	}
}

// R6DeferredCapture — a callback handed to later execution does not read request variables that the loop rewrites.
func R6DeferredCapture(c *Ctx) {
	const rule = "R6-deferred-capture"
	c.R.Rule(rule, "in the agent-facing request handling (functions reachable from the listener entry points inside handlers and agent), a function literal created inside a loop and not called on the spot (stored, appended, deferred, started with go) does not read a variable that is declared outside that loop and assigned inside it: all such closures would see the value of the last round — request id and command of the last package gate every earlier package", 0)
	scope := c.ScopeFrom(c.AgentFacingRoots())
	n := 0
	for _, fn := range scope {
		if len(fn.AnonFuncs) == 0 {
			continue
		}
		loops := naturalLoops(fn)
		for _, b := range fn.Blocks {
			for _, in := range b.Instrs {
				mc, ok := in.(*ssa.MakeClosure)
				if !ok {
					continue
				}
				var l *natLoop
				for _, cand := range loops {
					if cand.body[b] && (l == nil || len(cand.body) > len(l.body)) {
						l = cand // outermost loop around the literal
					}
				}
				if l == nil {
					continue
				}
				// called on the spot only?
				deferred := false
				for _, r := range *mc.Referrers() {
					switch u := r.(type) {
					case *ssa.Call:
						if u.Call.Value != ssa.Value(mc) {
							deferred = true // passed as an argument
						}
					case *ssa.DebugRef:
					default:
						deferred = true
					}
				}
				if !deferred {
					continue
				}
				n++
				lit := mc.Fn.(*ssa.Function)
				var stale []string
				for i, bd := range mc.Bindings {
					al, ok := bd.(*ssa.Alloc)
					if !ok || l.body[al.Block()] {
						continue // a per-round variable
					}
					assignedInLoop := false
					for _, r := range *al.Referrers() {
						if st, ok := r.(*ssa.Store); ok && st.Addr == ssa.Value(al) && l.body[st.Block()] {
							assignedInLoop = true
						}
					}
					if !assignedInLoop || i >= len(lit.FreeVars) {
						continue
					}
					reads := false
					for _, r := range *lit.FreeVars[i].Referrers() {
						if u, ok := r.(*ssa.UnOp); ok && u.Op == token.MUL {
							reads = true
						}
					}
					if reads {
						stale = append(stale, lit.FreeVars[i].Name())
					}
				}
				construct := "function literal kept for later inside a loop"
				if len(stale) == 0 {
					c.R.Ok(rule, FuncShort(fn), construct, c.pos(mc.Pos()), "it reads no variable that later rounds overwrite", true)
				} else {
					sort.Strings(stale)
					c.R.Bad(rule, FuncShort(fn), construct, c.pos(mc.Pos()), "the literal runs after the loop moved on but reads "+strings.Join(stale, ", ")+", declared outside the loop and assigned in every round: every deferred call sees the last round's values")
				}
			}
		}
	}
	c.R.Extra["R6-deferred-capture.literals"] = n
}

// R6HandlerEffects — everything a callback can cause goes through the gated dispatcher.
func R6HandlerEffects(c *Ctx) {
	const rule = "R6-handler-effects"
	c.R.Rule(rule, "handleDemonAgent (with its helpers in package handlers) calls state-changing or operator-visible methods of the teamserver and of the agent only from this list: UpdateLastCallback, TaskDispatch (which gates on the request id itself), GetQueuedJobs, AgentCallbackSize, and AgentAdd/AgentSendNotify in the registration branch; any other such call — a console message about dropped callbacks, say — is an effect a callback without an outstanding task can have; Teamserver.SendLogs() returns the SendLogs flag and nothing else", 5)
	hd := c.P.Func(PkgHandlers, "handleDemonAgent")
	if hd == nil {
		c.R.Anchor(rule, "handlers.handleDemonAgent")
		return
	}
	allowed := map[string]bool{".UpdateLastCallback": true, ".TaskDispatch": true, ".GetQueuedJobs": true, ".AgentCallbackSize": true, ".AgentAdd": true, ".AgentSendNotify": true}
	for _, fn := range HelperClosure(hd, 2) {
		if FuncPkgPathOf(fn) != PkgHandlers {
			continue
		}
		EachCall(fn, func(call ssa.CallInstruction) {
			name := CalleeName(call)
			if !mutatorCall(name) {
				return
			}
			construct := "call " + shortCallee(name)
			ok := false
			for suf := range allowed {
				if strings.HasSuffix(name, suf) {
					ok = true
				}
			}
			if ok {
				c.R.Ok(rule, FuncShort(fn), construct, c.pos(call.Pos()), "on the list", true)
			} else {
				c.R.Bad(rule, FuncShort(fn), construct, c.pos(call.Pos()), "the request handler itself calls a state-changing or operator-visible method outside the gated dispatcher: a callback without an outstanding task can cause it")
			}
		})
	}
	// the log-forwarding exemption is the SendLogs flag itself
	sl := c.P.Func(PkgServer, "Teamserver.SendLogs")
	if sl == nil {
		c.R.Anchor(rule, "server.(*Teamserver).SendLogs")
		return
	}
	for _, b := range sl.Blocks {
		ret, ok := b.Instrs[len(b.Instrs)-1].(*ssa.Return)
		if !ok || len(ret.Results) != 1 {
			continue
		}
		v := ret.Results[0]
		plain := false
		if ld, isLd := v.(*ssa.UnOp); isLd && ld.Op == token.MUL {
			if _, f, _, okF := FieldOf(ld.X); okF && f == "SendLogs" {
				plain = true
			}
		}
		if fv, isF := v.(*ssa.Field); isF {
			if _, f, _, okF := FieldOf(fv); okF && f == "SendLogs" {
				plain = true
			}
		}
		if plain {
			c.R.Ok(rule, FuncShort(sl), "return <flags>.SendLogs", c.pos(ret.Pos()), "the exemption is exactly the configured flag", true)
		} else {
			c.R.Bad(rule, FuncShort(sl), "return <flags>.SendLogs", c.pos(ret.Pos()), "SendLogs() answers with something other than the SendLogs flag (another flag or-ed in, a constant): beacon output is accepted without an outstanding task although log forwarding is off")
		}
	}
}
