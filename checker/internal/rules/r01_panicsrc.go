package rules

import (
	"encoding/json"
	"fmt"
	"go/ast"
	"go/token"
	"go/types"
	"os"
	"os/exec"
	"path/filepath"
	"regexp"
	"sort"
	"strconv"
	"strings"

	"golang.org/x/tools/go/packages"
	"golang.org/x/tools/go/ssa"

	"hv/internal/core"
)

// Census prints the instruction classes of a scope (exploration aid).
func Census(c *Ctx, scope []*ssa.Function) {
	cnt := map[string]int{}
	for _, fn := range scope {
		for _, b := range fn.Blocks {
			for _, in := range b.Instrs {
				switch x := in.(type) {
				case *ssa.Index:
					cnt["index"]++
				case *ssa.IndexAddr:
					cnt["indexaddr"]++
				case *ssa.Slice:
					cnt["slice"]++
				case *ssa.TypeAssert:
					if !x.CommaOk {
						cnt["assert"]++
					}
				case *ssa.Lookup:
					cnt["lookup"]++
				case *ssa.MapUpdate:
					cnt["mapupdate"]++
				case *ssa.Panic:
					cnt["panic"]++
				case *ssa.BinOp:
					if x.Op == token.QUO || x.Op == token.REM {
						cnt["div"]++
					}
				}
			}
		}
	}
	var ks []string
	for k := range cnt {
		ks = append(ks, k)
	}
	sort.Strings(ks)
	for _, k := range ks {
		fmt.Printf("%-10s %d\n", k, cnt[k])
	}
	fmt.Println("functions", len(scope))
	for _, fn := range scope {
		fmt.Println("  ", FuncShort(fn))
	}
	_ = types.Typ
	_ = strings.Join
}

// describeIdx renders x[i] / x[lo:hi] for keys and messages.
func describeIdx(in ssa.Instruction) string {
	switch x := in.(type) {
	case *ssa.IndexAddr:
		return AccessPath(x.X) + "[" + AccessPath(x.Index) + "]"
	case *ssa.Index:
		return AccessPath(x.X) + "[" + AccessPath(x.Index) + "]"
	case *ssa.Lookup:
		return AccessPath(x.X) + "[" + AccessPath(x.Index) + "]"
	case *ssa.Slice:
		lo, hi := "", ""
		if x.Low != nil {
			lo = AccessPath(x.Low)
		}
		if x.High != nil {
			hi = AccessPath(x.High)
		}
		return AccessPath(x.X) + "[" + lo + ":" + hi + "]"
	}
	return in.String()
}

// arrayLenOf returns the length when v is an array or pointer to array.
func arrayLenOf(v ssa.Value) (int64, bool) {
	t := v.Type().Underlying()
	if pt, ok := t.(*types.Pointer); ok {
		t = pt.Elem().Underlying()
	}
	if arr, ok := t.(*types.Array); ok {
		return arr.Len(), true
	}
	return 0, false
}

// R1Bounds — index and slice expressions cannot go out of range.
func R1Bounds(c *Ctx, scope []*ssa.Function, ruleSuffix string, floor int) {
	rule := "R1-bounds" + ruleSuffix
	c.R.Rule(rule, "every index and slice expression in the scope is within bounds on every path: proved from dominating comparisons, range/induction variables, make/literal lengths and stdlib length facts by a difference-constraint prover; the residue must be listed with its argument in tables/bounds_reviewed.json", floor)
	reviewed := loadReviewed(c)
	trivial, proved, rev := 0, 0, 0
	for _, fn := range scope {
		provers := map[*ssa.BasicBlock]*prover{}
		loads := heapLoadsOf(fn)
		get := func(b *ssa.BasicBlock) *prover {
			if p, ok := provers[b]; ok {
				return p
			}
			p := newProver(c, loads, fn, b)
			provers[b] = p
			return p
		}
		for _, b := range fn.Blocks {
			for _, in := range b.Instrs {
				var ok, isTrivial bool
				switch x := in.(type) {
				case *ssa.IndexAddr:
					if n, isArr := arrayLenOf(x.X); isArr {
						if i, isC := ConstInt(x.Index); isC && i >= 0 && i < n {
							isTrivial = true
						}
					}
					if !isTrivial {
						ok = get(b).proveIndex(x.X, x.Index)
					}
				case *ssa.Index:
					if n, isArr := arrayLenOf(x.X); isArr {
						if i, isC := ConstInt(x.Index); isC && i >= 0 && i < n {
							isTrivial = true
						}
					}
					if !isTrivial {
						ok = get(b).proveIndex(x.X, x.Index)
					}
				case *ssa.Lookup:
					if bt, isB := x.X.Type().Underlying().(*types.Basic); !isB || bt.Info()&types.IsString == 0 {
						continue
					}
					ok = get(b).proveIndex(x.X, x.Index)
				case *ssa.Slice:
					if _, isArr := arrayLenOf(x.X); isArr && x.Low == nil && x.High == nil {
						isTrivial = true
					} else if n, isArr := arrayLenOf(x.X); isArr {
						lo, hi := int64(0), n
						okc := true
						if x.Low != nil {
							lo, okc = ConstInt(x.Low)
						}
						if okc && x.High != nil {
							hi, okc = ConstInt(x.High)
						}
						if okc && 0 <= lo && lo <= hi && hi <= n {
							isTrivial = true
						}
					}
					if !isTrivial && x.Low == nil && x.High == nil {
						isTrivial = true // x[:] never panics
					}
					if !isTrivial {
						ok = get(b).proveSlice(x)
					}
				default:
					continue
				}
				c.noteBoundsSite(in)
				if isTrivial {
					trivial++
					continue
				}
				if !ok {
					ok = splitOnPhi(c, loads, fn, in)
				}
				if !ok {
					ok = splitOnCell(c, loads, fn, in)
				}
				if !ok {
					ok = proveAtCallers(c, fn, in)
				}
				construct := describeIdx(in)
				fname := FuncShort(fn)
				pos := c.pos(in.Pos())
				if !in.Pos().IsValid() {
					pos = c.pos(fn.Pos())
				}
				if ok {
					proved++
					c.R.Ok(rule, fname, construct, pos, "in bounds on every path (difference-constraint proof from dominating conditions)", true)
					continue
				}
				if why, isRev := c.reviewedWhy(reviewed, fn, fname, construct); isRev {
					rev++
					c.R.Add(&core.Ob{Rule: rule, Key: c.R.MakeKey(rule, fname, construct), Pos: pos, Func: fname, Construct: construct, Status: core.Discharged, Reason: "reviewed: " + why, NonTrivial: true})
					continue
				}
				c.R.Bad(rule, fname, construct, pos, "index/slice bounds not provable from the conditions that dominate it: a crafted packet can make it panic (index/slice out of range)")
			}
		}
	}
	if c.Thorough {
		fl := 1
		if ruleSuffix == "" {
			fl = 50
		}
		R1BCECross(c, scope, ruleSuffix, fl)
	}
	c.R.Extra["bounds_trivial"+ruleSuffix] = trivial
	c.R.Extra["bounds_proved"+ruleSuffix] = proved
	c.R.Extra["bounds_reviewed"+ruleSuffix] = rev
}

func stripSuffix(k string) string { return strings.TrimPrefix(k, "R1-bounds") }

// loadReviewed reads tables/bounds_reviewed.json: key (without rule suffix) -> argument.
func loadReviewed(c *Ctx) map[string]string {
	out := map[string]string{}
	b, err := os.ReadFile(filepath.Join(c.Verif, "tables", "bounds_reviewed.json"))
	if err != nil {
		return out
	}
	var rows []struct{ Key, NKey, Why string }
	if err := json.Unmarshal(b, &rows); err != nil {
		c.R.Broken = append(c.R.Broken, "tables/bounds_reviewed.json: "+err.Error())
		return out
	}
	for _, r := range rows {
		out[r.Key] = r.Why
		if r.NKey != "" {
			out["N:"+r.NKey] = r.Why
		}
	}
	return out
}

var reIdent = regexp.MustCompile(`[A-Za-z_][A-Za-z0-9_]*`)

// localNames: the names a maintainer can change without changing behaviour — parameters, results, locals.
func localNames(fn *ssa.Function) map[string]bool {
	names := map[string]bool{}
	for f := fn; f != nil; f = f.Parent() {
		for _, p := range f.Params {
			names[p.Name()] = true
		}
		for _, fv := range f.FreeVars {
			names[fv.Name()] = true
		}
		for _, l := range f.Locals {
			names[l.Comment] = true
		}
		for _, b := range f.Blocks {
			for _, in := range b.Instrs {
				switch x := in.(type) {
				case *ssa.Phi:
					names[x.Comment] = true
				case *ssa.Alloc:
					names[x.Comment] = true
				}
			}
		}
	}
	delete(names, "")
	delete(names, "rangeindex")
	delete(names, "complit")
	delete(names, "makeslice")
	delete(names, "varargs")
	return names
}

// normalConstruct blanks local names and SSA register names in a construct, so that a reviewed row survives a rename.
func normalConstruct(s string, names map[string]bool) string {
	return reIdent.ReplaceAllStringFunc(s, func(id string) string {
		if names[id] {
			return "·"
		}
		if len(id) > 1 && id[0] == 't' {
			digits := true
			for _, ch := range id[1:] {
				if ch < '0' || ch > '9' {
					digits = false
				}
			}
			if digits {
				return "·"
			}
		}
		return id
	})
}

// reviewedWhy looks a construct up in the reviewed table: by its readable key, or by its rename-proof form.
func (c *Ctx) reviewedWhy(reviewed map[string]string, fn *ssa.Function, fname, construct string) (string, bool) {
	if w, ok := reviewed["|"+fname+"|"+construct]; ok {
		if os.Getenv("HV_NKEYS") != "" && fn != nil {
			fmt.Printf("NKEY\t|%s|%s\t|%s|%s\n", fname, construct, fname, normalConstruct(construct, localNames(fn)))
		}
		return w, true
	}
	if fn != nil {
		if w, ok := reviewed["N:|"+fname+"|"+normalConstruct(construct, localNames(fn))]; ok {
			return w, true
		}
	}
	return "", false
}

// mapLiteralMinLen: m is a load of a package-level map variable that is
// initialised by a composite literal and never written afterwards; returns the
// minimum length of its (slice) values.
func (c *Ctx) mapLiteralMinLen(m ssa.Value) (int64, bool) {
	if c == nil {
		return 0, false
	}
	addr, ok := Deref(m)
	if !ok {
		return 0, false
	}
	g, ok := addr.(*ssa.Global)
	if !ok || g.Pkg == nil {
		return 0, false
	}
	key := g.Pkg.Pkg.Path() + "." + g.Name()
	if c.mapLits == nil {
		c.mapLits = map[string]int64{}
	}
	if v, ok := c.mapLits[key]; ok {
		return v, v >= 0
	}
	c.mapLits[key] = -1
	pk := c.P.ByPath[g.Pkg.Pkg.Path()]
	if pk == nil {
		return 0, false
	}
	min := int64(-1)
	for _, f := range pk.Syntax {
		for _, d := range f.Decls {
			gd, ok := d.(*ast.GenDecl)
			if !ok || gd.Tok != token.VAR {
				continue
			}
			for _, sp := range gd.Specs {
				vs := sp.(*ast.ValueSpec)
				for i, n := range vs.Names {
					if n.Name != g.Name() || i >= len(vs.Values) {
						continue
					}
					lit, ok := vs.Values[i].(*ast.CompositeLit)
					if !ok {
						return 0, false
					}
					for _, el := range lit.Elts {
						kv, ok := el.(*ast.KeyValueExpr)
						if !ok {
							return 0, false
						}
						vl, ok := kv.Value.(*ast.CompositeLit)
						if !ok {
							return 0, false
						}
						l := int64(len(vl.Elts))
						if min < 0 || l < min {
							min = l
						}
					}
				}
			}
		}
	}
	if min < 0 {
		return 0, false
	}
	// never written: no Store to the global outside init, no MapUpdate on a load of it
	for fn := range c.P.AllFuncs() {
		if fn.Blocks == nil {
			continue
		}
		for _, b := range fn.Blocks {
			for _, in := range b.Instrs {
				switch x := in.(type) {
				case *ssa.Store:
					if x.Addr == ssa.Value(g) && fn.Name() != "init" {
						return 0, false
					}
				case *ssa.MapUpdate:
					if a, ok := Deref(x.Map); ok && a == ssa.Value(g) {
						if fn.Name() != "init" {
							return 0, false
						}
					}
				}
			}
		}
	}
	c.mapLits[key] = min
	return min, true
}

// paramConstRange: all call sites of the parameter's function (static callees
// in the module) pass integer constants for it -> [min, max].
func (c *Ctx) paramConstRange(prm *ssa.Parameter) (int64, int64, bool) {
	fn := prm.Parent()
	idx := -1
	for i, q := range fn.Params {
		if q == prm {
			idx = i
		}
	}
	if idx < 0 {
		return 0, 0, false
	}
	n := c.P.CHA().Nodes[fn]
	if n == nil || len(n.In) == 0 {
		return 0, 0, false
	}
	lo, hi := int64(inf), -int64(inf)
	for _, e := range n.In {
		if e.Site == nil {
			return 0, 0, false
		}
		cc := e.Site.Common()
		if cc.StaticCallee() != fn {
			return 0, 0, false // reachable through a dynamic call: arguments unknown
		}
		if idx >= len(cc.Args) {
			return 0, 0, false
		}
		v, ok := ConstInt(cc.Args[idx])
		if !ok {
			return 0, 0, false
		}
		if v < lo {
			lo = v
		}
		if v > hi {
			hi = v
		}
	}
	return lo, hi, true
}

// R1PivotJobShape — constructor/consumer agreement for the pivot relay job:
// handleDemonAgent indexes Data[1] and Data[2] (and asserts their types) of
// jobs whose Command is COMMAND_PIVOT and Data[0] == DEMON_PIVOT_SMB_COMMAND.
func R1PivotJobShape(c *Ctx) {
	const rule = "R1-pivotjob-shape"
	c.R.Rule(rule, "every Job literal with Command COMMAND_PIVOT whose first Data element is DEMON_PIVOT_SMB_COMMAND has exactly the elements (int, uint32, []byte) that handleDemonAgent indexes and asserts", 1)
	c.EachFuncDecl(NonYaotl, func(pk *packages.Package, fd *ast.FuncDecl) {
		ast.Inspect(fd.Body, func(n ast.Node) bool {
			lit, ok := n.(*ast.CompositeLit)
			if !ok {
				return true
			}
			t := pk.TypesInfo.TypeOf(lit)
			nn, ok := t.(*types.Named)
			if !ok || nn.Obj().Name() != "Job" || nn.Obj().Pkg() == nil || nn.Obj().Pkg().Path() != PkgAgent {
				return true
			}
			var cmd string
			var data *ast.CompositeLit
			for _, el := range lit.Elts {
				kv, ok := el.(*ast.KeyValueExpr)
				if !ok {
					continue
				}
				id, _ := kv.Key.(*ast.Ident)
				if id == nil {
					continue
				}
				if id.Name == "Command" {
					cmd = ExprStr(kv.Value)
				}
				if id.Name == "Data" {
					data, _ = ast.Unparen(kv.Value).(*ast.CompositeLit)
				}
			}
			if !strings.Contains(cmd, "COMMAND_PIVOT") || data == nil || len(data.Elts) == 0 {
				return true
			}
			if !strings.Contains(ExprStr(data.Elts[0]), "DEMON_PIVOT_SMB_COMMAND") {
				return true
			}
			fn := DeclShort(pk, fd)
			var ts []string
			for _, e := range data.Elts {
				tt := pk.TypesInfo.TypeOf(e)
				if b, ok := tt.(*types.Basic); ok && b.Info()&types.IsUntyped != 0 {
					tt = types.Default(tt)
				}
				ts = append(ts, types.TypeString(tt, nil))
			}
			got := strings.Join(ts, ", ")
			if got == "int, uint32, []byte" {
				c.R.Ok(rule, fn, "Job{Command: COMMAND_PIVOT, Data: {DEMON_PIVOT_SMB_COMMAND, …}}", c.pos(lit.Pos()), "elements are (int, uint32, []byte)", true)
			} else {
				c.R.Bad(rule, fn, "Job{Command: COMMAND_PIVOT, Data: {DEMON_PIVOT_SMB_COMMAND, …}}", c.pos(lit.Pos()), "relay job built with elements ("+got+") but handleDemonAgent indexes Data[1], Data[2] and asserts uint32 / []byte: index out of range or failed assertion while building the check-in reply")
			}
			return true
		})
	})
}

// R1Asserts — unchecked type assertions in scope.
func R1Asserts(c *Ctx, scope []*ssa.Function, ruleSuffix string, floor int) {
	rule := "R1-assert" + ruleSuffix
	reviewed := loadReviewed(c)
	c.R.Rule(rule, "every type assertion without comma-ok in the scope asserts a value whose dynamic type is fixed by construction: all reaching definitions box that static type, or a dominating comma-ok assertion / type-switch case on the same expression established it, or it reads a constant key of a structs.Map/ToMap result whose struct field has that type", floor)
	for _, fn := range scope {
		for _, b := range fn.Blocks {
			for _, in := range b.Instrs {
				ta, ok := in.(*ssa.TypeAssert)
				if !ok || ta.CommaOk {
					continue
				}
				construct := AccessPath(ta.X) + ".(" + types.TypeString(ta.AssertedType, func(p *types.Package) string { return p.Name() }) + ")"
				okD, why := c.assertDischarged(fn, ta)
				if !okD {
					if w, isRev := c.reviewedWhy(reviewed, fn, FuncShort(fn), construct); isRev {
						okD, why = true, "reviewed: "+w
					}
				}
				if okD {
					c.R.Ok(rule, FuncShort(fn), construct, c.pos(ta.Pos()), why, true)
				} else {
					c.R.Bad(rule, FuncShort(fn), construct, c.pos(ta.Pos()), "unchecked type assertion whose operand's dynamic type is not fixed by construction ("+why+"): a panic here aborts the request (or the process, outside a gin handler)")
				}
			}
		}
	}
}

// exprKey identifies the memory expression an interface value was loaded from.
func exprKey(v ssa.Value) string {
	switch x := v.(type) {
	case *ssa.UnOp:
		if x.Op == token.MUL {
			switch a := x.X.(type) {
			case *ssa.IndexAddr:
				return "idx(" + exprKey(a.X) + fmt.Sprintf(",%p)", a.Index)
			case *ssa.FieldAddr:
				k, _ := pathKey(a)
				return k
			case *ssa.Alloc:
				return fmt.Sprintf("alloc%p", a)
			}
		}
	case *ssa.Lookup:
		if s, ok := ConstString(x.Index); ok {
			return "map(" + exprKey(x.X) + ")[" + s + "]"
		}
		return "map(" + exprKey(x.X) + fmt.Sprintf(")[%p]", x.Index)
	case *ssa.Extract:
		return exprKey(x.Tuple) + "#" + itoa(x.Index)
	}
	return fmt.Sprintf("%p", v)
}

func (c *Ctx) assertDischarged(fn *ssa.Function, ta *ssa.TypeAssert) (bool, string) {
	want := ta.AssertedType
	// (a) all reaching definitions box the asserted static type
	seen := map[ssa.Value]bool{}
	var boxed func(v ssa.Value) (bool, string)
	boxed = func(v ssa.Value) (bool, string) {
		if seen[v] {
			return true, ""
		}
		seen[v] = true
		switch x := v.(type) {
		case *ssa.MakeInterface:
			if types.Identical(x.X.Type(), want) {
				return true, ""
			}
			return false, "a reaching definition boxes " + x.X.Type().String()
		case *ssa.Phi:
			for _, e := range x.Edges {
				if ok, why := boxed(e); !ok {
					return false, why
				}
			}
			return true, ""
		case *ssa.UnOp:
			// load of a local interface variable: follow its stores
			if al, ok := x.X.(*ssa.Alloc); ok && x.Op == token.MUL {
				n := 0
				for _, r := range *al.Referrers() {
					if st, ok := r.(*ssa.Store); ok && st.Addr == ssa.Value(al) {
						n++
						if ok, why := boxed(st.Val); !ok {
							return false, why
						}
					}
				}
				if n > 0 {
					return true, ""
				}
			}
		}
		return false, "operand is " + AccessPath(v)
	}
	if ok, _ := boxed(ta.X); ok {
		return true, "every reaching definition boxes a value of the asserted static type"
	}
	// (a') interface-to-interface assertion to the operand's own static type: fails only for nil
	if _, isIface := want.Underlying().(*types.Interface); isIface && types.Identical(ta.X.Type(), want) {
		if ParamOf(ta.X) != nil {
			return true, "asserts an interface parameter to its own static interface type (can only fail for a nil interface; the parameter is the receiver of earlier calls)"
		}
	}
	// (b) a dominating comma-ok assertion / type-switch case on the same expression
	key := exprKey(ta.X)
	for _, f := range FactsAt(ta.Block()) {
		ex, ok := f.Cond.(*ssa.Extract)
		if !ok || ex.Index != 1 || !f.Truth {
			continue
		}
		prev, ok := ex.Tuple.(*ssa.TypeAssert)
		if !ok || !prev.CommaOk || !types.Identical(prev.AssertedType, want) {
			continue
		}
		if prev.X == ta.X || exprKey(prev.X) == key {
			// the expression must not be reassigned in between: field-based check for paths through fields
			return true, "dominated by a successful comma-ok assertion (type-switch case) of the same expression to the same type"
		}
	}
	// (c) constant key of a structs.Map / ToMap result
	if ok, why := c.structMapAssert(fn, ta); ok {
		return true, why
	} else if why != "" {
		return false, why
	}
	// (d) client table
	{
		v := ta.X
		if ex, ok := v.(*ssa.Extract); ok {
			v = ex.Tuple
		}
		if call, ok := v.(*ssa.Call); ok && CalleeName(call) == "(*sync.Map).Load" {
			if t, f, _, ok := FieldOf(CallRecv(call)); ok && t == PkgServer+".Teamserver" && f == "Clients" && want.String() == "*"+PkgServer+".Client" {
				return true, "operand comes from the client table, which stores *Client only (checked by R10-preauth-assert)"
			}
		}
		if p, ok := v.(*ssa.Parameter); ok && p.Parent().Parent() != nil && len(p.Parent().Params) == 2 && FuncPkgPathOf(p.Parent()) == PkgServer {
			if want.String() == "*"+PkgServer+".Client" || want.String() == "string" {
				return true, "sync.Map.Range callback parameter of the client table (string keys, *Client values)"
			}
		}
	}
	_, why := boxed(ta.X)
	return false, why
}

// structMapAssert decides m["Key"].(T) where m is structs.Map(v)/(*Agent).ToMap().
func (c *Ctx) structMapAssert(fn *ssa.Function, ta *ssa.TypeAssert) (bool, string) {
	lk, ok := ta.X.(*ssa.Lookup)
	if !ok {
		return false, ""
	}
	key, ok := ConstString(lk.Index)
	if !ok {
		return false, ""
	}
	st := c.structOfMap(fn, lk.X, 0)
	if st == nil {
		return false, ""
	}
	for i := 0; i < st.NumFields(); i++ {
		f := st.Field(i)
		if f.Name() != key || !f.Exported() {
			continue
		}
		ft := f.Type()
		want := ta.AssertedType
		// struct / *struct fields become map[string]interface{}
		under := ft
		if p, ok := under.Underlying().(*types.Pointer); ok {
			under = p.Elem()
		}
		if _, isStruct := under.Underlying().(*types.Struct); isStruct {
			if want.String() == "map[string]interface{}" || want.String() == "map[string]any" {
				return true, "structs.Map turns struct field " + key + " into map[string]interface{}"
			}
			return false, "struct field " + key + " becomes map[string]interface{}, not " + want.String()
		}
		if types.Identical(ft, want) {
			return true, "struct field " + key + " has the asserted type " + want.String()
		}
		return false, "struct field " + key + " has type " + ft.String() + ", asserted " + want.String() + " (the assertion panics on every call)"
	}
	return false, "the struct behind the map has no exported field " + key
}

// structOfMap resolves the struct type a map[string]interface{} value was made from.
func (c *Ctx) structOfMap(fn *ssa.Function, m ssa.Value, depth int) *types.Struct {
	if depth > 4 {
		return nil
	}
	asStruct := func(t types.Type) *types.Struct {
		if p, ok := t.Underlying().(*types.Pointer); ok {
			t = p.Elem()
		}
		s, _ := t.Underlying().(*types.Struct)
		return s
	}
	switch x := m.(type) {
	case *ssa.Call:
		switch CalleeName(x) {
		case "(*Havoc/pkg/agent.Agent).ToMap":
			return asStruct(x.Call.Args[0].Type())
		case "github.com/fatih/structs.Map":
			if mi, ok := x.Call.Args[0].(*ssa.MakeInterface); ok {
				return asStruct(mi.X.Type())
			}
		}
	case *ssa.TypeAssert:
		// nested: m["Info"].(map[string]interface{})
		if lk, ok := x.X.(*ssa.Lookup); ok {
			if key, ok := ConstString(lk.Index); ok {
				if outer := c.structOfMap(fn, lk.X, depth+1); outer != nil {
					for i := 0; i < outer.NumFields(); i++ {
						if outer.Field(i).Name() == key {
							return asStruct(outer.Field(i).Type())
						}
					}
				}
			}
		}
	case *ssa.Parameter:
		// every caller passes a ToMap()/structs.Map result
		n := c.P.CHA().Nodes[fn]
		if n == nil || len(n.In) == 0 {
			return nil
		}
		idx := -1
		for i, q := range fn.Params {
			if q == x {
				idx = i
			}
		}
		var res *types.Struct
		for _, e := range n.In {
			if e.Site == nil {
				return nil
			}
			args := e.Site.Common().Args
			if e.Site.Common().IsInvoke() {
				// receiver is not in Args for invoke
				if idx-1 < 0 || idx-1 >= len(args) {
					return nil
				}
				s := c.structOfMap(e.Caller.Func, args[idx-1], depth+1)
				if s == nil {
					return nil
				}
				res = s
				continue
			}
			if idx >= len(args) {
				return nil
			}
			s := c.structOfMap(e.Caller.Func, args[idx], depth+1)
			if s == nil {
				return nil
			}
			res = s
		}
		return res
	}
	return nil
}

// bceSites: (file:line) of every index/slice instruction R1Bounds looked at, trivial ones included.
func (c *Ctx) noteBoundsSite(in ssa.Instruction) {
	if c.boundsSeen == nil {
		c.boundsSeen = map[string]bool{}
	}
	if in.Pos().IsValid() {
		p := c.P.Fset.Position(in.Pos())
		c.boundsSeen[p.Filename+":"+itoa(p.Line)] = true
	}
}

// R1BCECross — thorough tier: the compiler's own list of bounds checks it
// could not eliminate (a compile with -d=ssa/check_bce, nothing is run) must be
// a subset of the sites R1Bounds enumerated in the scope: the analyser has not
// overlooked a kind of indexing.
func R1BCECross(c *Ctx, scope []*ssa.Function, suffix string, floor int) {
	rule := "R1-bce-crosscheck" + suffix
	c.R.Rule(rule, "every bounds check the Go compiler reports as not eliminated (go build -gcflags=-d=ssa/check_bce/debug=1; a compile, nothing runs) inside a function of the scope is one of the index/slice sites R1-bounds decided", floor)
	inScope := map[*ssa.Function]bool{}
	pkgs := map[string]bool{}
	for _, fn := range scope {
		inScope[fn] = true
		pkgs[FuncPkgPathOf(fn)] = true
	}
	// innermost function by source range
	type rng struct {
		fn         *ssa.Function
		file       string
		start, end int
	}
	var rngs []rng
	for fn := range c.P.AllFuncs() {
		if fn.Syntax() == nil || !c.P.InModule(FuncPkgPathOf(fn)) {
			continue
		}
		s, e := c.P.Fset.Position(fn.Syntax().Pos()), c.P.Fset.Position(fn.Syntax().End())
		rngs = append(rngs, rng{fn, s.Filename, s.Line, e.Line})
	}
	var plist []string
	for p := range pkgs {
		plist = append(plist, p)
	}
	sort.Strings(plist)
	dir := filepath.Join(c.Repo, "teamserver")
	re := regexp.MustCompile(`^(\S+?):(\d+):(\d+): Found (IsInBounds|IsSliceInBounds)`)
	for _, p := range plist {
		if p == "" {
			continue
		}
		cmd := exec.Command("go", "build", "-gcflags="+p+"=-d=ssa/check_bce/debug=1", p)
		cmd.Dir = dir
		cmd.Env = append(os.Environ(), "GOFLAGS=-mod=mod", "GOPROXY=off", "GOSUMDB=off", "GOTOOLCHAIN=local", "GOWORK=off")
		out, err := cmd.CombinedOutput()
		if err != nil && !strings.Contains(string(out), "Found ") {
			c.R.Und(rule, p, "compile with check_bce", "-", "the cross-check compile failed: "+strings.TrimSpace(string(out)))
			continue
		}
		n, miss := 0, 0
		for _, line := range strings.Split(string(out), "\n") {
			m := re.FindStringSubmatch(strings.TrimSpace(line))
			if m == nil {
				continue
			}
			file := filepath.Join(dir, m[1])
			ln, _ := strconv.Atoi(m[2])
			var best *rng
			for i := range rngs {
				r := &rngs[i]
				if r.file == file && r.start <= ln && ln <= r.end && (best == nil || r.end-r.start < best.end-best.start) {
					best = r
				}
			}
			if best == nil || !inScope[best.fn] {
				continue
			}
			n++
			col, _ := strconv.Atoi(m[3])
			if !c.boundsSeen[file+":"+itoa(ln)] && c.inlinedAt(FuncPkgPathOf(best.fn), file, ln, col) {
				c.R.Ok(rule, FuncShort(best.fn), "compiler-kept "+m[4]+" at a call", "teamserver/"+m[1]+":"+m[2]+":"+m[3], "the position is the parenthesis of a call (or a comparison operator): the check belongs to the inlined callee's body, which is decided where it is declared (module) or trusted (standard library)", false)
				continue
			}
			if !c.boundsSeen[file+":"+itoa(ln)] {
				miss++
				c.R.Und(rule, FuncShort(best.fn), "compiler-kept "+m[4], "teamserver/"+m[1]+":"+m[2]+":"+m[3], "the compiler keeps a bounds check here that R1-bounds did not enumerate")
			} else {
				c.R.Ok(rule, FuncShort(best.fn), "compiler-kept "+m[4], "teamserver/"+m[1]+":"+m[2]+":"+m[3], "among the sites R1-bounds decided", false)
			}
		}
		c.R.Extra["bce_sites_"+shortCallee(p)] = n
		_ = miss
	}
}

// inlinedAt: the position is the "(" of a call expression or the operator of an ==/!= comparison.
func (c *Ctx) inlinedAt(pkgPath, file string, line, col int) bool {
	pk := c.P.ByPath[pkgPath]
	if pk == nil {
		return false
	}
	found := false
	for _, f := range pk.Syntax {
		if c.P.Fset.Position(f.Pos()).Filename != file {
			continue
		}
		ast.Inspect(f, func(n ast.Node) bool {
			if found || n == nil {
				return false
			}
			var p token.Pos
			switch x := n.(type) {
			case *ast.CallExpr:
				p = x.Lparen
			case *ast.BinaryExpr:
				if x.Op == token.EQL || x.Op == token.NEQ {
					p = x.OpPos
				}
			}
			if p.IsValid() {
				pp := c.P.Fset.Position(p)
				if pp.Line == line && pp.Column == col {
					found = true
				}
			}
			return true
		})
	}
	return found
}

// paramNonEmpty: prm is a slice/string parameter of a module function that is only called statically and every
// call site passes a value whose length is provably >= 1 there (e.g. after `if len(buf) == 0 { return }`).
func (c *Ctx) paramNonEmpty(prm *ssa.Parameter) bool {
	if c.nonEmpty == nil {
		c.nonEmpty = map[*ssa.Parameter]int{}
	}
	switch c.nonEmpty[prm] {
	case 1:
		return true
	case 2, 3:
		return false // known false, or in progress (recursion)
	}
	c.nonEmpty[prm] = 3
	res := func() bool {
		fn := prm.Parent()
		idx := -1
		for i, q := range fn.Params {
			if q == prm {
				idx = i
			}
		}
		if idx < 0 {
			return false
		}
		n := c.P.CHA().Nodes[fn]
		if n == nil || len(n.In) == 0 {
			return false
		}
		for _, e := range n.In {
			if e.Site == nil {
				return false
			}
			cc := e.Site.Common()
			if cc.StaticCallee() == nil && !cc.IsInvoke() && !c.addressTaken()[fn] {
				continue
			}
			if cc.StaticCallee() != fn || idx >= len(cc.Args) {
				return false
			}
			caller := e.Site.Parent()
			pr := newProver(c, heapLoadsOf(caller), caller, e.Site.Block())
			arg := cc.Args[idx]
			pr.lenFacts(arg)
			if !pr.g.prove("0", lenKey(pr.canon(arg)), -1) {
				return false
			}
		}
		return true
	}()
	if res {
		c.nonEmpty[prm] = 1
	} else {
		c.nonEmpty[prm] = 2
	}
	return res
}
