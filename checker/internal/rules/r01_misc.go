package rules

import (
	"go/ast"
	"go/token"
	"go/types"
	"strings"

	"golang.org/x/tools/go/packages"
	"golang.org/x/tools/go/ssa"

	"hv/internal/core"
)

// R1Explicit — explicit process/handler aborts, division, nil-map writes.
func R1Explicit(c *Ctx, scope []*ssa.Function, ruleSuffix string) {
	rule := "R1-abort" + ruleSuffix
	c.R.Rule(rule, "no reachable explicit panic / log.Fatal / os.Exit, no integer division by a value that can be zero and no write to a map that may be nil in the scope (environment faults are listed with their reason in tables/bounds_reviewed.json)", 1)
	reviewed := loadReviewed(c)
	emit := func(fn *ssa.Function, in ssa.Instruction, construct, msg string) {
		if w, ok := c.reviewedWhy(reviewed, fn, FuncShort(fn), construct); ok {
			c.R.Ok(rule, FuncShort(fn), construct, c.pos(in.Pos()), "reviewed: "+w, true)
			return
		}
		c.R.Bad(rule, FuncShort(fn), construct, c.pos(in.Pos()), msg)
	}
	nMaps := 0
	for _, fn := range scope {
		for _, b := range fn.Blocks {
			var pr *prover
			for _, in := range b.Instrs {
				switch x := in.(type) {
				case *ssa.Panic:
					emit(fn, in, "panic("+AccessPath(x.X)+")", "explicit panic reachable from untrusted traffic")
				case ssa.CallInstruction:
					n := CalleeName(x)
					switch n {
					case "log.Fatal", "log.Fatalf", "log.Fatalln", "os.Exit", "log.Panic", "log.Panicf", "log.Panicln", "(*log.Logger).Fatal", "(*log.Logger).Fatalf":
						emit(fn, in, "call "+n, "process-terminating call reachable from untrusted traffic")
					}
				case *ssa.BinOp:
					if (x.Op == token.QUO || x.Op == token.REM) && isIntType(x.Type()) {
						if v, ok := ConstInt(x.Y); ok && v != 0 {
							continue
						}
						if pr == nil {
							pr = newProver(c, heapLoadsOf(fn), fn, b)
						}
						t := pr.norm(x.Y)
						if t.ok && pr.g.prove("0", t.sym, t.off-1) { // y >= 1
							c.R.Ok(rule, FuncShort(fn), AccessPath(x.X)+x.Op.String()+AccessPath(x.Y), c.pos(in.Pos()), "divisor proved >= 1", true)
							continue
						}
						emit(fn, in, AccessPath(x.X)+x.Op.String()+AccessPath(x.Y), "integer division by a value not proved non-zero: divide-by-zero panic")
					}
				case *ssa.MapUpdate:
					nMaps++
					if mapNonNil(x.Map, map[ssa.Value]bool{}) || c.fieldMapMade(x.Map, in) || c.paramMapMade(x.Map, 0) {
						continue
					}
					emit(fn, in, "map update "+AccessPath(x.Map)+"[…] = …", "assignment to an entry of a map that is not provably non-nil (not made in this function): panics when the map is nil")
				}
			}
		}
	}
	c.R.Extra["map_updates_checked"+ruleSuffix] = nMaps
	c.R.Ok(rule, "-", "scope scan", "-", "scanned the scope for panic/Fatal/Exit, integer division and map updates", false)
}

// mapNonNil: every reaching definition of the map is make(map…) / a literal.
func mapNonNil(v ssa.Value, seen map[ssa.Value]bool) bool {
	if seen[v] {
		return true
	}
	seen[v] = true
	switch x := v.(type) {
	case *ssa.MakeMap:
		return true
	case *ssa.Phi:
		for _, e := range x.Edges {
			if !mapNonNil(e, seen) {
				return false
			}
		}
		return true
	case *ssa.UnOp:
		if x.Op == token.MUL {
			if al, ok := x.X.(*ssa.Alloc); ok {
				n := 0
				for _, r := range *al.Referrers() {
					if st, ok := r.(*ssa.Store); ok && st.Addr == ssa.Value(al) {
						n++
						if !mapNonNil(st.Val, seen) {
							return false
						}
					}
				}
				return n > 0
			}
			// *Message where Message is a *map parameter: the callers' business; handled as parameter
			if p := ParamOf(x.X); p != nil {
				return false
			}
		}
	case *ssa.ChangeType:
		return mapNonNil(x.X, seen)
	case *ssa.Lookup:
		// m["k"] of a map literal built in this function whose entry "k" is itself a made map
		if mk, ok := x.X.(*ssa.MakeMap); ok && !x.CommaOk {
			if key, ok := ConstString(x.Index); ok {
				for _, r := range *mk.Referrers() {
					if mu, ok := r.(*ssa.MapUpdate); ok && mu.Map == ssa.Value(mk) {
						if k2, ok := ConstString(mu.Key); ok && k2 == key && InstrDominates(mu, x) {
							return mapNonNil(mu.Value, seen)
						}
					}
				}
			}
		}
	case *ssa.Call:
		// documented: structs.Map always returns a freshly made map
		if CalleeName(x) == "github.com/fatih/structs.Map" || CalleeName(x) == "(*Havoc/pkg/agent.Agent).ToMap" {
			return true
		}
	}
	return false
}

// fieldMapMade: m is a load of a map-typed field that (a) a dominating store in
// this function set to make(map…) with no modification in between, or (b) is
// covered by the `if f == nil { f = make(…) }` idiom right before the use.
func (c *Ctx) fieldMapMade(m ssa.Value, at ssa.Instruction) bool {
	l, ok := m.(*ssa.UnOp)
	if !ok || l.Op != token.MUL {
		return false
	}
	key, field := pathKey(l.X)
	if key == "" {
		return false
	}
	fn := at.Parent()
	for _, b := range fn.Blocks {
		for _, in := range b.Instrs {
			st, ok := in.(*ssa.Store)
			if !ok {
				continue
			}
			k2, _ := pathKey(st.Addr)
			if k2 != key {
				continue
			}
			if _, isMake := st.Val.(*ssa.MakeMap); !isMake {
				continue
			}
			if InstrDominates(st, l) && c.stableBetween(st, l, field) {
				return true
			}
			// (b) the store sits in the then-branch of `if load(P) == nil` whose else edge joins at the use
			if len(b.Preds) == 1 {
				d := b.Preds[0]
				if iff, ok := d.Instrs[len(d.Instrs)-1].(*ssa.If); ok && d.Succs[0] == b && len(b.Succs) == 1 && b.Succs[0] == d.Succs[1] {
					if bo, ok := iff.Cond.(*ssa.BinOp); ok && bo.Op == token.EQL && (isNilConst(bo.Y) || isNilConst(bo.X)) {
						w := bo.X
						if isNilConst(bo.X) {
							w = bo.Y
						}
						if wl, ok := w.(*ssa.UnOp); ok && wl.Op == token.MUL {
							if k3, _ := pathKey(wl.X); k3 == key {
								join := d.Succs[1]
								if (join == l.Block() || join.Dominates(l.Block())) && c.stableBetween(join.Instrs[0], l, field) {
									return true
								}
							}
						}
					}
				}
			}
		}
	}
	return false
}

// R1PivotAddJobPre — the precondition the reviewed PivotAddJob obligations rest on.
func R1PivotAddJobPre(c *Ctx) {
	const rule = "R1-pivotaddjob-precondition"
	c.R.Rule(rule, "every call of PivotAddJob is dominated by `<receiver>.Pivots.Parent != nil`", 1)
	n := 0
	for fn := range c.P.AllFuncs() {
		if fn.Blocks == nil || !c.P.InModule(core.FuncPkgPath(fn)) {
			continue
		}
		EachCall(fn, func(call ssa.CallInstruction) {
			if CalleeName(call) != "(*Havoc/pkg/agent.Agent).PivotAddJob" {
				return
			}
			n++
			recv := call.Common().Args[0]
			ok := false
			for _, f := range FactsAt(call.Block()) {
				bo, isBin := f.Cond.(*ssa.BinOp)
				if !isBin || !((bo.Op == token.NEQ && f.Truth) || (bo.Op == token.EQL && !f.Truth)) {
					continue
				}
				var w ssa.Value
				if isNilConst(bo.Y) {
					w = bo.X
				} else if isNilConst(bo.X) {
					w = bo.Y
				}
				if w == nil {
					continue
				}
				if l, isL := w.(*ssa.UnOp); isL && l.Op == token.MUL {
					if _, f1, b1, ok1 := FieldOf(l.X); ok1 && f1 == "Parent" {
						if _, f2, b2, ok2 := FieldOf(b1); ok2 && f2 == "Pivots" && (b2 == recv || AccessPath(b2) == AccessPath(recv)) {
							ok = true
						}
					}
				}
			}
			if ok {
				c.R.Ok(rule, FuncShort(fn), "a.PivotAddJob(job)", c.pos(call.Pos()), "called only for an agent with a parent", true)
			} else {
				c.R.Bad(rule, FuncShort(fn), "a.PivotAddJob(job)", c.pos(call.Pos()), "PivotAddJob is called without establishing that the agent has a parent: its wrapping loop dereferences Pivots.Parent")
			}
		})
	}
	if n == 0 {
		c.R.Anchor(rule, "a call of (*Agent).PivotAddJob")
	}
}

// R1Loops — every loop in the scope is of a terminating kind.
func R1Loops(c *Ctx, scope []*ssa.Function, ruleSuffix string) {
	rule := "R1-loops" + ruleSuffix
	c.R.Rule(rule, "every for statement in the scope is a range loop, a counted loop whose induction variable moves monotonically towards its bound, a CanIRead-conditioned loop (progress: R2-loop-progress), or is listed with its termination argument in tables/bounds_reviewed.json", 20)
	reviewed := loadReviewed(c)
	seenDecl := map[*ast.FuncDecl]bool{}
	for _, fn := range scope {
		root := fn
		for root.Parent() != nil {
			root = root.Parent()
		}
		fd, _ := root.Syntax().(*ast.FuncDecl)
		if fd == nil || fd.Body == nil || seenDecl[fd] {
			continue
		}
		seenDecl[fd] = true
		pk := c.P.ByPath[core.FuncPkgPath(root)]
		if pk == nil {
			continue
		}
		fname := FuncShort(root)
		ast.Inspect(fd.Body, func(n ast.Node) bool {
			switch s := n.(type) {
			case *ast.RangeStmt:
				c.R.Ok(rule, fname, "range "+ExprStr(s.X), c.pos(s.Pos()), "range over a finite value evaluated once", false)
			case *ast.ForStmt:
				construct := "for " + condStr(s)
				switch {
				case s.Cond != nil && containsCallTo(pk, s.Cond, PkgParser+".Parser.CanIRead") > 0:
					c.R.Ok(rule, fname, construct, c.pos(s.Pos()), "CanIRead-conditioned: each iteration consumes input (R2-loop-progress)", true)
				case s.Cond != nil && isRowsNext(pk, s.Cond):
					c.R.Ok(rule, fname, construct, c.pos(s.Pos()), "iterates a finite database result set", false)
				case chainWalk(s) || chainWalkBody(s):
					c.R.Ok(rule, fname, construct, c.pos(s.Pos()), "walk along a pointer chain until nil (x = x.<field>): terminates because the linked structure is acyclic (pivot graph: R9-cycle-guard keeps it a forest)", true)
				case ioLoop(pk, s):
					c.R.Ok(rule, fname, construct, c.pos(s.Pos()), "relay loop around a blocking read: every iteration calls a Read/Accept-style function and leaves the loop (return/break) when it fails, i.e. when the peer closes", true)
				case countedLoop(pk, s):
					c.R.Ok(rule, fname, construct, c.pos(s.Pos()), "counted loop: the induction variable moves monotonically towards its bound", true)
				default:
					if w, ok := c.reviewedWhy(reviewed, root, fname, construct); ok {
						c.R.Ok(rule, fname, construct, c.pos(s.Pos()), "reviewed: "+w, true)
					} else {
						c.R.Bad(rule, fname, construct, c.pos(s.Pos()), "loop with no recognised termination argument in code reachable from untrusted traffic")
					}
				}
			}
			return true
		})
	}
}

func condStr(s *ast.ForStmt) string {
	if s.Cond == nil {
		return "{}"
	}
	str := ExprStr(s.Cond)
	if len(str) > 80 {
		str = str[:80] + "…"
	}
	return str
}

// countedLoop: `for i := a; i < b; i++ / i += k / i-- …` with i not assigned in the body.
func countedLoop(pk interface{}, s *ast.ForStmt) bool {
	if s.Cond == nil || s.Post == nil {
		return false
	}
	be, ok := s.Cond.(*ast.BinaryExpr)
	if !ok {
		return false
	}
	var iv string
	up := false
	switch p := s.Post.(type) {
	case *ast.IncDecStmt:
		id, ok := p.X.(*ast.Ident)
		if !ok {
			return false
		}
		iv, up = id.Name, p.Tok == token.INC
	case *ast.AssignStmt:
		if len(p.Lhs) != 1 {
			return false
		}
		id, ok := p.Lhs[0].(*ast.Ident)
		if !ok {
			return false
		}
		switch p.Tok {
		case token.ADD_ASSIGN:
			iv, up = id.Name, true
		case token.SUB_ASSIGN:
			iv, up = id.Name, false
		case token.QUO_ASSIGN:
			iv, up = id.Name, false
		default:
			return false
		}
	default:
		return false
	}
	mentions := func(e ast.Expr) bool {
		found := false
		ast.Inspect(e, func(n ast.Node) bool {
			if id, ok := n.(*ast.Ident); ok && id.Name == iv {
				found = true
			}
			return true
		})
		return found
	}
	switch be.Op {
	case token.LSS, token.LEQ:
		if !(up && mentions(be.X) || !up && mentions(be.Y)) {
			return false
		}
	case token.GTR, token.GEQ:
		if !(!up && mentions(be.X) || up && mentions(be.Y)) {
			return false
		}
	default:
		return false
	}
	// the induction variable is not assigned in the body
	assigned := false
	ast.Inspect(s.Body, func(n ast.Node) bool {
		switch a := n.(type) {
		case *ast.AssignStmt:
			for _, l := range a.Lhs {
				if id, ok := l.(*ast.Ident); ok && id.Name == iv {
					assigned = true
				}
			}
		case *ast.IncDecStmt:
			if id, ok := a.X.(*ast.Ident); ok && id.Name == iv {
				assigned = true
			}
		}
		return true
	})
	return !assigned
}

var _ = types.Typ
var _ = strings.Join

func isRowsNext(pk *packages.Package, e ast.Expr) bool {
	call, ok := ast.Unparen(e).(*ast.CallExpr)
	if !ok {
		return false
	}
	return FullName(Callee(pk.TypesInfo, call)) == "database/sql.Rows.Next"
}

// chainWalk: `for x := e; x != nil; x = x.F1.F2…` with x not otherwise assigned in the body.
func chainWalk(s *ast.ForStmt) bool {
	be, ok := s.Cond.(*ast.BinaryExpr)
	if !ok || be.Op != token.NEQ {
		return false
	}
	id, ok := be.X.(*ast.Ident)
	if !ok {
		return false
	}
	if nl, ok := be.Y.(*ast.Ident); !ok || nl.Name != "nil" {
		return false
	}
	as, ok := s.Post.(*ast.AssignStmt)
	if !ok || len(as.Lhs) != 1 || len(as.Rhs) != 1 || as.Tok != token.ASSIGN {
		return false
	}
	if l, ok := as.Lhs[0].(*ast.Ident); !ok || l.Name != id.Name {
		return false
	}
	// rhs is a selector chain rooted at x
	e := as.Rhs[0]
	depth := 0
	for {
		sel, ok := e.(*ast.SelectorExpr)
		if !ok {
			break
		}
		e = sel.X
		depth++
	}
	root, ok := e.(*ast.Ident)
	if !ok || root.Name != id.Name || depth == 0 {
		return false
	}
	assigned := false
	ast.Inspect(s.Body, func(n ast.Node) bool {
		if a, ok := n.(*ast.AssignStmt); ok {
			for _, l := range a.Lhs {
				if li, ok := l.(*ast.Ident); ok && li.Name == id.Name {
					assigned = true
				}
			}
		}
		return true
	})
	return !assigned
}

// chainWalkBody: a loop (any header form) in which some variable v is reassigned only by field selections rooted
// at v itself (v = v.A.B, v = &v.A.B) and whose condition or an `if … { break/return }` in its body tests a field
// path rooted at v against nil: a walk along a pointer chain, same termination argument as chainWalk.
func chainWalkBody(s *ast.ForStmt) bool {
	rootOf := func(e ast.Expr) (string, int) {
		depth := 0
		for {
			switch x := e.(type) {
			case *ast.SelectorExpr:
				e = x.X
				depth++
				continue
			case *ast.UnaryExpr:
				if x.Op == token.AND {
					e = x.X
					continue
				}
			case *ast.ParenExpr:
				e = x.X
				continue
			case *ast.StarExpr:
				e = x.X
				continue
			}
			break
		}
		if id, ok := e.(*ast.Ident); ok {
			return id.Name, depth
		}
		return "", 0
	}
	// candidate variables: assigned in body/post from a selection rooted at themselves
	cands := map[string]bool{}
	bad := map[string]bool{}
	visitAssign := func(a *ast.AssignStmt) {
		if len(a.Lhs) != len(a.Rhs) {
			for _, l := range a.Lhs {
				if id, ok := l.(*ast.Ident); ok {
					bad[id.Name] = true
				}
			}
			return
		}
		for i, l := range a.Lhs {
			id, ok := l.(*ast.Ident)
			if !ok {
				continue
			}
			r, d := rootOf(a.Rhs[i])
			if r == id.Name && d > 0 && a.Tok == token.ASSIGN {
				cands[id.Name] = true
			} else {
				bad[id.Name] = true
			}
		}
	}
	ast.Inspect(s.Body, func(n ast.Node) bool {
		switch x := n.(type) {
		case *ast.FuncLit:
			return false
		case *ast.AssignStmt:
			visitAssign(x)
		}
		return true
	})
	if a, ok := s.Post.(*ast.AssignStmt); ok {
		visitAssign(a)
	}
	nilTestOn := func(e ast.Expr) string {
		be, ok := e.(*ast.BinaryExpr)
		if !ok || (be.Op != token.NEQ && be.Op != token.EQL) {
			return ""
		}
		if nl, ok := be.Y.(*ast.Ident); !ok || nl.Name != "nil" {
			return ""
		}
		r, _ := rootOf(be.X)
		return r
	}
	for v := range cands {
		if bad[v] {
			continue
		}
		if s.Cond != nil && nilTestOn(s.Cond) == v {
			return true
		}
		found := false
		ast.Inspect(s.Body, func(n ast.Node) bool {
			if _, ok := n.(*ast.FuncLit); ok {
				return false
			}
			ifs, ok := n.(*ast.IfStmt)
			if !ok || nilTestOn(ifs.Cond) != v {
				return true
			}
			ast.Inspect(ifs.Body, func(m ast.Node) bool {
				switch y := m.(type) {
				case *ast.BranchStmt:
					if y.Tok == token.BREAK {
						found = true
					}
				case *ast.ReturnStmt:
					found = true
				}
				return true
			})
			return true
		})
		if found {
			return true
		}
	}
	return false
}

// ioLoop: `for { … }` whose body calls a blocking Read/Accept-style function returning an error, and on the
// branch where that error is non-nil the loop is left (return, or break of this loop).
func ioLoop(pk *packages.Package, s *ast.ForStmt) bool {
	if s.Cond != nil {
		return false
	}
	blocking := func(call *ast.CallExpr) bool {
		fn := Callee(pk.TypesInfo, call)
		name := ""
		if fn != nil {
			name = fn.Name()
		} else if sel, ok := call.Fun.(*ast.SelectorExpr); ok {
			name = sel.Sel.Name
		}
		if !(strings.Contains(name, "Read") || strings.Contains(name, "Accept") || strings.Contains(name, "Recv")) {
			return false
		}
		if sig, ok := pk.TypesInfo.TypeOf(call.Fun).(*types.Signature); ok && sig.Results().Len() > 0 {
			last := sig.Results().At(sig.Results().Len() - 1).Type()
			return last.String() == "error"
		}
		return false
	}
	// err identifiers assigned from blocking calls in the body
	errs := map[types.Object]bool{}
	ast.Inspect(s.Body, func(n ast.Node) bool {
		if _, ok := n.(*ast.FuncLit); ok {
			return false
		}
		as, ok := n.(*ast.AssignStmt)
		if !ok || len(as.Rhs) != 1 {
			return true
		}
		call, ok := as.Rhs[0].(*ast.CallExpr)
		if !ok || !blocking(call) {
			return true
		}
		if id, ok := as.Lhs[len(as.Lhs)-1].(*ast.Ident); ok {
			if o := pk.TypesInfo.ObjectOf(id); o != nil {
				errs[o] = true
			}
		}
		return true
	})
	if len(errs) == 0 {
		return false
	}
	leaves := func(body *ast.BlockStmt) bool {
		out := false
		ast.Inspect(body, func(m ast.Node) bool {
			switch y := m.(type) {
			case *ast.FuncLit:
				return false
			case *ast.ForStmt, *ast.RangeStmt, *ast.SwitchStmt, *ast.SelectStmt, *ast.TypeSwitchStmt:
				// a break in here would leave the inner statement, not our loop; a return still counts
				ast.Inspect(y, func(k ast.Node) bool {
					if _, ok := k.(*ast.ReturnStmt); ok {
						out = true
					}
					return true
				})
				return false
			case *ast.BranchStmt:
				if y.Tok == token.BREAK || y.Tok == token.GOTO {
					out = true
				}
			case *ast.ReturnStmt:
				out = true
			}
			return true
		})
		return out
	}
	ok := false
	ast.Inspect(s.Body, func(n ast.Node) bool {
		if _, isLit := n.(*ast.FuncLit); isLit {
			return false
		}
		ifs, isIf := n.(*ast.IfStmt)
		if !isIf {
			return true
		}
		be, isBin := ifs.Cond.(*ast.BinaryExpr)
		if !isBin {
			return true
		}
		id, isID := be.X.(*ast.Ident)
		nl, isNil := be.Y.(*ast.Ident)
		if !isID || !isNil || nl.Name != "nil" || !errs[pk.TypesInfo.ObjectOf(id)] {
			return true
		}
		switch be.Op {
		case token.NEQ:
			if leaves(ifs.Body) {
				ok = true
			}
		case token.EQL:
			if eb, isBlock := ifs.Else.(*ast.BlockStmt); isBlock && leaves(eb) {
				ok = true
			}
		}
		return true
	})
	return ok
}

// paramMapMade: the map is a parameter of a helper that is only called statically, and every call site passes a map
// that is provably non-nil there (made in the caller, or itself such a parameter).
func (c *Ctx) paramMapMade(m ssa.Value, depth int) bool {
	prm, ok := m.(*ssa.Parameter)
	if !ok || depth > 2 {
		return false
	}
	h := prm.Parent()
	idx := -1
	for i, q := range h.Params {
		if q == prm {
			idx = i
		}
	}
	if idx < 0 {
		return false
	}
	return c.EveryCallSite(h, func(site ssa.CallInstruction) bool {
		args := site.Common().Args
		if idx >= len(args) {
			return false
		}
		a := args[idx]
		return mapNonNil(a, map[ssa.Value]bool{}) || c.fieldMapMade(a, site.(ssa.Instruction)) || c.paramMapMade(a, depth+1)
	})
}
