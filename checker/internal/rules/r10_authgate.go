package rules

import (
	"go/constant"
	"go/token"
	"go/types"
	"strings"

	"golang.org/x/tools/go/ssa"
)

// DerivesFrom walks the backward def-use closure of v (through conversions,
// loads, phis, string concatenation, slices, calls' arguments and type
// assertions) and reports whether pred holds for some value on the way.
func DerivesFrom(v ssa.Value, pred func(ssa.Value) bool) bool {
	seen := map[ssa.Value]bool{}
	var rec func(v ssa.Value, d int) bool
	rec = func(v ssa.Value, d int) bool {
		if v == nil || seen[v] || d > 60 {
			return false
		}
		seen[v] = true
		if pred(v) {
			return true
		}
		switch x := v.(type) {
		case *ssa.Convert:
			return rec(x.X, d+1)
		case *ssa.ChangeType:
			return rec(x.X, d+1)
		case *ssa.ChangeInterface:
			return rec(x.X, d+1)
		case *ssa.MakeInterface:
			return rec(x.X, d+1)
		case *ssa.TypeAssert:
			return rec(x.X, d+1)
		case *ssa.Extract:
			return rec(x.Tuple, d+1)
		case *ssa.UnOp:
			return rec(x.X, d+1)
		case *ssa.BinOp:
			return rec(x.X, d+1) || rec(x.Y, d+1)
		case *ssa.Slice:
			return rec(x.X, d+1)
		case *ssa.Lookup:
			return rec(x.X, d+1)
		case *ssa.Index:
			return rec(x.X, d+1)
		case *ssa.IndexAddr:
			return rec(x.X, d+1)
		case *ssa.FieldAddr:
			return rec(x.X, d+1)
		case *ssa.Field:
			return rec(x.X, d+1)
		case *ssa.Phi:
			for _, e := range x.Edges {
				if rec(e, d+1) {
					return true
				}
			}
		case *ssa.Call:
			for _, a := range x.Call.Args {
				if rec(a, d+1) {
					return true
				}
			}
			if x.Call.IsInvoke() {
				return rec(x.Call.Value, d+1)
			}
		case *ssa.Alloc:
			// local variable: follow the values stored into it
			for _, r := range *x.Referrers() {
				if st, ok := r.(*ssa.Store); ok && st.Addr == x {
					if rec(st.Val, d+1) {
						return true
					}
				}
				// element / field stores into a local array or struct (varargs, literals)
				if ia, ok := r.(*ssa.IndexAddr); ok {
					for _, r2 := range *ia.Referrers() {
						if st, ok := r2.(*ssa.Store); ok && st.Addr == ssa.Value(ia) && rec(st.Val, d+1) {
							return true
						}
					}
				}
				if fa, ok := r.(*ssa.FieldAddr); ok {
					for _, r2 := range *fa.Referrers() {
						if st, ok := r2.(*ssa.Store); ok && st.Addr == ssa.Value(fa) && rec(st.Val, d+1) {
							return true
						}
					}
				}
			}
		}
		return false
	}
	return rec(v, 0)
}

// IsFieldLoad builds a predicate: value is (an address of / a load of) field
// `field` of named struct type `typ` (pkgpath.Name; "" = any).
func IsFieldLoad(typ, field string) func(ssa.Value) bool {
	return func(v ssa.Value) bool {
		t, f, _, ok := FieldOf(derefOr(v))
		if !ok {
			t, f, _, ok = FieldOf(v)
		}
		return ok && f == field && (typ == "" || t == typ)
	}
}

// IsMapLookupConst: value is m[k] with constant string key k.
func IsMapLookupConst(key string) func(ssa.Value) bool {
	return func(v ssa.Value) bool {
		if l, ok := v.(*ssa.Lookup); ok {
			if s, ok := ConstString(l.Index); ok && s == key {
				return true
			}
		}
		return false
	}
}

func isBoolConst(v ssa.Value, want bool) bool {
	c, ok := v.(*ssa.Const)
	return ok && c.Value != nil && c.Value.Kind() == constant.Bool && constant.BoolVal(c.Value) == want
}

// trueSources collects, for a boolean value, the predecessor blocks from which
// the constant true flows into it (through phis) and whether anything other
// than bool constants flows in.
func trueSources(v ssa.Value) (blocks []*ssa.BasicBlock, other []ssa.Value) {
	seen := map[ssa.Value]bool{}
	var rec func(v ssa.Value, from *ssa.BasicBlock)
	rec = func(v ssa.Value, from *ssa.BasicBlock) {
		switch x := v.(type) {
		case *ssa.Const:
			if isBoolConst(x, true) {
				blocks = append(blocks, from)
			}
		case *ssa.Phi:
			if seen[x] {
				return
			}
			seen[x] = true
			for i, e := range x.Edges {
				rec(e, x.Block().Preds[i])
			}
		case *ssa.UnOp:
			// defer-spilled result: a load of the result cell; follow its stores
			if al, ok := x.X.(*ssa.Alloc); ok && x.Op == token.MUL {
				if seen[x] {
					return
				}
				seen[x] = true
				n := 0
				for _, r := range *al.Referrers() {
					if st, ok := r.(*ssa.Store); ok && st.Addr == ssa.Value(al) {
						n++
						if c, isC := st.Val.(*ssa.Const); isC {
							if isBoolConst(c, true) {
								blocks = append(blocks, st.Block())
							}
						} else {
							rec(st.Val, st.Block())
						}
					}
				}
				if n > 0 {
					return
				}
			}
			other = append(other, v)
		default:
			other = append(other, v)
		}
	}
	rec(v, nil)
	return
}

// R10 — nothing before authentication (operator websocket and service endpoint).
func R10AuthGate(c *Ctx) {
	const rule = "R10-authgate"
	c.R.Rule(rule, "operator endpoint: the Authenticated flag is set only on the true edge of ClientAuthenticate; dispatch/replay/broadcast calls are dominated by it; the pre-auth region calls only the reply/close allow-list; ClientAuthenticate returns true only through the digest comparison of a found user; broadcasts skip unauthenticated clients; service endpoint: routine/dispatch/registration are dominated by authenticate()==true", 12)

	hr := c.P.Func(PkgServer, "Teamserver.handleRequest")
	ca := c.P.Func(PkgServer, "Teamserver.ClientAuthenticate")
	if hr == nil {
		c.R.Anchor(rule, "server.(*Teamserver).handleRequest")
	}
	if ca == nil {
		c.R.Anchor(rule, "server.(*Teamserver).ClientAuthenticate")
	}
	if hr != nil {
		r10HandleRequest(c, rule, hr)
	}
	if ca != nil {
		r10ClientAuthenticate(c, rule, ca)
	}
	r10FanOut(c, rule)
	r10Service(c, rule)
}

func r10HandleRequest(c *Ctx, rule string, hr *ssa.Function) {
	fname := FuncShort(hr)
	// A: stores of true to Client.Authenticated
	var stores []*ssa.Store
	for _, b := range hr.Blocks {
		for _, in := range b.Instrs {
			if st, ok := in.(*ssa.Store); ok {
				if t, f, _, ok := FieldOf(st.Addr); ok && t == PkgServer+".Client" && f == "Authenticated" {
					stores = append(stores, st)
				}
			}
		}
	}
	if len(stores) == 0 {
		c.R.Anchor(rule, "store to Client.Authenticated in handleRequest")
		return
	}
	for _, st := range stores {
		construct := "client.Authenticated = " + AccessPath(st.Val)
		if isBoolConst(st.Val, false) {
			c.R.Ok(rule, fname, construct, c.pos(st.Pos()), "clears the flag", false)
			continue
		}
		ok := false
		for _, f := range FactsAt(st.Block()) {
			if call, isCall := f.Cond.(*ssa.Call); isCall && CalleeName(call) == "(*Havoc/cmd/server.Teamserver).ClientAuthenticate" && f.Truth {
				ok = true
			}
		}
		if ok {
			c.R.Ok(rule, fname, construct, c.pos(st.Pos()), "dominated by the true edge of ClientAuthenticate(pk)", true)
		} else {
			c.R.Bad(rule, fname, construct, c.pos(st.Pos()), "the Authenticated flag is set on a path that does not pass the true edge of ClientAuthenticate(pk)")
		}
	}
	dominatedByA := func(in ssa.Instruction) bool {
		for _, st := range stores {
			if !isBoolConst(st.Val, false) && InstrDominates(st, in) {
				return true
			}
		}
		return false
	}
	gated := map[string]bool{
		"(*Havoc/cmd/server.Teamserver).DispatchEvent":              true,
		"(*Havoc/cmd/server.Teamserver).EventAppend":                true,
		"(*Havoc/cmd/server.Teamserver).EventBroadcast":             true,
		"(*Havoc/cmd/server.Teamserver).SendAllPackagesToNewClient": true,
	}
	preAuthOK := map[string]bool{
		"(*Havoc/cmd/server.Teamserver).SendEvent":          true,
		"(*Havoc/cmd/server.Teamserver).RemoveClient":       true,
		"(*Havoc/cmd/server.Teamserver).ClientAuthenticate": true,
		"(*Havoc/pkg/packager.Packager).CreatePackage":      true,
		"(Havoc/pkg/packager.Packager).CreatePackage":       true,
		"(*Havoc/pkg/profile.Profile).ListOfUsernames":      true,
	}
	preAuthEvents := map[string]bool{
		"Havoc/pkg/events.UserDoNotExists":  true,
		"Havoc/pkg/events.UserAlreadyExits": true,
		"Havoc/pkg/events.Authenticated":    true,
	}
	seenGated := map[string]bool{}
	funcs := append([]*ssa.Function{hr}, hr.AnonFuncs...)
	for _, fn := range funcs {
		EachCall(fn, func(call ssa.CallInstruction) {
			name := CalleeName(call)
			if name == "" {
				return
			}
			c.R.CallSites++
			inClosure := fn != hr
			// closures of handleRequest run where they are passed (Range callback): pre-auth
			after := !inClosure && dominatedByA(call)
			if gated[name] {
				seenGated[name] = true
				if after {
					c.R.Ok(rule, fname, "call "+shortCallee(name), c.pos(call.Pos()), "dominated by client.Authenticated = true", true)
				} else {
					c.R.Bad(rule, fname, "call "+shortCallee(name), c.pos(call.Pos()), "reachable before the connection is authenticated: an unauthenticated socket would trigger dispatch / receive the replay or a broadcast")
				}
				return
			}
			if after {
				return
			}
			// pre-auth region: only the allow-list of module calls
			if !strings.HasPrefix(name, "Havoc/") && !strings.HasPrefix(name, "(*Havoc/") && !strings.HasPrefix(name, "(Havoc/") {
				// a Range callback running before authentication must not act on the ranged (other) clients
				if inClosure && !strings.HasPrefix(name, "builtin.") && !strings.HasPrefix(name, "fmt.") {
					for _, a := range call.Common().Args {
						if DerivesFromNarrowCalls(a, func(v ssa.Value) bool {
							pp, ok := v.(*ssa.Parameter)
							return ok && pp.Parent() == fn
						}) {
							c.R.Bad(rule, fname, "pre-auth call "+shortCallee(name)+" on a ranged client", c.pos(call.Pos()), "code that runs before authentication calls "+name+" on a value taken from another client's table entry (e.g. closes its connection)")
							return
						}
					}
				}
				return
			}
			switch {
			case strings.HasPrefix(name, "Havoc/pkg/logger."), strings.HasPrefix(name, "Havoc/pkg/colors."):
				return
			case preAuthEvents[name]:
				if name == "Havoc/pkg/events.Authenticated" {
					args := call.Common().Args
					if len(args) == 1 && !isBoolConst(args[0], false) {
						c.R.Bad(rule, fname, "call "+shortCallee(name), c.pos(call.Pos()), "events.Authenticated(<not false>) is built before authentication")
						return
					}
				}
				c.R.Ok(rule, fname, "pre-auth call "+shortCallee(name), c.pos(call.Pos()), "pre-auth reply constructor on the allow-list", false)
				return
			case preAuthOK[name]:
				if name == "(*Havoc/cmd/server.Teamserver).SendEvent" {
					// the event sent pre-auth must be one of the three error/ack constructors
					args := CallArgs(call)
					okEv := false
					if len(args) == 2 {
						if ev, isCall := args[1].(*ssa.Call); isCall && preAuthEvents[CalleeName(ev)] {
							okEv = true
						}
					}
					if !okEv {
						c.R.Bad(rule, fname, "pre-auth SendEvent", c.pos(call.Pos()), "an event other than UserDoNotExists/UserAlreadyExits/Authenticated(false) is sent before authentication")
						return
					}
				}
				if name == "(*Havoc/cmd/server.Teamserver).SendEvent" || name == "(*Havoc/cmd/server.Teamserver).RemoveClient" {
					// only the connecting socket itself may be answered or dropped before authentication
					args := CallArgs(call)
					if len(args) == 0 || !r10OwnID(hr, fn, args[0]) {
						c.R.Bad(rule, fname, "pre-auth "+shortCallee(name)+" targets the connecting client", c.pos(call.Pos()), "before authentication a reply/removal is addressed to a client id other than the connecting socket's own: an unauthenticated connection can make the teamserver drop or message an established operator session")
						return
					}
				}
				c.R.Ok(rule, fname, "pre-auth call "+shortCallee(name), c.pos(call.Pos()), "on the pre-authentication allow-list", false)
				return
			}
			// an unexported helper of this package is as good as its body: everything it calls (transitively, three
			// levels) must itself be on the allow-list and it must send nothing
			if callee := call.Common().StaticCallee(); callee != nil && callee.Blocks != nil && FuncPkgPathOf(callee) == PkgServer {
				var safe func(f *ssa.Function, d int) bool
				seenF := map[*ssa.Function]bool{}
				safe = func(f *ssa.Function, d int) bool {
					if seenF[f] {
						return true
					}
					seenF[f] = true
					if d > 3 {
						return false
					}
					okAll := true
					EachCall(f, func(c2 ssa.CallInstruction) {
						n2 := CalleeName(c2)
						if n2 == "" {
							if c2.Common().IsInvoke() || c2.Common().StaticCallee() == nil {
								// dynamic call: only builtins / func values from parameters are tolerated when nothing module-level can be reached
								if _, isB := c2.Common().Value.(*ssa.Builtin); !isB {
									okAll = false
								}
							}
							return
						}
						if !strings.HasPrefix(n2, "Havoc/") && !strings.HasPrefix(n2, "(*Havoc/") && !strings.HasPrefix(n2, "(Havoc/") {
							return
						}
						switch {
						case strings.HasPrefix(n2, "Havoc/pkg/logger."), strings.HasPrefix(n2, "Havoc/pkg/colors."):
						case gated[n2], n2 == "(*Havoc/cmd/server.Teamserver).SendEvent", n2 == "(*Havoc/cmd/server.Teamserver).RemoveClient":
							okAll = false
						case preAuthOK[n2], preAuthEvents[n2]:
						default:
							if g := c2.Common().StaticCallee(); g != nil && g.Blocks != nil && FuncPkgPathOf(g) == PkgServer {
								if !safe(g, d+1) {
									okAll = false
								}
							} else {
								okAll = false
							}
						}
					})
					return okAll
				}
				if safe(callee, 1) {
					c.R.Ok(rule, fname, "pre-auth call "+shortCallee(name), c.pos(call.Pos()), "helper of this package whose body calls only allow-listed functions and sends nothing", true)
					return
				}
			}
			c.R.Bad(rule, fname, "pre-auth call "+shortCallee(name), c.pos(call.Pos()), "module function called before authentication that is not on the allow-list {CreatePackage, ListOfUsernames, ClientAuthenticate, SendEvent(<error reply>), RemoveClient, logging}")
		})
	}
	for g := range gated {
		if !seenGated[g] && (strings.HasSuffix(g, "DispatchEvent") || strings.HasSuffix(g, "SendAllPackagesToNewClient")) {
			c.R.Anchor(rule, "call of "+shortCallee(g)+" in handleRequest")
		}
	}
}

func shortCallee(n string) string {
	n = strings.ReplaceAll(n, "Havoc/pkg/", "")
	n = strings.ReplaceAll(n, "Havoc/cmd/", "")
	return n
}

func r10ClientAuthenticate(c *Ctx, rule string, ca *ssa.Function) {
	fname := FuncShort(ca)
	nTrue := 0
	for _, b := range ca.Blocks {
		if len(b.Instrs) == 0 {
			continue
		}
		ret, ok := b.Instrs[len(b.Instrs)-1].(*ssa.Return)
		if !ok || len(ret.Results) != 1 {
			continue
		}
		srcs, other := trueSources(ret.Results[0])
		for _, o := range other {
			c.R.Bad(rule, fname, "return "+AccessPath(o), c.pos(ret.Pos()), "ClientAuthenticate returns a non-constant value; the accept decision must be the digest comparison only")
		}
		var blocks []*ssa.BasicBlock
		if isBoolConst(ret.Results[0], true) {
			blocks = []*ssa.BasicBlock{b}
		} else {
			blocks = srcs
		}
		for _, tb := range blocks {
			if tb == nil {
				tb = b
			}
			nTrue++
			var eqOK, foundOK bool
			var why []string
			for _, f := range FactsAt(tb) {
				if bo, ok := f.Cond.(*ssa.BinOp); ok && bo.Op == token.EQL && f.Truth || ok && bo.Op == token.NEQ && !f.Truth {
					// one side: pk.Body.Info["Password"]; other side: hex(sha3(User.Password))
					for _, pair := range [][2]ssa.Value{{bo.X, bo.Y}, {bo.Y, bo.X}} {
						a, d := pair[0], pair[1]
						if !DerivesFrom(a, IsMapLookupConst("Password")) {
							continue
						}
						isDigest := DerivesFrom(d, func(v ssa.Value) bool {
							call, ok := v.(*ssa.Call)
							return ok && CalleeName(call) == "encoding/hex.EncodeToString" && DerivesFrom(call.Call.Args[0], func(w ssa.Value) bool {
								s, ok := w.(*ssa.Call)
								return ok && strings.HasSuffix(CalleeName(s), ".Sum")
							})
						})
						if isDigest && !DerivesFrom(d, IsMapLookupConst("Password")) {
							eqOK = true
						}
					}
				}
				// UserFound: a phi of bool constants whose true edge comes from the Name == Head.User block
				if ph, ok := f.Cond.(*ssa.Phi); ok && f.Truth {
					tsrc, oth := trueSources(ph)
					if len(oth) == 0 && len(tsrc) > 0 {
						all := true
						for _, sb := range tsrc {
							okName := false
							if sb != nil {
								for _, f2 := range FactsAt(sb) {
									if bo, ok := f2.Cond.(*ssa.BinOp); ok && bo.Op == token.EQL && f2.Truth {
										if (DerivesFrom(bo.X, IsFieldLoad("", "Name")) && DerivesFrom(bo.Y, IsFieldLoad(PkgPackager+".Head", "User"))) ||
											(DerivesFrom(bo.Y, IsFieldLoad("", "Name")) && DerivesFrom(bo.X, IsFieldLoad(PkgPackager+".Head", "User"))) {
											okName = true
										}
									}
								}
								// same block may hold the comparison itself (if body block)
							}
							if !okName {
								all = false
							}
						}
						if all {
							foundOK = true
						}
					}
				}
			}
			// the hash input is the profile password of the matched user
			hashOK := false
			EachCall(ca, func(call ssa.CallInstruction) {
				if strings.HasSuffix(CalleeName(call), ".Write") && len(call.Common().Args) >= 1 {
					args := call.Common().Args
					if DerivesFrom(args[len(args)-1], IsFieldLoad("", "Password")) {
						// executed under Name == Head.User
						for _, f2 := range FactsAt(call.Block()) {
							if bo, ok := f2.Cond.(*ssa.BinOp); ok && bo.Op == token.EQL && f2.Truth && (DerivesFrom(bo.X, IsFieldLoad(PkgPackager+".Head", "User")) || DerivesFrom(bo.Y, IsFieldLoad(PkgPackager+".Head", "User"))) {
								hashOK = true
							}
						}
					}
				}
			})
			if !eqOK {
				why = append(why, "no dominating `Info[\"Password\"] == hex(Sum())` comparison")
			}
			if !foundOK {
				why = append(why, "no dominating user-found flag set under `User.Name == pk.Head.User`")
			}
			if !hashOK {
				why = append(why, "the hashed value is not the profile password of the user matched by name")
			}
			construct := "return true"
			if len(why) == 0 {
				c.R.Ok(rule, fname, construct, c.pos(ret.Pos()), "reached only through the digest comparison for the operator found by name", true)
			} else {
				c.R.Bad(rule, fname, construct, c.pos(ret.Pos()), strings.Join(why, "; "))
			}
		}
	}
	if nTrue == 0 {
		c.R.Anchor(rule, "a `return true` path in ClientAuthenticate")
	}
}

// r10FanOut: a sync.Map.Range callback that sends to the ranged key must test Authenticated.
func r10FanOut(c *Ctx, rule string) {
	n := 0
	// stores to Client.Username: only empty-string initialisers, or in
	// handleRequest dominated by client.Authenticated = true
	usernameOnlyAfterAuth := true
	for fn := range c.P.AllFuncs() {
		if fn.Blocks == nil || !c.P.InModule(FuncPkgPathOf(fn)) {
			continue
		}
		for _, b := range fn.Blocks {
			for _, in := range b.Instrs {
				st, ok := in.(*ssa.Store)
				if !ok {
					continue
				}
				t, f, _, ok := FieldOf(st.Addr)
				if !ok || t != PkgServer+".Client" || f != "Username" {
					continue
				}
				if s, isC := ConstString(st.Val); isC && s == "" {
					continue
				}
				okStore := false
				for _, b2 := range fn.Blocks {
					for _, in2 := range b2.Instrs {
						if a, ok := in2.(*ssa.Store); ok && isBoolConst(a.Val, true) {
							if t2, f2, _, ok := FieldOf(a.Addr); ok && t2 == PkgServer+".Client" && f2 == "Authenticated" && InstrDominates(a, st) {
								okStore = true
							}
						}
					}
				}
				if okStore {
					c.R.Ok(rule, FuncShort(fn), "client.Username = …", c.pos(st.Pos()), "assigned only after client.Authenticated = true", true)
				} else {
					usernameOnlyAfterAuth = false
					c.R.Bad(rule, FuncShort(fn), "client.Username = …", c.pos(st.Pos()), "Username is assigned before authentication; user-name filtered sends would then reach an unauthenticated socket")
				}
			}
		}
	}
	for fn := range c.P.AllFuncs() {
		if fn.Blocks == nil || fn.Parent() == nil || FuncPkgPathOf(fn) != PkgServer {
			continue
		}
		if len(fn.Params) != 2 {
			continue
		}
		EachCall(fn, func(call ssa.CallInstruction) {
			if !sendsEvent(call) {
				return
			}
			args := CallArgs(call)
			if len(args) < 1 {
				return
			}
			// fan-out = the destination id derives from the callback's key parameter
			if !DerivesFrom(args[0], func(v ssa.Value) bool { return v == ssa.Value(fn.Params[0]) }) {
				return
			}
			n++
			ok := false
			how := "send is control-dependent on the ranged client's Authenticated flag"
			for _, f := range FactsAtDeep(call.Block()) {
				if f.Truth && DerivesFrom(f.Cond, IsFieldLoad(PkgServer+".Client", "Authenticated")) {
					ok = true
				}
				// `client.Username == <name>`: Username is assigned only after authentication (checked below)
				if bo, isBin := f.Cond.(*ssa.BinOp); isBin && bo.Op == token.EQL && f.Truth && usernameOnlyAfterAuth &&
					(DerivesFrom(bo.X, IsFieldLoad(PkgServer+".Client", "Username")) || DerivesFrom(bo.Y, IsFieldLoad(PkgServer+".Client", "Username"))) {
					ok = true
					how = "send is control-dependent on the ranged client's Username matching; Username is only assigned after authentication"
				}
			}
			construct := "fan-out SendEvent(key, …) in Clients.Range callback"
			if ok && !strings.Contains(how, "Username") {
				// a broadcast visits every client: the Range callback never asks to stop
				for _, rb := range fn.Blocks {
					if len(rb.Instrs) == 0 {
						continue
					}
					if ret, isRet := rb.Instrs[len(rb.Instrs)-1].(*ssa.Return); isRet && len(ret.Results) == 1 {
						if !isBoolConst(ret.Results[0], true) {
							srcs, other := trueSources(ret.Results[0])
							_ = srcs
							if k, isC := ret.Results[0].(*ssa.Const); isC || len(other) > 0 || phiHasFalse(ret.Results[0]) {
								_ = k
								c.R.Bad(rule, FuncShort(fn), "broadcast callback returns true on every path", c.pos(ret.Pos()), "the Range callback of a broadcast can return false: the fan-out stops at this client and the clients visited after it miss the event")
								continue
							}
						}
						c.R.Ok(rule, FuncShort(fn), "broadcast callback returns true on every path", c.pos(ret.Pos()), "the iteration continues with the next client", true)
					}
				}
			}
			if ok {
				c.R.Ok(rule, FuncShort(fn), construct, c.pos(call.Pos()), how, true)
			} else {
				c.R.Bad(rule, FuncShort(fn), construct, c.pos(call.Pos()), "broadcast reaches every stored websocket, authenticated or not: a socket that never spoke receives live events (incl. new-session events with AES keys)")
			}
		})
	}
	// a fan-out that writes to the ranged client's socket itself (bypassing SendEvent) is held to the same test
	for fn := range c.P.AllFuncs() {
		if fn.Blocks == nil || fn.Parent() == nil || FuncPkgPathOf(fn) != PkgServer || len(fn.Params) != 2 {
			continue
		}
		EachCall(fn, func(call ssa.CallInstruction) {
			name := CalleeName(call)
			if !strings.HasPrefix(name, "(*github.com/gorilla/websocket.Conn).Write") {
				return
			}
			recv := call.Common().Args[0]
			if !DerivesFrom(recv, func(v ssa.Value) bool { return v == ssa.Value(fn.Params[1]) }) {
				return
			}
			ok := false
			for _, f := range FactsAt(call.Block()) {
				if f.Truth && DerivesFrom(f.Cond, IsFieldLoad(PkgServer+".Client", "Authenticated")) {
					ok = true
				}
			}
			construct := "fan-out " + shortCallee(name) + " on the ranged client's socket"
			if ok {
				c.R.Ok(rule, FuncShort(fn), construct, c.pos(call.Pos()), "the write is control-dependent on the ranged client's Authenticated flag", true)
			} else {
				c.R.Bad(rule, FuncShort(fn), construct, c.pos(call.Pos()), "a Clients.Range callback writes to every stored websocket without testing Authenticated: a connection that has not logged in receives live events")
			}
		})
	}
	if n == 0 {
		c.R.Anchor(rule, "a Clients.Range fan-out calling SendEvent")
	}
}

// phiHasFalse: the constant false can flow into v through phis.
func phiHasFalse(v ssa.Value) bool {
	seen := map[ssa.Value]bool{}
	var rec func(v ssa.Value) bool
	rec = func(v ssa.Value) bool {
		if seen[v] {
			return false
		}
		seen[v] = true
		switch x := v.(type) {
		case *ssa.Const:
			return isBoolConst(x, false)
		case *ssa.Phi:
			for _, e := range x.Edges {
				if rec(e) {
					return true
				}
			}
		}
		return false
	}
	return rec(v)
}

// FuncPkgPathOf is a local alias kept for readability.
func FuncPkgPathOf(fn *ssa.Function) string {
	for fn.Parent() != nil {
		fn = fn.Parent()
	}
	if fn.Pkg != nil {
		return fn.Pkg.Pkg.Path()
	}
	return ""
}

func r10Service(c *Ctx, rule string) {
	hc := c.P.Func(PkgService, "Service.handleConnection")
	au := c.P.Func(PkgService, "Service.authenticate")
	if hc == nil || au == nil {
		c.R.Anchor(rule, "service.(*Service).handleConnection / authenticate")
		return
	}
	fname := FuncShort(hc)
	authed := func(b *ssa.BasicBlock) bool {
		for _, f := range FactsAt(b) {
			if call, ok := f.Cond.(*ssa.Call); ok && CalleeName(call) == "(*Havoc/pkg/service.Service).authenticate" && f.Truth {
				return true
			}
		}
		return false
	}
	seen := 0
	for _, b := range hc.Blocks {
		for _, in := range b.Instrs {
			switch x := in.(type) {
			case ssa.CallInstruction:
				name := CalleeName(x)
				if name == "(*Havoc/pkg/service.Service).routine" || name == "(*Havoc/pkg/service.Service).dispatch" {
					seen++
					if authed(b) {
						c.R.Ok(rule, fname, "call "+shortCallee(name), c.pos(x.Pos()), "dominated by authenticate(client) == true", true)
					} else {
						c.R.Bad(rule, fname, "call "+shortCallee(name), c.pos(x.Pos()), "service messages are dispatched before the service password was presented")
					}
				}
			case *ssa.Store:
				if t, f, _, ok := FieldOf(x.Addr); ok && t == PkgService+".Service" && f == "clients" {
					if authed(b) {
						c.R.Ok(rule, fname, "s.clients = append(…)", c.pos(x.Pos()), "dominated by authenticate(client) == true", true)
					} else {
						c.R.Bad(rule, fname, "s.clients = append(…)", c.pos(x.Pos()), "connection registered as a service client before authentication")
					}
				}
			}
		}
	}
	if seen == 0 {
		c.R.Anchor(rule, "call of routine/dispatch in handleConnection")
	}
	// authenticate: true flows only from under UserPass == ServicePass, where the
	// right-hand digest is computed from s.Config.Password
	aname := FuncShort(au)
	nRet := 0
	for _, b := range au.Blocks {
		if len(b.Instrs) == 0 {
			continue
		}
		ret, ok := b.Instrs[len(b.Instrs)-1].(*ssa.Return)
		if !ok || len(ret.Results) != 1 {
			continue
		}
		srcs, other := trueSources(ret.Results[0])
		if isBoolConst(ret.Results[0], true) {
			srcs = append(srcs, b)
		}
		for _, o := range other {
			// a load of the Authed variable (address-taken): follow stores
			if al, ok := derefOr(o).(*ssa.Alloc); ok {
				for _, r := range *al.Referrers() {
					if st, ok := r.(*ssa.Store); ok && st.Addr == ssa.Value(al) && isBoolConst(st.Val, true) {
						srcs = append(srcs, st.Block())
					}
				}
				continue
			}
			c.R.Bad(rule, aname, "return "+AccessPath(o), c.pos(ret.Pos()), "authenticate returns a value that is not the comparison flag")
		}
		for _, sb := range srcs {
			if sb == nil {
				sb = b
			}
			nRet++
			ok := false
			for _, f := range FactsAt(sb) {
				bo, isBin := f.Cond.(*ssa.BinOp)
				if !isBin || !((bo.Op == token.EQL && f.Truth) || (bo.Op == token.NEQ && !f.Truth)) {
					continue
				}
				isDigest := func(v ssa.Value) bool {
					return DerivesFrom(v, func(w ssa.Value) bool {
						call, ok := w.(*ssa.Call)
						return ok && CalleeName(call) == "encoding/hex.EncodeToString"
					})
				}
				if isDigest(bo.X) && isDigest(bo.Y) {
					ok = true
				}
			}
			// the service password is hashed somewhere in the function
			hashCfg := false
			EachCall(au, func(call ssa.CallInstruction) {
				if strings.HasSuffix(CalleeName(call), ".Write") {
					args := call.Common().Args
					if len(args) > 0 && DerivesFrom(args[len(args)-1], IsFieldLoad(PkgProfile+".ServiceConfig", "Password")) {
						hashCfg = true
					}
				}
			})
			if ok && hashCfg {
				c.R.Ok(rule, aname, "Authed = true", c.pos(ret.Pos()), "set only under the comparison of two digests, one of them of the configured service password", true)
			} else {
				c.R.Bad(rule, aname, "Authed = true", c.pos(ret.Pos()), "the accepting path does not pass `digest(request password) == digest(s.Config.Password)`")
			}
		}
	}
	if nRet == 0 {
		c.R.Anchor(rule, "an accepting path in service authenticate")
	}
	_ = types.Typ
}

// R10PreAuthAssert — no unchecked type assertion on data of the first message.
// Scope: handleRequest (whole function: the first message's fields are used on
// both sides of the authentication branch), ClientAuthenticate, CreatePackage,
// and the service's authenticate.
func R10PreAuthAssert(c *Ctx) {
	const rule = "R10-preauth-assert"
	c.R.Rule(rule, "in the pre-authentication code of both endpoints every type assertion on message-derived data uses the comma-ok form (or asserts a value whose dynamic type is fixed by construction: sync.Map entries are always *Client)", 2)
	var fns []*ssa.Function
	for _, n := range [][2]string{{PkgServer, "Teamserver.handleRequest"}, {PkgServer, "Teamserver.ClientAuthenticate"}, {PkgServer, "Teamserver.RemoveClient"}, {PkgServer, "Teamserver.SendEvent"}, {PkgPackager, "Packager.CreatePackage"}, {PkgProfile, "Profile.ListOfUsernames"}, {PkgService, "Service.authenticate"}, {PkgService, "Service.handleConnection"}} {
		fn := c.P.Func(n[0], n[1])
		if fn == nil {
			c.R.Anchor(rule, n[0]+"."+n[1])
			continue
		}
		fns = append(fns, fn)
		fns = append(fns, fn.AnonFuncs...)
	}
	// every Store into t.Clients stores a *Client
	clientsOnlyClient := true
	for fn := range c.P.AllFuncs() {
		if fn.Blocks == nil || !c.P.InModule(FuncPkgPathOf(fn)) {
			continue
		}
		EachCall(fn, func(call ssa.CallInstruction) {
			if CalleeName(call) != "(*sync.Map).Store" {
				return
			}
			recv := CallRecv(call)
			if t, f, _, ok := FieldOf(recv); !ok || t != PkgServer+".Teamserver" || f != "Clients" {
				return
			}
			args := CallArgs(call)
			if len(args) != 2 {
				return
			}
			mi, ok := args[1].(*ssa.MakeInterface)
			if !ok || mi.X.Type().String() != "*"+PkgServer+".Client" {
				clientsOnlyClient = false
				c.R.Bad(rule, FuncShort(fn), "t.Clients.Store(…, <not *Client>)", c.pos(call.Pos()), "a value of another type is stored in the client table; `value.(*Client)` assertions would panic")
			} else {
				c.R.Ok(rule, FuncShort(fn), "t.Clients.Store(…, *Client)", c.pos(call.Pos()), "client table holds *Client only", false)
			}
		})
	}
	for _, fn := range fns {
		for _, b := range fn.Blocks {
			for _, in := range b.Instrs {
				ta, ok := in.(*ssa.TypeAssert)
				if !ok || ta.CommaOk {
					continue
				}
				construct := AccessPath(ta.X) + ".(" + types.TypeString(ta.AssertedType, func(p *types.Package) string { return p.Name() }) + ")"
				// operand from the client table
				fromClients := false
				{
					v := ta.X
					if ex, ok := v.(*ssa.Extract); ok {
						v = ex.Tuple
					}
					if call, ok := v.(*ssa.Call); ok && CalleeName(call) == "(*sync.Map).Load" {
						if t, f, _, ok := FieldOf(CallRecv(call)); ok && t == PkgServer+".Teamserver" && f == "Clients" {
							fromClients = true
						}
					}
					if p, ok := v.(*ssa.Parameter); ok && p.Parent().Parent() != nil && len(p.Parent().Params) == 2 {
						fromClients = true // sync.Map.Range callback parameter
					}
				}
				if fromClients && clientsOnlyClient && (ta.AssertedType.String() == "*"+PkgServer+".Client" || ta.AssertedType.String() == "string") {
					c.R.Ok(rule, FuncShort(fn), construct, c.pos(ta.Pos()), "operand comes from the client table, whose keys are strings and values *Client by construction", true)
					continue
				}
				c.R.Bad(rule, FuncShort(fn), construct, c.pos(ta.Pos()), "unchecked type assertion on message-derived data in pre-authentication code: a first message without that field (or with another JSON type) panics in a bare goroutine and exits the process")
			}
		}
	}
}

// r10OwnID: v is handleRequest's own id parameter (possibly captured by the closure fn).
func r10OwnID(hr, fn *ssa.Function, v ssa.Value) bool {
	var idParam *ssa.Parameter
	// the connection id: handleRequest's only string parameter (not matched by name)
	for _, p := range hr.Params {
		if b, ok := p.Type().Underlying().(*types.Basic); ok && b.Kind() == types.String {
			if idParam != nil {
				return false
			}
			idParam = p
		}
	}
	if idParam == nil {
		return false
	}
	if pp := ParamOf(v); pp != nil {
		return pp == idParam
	}
	// captured: a FreeVar (or a load of a captured cell) bound to the parameter
	if u, ok := v.(*ssa.UnOp); ok {
		v = u.X
	}
	fv, ok := v.(*ssa.FreeVar)
	if !ok || fn.Parent() == nil {
		return false
	}
	idx := -1
	for i, f := range fn.FreeVars {
		if f == fv {
			idx = i
		}
	}
	if idx < 0 {
		return false
	}
	for _, b := range fn.Parent().Blocks {
		for _, in := range b.Instrs {
			if mc, ok := in.(*ssa.MakeClosure); ok && mc.Fn == ssa.Value(fn) && idx < len(mc.Bindings) {
				bnd := mc.Bindings[idx]
				if pp := ParamOf(bnd); pp != nil && pp == idParam {
					return true
				}
				if al, ok := bnd.(*ssa.Alloc); ok {
					for _, r := range *al.Referrers() {
						if st, ok := r.(*ssa.Store); ok && st.Addr == ssa.Value(al) {
							if pp := ParamOf(st.Val); pp != nil && pp == idParam {
								return true
							}
						}
					}
				}
			}
		}
	}
	return false
}

// DerivesFromNarrowCalls follows loads, field selections, type assertions, conversions and phis (not call arguments).
func DerivesFromNarrowCalls(v ssa.Value, pred func(ssa.Value) bool) bool {
	seen := map[ssa.Value]bool{}
	var rec func(v ssa.Value) bool
	rec = func(v ssa.Value) bool {
		if v == nil || seen[v] {
			return false
		}
		seen[v] = true
		if pred(v) {
			return true
		}
		switch x := v.(type) {
		case *ssa.UnOp:
			return rec(x.X)
		case *ssa.FieldAddr:
			return rec(x.X)
		case *ssa.Field:
			return rec(x.X)
		case *ssa.TypeAssert:
			return rec(x.X)
		case *ssa.Extract:
			return rec(x.Tuple)
		case *ssa.ChangeType:
			return rec(x.X)
		case *ssa.ChangeInterface:
			return rec(x.X)
		case *ssa.MakeInterface:
			return rec(x.X)
		case *ssa.Convert:
			return rec(x.X)
		case *ssa.Phi:
			for _, e := range x.Edges {
				if rec(e) {
					return true
				}
			}
		}
		return false
	}
	return rec(v)
}
