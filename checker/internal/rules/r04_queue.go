package rules

import (
	"go/token"
	"strings"

	"golang.org/x/tools/go/ssa"
)

// R4QueueShape — FIFO shape of the job queue, the bounded batch and the chunker.
func R4QueueShape(c *Ctx) {
	const rule = "R4-queue-shape"
	c.R.Rule(rule, "Agent.JobQueue is written only by tail appends to the owner's own queue, by the prefix/suffix split with one index in GetQueuedJobs, and by the operator's clear; GetQueuedJobs stops counting at DEMON_MAX_RESPONSE_LENGTH before including the crossing job and still hands out one oversized job; the no-job reply is chosen exactly when nothing was asked for or nothing is queued; UploadMemFileInChunks cuts consecutive [start:min(start+chunk,size)] slices with stride chunk, one file id and the total size on every chunk", 8)
	gq := c.P.Func(PkgAgent, "Agent.GetQueuedJobs")
	// --- the queue's backing array is never handed to something that rearranges it in place
	inPlace := map[string]int{"slices.Reverse": 0, "slices.Sort": 0, "slices.SortFunc": 0, "slices.SortStableFunc": 0, "sort.Slice": 0, "sort.SliceStable": 0,
		"sort.Sort": 0, "sort.Stable": 0, "math/rand.Shuffle": -1, "builtin.copy": 0}
	for _, fn := range c.P.ModuleFuncs(NonYaotl) {
		EachCall(fn, func(call ssa.CallInstruction) {
			name := CalleeName(call)
			// generic instantiations print as slices.Reverse[...]
			if i := strings.Index(name, "["); i > 0 {
				name = name[:i]
			}
			idx, ok := inPlace[name]
			if !ok || idx < 0 || idx >= len(call.Common().Args) {
				return
			}
			a := call.Common().Args[idx]
			if DerivesFrom(a, IsFieldLoad(PkgAgent+".Agent", "JobQueue")) {
				c.R.Bad(rule, FuncShort(fn), shortCallee(name)+"(<slice sharing the job queue's array>)", c.pos(call.Pos()), "a slice that shares its backing array with Agent.JobQueue is rearranged or overwritten in place: queued tasks change order (or content) without any store to the field")
			}
		})
	}
	// --- who writes JobQueue and how
	for _, fn := range c.P.ModuleFuncs(NonYaotl) {
		for _, b := range fn.Blocks {
			for _, in := range b.Instrs {
				st, ok := in.(*ssa.Store)
				if !ok {
					continue
				}
				t, f, owner, ok := FieldOf(st.Addr)
				if !ok || t != PkgAgent+".Agent" || f != "JobQueue" {
					continue
				}
				construct := AccessPath(owner) + ".JobQueue = " + AccessPath(st.Val)
				switch v := st.Val.(type) {
				case *ssa.Call:
					if CalleeName(v) == "builtin.append" {
						if l, ok := v.Call.Args[0].(*ssa.UnOp); ok && l.Op == token.MUL {
							if t2, f2, o2, ok := FieldOf(l.X); ok && t2 == t && f2 == f && sameAgent(o2, owner) {
								c.R.Ok(rule, FuncShort(fn), "JobQueue = append(JobQueue, job)", c.pos(st.Pos()), "tail append to the owner's own queue", true)
								continue
							}
						}
					}
					c.R.Bad(rule, FuncShort(fn), construct, c.pos(st.Pos()), "the queue is rebuilt by something other than a tail append to the same agent's queue: tasks are reordered, duplicated or moved to another agent")
				case *ssa.Slice:
					// suffix of the split: JobQueue[n:]; the returned prefix must be JobQueue[:n] with the same n
					okSplit := false
					if fn == gq && v.High == nil && v.Low != nil {
						for _, b2 := range fn.Blocks {
							for _, in2 := range b2.Instrs {
								if s2, ok := in2.(*ssa.Slice); ok && s2 != v && s2.Low == nil && s2.High == v.Low {
									if sameLoadPath(s2.X, v.X) {
										okSplit = true
									}
								}
							}
						}
					}
					if okSplit {
						c.R.Ok(rule, FuncShort(fn), "Jobs, JobQueue = JobQueue[:n], JobQueue[n:]", c.pos(st.Pos()), "prefix handed out, suffix kept, same index", true)
					} else {
						c.R.Bad(rule, FuncShort(fn), construct, c.pos(st.Pos()), "the queue is re-sliced other than by the single-index prefix/suffix split of GetQueuedJobs: tasks are dropped or handed out twice")
					}
				case *ssa.Const:
					if v.Value == nil && strings.Contains(FuncShort(fn), "TeamserverTaskPrepare") {
						c.R.Ok(rule, FuncShort(fn), "JobQueue = nil", c.pos(st.Pos()), "the operator's explicit `task clear`", false)
					} else {
						c.R.Bad(rule, FuncShort(fn), construct, c.pos(st.Pos()), "the queue is reset outside the operator's `task clear`")
					}
				default:
					c.R.Bad(rule, FuncShort(fn), construct, c.pos(st.Pos()), "unrecognised write to the job queue")
				}
			}
		}
	}
	// --- batch bound
	if gq == nil {
		c.R.Anchor(rule, "agent.(*Agent).GetQueuedJobs")
	} else {
		limit, okL := c.pkgConst(PkgAgent, "DEMON_MAX_RESPONSE_LENGTH")
		if !okL {
			c.R.Anchor(rule, "constant agent.DEMON_MAX_RESPONSE_LENGTH")
		}
		boundOK, escapeOK := false, false
		for _, b := range gq.Blocks {
			if len(b.Instrs) == 0 {
				continue
			}
			iff, ok := b.Instrs[len(b.Instrs)-1].(*ssa.If)
			if !ok {
				continue
			}
			bo, ok := iff.Cond.(*ssa.BinOp)
			if !ok {
				continue
			}
			if v, isC := ConstInt(bo.Y); isC && okL && v == limit && (bo.Op == token.GEQ || bo.Op == token.GTR) {
				// the true edge must not reach the NumJobs increment of this iteration: it leaves the loop
				tb := b.Succs[0]
				// the counter: the value that becomes the split index
				counter := map[ssa.Value]bool{}
				for _, b2 := range gq.Blocks {
					for _, in2 := range b2.Instrs {
						if s2, ok := in2.(*ssa.Slice); ok && s2.Low != nil && s2.High == nil {
							var mark func(v ssa.Value)
							mark = func(v ssa.Value) {
								if counter[v] {
									return
								}
								counter[v] = true
								switch y := v.(type) {
								case *ssa.Phi:
									for _, e := range y.Edges {
										mark(e)
									}
								case *ssa.BinOp:
									mark(y.X)
								}
							}
							mark(s2.Low)
						}
					}
				}
				incOnFalseOnly := false
				for _, b2 := range gq.Blocks {
					for _, in2 := range b2.Instrs {
						add, ok := in2.(*ssa.BinOp)
						if !ok || add.Op != token.ADD || !counter[add] {
							continue
						}
						if one, ok := ConstInt(add.Y); ok && one == 1 {
							incOnFalseOnly = EdgeDominates(b, 1, b2)
						}
					}
				}
				leaves := !BlockReaches(tb, b, nil)
				if incOnFalseOnly && leaves {
					boundOK = true
				}
			}
		}
		// escape: NumJobs := 1 under len(JobQueue) > 0 && NumJobs == 0 — the phi feeding the split index
		for _, b := range gq.Blocks {
			for _, in := range b.Instrs {
				ph, ok := in.(*ssa.Phi)
				if !ok {
					continue
				}
				for i, e := range ph.Edges {
					if v, isC := ConstInt(e); isC && v == 1 {
						pred := b.Preds[i]
						lenPos, zero := false, false
						chk := func(cond ssa.Value, truth bool) {
							bo, ok := cond.(*ssa.BinOp)
							if !ok {
								return
							}
							if _, isLen := isLenCall(bo.X); isLen {
								if z, ok := ConstInt(bo.Y); ok && z == 0 && ((bo.Op == token.GTR) == truth) && bo.Op == token.GTR {
									lenPos = true
								}
							}
							if z, ok := ConstInt(bo.Y); ok && z == 0 && bo.Op == token.EQL && truth {
								zero = true
							}
						}
						for _, f := range FactsAt(pred) {
							chk(f.Cond, f.Truth)
						}
						if len(pred.Instrs) > 0 {
							if pi, ok := pred.Instrs[len(pred.Instrs)-1].(*ssa.If); ok {
								chk(pi.Cond, pred.Succs[0] == b)
							}
						}
						if lenPos && zero {
							escapeOK = true
						}
					}
				}
			}
		}
		if boundOK {
			c.R.Ok(rule, FuncShort(gq), "break before counting the job that reaches DEMON_MAX_RESPONSE_LENGTH", c.pos(gq.Pos()), "a reply stops adding tasks once their data reaches the pipe limit", true)
		} else {
			c.R.Bad(rule, FuncShort(gq), "break before counting the job that reaches DEMON_MAX_RESPONSE_LENGTH", c.pos(gq.Pos()), "the batch loop no longer stops (before counting the crossing job) when the accumulated size reaches DEMON_MAX_RESPONSE_LENGTH")
		}
		if escapeOK {
			c.R.Ok(rule, FuncShort(gq), "NumJobs = 1 when len(JobQueue) > 0 && NumJobs == 0", c.pos(gq.Pos()), "a single oversized task is still delivered alone", true)
		} else {
			c.R.Bad(rule, FuncShort(gq), "NumJobs = 1 when len(JobQueue) > 0 && NumJobs == 0", c.pos(gq.Pos()), "the large-job escape is gone or conditioned differently: an oversized first task blocks the queue forever")
		}
	}
	// --- no-job reply
	hd := c.P.Func(PkgHandlers, "handleDemonAgent")
	if hd == nil {
		c.R.Anchor(rule, "handlers.handleDemonAgent")
	} else {
		done := false
		EachCall(hd, func(call ssa.CallInstruction) {
			if CalleeName(call) != "(*Havoc/pkg/agent.Agent).GetQueuedJobs" {
				return
			}
			done = true
			asked, nonEmpty := false, false
			for _, f := range FactsAt(call.Block()) {
				if _, isPhi := f.Cond.(*ssa.Phi); isPhi && f.Truth {
					// the flag latches: only the constants false (initially) and true (on a
					// COMMAND_GET_JOB package) flow into it, so a later package cannot reset it
					srcs, other := trueSources(f.Cond)
					if len(other) == 0 && len(srcs) > 0 {
						asked = true
						for _, sb := range srcs {
							if sb == nil || !underGetJob(c, sb) {
								asked = false
							}
						}
					}
				}
				if bo, ok := f.Cond.(*ssa.BinOp); ok {
					if arg, isLen := isLenCall(bo.X); isLen && DerivesFrom(arg, IsFieldLoad(PkgAgent+".Agent", "JobQueue")) {
						if z, ok := ConstInt(bo.Y); ok && z == 0 {
							if (bo.Op == token.EQL && !f.Truth) || (bo.Op == token.NEQ && f.Truth) || (bo.Op == token.GTR && f.Truth) {
								nonEmpty = true
							}
						}
					}
				}
			}
			if asked && nonEmpty {
				c.R.Ok(rule, FuncShort(hd), "GetQueuedJobs only when asked && len(JobQueue) != 0", c.pos(call.Pos()), "jobs are handed out exactly when the check-in asked and something is queued; otherwise the no-job reply", true)
			} else {
				c.R.Bad(rule, FuncShort(hd), "GetQueuedJobs only when asked && len(JobQueue) != 0", c.pos(call.Pos()), "the choice between the queue reply and the no-job reply no longer depends on (asked for jobs) and (queue not empty)")
			}
		})
		if !done {
			c.R.Bad(rule, FuncShort(hd), "call GetQueuedJobs", c.pos(hd.Pos()), "handleDemonAgent never hands out queued jobs")
		}
	}
	// --- chunker
	up := c.P.Func(PkgAgent, "Agent.UploadMemFileInChunks")
	if up == nil {
		c.R.Anchor(rule, "agent.(*Agent).UploadMemFileInChunks")
		return
	}
	chunk, _ := c.pkgConst(PkgAgent, "DEMON_MAX_RESPONSE_LENGTH")
	var sl *ssa.Slice
	for _, b := range up.Blocks {
		for _, in := range b.Instrs {
			if s, ok := in.(*ssa.Slice); ok && IsParam(s.X, up.Params[1]) {
				sl = s
			}
		}
	}
	okChunk := false
	why := "no slice of the file data"
	if sl != nil && sl.Low != nil && sl.High != nil {
		start, isPhi := sl.Low.(*ssa.Phi)
		end, isPhi2 := sl.High.(*ssa.Phi)
		why = "slice bounds are not the loop's start / clamped end"
		if isPhi && isPhi2 {
			// start: [0, start + chunk]
			zero, stride := false, false
			for _, e := range start.Edges {
				if v, ok := ConstInt(e); ok && v == 0 {
					zero = true
				}
				if add, ok := e.(*ssa.BinOp); ok && add.Op == token.ADD && add.X == ssa.Value(start) {
					if v, ok := ConstInt(add.Y); ok && v == chunk {
						stride = true
					}
				}
			}
			// end: phi(start + chunk, FileSize)
			plus, size := false, false
			for _, e := range end.Edges {
				if add, ok := e.(*ssa.BinOp); ok && add.Op == token.ADD && add.X == ssa.Value(start) {
					if v, ok := ConstInt(add.Y); ok && v == chunk {
						plus = true
					}
				}
				if arg, ok := isLenCall(e); ok && IsParam(arg, up.Params[1]) {
					size = true
				}
			}
			if zero && stride && plus && size {
				okChunk = true
			} else {
				why = "start does not run 0, chunk, 2·chunk, … or end is not min(start+chunk, len(FileData))"
			}
		}
	}
	// same id and total size on each chunk; enqueue inside the loop; id returned
	idOK, sizeOK, enq, ret := false, false, false, false
	var idVal ssa.Value
	EachCall(up, func(call ssa.CallInstruction) {
		if strings.HasPrefix(CalleeName(call), "math/rand.Uint32") && !blockInCycle(call.Block()) {
			idVal = call.Value()
		}
		if CalleeName(call) == "(*Havoc/pkg/agent.Agent).AddJobToQueue" && blockInCycle(call.Block()) {
			enq = true
		}
	})
	// values that end up boxed into a job's argument list: directly, or as arguments of a same-package helper
	// that boxes the corresponding parameter (the chunk job may be built by an extracted constructor)
	boxed := func(v ssa.Value) {
		if idVal != nil && v == idVal {
			idOK = true
		}
		if cv, ok := v.(*ssa.Convert); ok {
			if arg, ok := isLenCall(cv.X); ok && IsParam(arg, up.Params[1]) {
				sizeOK = true
			}
		}
	}
	EachCall(up, func(call ssa.CallInstruction) {
		h := call.Common().StaticCallee()
		if h == nil || h.Blocks == nil || FuncPkgPathOf(h) != PkgAgent || h == up {
			return
		}
		for i, prm := range h.Params {
			isBoxed := false
			for _, r := range *prm.Referrers() {
				if _, ok := r.(*ssa.MakeInterface); ok {
					isBoxed = true
				}
			}
			if isBoxed && i < len(call.Common().Args) {
				boxed(call.Common().Args[i])
			}
		}
	})
	for _, b := range up.Blocks {
		for _, in := range b.Instrs {
			switch x := in.(type) {
			case *ssa.MakeInterface:
				boxed(x.X)
			case *ssa.Return:
				if len(x.Results) == 1 && idVal != nil && x.Results[0] == idVal {
					ret = true
				}
			}
		}
	}
	if okChunk && idOK && sizeOK && enq && ret {
		c.R.Ok(rule, FuncShort(up), "chunks FileData[start:min(start+chunk,size)], one id, total size, enqueued in order, id returned", c.pos(up.Pos()), "the chunks carry one file id and the total size and concatenate to the file", true)
	} else {
		if okChunk {
			why = "chunk jobs do not all carry the one pre-loop file id and uint64(len(FileData)), or are not enqueued inside the loop, or the id returned is another value"
		}
		c.R.Bad(rule, FuncShort(up), "chunks FileData[start:min(start+chunk,size)], one id, total size, enqueued in order, id returned", c.pos(up.Pos()), why)
	}
}

// sameLoadPath: two loads of the same field path.
// underGetJob: the block is only reached when the package's command is COMMAND_GET_JOB.
func underGetJob(c *Ctx, b *ssa.BasicBlock) bool {
	gj, okc := c.pkgConst(PkgAgent, "COMMAND_GET_JOB")
	if !okc {
		return false
	}
	for _, f := range FactsAt(b) {
		bo, ok := f.Cond.(*ssa.BinOp)
		if !ok {
			continue
		}
		k, ok := ConstInt(bo.Y)
		if !ok || k != gj {
			continue
		}
		if (bo.Op == token.NEQ && !f.Truth) || (bo.Op == token.EQL && f.Truth) {
			return true
		}
	}
	return false
}

func sameLoadPath(a, b ssa.Value) bool {
	la, ok1 := a.(*ssa.UnOp)
	lb, ok2 := b.(*ssa.UnOp)
	if !ok1 || !ok2 {
		return a == b
	}
	ka, _ := pathKey(la.X)
	kb, _ := pathKey(lb.X)
	return ka != "" && ka == kb
}

// R4PivotQueue — a pivot child's wrapped task is queued on the directly connected ancestor.
func R4PivotQueue(c *Ctx) {
	const rule = "R4-pivot-queue"
	c.R.Rule(rule, "in PivotAddJob the only append of the wrapped COMMAND_PIVOT job goes to the queue of an agent X for which X.Pivots.Parent == nil holds at that point (the ancestor that checks in itself), X being reached by the same parent walk that built the layers; the plain job is appended to the child's own queue for display only", 1)
	fn := c.P.Func(PkgAgent, "Agent.PivotAddJob")
	if fn == nil {
		c.R.Anchor(rule, "agent.(*Agent).PivotAddJob")
		return
	}
	n := 0
	for _, b := range fn.Blocks {
		for _, in := range b.Instrs {
			st, ok := in.(*ssa.Store)
			if !ok {
				continue
			}
			t, f, base, ok := FieldOf(st.Addr)
			if !ok || t != PkgAgent+".Agent" || f != "JobQueue" {
				continue
			}
			if ParamOf(base) != nil && ParamOf(base) == fn.Params[0] {
				continue // the child's own queue (display only)
			}
			n++
			basePath := AccessPath(base)
			good := false
			for _, fct := range FactsAt(b) {
				bo, ok := fct.Cond.(*ssa.BinOp)
				if !ok || !(isNilConst(bo.X) || isNilConst(bo.Y)) {
					continue
				}
				v := bo.X
				if isNilConst(bo.X) {
					v = bo.Y
				}
				if ((bo.Op == token.EQL) == fct.Truth) && AccessPath(v) == basePath+".Pivots.Parent" && basePath != "" {
					good = true
				}
			}
			construct := "wrapped job → queue of the top ancestor"
			if good {
				c.R.Ok(rule, FuncShort(fn), construct, c.pos(st.Pos()), "appended to "+basePath+".JobQueue where "+basePath+".Pivots.Parent == nil", true)
			} else {
				c.R.Bad(rule, FuncShort(fn), construct, c.pos(st.Pos()), "the wrapped job is appended to "+basePath+".JobQueue, an agent that is not known to be directly connected here (no dominating "+basePath+".Pivots.Parent == nil): for a child two or more hops deep it lands in a queue no check-in drains")
			}
		}
	}
	if n == 0 {
		c.R.Bad(rule, FuncShort(fn), "wrapped job → queue of the top ancestor", c.pos(fn.Pos()), "PivotAddJob queues nothing on an ancestor")
	}
}

// R4ReplyIsBatch — what a check-in is answered with is the encoding of exactly the jobs taken off the queue.
func R4ReplyIsBatch(c *Ctx) {
	const rule = "R4-reply-is-batch"
	c.R.Rule(rule, "in handleDemonAgent (and helpers) the jobs GetQueuedJobs hands out are encoded by one BuildPayloadMessage call that receives that very slice, and the bytes written to the response after GetQueuedJobs are that call's result and nothing else (not a subset rebuilt job by job, not a variable reassigned in between): a task that was taken off the queue and is missing from the reply is lost", 1)
	hd := c.P.Func(PkgHandlers, "handleDemonAgent")
	if hd == nil {
		c.R.Anchor(rule, "handlers.handleDemonAgent")
		return
	}
	n := 0
	for _, fn := range HelperClosure(hd, 1) {
		var gq *ssa.Call
		EachCall(fn, func(call ssa.CallInstruction) {
			if CalleeName(call) == "(*Havoc/pkg/agent.Agent).GetQueuedJobs" {
				gq, _ = call.(*ssa.Call)
			}
		})
		if gq == nil {
			continue
		}
		// the encoding of the whole batch
		var enc *ssa.Call
		EachCall(fn, func(call ssa.CallInstruction) {
			if CalleeName(call) == "Havoc/pkg/agent.BuildPayloadMessage" && call.Common().Args[0] == ssa.Value(gq) {
				enc, _ = call.(*ssa.Call)
			}
		})
		n++
		construct := "reply = BuildPayloadMessage(GetQueuedJobs())"
		if enc == nil {
			c.R.Bad(rule, FuncShort(fn), construct, c.pos(gq.Pos()), "no BuildPayloadMessage call encodes the slice GetQueuedJobs returned: the reply is assembled from something else than the batch taken off the queue")
			continue
		}
		bad := ""
		wrote := false
		EachCall(fn, func(call ssa.CallInstruction) {
			if !InstrDominates(gq, call.(ssa.Instruction)) {
				return
			}
			if CalleeName(call) == "(*bytes.Buffer).Write" {
				if call.Common().Args[1] == ssa.Value(enc) {
					wrote = true
				} else {
					bad = c.pos(call.Pos())
				}
				return
			}
			// a helper of this package that writes the bytes it is given into the buffer it is given
			h := call.Common().StaticCallee()
			if h == nil || h.Blocks == nil || FuncPkgPathOf(h) != PkgHandlers {
				return
			}
			writesParam := -1
			EachCall(h, func(hc ssa.CallInstruction) {
				if CalleeName(hc) != "(*bytes.Buffer).Write" {
					return
				}
				for i, prm := range h.Params {
					if hc.Common().Args[1] == ssa.Value(prm) {
						writesParam = i
					}
				}
			})
			if writesParam < 0 || writesParam >= len(call.Common().Args) {
				return
			}
			if call.Common().Args[writesParam] == ssa.Value(enc) {
				wrote = true
			} else {
				bad = c.pos(call.Pos())
			}
		})
		switch {
		case bad != "":
			c.R.Bad(rule, FuncShort(fn), construct, bad, "after the jobs were taken off the queue the response is written from a value that is not (only) the encoding of that batch: tasks of the batch can be missing from the reply")
		case !wrote:
			c.R.Bad(rule, FuncShort(fn), construct, c.pos(enc.Pos()), "the encoded batch is never written to the response")
		default:
			c.R.Ok(rule, FuncShort(fn), construct, c.pos(enc.Pos()), "the batch taken off the queue is what is encoded and written", true)
		}
	}
	if n == 0 {
		c.R.Anchor(rule, "the GetQueuedJobs call of handleDemonAgent")
	}
}
