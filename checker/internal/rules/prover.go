package rules

import (
	"fmt"
	"go/constant"
	"go/token"
	"go/types"
	"os"
	"strings"

	"golang.org/x/tools/go/ssa"
)

// A tiny difference-constraint prover over integer SSA values and len()
// terms. Constraints have the form a - b <= c; a query is proved when the
// shortest path in the constraint graph yields the bound.

const inf = int64(1) << 60

type dcGraph struct {
	idx   map[string]int
	names []string
	edges [][3]int64 // from b to a with weight c  (a - b <= c)
}

func newDC() *dcGraph {
	g := &dcGraph{idx: map[string]int{}}
	g.node("0")
	return g
}

func (g *dcGraph) node(k string) int {
	if i, ok := g.idx[k]; ok {
		return i
	}
	i := len(g.names)
	g.idx[k] = i
	g.names = append(g.names, k)
	return i
}

// le adds a - b <= c.
func (g *dcGraph) le(a, b string, c int64) {
	g.edges = append(g.edges, [3]int64{int64(g.node(b)), int64(g.node(a)), c})
}

// prove reports whether a - b <= c follows.
func (g *dcGraph) prove(a, b string, c int64) bool {
	n := len(g.names)
	ia, ib := g.node(a), g.node(b)
	n = len(g.names)
	dist := make([]int64, n)
	for i := range dist {
		dist[i] = inf
	}
	dist[ib] = 0
	for it := 0; it < n+1; it++ {
		ch := false
		for _, e := range g.edges {
			if dist[e[0]] < inf && dist[e[0]]+e[2] < dist[e[1]] {
				dist[e[1]] = dist[e[0]] + e[2]
				ch = true
			}
		}
		if !ch {
			break
		}
	}
	return dist[ia] <= c
}

// term is sym + off; sym "0" means constant.
type term struct {
	sym string
	off int64
	ok  bool
}

type prover struct {
	c     *Ctx
	loads []heapLoad
	fn    *ssa.Function
	g     *dcGraph
	seenV map[ssa.Value]bool
	seenL map[ssa.Value]bool
	depth int
	subst map[ssa.Value]ssa.Value // phi -> the operand taken on the edge being examined
}

func valKey(v ssa.Value) string { return fmt.Sprintf("v:%p", v) }
func lenKey(v ssa.Value) string { return fmt.Sprintf("len:%p", v) }

func isLenCall(v ssa.Value) (ssa.Value, bool) {
	if call, ok := v.(*ssa.Call); ok {
		if b, ok := call.Call.Value.(*ssa.Builtin); ok && b.Name() == "len" && len(call.Call.Args) == 1 {
			return call.Call.Args[0], true
		}
	}
	return nil, false
}

// norm normalises an integer value to sym+off and records definitional facts.
func (p *prover) norm(v ssa.Value) term {
	if r, ok := p.subst[v]; ok {
		v = r
	}
	switch x := v.(type) {
	case *ssa.Const:
		if x.Value != nil && x.Value.Kind() == constant.Int {
			if i, ok := constant.Int64Val(x.Value); ok {
				return term{"0", i, true}
			}
		}
		return term{}
	case *ssa.Convert:
		// integer-to-integer conversions: looked through only when they cannot change the value
		if isIntType(x.X.Type()) && isIntType(x.Type()) && p.valuePreserving(x) {
			return p.norm(x.X)
		}
	case *ssa.ChangeType:
		return p.norm(x.X)
	case *ssa.BinOp:
		switch x.Op {
		case token.ADD:
			a, b := p.norm(x.X), p.norm(x.Y)
			if a.ok && b.ok {
				if b.sym == "0" {
					return term{a.sym, a.off + b.off, true}
				}
				if a.sym == "0" {
					return term{b.sym, a.off + b.off, true}
				}
			}
		case token.SUB:
			a, b := p.norm(x.X), p.norm(x.Y)
			if a.ok && b.ok && b.sym == "0" {
				return term{a.sym, a.off - b.off, true}
			}
		}
	case *ssa.Call:
		if arg, ok := isLenCall(x); ok {
			p.lenFacts(arg)
			return term{lenKey(p.canon(arg)), 0, true}
		}
	}
	p.valFacts(v)
	return term{valKey(v), 0, true}
}

// canon maps values denoting the same slice to one representative.
func (p *prover) canon(v ssa.Value) ssa.Value {
	for i := 0; i < 10; i++ {
		if r, ok := p.subst[v]; ok {
			v = r
			continue
		}
		switch x := v.(type) {
		case *ssa.ChangeType:
			v = x.X
			continue
		case *ssa.Phi:
			var d ssa.Value
			for _, e := range x.Edges {
				if e == x {
					continue
				}
				if d == nil {
					d = e
				} else if d != e {
					return v
				}
			}
			if d != nil {
				v = d
				continue
			}
		}
		break
	}
	return v
}

func isIntType(t types.Type) bool {
	b, ok := t.Underlying().(*types.Basic)
	return ok && b.Info()&types.IsInteger != 0
}

// valFacts records what is known by definition about an integer value.
func (p *prover) valFacts(v ssa.Value) {
	if p.seenV[v] {
		return
	}
	p.seenV[v] = true
	k := valKey(v)
	// unsigned values are >= 0
	if b, ok := v.Type().Underlying().(*types.Basic); ok && b.Info()&types.IsUnsigned != 0 {
		p.g.le("0", k, 0)
	}
	switch x := v.(type) {
	case *ssa.Phi:
		// induction: the non-recurrent edges give initial terms T; if every
		// recurrent edge is phi + k with k >= 0 then phi >= min(T); if every
		// recurrent edge is phi - k with k >= 0 then phi <= max(T).
		var inits []term
		incOK, decOK := true, true
		seenE := map[ssa.Value]bool{}
		var classify func(e ssa.Value, depth int)
		classify = func(e ssa.Value, depth int) {
			if e == ssa.Value(x) || seenE[e] {
				return
			}
			seenE[e] = true
			if depth > 8 {
				incOK, decOK = false, false
				return
			}
			// does e depend on x at all?
			if !dependsOn(e, x, 0) {
				t := p.normNoLoop(e)
				if !t.ok {
					incOK, decOK = false, false
					return
				}
				inits = append(inits, t)
				return
			}
			switch y := e.(type) {
			case *ssa.Phi:
				for _, e2 := range y.Edges {
					classify(e2, depth+1)
				}
			case *ssa.BinOp:
				if y.Op != token.ADD && y.Op != token.SUB {
					incOK, decOK = false, false
					return
				}
				nonneg := false
				if c, ok := ConstInt(y.Y); ok {
					nonneg = c >= 0
				} else if !dependsOn(y.Y, x, 0) {
					nonneg = p.nonNeg(y.Y, 0)
				}
				if !nonneg {
					incOK, decOK = false, false
					return
				}
				if y.Op == token.ADD {
					decOK = false
				} else {
					incOK = false
				}
				classify(y.X, depth+1)
			default:
				incOK, decOK = false, false
			}
		}
		for _, e := range x.Edges {
			classify(e, 0)
		}
		p.guardedUpper(x, k)
		p.lockstep(x, k)
		if len(inits) > 0 {
			for _, t := range inits {
				_ = t
			}
			if incOK {
				// phi >= every init only if there is a single init (min over symbolic terms is not expressible)
				if len(inits) == 1 {
					p.g.le(inits[0].sym, k, -inits[0].off) // T - phi <= 0  => sym - phi <= -off
				} else {
					lower := int64(inf)
					allC := true
					for _, t := range inits {
						if t.sym != "0" {
							allC = false
						} else if t.off < lower {
							lower = t.off
						}
					}
					if allC {
						p.g.le("0", k, -lower)
					}
				}
			}
			if decOK {
				if len(inits) == 1 {
					p.g.le(k, inits[0].sym, inits[0].off) // phi - T <= 0
				} else {
					upper := -int64(inf)
					allC := true
					for _, t := range inits {
						if t.sym != "0" {
							allC = false
						} else if t.off > upper {
							upper = t.off
						}
					}
					if allC {
						p.g.le(k, "0", upper)
					}
				}
			}
		}
	case *ssa.Parameter:
		// interprocedural: every static call site in the module passes a constant
		if p.c != nil {
			lo, hi, ok := p.c.paramConstRange(x)
			if ok {
				p.g.le("0", k, -lo)
				p.g.le(k, "0", hi)
			}
		}
	case *ssa.Call:
		// a find-index helper: NOTFOUND <= v <= len(p.F) - 1 for every load of that slice field that is stable since the call
		if p.c != nil {
			if fi := p.c.FindIndexOf(x.Call.StaticCallee()); fi != nil && fi.sliceArg < len(x.Call.Args) {
				p.g.le("0", k, -fi.notFound) // notFound - v <= 0
				want := baseKey(x.Call.Args[fi.sliceArg]) + "." + fi.slice
				for i := range p.loads {
					hl := &p.loads[i]
					if hl.val == nil || hl.path != want {
						continue
					}
					if p.c.stableBetween(x, hl.in, hl.field) {
						if !p.seenL[hl.val] {
							p.seenL[hl.val] = true
							p.g.le("0", lenKey(hl.val), 0)
						}
						p.g.le(k, lenKey(hl.val), -1) // v <= len - 1
					}
				}
			}
		}
		// a helper that returns a position of one of its slice parameters, or a negative constant
		if p.c != nil {
			if sp, nf, ok := p.c.sliceIndexSummary(x.Call.StaticCallee()); ok && sp < len(x.Call.Args) {
				p.g.le("0", k, -nf) // nf <= v
				p.lenFacts(x.Call.Args[sp])
				p.g.le(k, lenKey(p.canon(x.Call.Args[sp])), -1) // v <= len(arg) - 1
			}
		}
		name := CalleeName(x)
		switch {
		case name == "(*Havoc/pkg/common/parser.Parser).ParseInt32":
			// int(binary.*.Uint32(...)) on a 64-bit int: 0 <= v < 2^32
			p.g.le("0", k, 0)
			p.g.le(k, "0", 1<<32-1)
		case name == "(*Havoc/pkg/common/parser.Parser).Length":
			p.g.le("0", k, 0)
			p.getterEq(x)
		case strings.HasPrefix(name, "math/rand.Intn"):
			p.g.le("0", k, 0)
			if len(x.Call.Args) == 1 {
				t := p.norm(x.Call.Args[0])
				if t.ok {
					p.g.le(k, t.sym, t.off-1)
				}
			}
		case name == "unicode/utf8.EncodeRune":
			p.g.le("0", k, -1)
			p.g.le(k, "0", 4)
		case name == "runtime.Callers":
			p.g.le("0", k, 0)
			if len(x.Call.Args) == 2 {
				p.lenFacts(x.Call.Args[1])
				p.g.le(k, lenKey(p.canon(x.Call.Args[1])), 0)
			}
		case name == "strings.Index" || name == "strings.LastIndex" || name == "bytes.Index" || name == "bytes.IndexByte" || name == "strings.IndexByte":
			p.g.le("0", k, 1) // >= -1
			if len(x.Call.Args) >= 1 {
				p.lenFacts(x.Call.Args[0])
				p.g.le(k, lenKey(p.canon(x.Call.Args[0])), -1)
			}
		}
	case *ssa.BinOp:
		switch x.Op {
		case token.REM:
			// x % n with n > 0 constant: result < n (and >= 0 when x >= 0)
			if n, ok := ConstInt(x.Y); ok && n > 0 {
				p.g.le(k, "0", n-1)
				t := p.norm(x.X)
				if t.ok && p.g.prove("0", t.sym, t.off) {
					p.g.le("0", k, 0)
				}
			}
			// x % len(s): < len(s)
			if arg, ok := isLenCall(x.Y); ok {
				p.lenFacts(arg)
				p.g.le(k, lenKey(p.canon(arg)), -1)
				t := p.norm(x.X)
				if t.ok && p.g.prove("0", t.sym, t.off) {
					p.g.le("0", k, 0)
				}
			}
		case token.AND:
			if n, ok := ConstInt(x.Y); ok && n >= 0 {
				p.g.le("0", k, 0)
				p.g.le(k, "0", n)
			}
		case token.SUB:
			// v = a - b with both symbolic: v <= a when b >= 0, v >= 0 when b <= a
			if _, isC := ConstInt(x.Y); !isC {
				a, b := p.norm(x.X), p.norm(x.Y)
				if a.ok && b.ok {
					if p.g.prove("0", b.sym, b.off) {
						p.g.le(k, a.sym, a.off)
					}
					if p.g.prove(b.sym, a.sym, a.off-b.off) {
						p.g.le("0", k, 0)
					}
				}
			}
		}
	case *ssa.Extract:
		// the advance of a bufio.SplitFunc-style scanner: 0 <= advance <= len(data)
		if call, ok := x.Tuple.(*ssa.Call); ok && x.Index == 0 && advanceFuncs[CalleeName(call)] && len(call.Call.Args) > 0 {
			p.g.le("0", k, 0)
			p.lenFacts(call.Call.Args[0])
			p.g.le(k, lenKey(p.canon(call.Call.Args[0])), 0)
		}
	}
}

// normNoLoop normalises without recording phi facts (avoids recursion on loops).
func (p *prover) normNoLoop(v ssa.Value) term {
	if _, ok := v.(*ssa.Phi); ok {
		return term{}
	}
	if p.depth > 6 {
		return term{}
	}
	p.depth++
	defer func() { p.depth-- }()
	return p.norm(v)
}

// lenFacts records what is known about len(v).
func (p *prover) lenFacts(v ssa.Value) {
	v = p.canon(v)
	if p.seenL[v] {
		return
	}
	p.seenL[v] = true
	k := lenKey(v)
	p.g.le("0", k, 0) // len >= 0
	if prm, ok := v.(*ssa.Parameter); ok && p.c != nil && p.c.paramNonEmpty(prm) {
		p.g.le("0", k, -1) // every caller passes a non-empty value: len >= 1
	}
	p.heapEq(v)
	eq := func(t term) {
		if t.ok {
			p.g.le(k, t.sym, t.off)
			p.g.le(t.sym, k, -t.off)
		}
	}
	ge := func(t term) { // len >= t
		if t.ok {
			p.g.le(t.sym, k, -t.off)
		}
	}
	switch x := v.(type) {
	case *ssa.Const:
		if s, ok := ConstString(x); ok {
			eq(term{"0", int64(len(s)), true})
		} else if x.Value == nil {
			eq(term{"0", 0, true})
		}
	case *ssa.MakeSlice:
		eq(p.norm(x.Len))
	case *ssa.Slice:
		// source length
		var srcLen term
		if pt, ok := x.X.Type().Underlying().(*types.Pointer); ok {
			if arr, ok := pt.Elem().Underlying().(*types.Array); ok {
				srcLen = term{"0", arr.Len(), true}
			}
		} else {
			p.lenFacts(x.X)
			srcLen = term{lenKey(p.canon(x.X)), 0, true}
		}
		lo := term{"0", 0, true}
		if x.Low != nil {
			lo = p.norm(x.Low)
		}
		hi := srcLen
		if x.High != nil {
			hi = p.norm(x.High)
		}
		if lo.ok && hi.ok {
			if lo.sym == "0" {
				eq(term{hi.sym, hi.off - lo.off, true})
			} else if hi.sym == lo.sym {
				eq(term{"0", hi.off - lo.off, true})
			}
		}
	case *ssa.Call:
		name := CalleeName(x)
		switch name {
		case "builtin.append":
			p.lenFacts(x.Call.Args[0])
			base := term{lenKey(p.canon(x.Call.Args[0])), 0, true}
			ge(base)
			// append(a, e1, …, en): the variadic part is an n-element array sliced whole
			if len(x.Call.Args) == 2 {
				if sl, ok := x.Call.Args[1].(*ssa.Slice); ok && sl.Low == nil && sl.High == nil {
					if pt, ok := sl.X.Type().Underlying().(*types.Pointer); ok {
						if arr, ok := pt.Elem().Underlying().(*types.Array); ok {
							eq(term{base.sym, arr.Len(), true})
						}
					}
				}
			}
		case "strings.Split", "bytes.Split":
			if s, ok := ConstString(x.Call.Args[1]); ok && s != "" {
				ge(term{"0", 1, true})
			}
		case "strings.SplitN":
			if s, ok := ConstString(x.Call.Args[1]); ok && s != "" {
				if n, ok := ConstInt(x.Call.Args[2]); ok && n > 0 {
					ge(term{"0", 1, true})
					p.g.le(k, "0", n)
				}
			}
		case "(*Havoc/pkg/common/parser.Parser).ParseAtLeastBytes":
			t := p.norm(x.Call.Args[1])
			if t.ok {
				p.g.le(k, t.sym, t.off)
			}
		case "strings.Repeat":
		case "strings.TrimLeftFunc", "strings.TrimRightFunc", "strings.TrimFunc", "strings.TrimLeft", "strings.TrimRight", "strings.Trim",
			"strings.TrimSpace", "strings.TrimPrefix", "strings.TrimSuffix", "bytes.TrimLeftFunc", "bytes.TrimRightFunc", "bytes.TrimFunc",
			"bytes.TrimLeft", "bytes.TrimRight", "bytes.Trim", "bytes.TrimSpace", "bytes.TrimPrefix", "bytes.TrimSuffix":
			// a sub-slice of the first argument
			p.lenFacts(x.Call.Args[0])
			p.g.le(k, lenKey(p.canon(x.Call.Args[0])), 0)
		}
	case *ssa.Convert:
		// []byte(s) / string(b): same length
		p.lenFacts(x.X)
		eq(term{lenKey(p.canon(x.X)), 0, true})
	case *ssa.UnOp:
		// element of a slice-of-slices whose elements are all fixed-length literals
		if x.Op == token.MUL {
			if ia, ok := x.X.(*ssa.IndexAddr); ok {
				if n := elemLen(ia.X, map[ssa.Value]bool{}); n >= 0 {
					eq(term{"0", n, true})
				}
			}
		}
	case *ssa.Extract:
		// the token of a bufio.SplitFunc-style scanner called at end of input on non-empty data is not empty
		if call, ok := x.Tuple.(*ssa.Call); ok && x.Index == 1 && advanceFuncs[CalleeName(call)] && len(call.Call.Args) == 2 {
			if isBoolConst(call.Call.Args[1], true) {
				p.lenFacts(call.Call.Args[0])
				if p.g.prove("0", lenKey(p.canon(call.Call.Args[0])), -1) {
					ge(term{"0", 1, true})
				}
			}
		}
		// value of a comma-ok lookup in a package-level map literal: m[k] -> []T of known minimum length
		if lk, ok := x.Tuple.(*ssa.Lookup); ok && x.Index == 0 {
			if n, ok := p.c.mapLiteralMinLen(lk.X); ok {
				ge(term{"0", n, true})
			}
		}
	case *ssa.Lookup:
		if n, ok := p.c.mapLiteralMinLen(x.X); ok && !x.CommaOk {
			_ = n // a plain lookup may return the zero value (nil slice): nothing known
		}
	}
}

// elemLen returns the common length of the elements of a slice-of-slices that
// is built only by appending fixed-size composite literals (or -1).
func elemLen(v ssa.Value, seen map[ssa.Value]bool) int64 {
	if seen[v] {
		return -2 // cycle: neutral
	}
	seen[v] = true
	merge := func(a, b int64) int64 {
		if a == -2 {
			return b
		}
		if b == -2 {
			return a
		}
		if a == b {
			return a
		}
		return -1
	}
	switch x := v.(type) {
	case *ssa.Const:
		if x.Value == nil {
			return -2
		}
	case *ssa.Phi:
		r := int64(-2)
		for _, e := range x.Edges {
			r = merge(r, elemLen(e, seen))
			if r == -1 {
				return -1
			}
		}
		return r
	case *ssa.Call:
		if CalleeName(x) == "builtin.append" && len(x.Call.Args) == 2 {
			r := elemLen(x.Call.Args[0], seen)
			if r == -1 {
				return -1
			}
			// the appended varargs slice: Slice of Alloc [k][]T whose stored elements are literals
			sl, ok := x.Call.Args[1].(*ssa.Slice)
			if !ok {
				return -1
			}
			al, ok := sl.X.(*ssa.Alloc)
			if !ok {
				return -1
			}
			for _, ref := range *al.Referrers() {
				ia, ok := ref.(*ssa.IndexAddr)
				if !ok {
					continue
				}
				for _, r2 := range *ia.Referrers() {
					st, ok := r2.(*ssa.Store)
					if !ok || st.Addr != ssa.Value(ia) {
						continue
					}
					n := int64(-1)
					if es, ok := st.Val.(*ssa.Slice); ok && es.Low == nil && es.High == nil {
						if l, ok := arrayLenOf(es.X); ok {
							n = l
						}
					}
					if n < 0 {
						return -1
					}
					r = merge(r, n)
					if r == -1 {
						return -1
					}
				}
			}
			return r
		}
	case *ssa.UnOp:
		// a local variable spilled to memory: follow its stores
		if al, ok := x.X.(*ssa.Alloc); ok && x.Op == token.MUL {
			r := int64(-2)
			for _, ref := range *al.Referrers() {
				if st, ok := ref.(*ssa.Store); ok && st.Addr == ssa.Value(al) {
					r = merge(r, elemLen(st.Val, seen))
					if r == -1 {
						return -1
					}
				}
			}
			return r
		}
	}
	return -1
}

// assume adds the constraints implied by cond == truth.
func (p *prover) assume(cond ssa.Value, truth bool) {
	bo, ok := cond.(*ssa.BinOp)
	if !ok {
		return
	}
	op := bo.Op
	if !truth {
		switch op {
		case token.LSS:
			op = token.GEQ
		case token.LEQ:
			op = token.GTR
		case token.GTR:
			op = token.LEQ
		case token.GEQ:
			op = token.LSS
		case token.EQL:
			op = token.NEQ
		case token.NEQ:
			op = token.EQL
		default:
			return
		}
	}
	if !isIntType(bo.X.Type()) {
		return
	}
	// (u - w) OP c  with u, w symbolic:  rewrite as  u OP w + c
	if sub, ok := bo.X.(*ssa.BinOp); ok && sub.Op == token.SUB {
		if cst, ok := ConstInt(bo.Y); ok {
			u, w := p.norm(sub.X), p.norm(sub.Y)
			if u.ok && w.ok && w.sym != "0" {
				a, b := u, term{w.sym, w.off + cst, true}
				p.assumeTerms(op, a, b)
				return
			}
		}
	}
	a, b := p.norm(bo.X), p.norm(bo.Y)
	if !a.ok || !b.ok {
		return
	}
	p.assumeTerms(op, a, b)
}

func (p *prover) assumeTerms(op token.Token, a, b term) {
	// a.sym + a.off  OP  b.sym + b.off
	le := func(x, y term, c int64) { // x - y <= c  (with offsets)
		p.g.le(x.sym, y.sym, c-x.off+y.off)
	}
	switch op {
	case token.LSS:
		le(a, b, -1)
	case token.LEQ:
		le(a, b, 0)
	case token.GTR:
		le(b, a, -1)
	case token.GEQ:
		le(b, a, 0)
	case token.EQL:
		le(a, b, 0)
		le(b, a, 0)
	case token.NEQ:
		// x != 0 with x >= 0  =>  x >= 1
		if b.sym == "0" && p.g.prove("0", a.sym, a.off-b.off) { // a >= b
			le(b, a, -1)
		}
		if a.sym == "0" && p.g.prove("0", b.sym, b.off-a.off) {
			le(a, b, -1)
		}
	}
}

// newProver builds the constraint system valid at block b of fn.
func newProver(c *Ctx, loads []heapLoad, fn *ssa.Function, b *ssa.BasicBlock) *prover {
	p := &prover{c: c, loads: loads, fn: fn, g: newDC(), seenV: map[ssa.Value]bool{}, seenL: map[ssa.Value]bool{}}
	facts := FactsAt(b)
	// two passes so that != facts can use >= facts recorded later
	for pass := 0; pass < 2; pass++ {
		for i := len(facts) - 1; i >= 0; i-- {
			p.assume(facts[i].Cond, facts[i].Truth)
		}
	}
	return p
}

// proveIndex proves 0 <= idx < len(x) (x slice, string, or array/pointer-to-array).
func (p *prover) proveIndex(x ssa.Value, idx ssa.Value) bool {
	it := p.norm(idx)
	if !it.ok {
		return false
	}
	var ln term
	t := x.Type().Underlying()
	if pt, ok := t.(*types.Pointer); ok {
		t = pt.Elem().Underlying()
	}
	if arr, ok := t.(*types.Array); ok {
		ln = term{"0", arr.Len(), true}
	} else {
		p.lenFacts(x)
		ln = term{lenKey(p.canon(x)), 0, true}
	}
	// 0 <= idx  : 0 - idx.sym <= idx.off
	lower := p.g.prove("0", it.sym, it.off)
	// idx <= len-1 : idx.sym - len.sym <= len.off - 1 - idx.off
	upper := p.g.prove(it.sym, ln.sym, ln.off-1-it.off)
	return lower && upper
}

// proveSlice proves 0 <= lo <= hi <= len(x) (cap is not tracked; len is a safe under-approximation of cap for hi).
func (p *prover) proveSlice(s *ssa.Slice) bool {
	x := s.X
	var ln term
	t := x.Type().Underlying()
	if pt, ok := t.(*types.Pointer); ok {
		if arr, ok := pt.Elem().Underlying().(*types.Array); ok {
			ln = term{"0", arr.Len(), true}
		}
	}
	if !ln.ok {
		p.lenFacts(x)
		ln = term{lenKey(p.canon(x)), 0, true}
	}
	lo := term{"0", 0, true}
	if s.Low != nil {
		lo = p.norm(s.Low)
	}
	hi := ln
	if s.High != nil {
		hi = p.norm(s.High)
	}
	if s.Max != nil {
		return false
	}
	if !lo.ok || !hi.ok {
		return false
	}
	a := p.g.prove("0", lo.sym, lo.off)           // 0 <= lo
	b := p.g.prove(lo.sym, hi.sym, hi.off-lo.off) // lo <= hi
	c := p.g.prove(hi.sym, ln.sym, ln.off-hi.off) // hi <= len
	return a && b && c
}

// heapEq relates len(v), for v a load of a struct field, to the other loads of
// the same location (and to Length() getter calls) between which the field
// cannot be modified.
func (p *prover) heapEq(v ssa.Value) {
	if p.c == nil {
		return
	}
	var me *heapLoad
	for i := range p.loads {
		if p.loads[i].val == v {
			me = &p.loads[i]
		}
	}
	if me == nil {
		return
	}
	for i := range p.loads {
		o := &p.loads[i]
		if o == me || o.path != me.path {
			continue
		}
		if !(p.c.stableBetween(o.in, me.in, me.field) || p.c.stableBetween(me.in, o.in, me.field)) {
			continue
		}
		var ok string
		if o.val != nil {
			if !p.seenL[o.val] {
				p.seenL[o.val] = true
				p.g.le("0", lenKey(o.val), 0)
			}
			ok = lenKey(o.val)
		} else {
			ok = valKey(o.lenOf)
		}
		p.g.le(lenKey(v), ok, 0)
		p.g.le(ok, lenKey(v), 0)
	}
}

// getterEq relates a Length() call value to the loads of the buffer it measures.
func (p *prover) getterEq(call *ssa.Call) {
	if p.c == nil {
		return
	}
	var me *heapLoad
	for i := range p.loads {
		if p.loads[i].lenOf == ssa.Value(call) {
			me = &p.loads[i]
		}
	}
	if me == nil {
		return
	}
	for i := range p.loads {
		o := &p.loads[i]
		if o == me || o.path != me.path {
			continue
		}
		if !(p.c.stableBetween(o.in, me.in, me.field) || p.c.stableBetween(me.in, o.in, me.field)) {
			continue
		}
		var ok string
		if o.val != nil {
			ok = lenKey(o.val)
			p.g.le("0", ok, 0)
		} else {
			ok = valKey(o.lenOf)
		}
		p.g.le(valKey(call), ok, 0)
		p.g.le(ok, valKey(call), 0)
	}
}

func derivesFromPhi(v ssa.Value, ph *ssa.Phi) bool { return v == ssa.Value(ph) }

// dependsOn reports whether v is computed from phi x (through phis and +/-).
func dependsOn(v ssa.Value, x *ssa.Phi, depth int) bool {
	if v == ssa.Value(x) {
		return true
	}
	if depth > 8 {
		return true
	}
	switch y := v.(type) {
	case *ssa.Phi:
		for _, e := range y.Edges {
			if e != ssa.Value(y) && dependsOn(e, x, depth+1) {
				return true
			}
		}
	case *ssa.BinOp:
		return dependsOn(y.X, x, depth+1) || dependsOn(y.Y, x, depth+1)
	case *ssa.Convert:
		return dependsOn(y.X, x, depth+1)
	}
	return false
}

// nonNeg proves v >= 0 structurally (constants, unsigned origins, phis of such).
func (p *prover) nonNeg(v ssa.Value, depth int) bool {
	if depth > 6 {
		return false
	}
	if c, ok := ConstInt(v); ok {
		return c >= 0
	}
	if b, ok := v.Type().Underlying().(*types.Basic); ok && b.Info()&types.IsUnsigned != 0 {
		return true
	}
	switch x := v.(type) {
	case *ssa.Extract:
		// bufio.SplitFunc contract: 0 <= advance <= len(data)
		if call, ok := x.Tuple.(*ssa.Call); ok && x.Index == 0 && advanceFuncs[CalleeName(call)] {
			return true
		}
	case *ssa.Convert:
		// widening conversion of an unsigned 32-bit (or smaller) value to int
		if b, ok := x.X.Type().Underlying().(*types.Basic); ok && b.Info()&types.IsUnsigned != 0 {
			switch b.Kind() {
			case types.Uint8, types.Uint16, types.Uint32:
				return true
			}
		}
		return p.nonNeg(x.X, depth+1)
	case *ssa.Call:
		// a module function all of whose returns are non-negative
		if callee := x.Call.StaticCallee(); callee != nil && callee.Blocks != nil && depth < 4 &&
			callee.Signature.Results().Len() == 1 && isIntType(callee.Signature.Results().At(0).Type()) && callee != p.fn {
			all, any := true, false
			for _, b := range callee.Blocks {
				if ret, ok := b.Instrs[len(b.Instrs)-1].(*ssa.Return); ok && len(ret.Results) == 1 {
					any = true
					q := newProver(p.c, nil, callee, b)
					if !q.nonNeg(ret.Results[0], depth+2) {
						all = false
					}
				}
			}
			if all && any {
				return true
			}
		}
	case *ssa.Phi:
		for _, e := range x.Edges {
			if e == ssa.Value(x) {
				continue
			}
			if !p.nonNeg(e, depth+1) {
				return false
			}
		}
		return true
	}
	t := p.normNoLoop(v)
	return t.ok && p.g.prove("0", t.sym, t.off)
}

func intInfo(t types.Type) (size int, unsigned bool) {
	b := t.Underlying().(*types.Basic)
	unsigned = b.Info()&types.IsUnsigned != 0
	switch b.Kind() {
	case types.Int8, types.Uint8:
		size = 1
	case types.Int16, types.Uint16:
		size = 2
	case types.Int32, types.Uint32:
		size = 4
	default:
		size = 8 // int, uint, int64, uint64, uintptr on the 64-bit targets the teamserver is built for
	}
	return
}

// valuePreserving: the conversion cannot wrap or change sign for the values its operand can take.
func (p *prover) valuePreserving(x *ssa.Convert) bool {
	ss, su := intInfo(x.X.Type())
	ds, du := intInfo(x.Type())
	switch {
	case su == du && ds >= ss:
		return true // widening, same signedness
	case su && !du && ds > ss:
		return true // unsigned into a strictly wider signed type
	}
	// otherwise only when the operand is known to lie in [0, 2^31): sizes and counts
	nonneg := p.nonNeg(x.X, 0)
	if !nonneg {
		return false
	}
	if ds >= ss {
		return true // non-negative value, same or larger width (int -> uint, int64 -> uint64 …)
	}
	// narrowing of a non-negative value: safe only if it provably fits
	t := p.normNoLoop(x.X)
	limit := int64(1)<<(uint(ds)*8-1) - 1
	if du {
		limit = int64(1)<<(uint(ds)*8) - 1
		if ds == 8 {
			limit = inf
		}
	}
	return t.ok && p.g.prove(t.sym, "0", limit-t.off)
}

// guardedUpper: x is the counter of `for x = c0; x < N; x++` (every recurrent edge is x+1 taken inside the
// branch guarded by the header's own test x < N, N loop-invariant, c0 <= N provable for c0 = 0 and N a length):
// then x <= N holds at the header and everywhere it dominates.
func (p *prover) guardedUpper(x *ssa.Phi, k string) {
	h := x.Block()
	if len(h.Instrs) == 0 {
		return
	}
	iff, ok := h.Instrs[len(h.Instrs)-1].(*ssa.If)
	if !ok {
		return
	}
	bo, ok := iff.Cond.(*ssa.BinOp)
	if !ok {
		return
	}
	var bound ssa.Value
	switch {
	case bo.Op == token.LSS && bo.X == ssa.Value(x):
		bound = bo.Y
	case bo.Op == token.GTR && bo.Y == ssa.Value(x):
		bound = bo.X
	default:
		return
	}
	if dependsOn(bound, x, 0) {
		return
	}
	// the bound must be a length (>= 0) computed from a value that is not reassigned in the loop: len(v) with v a
	// parameter or a value defined outside the loop
	arg, isLen := isLenCall(bound)
	if !isLen {
		return
	}
	if in, ok := arg.(ssa.Instruction); ok && in.Block() != nil {
		if _, isPhi := arg.(*ssa.Phi); isPhi {
			return
		}
		if !in.Block().Dominates(h) || in.Block() == h {
			// defined in the header itself or inside the loop: only accept loads/params
			if _, isParam := arg.(*ssa.Parameter); !isParam && in.Block() != h {
				return
			}
		}
	}
	body := h.Succs[0]
	for i, e := range x.Edges {
		pred := h.Preds[i]
		if !dependsOn(e, x, 0) {
			// initial value: the constant 0, or a constant c0 with c0 <= len(arg) provable here
			c0, ok := ConstInt(e)
			if !ok || c0 < 0 {
				return
			}
			if c0 > 0 {
				p.lenFacts(arg)
				if !p.g.prove("0", lenKey(p.canon(arg)), -c0) {
					return
				}
			}
			continue
		}
		add, ok := e.(*ssa.BinOp)
		if !ok || add.Op != token.ADD || add.X != ssa.Value(x) {
			return
		}
		if c1, ok := ConstInt(add.Y); !ok || c1 != 1 {
			// or the advance of a bufio.SplitFunc-style scanner run on v[x:]: advance <= len(v) - x
			ex, isEx := add.Y.(*ssa.Extract)
			if !isEx || ex.Index != 0 {
				return
			}
			call, isCall := ex.Tuple.(*ssa.Call)
			if !isCall || !advanceFuncs[CalleeName(call)] || len(call.Call.Args) == 0 {
				return
			}
			sl, isSl := call.Call.Args[0].(*ssa.Slice)
			if !isSl || sl.X != arg || sl.Low != ssa.Value(x) || sl.High != nil {
				return
			}
		}
		// the increment happens only after the guard held in this iteration
		if !(body.Dominates(pred) || body == pred) || len(body.Preds) != 1 {
			return
		}
	}
	t := p.norm(bound)
	if !t.ok {
		return
	}
	p.g.le(k, t.sym, t.off) // x - N <= 0
}

// splitOnPhi proves an index/slice obligation whose bound is a join (a phi that does not depend on itself)
// by proving it separately for the operand of every incoming edge with the facts of that edge's source block.
func splitOnPhi(c *Ctx, loads []heapLoad, fn *ssa.Function, in ssa.Instruction) bool {
	var cands []ssa.Value
	switch x := in.(type) {
	case *ssa.Slice:
		cands = []ssa.Value{x.Low, x.High, x.X}
	case *ssa.IndexAddr:
		cands = []ssa.Value{x.Index, x.X}
	case *ssa.Index:
		cands = []ssa.Value{x.Index, x.X}
	}
	// len(<join>) - k as an index: split on the join as well
	for _, cv := range append([]ssa.Value{}, cands...) {
		if bo, ok := cv.(*ssa.BinOp); ok {
			if arg, isLen := isLenCall(bo.X); isLen {
				cands = append(cands, arg)
			}
		}
	}
	for _, cv := range cands {
		ph, ok := cv.(*ssa.Phi)
		if !ok || dependsOnSelf(ph) || ph.Block() != in.Block() {
			continue
		}
		all := true
		for i, e := range ph.Edges {
			pred := ph.Block().Preds[i]
			pr := newProver(c, loads, fn, pred)
			pr.subst = map[ssa.Value]ssa.Value{ph: e}
			// the condition of the edge itself
			if iff, isIf := pred.Instrs[len(pred.Instrs)-1].(*ssa.If); isIf && pred.Succs[0] != pred.Succs[1] {
				for pass := 0; pass < 2; pass++ {
					pr.assume(iff.Cond, pred.Succs[0] == ph.Block())
				}
			}
			ok := false
			switch x := in.(type) {
			case *ssa.Slice:
				ok = pr.proveSlice(x)
			case *ssa.IndexAddr:
				ok = pr.proveIndex(x.X, x.Index)
			case *ssa.Index:
				ok = pr.proveIndex(x.X, x.Index)
			}
			if !ok {
				all = false
				break
			}
		}
		if all {
			return true
		}
	}
	return false
}

type edgeCond struct {
	cond  ssa.Value
	truth bool
}

// cellPath: one backward path from a block to the nearest access of a memory-resident local variable: the value
// the variable holds on that path, the block where that value was stored/loaded, and the branch conditions taken.
type cellPath struct {
	val   ssa.Value
	at    *ssa.BasicBlock
	conds []edgeCond
}

func writesCell(i ssa.Instruction, al *ssa.Alloc) bool {
	switch w := i.(type) {
	case *ssa.Store:
		if w.Addr == ssa.Value(al) {
			return true
		}
		switch w.Addr.(type) {
		case *ssa.Alloc:
			return false
		case *ssa.FieldAddr, *ssa.IndexAddr:
			return false // a component of another object (the cell itself is a whole variable)
		}
		return true // through a pointer that may be &cell
	case ssa.CallInstruction:
		for _, a := range w.Common().Args {
			if types.Identical(a.Type(), al.Type()) {
				return true
			}
		}
	}
	return false
}

// cellPathsTo: cv is a load of a local cell at the top of block u (nothing writes the cell in u before it). Returns
// the loads of the cell at the top of u and every backward path to the nearest earlier access.
func cellPathsTo(cv ssa.Value, u *ssa.BasicBlock) (top []ssa.Value, paths []cellPath, ok bool) {
	ld, isLd := cv.(*ssa.UnOp)
	if !isLd || ld.Op != token.MUL || len(u.Preds) == 0 {
		return nil, nil, false
	}
	al, isAl := ld.X.(*ssa.Alloc)
	if !isAl {
		return nil, nil, false
	}
	for _, i := range u.Instrs {
		if writesCell(i, al) {
			break
		}
		if l2, ok := i.(*ssa.UnOp); ok && l2.Op == token.MUL && l2.X == ssa.Value(al) {
			top = append(top, l2)
		}
	}
	isTop := false
	for _, t := range top {
		if t == cv {
			isTop = true
		}
	}
	if !isTop {
		return nil, nil, false
	}
	okEnum := true
	var back func(b, succ *ssa.BasicBlock, conds []edgeCond, depth int, onPath map[*ssa.BasicBlock]bool)
	back = func(b, succ *ssa.BasicBlock, conds []edgeCond, depth int, onPath map[*ssa.BasicBlock]bool) {
		if !okEnum {
			return
		}
		if depth > 8 || onPath[b] || len(paths) > 16 {
			okEnum = false
			return
		}
		if iff, isIf := b.Instrs[len(b.Instrs)-1].(*ssa.If); isIf && b.Succs[0] != b.Succs[1] {
			conds = append(append([]edgeCond{}, conds...), edgeCond{iff.Cond, b.Succs[0] == succ})
		}
		for k := len(b.Instrs) - 1; k >= 0; k-- {
			i := b.Instrs[k]
			if st, ok := i.(*ssa.Store); ok && st.Addr == ssa.Value(al) {
				paths = append(paths, cellPath{st.Val, b, conds})
				return
			}
			if l2, ok := i.(*ssa.UnOp); ok && l2.Op == token.MUL && l2.X == ssa.Value(al) {
				paths = append(paths, cellPath{l2, b, conds})
				return
			}
			if writesCell(i, al) {
				okEnum = false
				return
			}
		}
		if len(b.Preds) == 0 {
			okEnum = false // the zero value at entry: not handled
			return
		}
		onPath[b] = true
		for _, p2 := range b.Preds {
			back(p2, b, conds, depth+1, onPath)
		}
		delete(onPath, b)
	}
	for _, pred := range u.Preds {
		back(pred, u, nil, 0, map[*ssa.BasicBlock]bool{u: true})
	}
	return top, paths, okEnum && len(paths) > 0
}

// proverOnPath: a prover positioned where the path found the cell's value, with the loads at the top of the block
// replaced by that value and the path's branch conditions assumed.
func proverOnPath(c *Ctx, loads []heapLoad, fn *ssa.Function, top []ssa.Value, cp cellPath) *prover {
	pr := newProver(c, loads, fn, cp.at)
	pr.subst = map[ssa.Value]ssa.Value{}
	for _, t := range top {
		pr.subst[t] = cp.val
	}
	for pass := 0; pass < 2; pass++ {
		for _, ec := range cp.conds {
			pr.assume(ec.cond, ec.truth)
		}
	}
	return pr
}

// caseProvers: provers that together cover every way value v can have been produced at the top of block u — one per
// incoming edge when v is a join in u, one per backward path when v is a load of a memory-resident local.
func caseProvers(c *Ctx, loads []heapLoad, fn *ssa.Function, v ssa.Value, u *ssa.BasicBlock) []*prover {
	if ph, ok := v.(*ssa.Phi); ok && ph.Block() == u && !dependsOnSelf(ph) {
		var out []*prover
		for i, e := range ph.Edges {
			pred := u.Preds[i]
			pr := newProver(c, loads, fn, pred)
			pr.subst = map[ssa.Value]ssa.Value{ph: e}
			if iff, isIf := pred.Instrs[len(pred.Instrs)-1].(*ssa.If); isIf && pred.Succs[0] != pred.Succs[1] {
				for pass := 0; pass < 2; pass++ {
					pr.assume(iff.Cond, pred.Succs[0] == u)
				}
			}
			out = append(out, pr)
		}
		return out
	}
	top, paths, ok := cellPathsTo(v, u)
	if !ok {
		return nil
	}
	var out []*prover
	for _, cp := range paths {
		out = append(out, proverOnPath(c, loads, fn, top, cp))
	}
	return out
}

// splitOnCell proves an obligation on a local variable that lives in memory (its address is taken somewhere, so it
// is not an SSA register): the loads of the cell at the top of the instruction's block are treated as a join of what
// each backward path last stored into, or loaded from, the cell — the idiom `if len(x) == 0 { x = append(x, e) }; x[0]`.
func splitOnCell(c *Ctx, loads []heapLoad, fn *ssa.Function, in ssa.Instruction) bool {
	var cv ssa.Value
	switch x := in.(type) {
	case *ssa.Slice:
		cv = x.X
	case *ssa.IndexAddr:
		cv = x.X
	case *ssa.Index:
		cv = x.X
	}
	if cv == nil {
		return false
	}
	top, paths, ok := cellPathsTo(cv, in.Block())
	if !ok {
		return false
	}
	for _, cp := range paths {
		pr := proverOnPath(c, loads, fn, top, cp)
		ok := false
		switch x := in.(type) {
		case *ssa.Slice:
			ok = pr.proveSlice(x)
		case *ssa.IndexAddr:
			ok = pr.proveIndex(x.X, x.Index)
		case *ssa.Index:
			ok = pr.proveIndex(x.X, x.Index)
		}
		if !ok {
			return false
		}
	}
	return true
}

func dependsOnSelf(ph *ssa.Phi) bool {
	seen := map[ssa.Value]bool{}
	var rec func(v ssa.Value) bool
	rec = func(v ssa.Value) bool {
		if v == ssa.Value(ph) {
			return true
		}
		if seen[v] {
			return false
		}
		seen[v] = true
		switch y := v.(type) {
		case *ssa.Phi:
			for _, e := range y.Edges {
				if rec(e) {
					return true
				}
			}
		case *ssa.BinOp:
			return rec(y.X) || rec(y.Y)
		case *ssa.Convert:
			return rec(y.X)
		}
		return false
	}
	for _, e := range ph.Edges {
		if rec(e) {
			return true
		}
	}
	return false
}

// proveAtCallers: the instruction sits in a helper that is only called statically, and it indexes a slice parameter
// or a slice field of a pointer parameter with bounds that are parameters plus constants. The obligation is then the
// callers': it is proved at every call site with the arguments substituted for the parameters, and with the length
// of the field taken at the call (the helper must not store to the field).
func proveAtCallers(c *Ctx, fn *ssa.Function, in ssa.Instruction) bool {
	if fn.Blocks == nil || fn.Parent() != nil {
		return false
	}
	var X ssa.Value
	var lo, hi ssa.Value // hi exclusive; nil lo = 0, nil hi = len
	hiPlus := int64(0)
	switch x := in.(type) {
	case *ssa.Slice:
		if x.Max != nil {
			return false
		}
		X, lo, hi = x.X, x.Low, x.High
	case *ssa.IndexAddr:
		X, lo, hi, hiPlus = x.X, x.Index, x.Index, 1
	case *ssa.Index:
		X, lo, hi, hiPlus = x.X, x.Index, x.Index, 1
	case *ssa.Lookup:
		X, lo, hi, hiPlus = x.X, x.Index, x.Index, 1
	default:
		return false
	}
	switch X.Type().Underlying().(type) {
	case *types.Slice, *types.Basic:
	default:
		return false
	}
	paramIdx := func(v ssa.Value) int {
		for i, q := range fn.Params {
			if ssa.Value(q) == v {
				return i
			}
		}
		return -1
	}
	// the indexed object
	xParam, xRecv, xField, xFieldName := -1, -1, "", ""
	if i := paramIdx(X); i >= 0 {
		xParam = i
	} else if ld, ok := X.(*ssa.UnOp); ok && ld.Op == token.MUL {
		fa, ok := ld.X.(*ssa.FieldAddr)
		if !ok {
			return false
		}
		t, f, base, ok := FieldOf(fa)
		if !ok {
			return false
		}
		xField, xFieldName = t+"."+f, f
		// a field of a nested struct of the parameter: p.A.F
		for {
			if inner, isFA := base.(*ssa.FieldAddr); isFA {
				_, f2, b2, ok2 := FieldOf(inner)
				if !ok2 {
					break
				}
				xFieldName = f2 + "." + xFieldName
				base = b2
				continue
			}
			break
		}
		xRecv = paramIdx(base)
		if xRecv < 0 {
			return false
		}
		// nothing that can run before the instruction stores to the field
		for _, b := range fn.Blocks {
			before := b != in.Block() && BlockReaches(b, in.Block(), nil)
			for k, i2 := range b.Instrs {
				if b == in.Block() && k < InstrBlockIndex(in) {
					before = true
				} else if b == in.Block() {
					before = BlockReaches(b, b, nil) && len(b.Succs) > 0 && loopsBackTo(b)
				}
				if before && c.mayModify(i2, xField) {
					return false
				}
			}
		}
	} else {
		return false
	}
	// bounds as parameter + constant
	type pterm struct {
		param int // -1: constant
		off   int64
		isLen bool // len(param) + off
	}
	cp := newProver(c, nil, fn, in.Block())
	toP := func(v ssa.Value) (pterm, bool) {
		if v == nil {
			return pterm{-1, 0, false}, true
		}
		t := cp.norm(v)
		if !t.ok {
			return pterm{}, false
		}
		if t.sym == "0" {
			return pterm{-1, t.off, false}, true
		}
		for i, q := range fn.Params {
			if valKey(q) == t.sym {
				return pterm{i, t.off, false}, true
			}
			if lenKey(q) == t.sym {
				return pterm{i, t.off, true}, true
			}
		}
		return pterm{}, false
	}
	lt, ok1 := toP(lo)
	ht, ok2 := toP(hi)
	if !ok1 || !ok2 {
		return false
	}
	ht.off += hiPlus
	n := c.P.CHA().Nodes[fn]
	if n == nil || len(n.In) == 0 {
		return false
	}
	for _, e := range n.In {
		if e.Site == nil {
			return false
		}
		cc := e.Site.Common()
		if cc.StaticCallee() == nil && !cc.IsInvoke() && !c.addressTaken()[fn] {
			continue
		}
		if cc.StaticCallee() != fn || len(cc.Args) != len(fn.Params) {
			return false
		}
		site, ok := e.Site.(ssa.Instruction)
		if !ok {
			return false
		}
		caller := e.Site.Parent()
		loads := heapLoadsOf(caller)
		proveWith := func(pr *prover) bool {
			var L string
			if xParam >= 0 {
				arg := cc.Args[xParam]
				pr.lenFacts(arg)
				L = lenKey(pr.canon(arg))
			} else {
				L = fmt.Sprintf("site:%p", site)
				pr.g.le("0", L, 0)
				path := baseKey(cc.Args[xRecv]) + "." + xFieldName
				// a find-index helper called on the same path, with the field untouched since: its result is a position
				for _, cb := range caller.Blocks {
					for _, ci := range cb.Instrs {
						fcall, isCall := ci.(*ssa.Call)
						if !isCall {
							continue
						}
						fi := c.FindIndexOf(fcall.Call.StaticCallee())
						if fi == nil || fi.sliceArg >= len(fcall.Call.Args) {
							continue
						}
						if baseKey(fcall.Call.Args[fi.sliceArg])+"."+fi.slice != path || !c.stableBetween(fcall, site, xField) {
							continue
						}
						pr.valFacts(fcall)
						pr.g.le(valKey(fcall), L, -1) // result <= len - 1
					}
				}
				for i := range loads {
					o := &loads[i]
					if o.path != path || o.field != xField || !c.stableBetween(o.in, site, xField) {
						continue
					}
					var ok string
					if o.val != nil {
						pr.lenFacts(o.val)
						ok = lenKey(pr.canon(o.val))
					} else {
						pr.valFacts(o.lenOf)
						ok = valKey(o.lenOf)
					}
					pr.g.le(L, ok, 0)
					pr.g.le(ok, L, 0)
				}
			}
			at := func(t pterm) term {
				if t.param < 0 {
					return term{"0", t.off, true}
				}
				if t.isLen {
					pr.lenFacts(cc.Args[t.param])
					return term{lenKey(pr.canon(cc.Args[t.param])), t.off, true}
				}
				a := pr.norm(cc.Args[t.param])
				if !a.ok {
					return term{}
				}
				return term{a.sym, a.off + t.off, true}
			}
			l, h := at(lt), at(ht)
			if !l.ok || !h.ok {
				return false
			}
			if !pr.g.prove("0", l.sym, l.off) {
				return false
			}
			if hi != nil {
				if !pr.g.prove(l.sym, h.sym, h.off-l.off) || !pr.g.prove(h.sym, L, -h.off) {
					return false
				}
			} else if !pr.g.prove(l.sym, L, -l.off) {
				return false
			}
			return true
		}
		if proveWith(newProver(c, loads, caller, site.Block())) {
			continue
		}
		if os.Getenv("HV_DEBUG") != "" {
			top, paths, ok := cellPathsTo(cc.Args[0], site.Block())
			fmt.Fprintf(os.Stderr, "proveAtCallers %s at %s: direct proof failed; xParam=%d cell paths ok=%v n=%d top=%d arg=%v\n", fn.Name(), caller.Name(), xParam, ok, len(paths), len(top), cc.Args[0])
		}
		// the argument is a join, or a local variable kept in memory: one proof per incoming edge / per path to its last assignment
		if xParam < 0 {
			return false
		}
		cases := caseProvers(c, loads, caller, cc.Args[xParam], site.Block())
		if len(cases) == 0 {
			return false
		}
		for _, pr := range cases {
			if !proveWith(pr) {
				return false
			}
		}
	}
	return true
}

// rangeIndexOf recognises the induction variable of a counted loop in the shape go/ssa gives `for i := range s` and
// `for i := c; i < n; i++` after rotation: a header phi r with a constant initial value r0 and one recurrent value
// r+1. When the header ends in `r+1 < N` (N defined before the loop) and every back edge comes from under that guard,
// r <= N-1 holds at the header provided r0 <= N-1; that fact is recorded here.
func (p *prover) rangeIndexOf(h *ssa.BasicBlock) (r *ssa.Phi, r0 int64, ok bool) {
	for _, in := range h.Instrs {
		ph, isPhi := in.(*ssa.Phi)
		if !isPhi {
			break
		}
		if !isIntType(ph.Type()) || len(ph.Edges) != len(h.Preds) {
			continue
		}
		var next *ssa.BinOp
		init, haveInit, good := int64(0), false, true
		for _, e := range ph.Edges {
			if c, isC := ConstInt(e); isC {
				if haveInit && c != init {
					good = false
				}
				init, haveInit = c, true
				continue
			}
			bo, isB := e.(*ssa.BinOp)
			if !isB || bo.Op != token.ADD || bo.X != ssa.Value(ph) || (next != nil && next != bo) {
				good = false
				break
			}
			if c1, isC := ConstInt(bo.Y); !isC || c1 != 1 {
				good = false
				break
			}
			next = bo
		}
		if !good || !haveInit || next == nil {
			continue
		}
		// upper bound from the header guard on r+1
		if iff, isIf := h.Instrs[len(h.Instrs)-1].(*ssa.If); isIf && next.Block() == h {
			if cmp, isB := iff.Cond.(*ssa.BinOp); isB && cmp.Op == token.LSS && cmp.X == ssa.Value(next) {
				nIn, isInstr := cmp.Y.(ssa.Instruction)
				outside := !isInstr || (nIn.Block() != h && nIn.Block().Dominates(h))
				if _, isP := cmp.Y.(*ssa.Parameter); isP {
					outside = true
				}
				body := h.Succs[0]
				under := len(body.Preds) == 1
				for i, e := range ph.Edges {
					if e == ssa.Value(next) && !(body == h.Preds[i] || body.Dominates(h.Preds[i])) {
						under = false
					}
				}
				if outside && under {
					if n := p.norm(cmp.Y); n.ok && p.g.prove("0", n.sym, n.off-init-1) { // r0 <= N-1
						p.g.le(valKey(ph), n.sym, n.off-1)
					}
				}
				return ph, init, true
			}
		}
	}
	return nil, 0, false
}

// lockstep: x is a header phi of a loop that has an induction variable r (rangeIndexOf) stepping by exactly one per
// iteration. If x starts at a constant c0 and every recurrent edge carries x or x+1 (through joins inside the loop),
// x grows no faster than r: x - r <= c0 - r0 at the header, hence wherever both are in scope.
func (p *prover) lockstep(x *ssa.Phi, k string) {
	h := x.Block()
	r, r0, ok := p.rangeIndexOf(h)
	if !ok || r == x || !isIntType(x.Type()) {
		return
	}
	c0, haveInit := int64(0), false
	var step func(e ssa.Value, depth int) (int64, bool)
	step = func(e ssa.Value, depth int) (int64, bool) {
		if e == ssa.Value(x) {
			return 0, true
		}
		if depth > 6 {
			return 0, false
		}
		switch y := e.(type) {
		case *ssa.BinOp:
			if y.Op == token.ADD {
				if c, isC := ConstInt(y.Y); isC && c >= 0 {
					s, ok := step(y.X, depth+1)
					return s + c, ok
				}
			}
			if y.Op == token.SUB {
				if c, isC := ConstInt(y.Y); isC && c >= 0 {
					s, ok := step(y.X, depth+1)
					return s, ok // decreasing only helps the upper bound
				}
			}
		case *ssa.Phi:
			if y.Block() == h {
				return 0, false
			}
			m := int64(0)
			for _, e2 := range y.Edges {
				s, ok := step(e2, depth+1)
				if !ok {
					return 0, false
				}
				if s > m {
					m = s
				}
			}
			return m, true
		}
		return 0, false
	}
	for i, e := range x.Edges {
		if _, isC := ConstInt(r.Edges[i]); isC {
			// an entry edge of the loop: x must start at a constant there
			c, isCx := ConstInt(e)
			if !isCx || (haveInit && c != c0) {
				return
			}
			c0, haveInit = c, true
			continue
		}
		s, ok := step(e, 0)
		if !ok || s > 1 {
			return
		}
	}
	if !haveInit {
		return
	}
	p.valFacts(r)
	p.g.le(k, valKey(r), c0-r0) // x - r <= c0 - r0
}

// sliceIndexSummary: every result of h is a negative constant or a value v with 0 <= v <= len(s)-1 for one slice
// parameter s of h (proved in h itself). Returns the parameter index and the smallest constant result.
func (c *Ctx) sliceIndexSummary(h *ssa.Function) (sliceParam int, notFound int64, ok bool) {
	if h == nil || h.Blocks == nil || h.Signature.Results().Len() != 1 || !isIntType(h.Signature.Results().At(0).Type()) {
		return 0, 0, false
	}
	if c.sliceIdx == nil {
		c.sliceIdx = map[*ssa.Function][3]int64{}
	}
	if r, have := c.sliceIdx[h]; have {
		return int(r[0]), r[1], r[2] == 1
	}
	c.sliceIdx[h] = [3]int64{0, 0, 0} // in progress / not a summary
	sliceParam = -1
	haveConst, haveIdx := false, false
	loads := heapLoadsOf(h)
	for _, b := range h.Blocks {
		ret, isRet := b.Instrs[len(b.Instrs)-1].(*ssa.Return)
		if !isRet {
			continue
		}
		v := ret.Results[0]
		if kc, isC := ConstInt(v); isC {
			if kc >= 0 {
				return 0, 0, false
			}
			if !haveConst || kc < notFound {
				notFound = kc
			}
			haveConst = true
			continue
		}
		found := -1
		for i, prm := range h.Params {
			if _, isSlice := prm.Type().Underlying().(*types.Slice); !isSlice {
				continue
			}
			pr := newProver(c, loads, h, b)
			t := pr.norm(v)
			if !t.ok {
				continue
			}
			pr.lenFacts(prm)
			if pr.g.prove("0", t.sym, t.off) && pr.g.prove(t.sym, lenKey(pr.canon(prm)), -1-t.off) {
				found = i
				break
			}
		}
		if found < 0 || (sliceParam >= 0 && sliceParam != found) {
			return 0, 0, false
		}
		sliceParam, haveIdx = found, true
	}
	if !haveConst || !haveIdx {
		return 0, 0, false
	}
	c.sliceIdx[h] = [3]int64{int64(sliceParam), notFound, 1}
	return sliceParam, notFound, true
}

// loopsBackTo reports whether b lies on a cycle of the control-flow graph.
func loopsBackTo(b *ssa.BasicBlock) bool {
	for _, s := range b.Succs {
		if BlockReaches(s, b, nil) {
			return true
		}
	}
	return false
}
