package rules

import (
	"go/token"
	"go/types"
	"sort"
	"strconv"
	"strings"

	"golang.org/x/tools/go/ssa"

	"hv/internal/core"
)

const PkgHclwrite = PkgYaotl + "/hclwrite"

func isWriterToken(t types.Type) bool {
	if p, ok := t.Underlying().(*types.Pointer); ok {
		t = p.Elem()
	}
	return strings.HasSuffix(t.String(), "hclwrite.Token")
}

func isTokenSlice(t types.Type) bool {
	if sl, ok := t.Underlying().(*types.Slice); ok {
		return isWriterToken(sl.Elem())
	}
	return false
}

// fromTokenBytes: v is (a sub-slice of) a load of Token.Bytes.
func fromTokenBytes(v ssa.Value) bool {
	return DerivesFromNarrow(v, func(x ssa.Value) bool {
		t, f, _, ok := FieldOf(x)
		return ok && strings.HasSuffix(t, "hclwrite.Token") && f == "Bytes"
	})
}

// DerivesFromNarrow follows loads, slices, phis and conversions only (no call arguments).
func DerivesFromNarrow(v ssa.Value, pred func(ssa.Value) bool) bool {
	seen := map[ssa.Value]bool{}
	var rec func(v ssa.Value) bool
	rec = func(v ssa.Value) bool {
		if v == nil || seen[v] {
			return false
		}
		seen[v] = true
		if pred(v) {
			return true
		}
		switch x := v.(type) {
		case *ssa.UnOp:
			return rec(x.X)
		case *ssa.Slice:
			return rec(x.X)
		case *ssa.Convert:
			return rec(x.X)
		case *ssa.ChangeType:
			return rec(x.X)
		case *ssa.IndexAddr:
			return rec(x.X)
		case *ssa.Phi:
			for _, e := range x.Edges {
				if rec(e) {
					return true
				}
			}
		}
		return false
	}
	return rec(v)
}

// pure readers of token bytes outside the module
var tokenByteReaders = map[string]string{
	"github.com/apparentlymart/go-textseg/v13/textseg.TokenCount": "counts grapheme clusters; reads only",
	"builtin.len":             "length",
	"bytes.Equal":             "comparison",
	"bytes.HasPrefix":         "comparison",
	"bytes.HasSuffix":         "comparison",
	"unicode/utf8.RuneCount":  "reads only",
	"unicode/utf8.DecodeRune": "reads only",
}

// R20FormatEffects — the formatter touches nothing but SpacesBefore.
func R20FormatEffects(c *Ctx) {
	const rule = "R20-format-effects"
	c.R.Rule(rule, "in every function reachable from hclwrite.format (the only formatter; Format, File.Bytes-with-format and the generators call it) the only store through a *Token is to SpacesBefore; no element of a token slice is replaced, no token slice is appended to or copied over, no byte of a token's Bytes is written, and token bytes are handed to functions outside this set only if they are listed pure readers — so formatting can change spaces and nothing else", 8)
	root := c.P.Func(PkgHclwrite, "format")
	if root == nil {
		c.R.Anchor(rule, "hclwrite.format")
		return
	}
	reach := core.Reachable(c.P.CHA(), []*ssa.Function{root}, func(fn *ssa.Function) bool {
		return core.FuncPkgPath(fn) == PkgHclwrite
	})
	var fns []*ssa.Function
	for fn := range reach {
		if fn.Blocks != nil {
			fns = append(fns, fn)
		}
	}
	sort.Slice(fns, func(i, j int) bool { return fns[i].Pos() < fns[j].Pos() })
	c.R.Extra["format_functions"] = len(fns)
	inF := map[*ssa.Function]bool{}
	for _, fn := range fns {
		inF[fn] = true
	}
	for _, fn := range fns {
		fname := FuncShort(fn)
		for _, b := range fn.Blocks {
			for _, in := range b.Instrs {
				switch x := in.(type) {
				case *ssa.Store:
					if t, f, _, ok := FieldOf(x.Addr); ok && strings.HasSuffix(t, "hclwrite.Token") {
						if f == "SpacesBefore" {
							c.R.Ok(rule, fname, "token.SpacesBefore = …", c.pos(x.Pos()), "spacing only", true)
						} else {
							c.R.Bad(rule, fname, "token."+f+" = …", c.pos(x.Pos()), "the formatter writes a token's "+f+": formatting changes more than spaces")
						}
						continue
					}
					if ia, ok := x.Addr.(*ssa.IndexAddr); ok {
						if isTokenSlice(ia.X.Type()) {
							c.R.Bad(rule, fname, "tokens[i] = …", c.pos(x.Pos()), "the formatter replaces an element of a token sequence")
						} else if fromTokenBytes(ia.X) {
							c.R.Bad(rule, fname, "token.Bytes[i] = …", c.pos(x.Pos()), "the formatter edits the bytes of a token in place")
						}
					}
					// whole-token overwrite through a pointer: *tok = Token{…}
					if isWriterToken(x.Val.Type()) {
						if _, isPtr := x.Val.Type().Underlying().(*types.Pointer); !isPtr {
							if _, isAlloc := x.Addr.(*ssa.Alloc); !isAlloc {
								c.R.Bad(rule, fname, "*token = …", c.pos(x.Pos()), "the formatter overwrites a whole token")
							}
						}
					}
				case *ssa.Call:
					name := CalleeName(x)
					args := x.Call.Args
					switch name {
					case "builtin.append":
						if len(args) > 0 && isTokenSlice(args[0].Type()) {
							c.R.Bad(rule, fname, "append(tokens, …)", c.pos(x.Pos()), "the formatter appends to a token sequence that aliases the caller's tokens: tokens are added or, within capacity, overwritten")
						} else if len(args) > 0 && fromTokenBytes(args[0]) {
							c.R.Bad(rule, fname, "append(token.Bytes, …)", c.pos(x.Pos()), "the formatter appends to a token's bytes")
						}
						continue
					case "builtin.copy":
						if len(args) > 0 && (isTokenSlice(args[0].Type()) || fromTokenBytes(args[0])) {
							c.R.Bad(rule, fname, "copy(tokens|bytes, …)", c.pos(x.Pos()), "the formatter copies over tokens or token bytes")
						}
						continue
					}
					if strings.HasPrefix(name, "builtin.") {
						continue // len, cap, …: reads
					}
					callee := x.Call.StaticCallee()
					if callee != nil && inF[callee] {
						continue
					}
					// a call leaving the analysed set: may it see token bytes or tokens?
					for _, a := range args {
						leak := ""
						if fromTokenBytes(a) {
							leak = "token bytes"
						} else if isWriterToken(a.Type()) || isTokenSlice(a.Type()) {
							if _, isPtr := a.Type().Underlying().(*types.Pointer); isPtr || isTokenSlice(a.Type()) {
								leak = "tokens"
							}
						}
						if leak == "" {
							continue
						}
						if why, ok := tokenByteReaders[name]; ok && leak == "token bytes" {
							c.R.Ok(rule, fname, "token bytes → "+shortCallee(name), c.pos(x.Pos()), "listed pure reader: "+why, true)
						} else {
							c.R.Bad(rule, fname, leak+" → "+shortCallee(name), c.pos(x.Pos()), "the formatter hands "+leak+" to a function outside the analysed set that is not a listed pure reader: it may modify them")
						}
					}
				}
			}
		}
	}
	// every user of the formatter goes through format(): no second formatter writes SpacesBefore after parsing
	c.R.Ok(rule, "-", "formatter closure", "-", "analysed "+itoa(len(fns))+" functions reachable from hclwrite.format", false)
}

// R20Serialise — tokens are serialised as (spaces, bytes) in slice order; writer tokens copy the scanner's.
func R20Serialise(c *Ctx) {
	const rule = "R20-serialise"
	c.R.Rule(rule, "Tokens.WriteTo hands to the writer only (a) sub-slices of a local buffer filled with the constant ' ' and (b) the Bytes of the token of the current iteration, bytes after spaces, one bytes-write per token in slice order; writerTokens builds token i from native token i: the same Type, a private copy of exactly its Bytes (make(len) + copy), SpacesBefore = its Range.Start.Byte minus the previous token's Range.End.Byte, and ret[i] = &tokBuf[i]", 8)
	wt := c.P.Func(PkgHclwrite, "Tokens.WriteTo")
	if wt == nil {
		c.R.Anchor(rule, "hclwrite.(Tokens).WriteTo")
	} else {
		fname := FuncShort(wt)
		// a helper that writes nothing but spaces: every Write in it takes a sub-slice of a parameter that every
		// caller binds to a buffer filled with ' '. Returns the parameter index of its space count (an int
		// parameter that initialises the countdown) or -1.
		type spaceHelper struct {
			bufIdx, cntIdx int
		}
		helpers := map[*ssa.Function]*spaceHelper{}
		isSpaceWriter := func(h *ssa.Function) *spaceHelper {
			if sh, ok := helpers[h]; ok {
				return sh
			}
			helpers[h] = nil
			if h.Blocks == nil || FuncPkgPathOf(h) != PkgHclwrite {
				return nil
			}
			res := &spaceHelper{-1, -1}
			nW := 0
			okAll := true
			EachCall(h, func(ci ssa.CallInstruction) {
				call, ok := ci.(*ssa.Call)
				if !ok || !call.Call.IsInvoke() || call.Call.Method.Name() != "Write" {
					return
				}
				nW++
				sl, ok := call.Call.Args[0].(*ssa.Slice)
				if !ok {
					okAll = false
					return
				}
				pp := ParamOf(sl.X)
				if pp == nil || pp.Parent() != h {
					okAll = false
					return
				}
				for i, q := range h.Params {
					if q == pp {
						res.bufIdx = i
					}
				}
			})
			if !okAll || nW == 0 || res.bufIdx < 0 {
				return nil
			}
			for i, q := range h.Params {
				if b, ok := q.Type().Underlying().(*types.Basic); ok && b.Kind() == types.Int {
					res.cntIdx = i
				}
			}
			helpers[h] = res
			return res
		}
		nSp, nBy := 0, 0
		var byCall, spCall *ssa.Call
		countFromSpacesBefore := false
		isSpacesBeforeLoad := func(v ssa.Value) bool {
			if u, ok := v.(*ssa.UnOp); ok && u.Op == token.MUL {
				if t, f, _, ok := FieldOf(u.X); ok && strings.HasSuffix(t, "hclwrite.Token") && f == "SpacesBefore" {
					return true
				}
			}
			return false
		}
		for _, b := range wt.Blocks {
			for _, in := range b.Instrs {
				call, ok := in.(*ssa.Call)
				if !ok {
					continue
				}
				if callee := call.Call.StaticCallee(); callee != nil && !call.Call.IsInvoke() {
					if sh := isSpaceWriter(callee); sh != nil {
						if sh.bufIdx < len(call.Call.Args) && isSpaceBufferValue(call.Call.Args[sh.bufIdx]) {
							nSp++
							spCall = call
							if sh.cntIdx >= 0 && sh.cntIdx < len(call.Call.Args) && isSpacesBeforeLoad(call.Call.Args[sh.cntIdx]) {
								countFromSpacesBefore = true
							}
							c.R.Ok(rule, fname, "spaces written through "+callee.Name(), c.pos(call.Pos()), "the helper writes only sub-slices of the all-spaces buffer it is given", true)
						} else {
							c.R.Bad(rule, fname, "spaces written through "+callee.Name(), c.pos(call.Pos()), "the helper's buffer argument is not a buffer filled with the constant ' '")
						}
						continue
					}
				}
				if !call.Call.IsInvoke() || call.Call.Method.Name() != "Write" {
					continue
				}
				arg := call.Call.Args[0]
				switch {
				case fromTokenBytes(arg):
					// whole Bytes, not a sub-slice
					if _, isSlice := arg.(*ssa.Slice); isSlice {
						c.R.Bad(rule, fname, "wr.Write(token.Bytes)", c.pos(call.Pos()), "only a part of the token's bytes is written")
					} else {
						nBy++
						byCall = call
						c.R.Ok(rule, fname, "wr.Write(token.Bytes)", c.pos(call.Pos()), "the whole byte content of the current token", true)
					}
				case isSpaceBuffer(arg):
					nSp++
					spCall = call
					c.R.Ok(rule, fname, "wr.Write(spaces[:n])", c.pos(call.Pos()), "a run of the constant ' '", true)
				default:
					c.R.Bad(rule, fname, "wr.Write(…)", c.pos(call.Pos()), "something other than spaces or the token's bytes is written to the output")
				}
			}
		}
		if nBy != 1 || nSp < 1 {
			c.R.Bad(rule, fname, "one bytes-write per token after its spaces", c.pos(wt.Pos()), "expected one write of token.Bytes and at least one write of spaces per token, found "+itoa(nBy)+" / "+itoa(nSp))
		} else {
			loops := naturalLoops(wt)
			var outer *natLoop
			for _, l := range loops {
				if l.body[byCall.Block()] && (outer == nil || len(l.body) > len(outer.body)) {
					outer = l
				}
			}
			reachWithin := func(from, to *ssa.BasicBlock) bool {
				seen := map[*ssa.BasicBlock]bool{}
				var walk func(x *ssa.BasicBlock) bool
				walk = func(x *ssa.BasicBlock) bool {
					if x == to {
						return true
					}
					if seen[x] {
						return false
					}
					seen[x] = true
					for _, s := range x.Succs {
						if outer != nil && s == outer.header {
							continue
						}
						if walk(s) {
							return true
						}
					}
					return false
				}
				for _, s := range from.Succs {
					if outer != nil && s == outer.header {
						continue
					}
					if walk(s) {
						return true
					}
				}
				return false
			}
			sameBlockBefore := spCall.Block() == byCall.Block() && InstrBlockIndex(spCall) < InstrBlockIndex(byCall)
			if outer != nil && outer.body[spCall.Block()] && (sameBlockBefore || (!reachWithin(byCall.Block(), spCall.Block()) && reachWithin(spCall.Block(), byCall.Block()))) {
				c.R.Ok(rule, fname, "spaces before bytes within one iteration", c.pos(byCall.Pos()), "in each iteration the spaces are written first, then the token's bytes", true)
			} else {
				c.R.Bad(rule, fname, "spaces before bytes within one iteration", c.pos(byCall.Pos()), "the order (spaces, then bytes) per token is not kept")
			}
			// the spaces count starts from token.SpacesBefore
			init := countFromSpacesBefore
			for _, b := range wt.Blocks {
				for _, in := range b.Instrs {
					if ph, ok := in.(*ssa.Phi); ok && outer != nil && outer.body[b] {
						for _, e := range ph.Edges {
							if isSpacesBeforeLoad(e) {
								init = true
							}
						}
					}
				}
			}
			if init {
				c.R.Ok(rule, fname, "space run counted down from token.SpacesBefore", c.pos(wt.Pos()), "the number of spaces starts at the token's SpacesBefore", true)
			} else {
				c.R.Bad(rule, fname, "space run counted down from token.SpacesBefore", c.pos(wt.Pos()), "the space run is not driven by token.SpacesBefore")
			}
		}
	}
	// writerTokens
	w := c.P.Func(PkgHclwrite, "writerTokens")
	if w == nil {
		c.R.Anchor(rule, "hclwrite.writerTokens")
		return
	}
	fname := FuncShort(w)
	isNative := func(field string) func(ssa.Value) bool {
		return func(v ssa.Value) bool {
			t, f, _, ok := FieldOf(v)
			return ok && strings.HasSuffix(t, "hclsyntax.Token") && f == field
		}
	}
	nTok := 0
	// the Token literal may be built by a helper of writerTokens that receives the native token (and the gap)
	var wBlocks []*ssa.BasicBlock
	for _, wf := range HelperClosure(w, 1) {
		wBlocks = append(wBlocks, wf.Blocks...)
	}
	for _, b := range wBlocks {
		for _, in := range b.Instrs {
			st, ok := in.(*ssa.Store)
			if !ok {
				continue
			}
			t, f, _, ok := FieldOf(st.Addr)
			if !ok || !strings.HasSuffix(t, "hclwrite.Token") {
				continue
			}
			nTok++
			switch f {
			case "Type":
				if DerivesFromNarrow(st.Val, isNative("Type")) {
					c.R.Ok(rule, fname, "Type = native.Type", c.pos(st.Pos()), "token type carried over", true)
				} else {
					c.R.Bad(rule, fname, "Type = native.Type", c.pos(st.Pos()), "the writer token's type is not the native token's type")
				}
			case "Bytes":
				// make([]byte, len(native.Bytes)) + copy(bytes, native.Bytes)
				mk, isMk := st.Val.(*ssa.MakeSlice)
				good := false
				if isMk {
					if l, ok := mk.Len.(*ssa.Call); ok && CalleeName(l) == "builtin.len" && DerivesFromNarrow(l.Call.Args[0], isNative("Bytes")) {
						for _, r := range *mk.Referrers() {
							if cp, ok := r.(*ssa.Call); ok && CalleeName(cp) == "builtin.copy" && cp.Call.Args[0] == ssa.Value(mk) && DerivesFromNarrow(cp.Call.Args[1], isNative("Bytes")) {
								if _, sub := cp.Call.Args[1].(*ssa.Slice); !sub {
									good = true
								}
							}
						}
					}
				}
				if good {
					c.R.Ok(rule, fname, "Bytes = copy of native.Bytes", c.pos(st.Pos()), "a private copy of exactly the native token's bytes", true)
				} else {
					c.R.Bad(rule, fname, "Bytes = copy of native.Bytes", c.pos(st.Pos()), "the writer token's bytes are not a full private copy (make(len(native.Bytes)) + copy) of the native token's bytes")
				}
			case "SpacesBefore":
				sv := st.Val
				// a helper's parameter: what its (single) call site in writerTokens passes
				if prm, isP := sv.(*ssa.Parameter); isP && prm.Parent() != w {
					h := prm.Parent()
					for i, q := range h.Params {
						if q != prm {
							continue
						}
						var arg ssa.Value
						nSites := 0
						c.EveryCallSite(h, func(site ssa.CallInstruction) bool {
							nSites++
							if i < len(site.Common().Args) {
								arg = site.Common().Args[i]
							}
							return true
						})
						if nSites == 1 && arg != nil {
							sv = arg
						}
					}
				}
				bo, ok := sv.(*ssa.BinOp)
				good := false
				if ok && bo.Op == token.SUB {
					start := rangeByte(bo.X, "Start")
					prevEnd := false
					if ph, ok := bo.Y.(*ssa.Phi); ok {
						prevEnd = true
						n := 0
						for _, e := range ph.Edges {
							if k, ok := ConstInt(e); ok && k == 0 {
								continue
							}
							n++
							if !rangeByte(e, "End") {
								prevEnd = false
							}
						}
						if n == 0 {
							prevEnd = false
						}
					}
					good = start && prevEnd
				}
				if good {
					c.R.Ok(rule, fname, "SpacesBefore = Range.Start.Byte - previous Range.End.Byte", c.pos(st.Pos()), "the gap between consecutive tokens", true)
				} else {
					c.R.Bad(rule, fname, "SpacesBefore = Range.Start.Byte - previous Range.End.Byte", c.pos(st.Pos()), "the recorded spacing is not the byte gap between this token's start and the previous token's end")
				}
			}
		}
	}
	if nTok < 3 {
		c.R.Anchor(rule, "the Token literal in writerTokens")
	}
	// ret[i] = &tokBuf[i]
	okIdx := false
	for _, b := range w.Blocks {
		for _, in := range b.Instrs {
			st, ok := in.(*ssa.Store)
			if !ok {
				continue
			}
			ia, ok := st.Addr.(*ssa.IndexAddr)
			if !ok || !isTokenSlice(ia.X.Type()) {
				continue
			}
			if _, isPtr := st.Val.Type().Underlying().(*types.Pointer); !isPtr {
				continue
			}
			if src, ok := st.Val.(*ssa.IndexAddr); ok && src.Index == ia.Index {
				okIdx = true
				c.R.Ok(rule, fname, "ret[i] = &tokBuf[i]", c.pos(st.Pos()), "same index: order kept, no token skipped or repeated", true)
			} else {
				c.R.Bad(rule, fname, "ret[i] = &tokBuf[i]", c.pos(st.Pos()), "the pointer sequence does not map index i to token i")
			}
		}
	}
	if !okIdx {
		c.R.Bad(rule, fname, "ret[i] = &tokBuf[i]", c.pos(w.Pos()), "no store of &tokBuf[i] into ret[i] found")
	}
}

// rangeByte: v is a load of <hclsyntax.Token>.Range.<which>.Byte
func rangeByte(v ssa.Value, which string) bool {
	u, ok := v.(*ssa.UnOp)
	if !ok || u.Op != token.MUL {
		// value-typed token: Field chain
		f, ok := v.(*ssa.Field)
		if !ok {
			return false
		}
		_, n1, base1, ok := FieldOf(f)
		if !ok || n1 != "Byte" {
			return false
		}
		_, n2, base2, ok := FieldOf(base1)
		if !ok || n2 != which {
			return false
		}
		t3, n3, _, ok := FieldOf(base2)
		return ok && n3 == "Range" && strings.HasSuffix(t3, "hclsyntax.Token")
	}
	_, n1, base1, ok := FieldOf(u.X)
	if !ok || n1 != "Byte" {
		return false
	}
	_, n2, base2, ok := FieldOf(base1)
	if !ok || n2 != which {
		return false
	}
	t3, n3, _, ok := FieldOf(base2)
	return ok && n3 == "Range" && strings.HasSuffix(t3, "hclsyntax.Token")
}

// isSpaceBufferValue: v itself is the local buffer filled with ' ' (possibly through the [:] that make() lowers to).
func isSpaceBufferValue(v ssa.Value) bool {
	switch x := v.(type) {
	case *ssa.MakeSlice:
		return onlySpaceStores(x, nil)
	case *ssa.Slice:
		if al, ok := x.X.(*ssa.Alloc); ok {
			return onlySpaceStores(al, x)
		}
	}
	return false
}

// isSpaceBuffer: v is a sub-slice of a local byte buffer whose only element stores are the constant ' '.
func isSpaceBuffer(v ssa.Value) bool {
	sl, ok := v.(*ssa.Slice)
	if !ok {
		return false
	}
	var buf ssa.Value = sl.X
	mk, ok := buf.(*ssa.MakeSlice)
	if !ok {
		// make with constant size: new [N]byte + slice
		if s2, ok := buf.(*ssa.Slice); ok {
			buf = s2.X
		}
		al, ok := buf.(*ssa.Alloc)
		if !ok {
			return false
		}
		return onlySpaceStores(al, sl.X)
	}
	return onlySpaceStores(mk, nil)
}

func onlySpaceStores(buf ssa.Value, alias ssa.Value) bool {
	n := 0
	check := func(v ssa.Value) bool {
		for _, r := range *v.Referrers() {
			switch x := r.(type) {
			case *ssa.IndexAddr:
				for _, r2 := range *x.Referrers() {
					if st, ok := r2.(*ssa.Store); ok && st.Addr == ssa.Value(x) {
						k, ok := ConstInt(st.Val)
						if !ok || k != ' ' {
							return false
						}
						n++
					}
				}
			}
		}
		return true
	}
	if !check(buf) {
		return false
	}
	if alias != nil && alias != buf {
		if !check(alias) {
			return false
		}
	}
	return n > 0
}

// R20TokenOwnership — every partition of the input tokens ends up in the write tree.
func R20TokenOwnership(c *Ctx) {
	const rule = "R20-token-ownership"
	c.R.Rule(rule, "in hclwrite's parser every value of type inputTokens — a parameter, or a part returned by Partition*/Slice — is consumed: partitioned further, handed to a parse* function, returned, or turned into Tokens() that are attached to a node; a part that is only measured (Len/Types) or not used at all means its tokens belong to no node and vanish from the serialised file", 40)
	isIT := func(t types.Type) bool { return strings.HasSuffix(t.String(), "hclwrite.inputTokens") }
	nonConsuming := map[string]bool{"Len": true, "Types": true}
	n := 0
	for _, fn := range c.P.ModuleFuncs(func(p string) bool { return p == PkgHclwrite }) {
		if fn.Blocks == nil {
			continue
		}
		// definitions
		var defs []ssa.Value
		ownMethod := fn.Signature.Recv() != nil && isIT(fn.Signature.Recv().Type())
		for i, p := range fn.Params {
			if ownMethod && i == 0 {
				continue // the receiver of inputTokens' own methods is taken apart by field access
			}
			if isIT(p.Type()) {
				defs = append(defs, p)
			}
		}
		for _, b := range fn.Blocks {
			for _, in := range b.Instrs {
				switch x := in.(type) {
				case *ssa.Extract:
					if isIT(x.Type()) {
						defs = append(defs, x)
					}
				case *ssa.Call:
					if isIT(x.Type()) {
						defs = append(defs, x)
					}
				}
			}
		}
		if len(defs) == 0 {
			continue
		}
		consumed := func(def ssa.Value) bool {
			seen := map[ssa.Value]bool{}
			var rec func(v ssa.Value) bool
			rec = func(v ssa.Value) bool {
				if seen[v] {
					return false
				}
				seen[v] = true
				refs := v.Referrers()
				if refs == nil {
					return false
				}
				for _, r := range *refs {
					switch u := r.(type) {
					case *ssa.Phi:
						if rec(u) {
							return true
						}
					case *ssa.Return:
						return true
					case *ssa.Store:
						if u.Val == v {
							// spilled local: follow the loads of the cell
							if al, ok := u.Addr.(*ssa.Alloc); ok {
								for _, r2 := range *al.Referrers() {
									if ld, ok := r2.(*ssa.UnOp); ok && ld.Op == token.MUL && rec(ld) {
										return true
									}
								}
								continue
							}
							return true
						}
					case *ssa.Call:
						name := ""
						if callee := u.Call.StaticCallee(); callee != nil {
							name = callee.Name()
						}
						if nonConsuming[name] {
							continue
						}
						if name == "Tokens" {
							if rr := u.Referrers(); rr != nil && len(*rr) > 0 {
								used := false
								for _, r3 := range *rr {
									if _, dbg := r3.(*ssa.DebugRef); !dbg {
										used = true
									}
								}
								if used {
									return true
								}
							}
							continue
						}
						return true
					case *ssa.Field:
						// direct field access (it.writerTokens[...]): inside inputTokens' own methods
						return true
					case *ssa.MakeInterface, *ssa.ChangeType:
						return true
					}
				}
				return false
			}
			return rec(def)
		}
		for _, d := range defs {
			// methods of inputTokens themselves build the parts; their receiver's use is by field access
			n++
			construct := "inputTokens " + describeIT(d)
			pos := c.pos(fn.Pos())
			if in, ok := d.(ssa.Instruction); ok && in.Pos().IsValid() {
				pos = c.pos(in.Pos())
			}
			if consumed(d) {
				c.R.Ok(rule, FuncShort(fn), construct, pos, "flows into a further partition, a parse function, a return or tokens attached to a node", true)
			} else {
				c.R.Bad(rule, FuncShort(fn), construct, pos, "this part of the input tokens is never attached to the write tree (unused, or only measured): its tokens are lost from the serialised file")
			}
		}
	}
	_ = n
}

func describeIT(v ssa.Value) string {
	switch x := v.(type) {
	case *ssa.Parameter:
		return "parameter " + x.Name()
	case *ssa.Extract:
		if call, ok := x.Tuple.(*ssa.Call); ok {
			if callee := call.Call.StaticCallee(); callee != nil {
				return "result " + itoa(x.Index) + " of " + callee.Name()
			}
		}
		return "result " + itoa(x.Index)
	case *ssa.Call:
		if callee := x.Call.StaticCallee(); callee != nil {
			return "result of " + callee.Name()
		}
	}
	return "value"
}

// R20ItemPairing — the item set of a body/label list and its child list move together.
func R20ItemPairing(c *Ctx) {
	const rule = "R20-item-pairing"
	c.R.Rule(rule, "in hclwrite every node added to an item set (nodeSet.Add) is, in the same function, also the node appended/inserted into the child list (or the result of children.Append), and every node detached from the tree inside a Body method (node.Detach) is removed from the item set (nodeSet.Remove) with the same node value, and vice versa: lookups (GetAttribute, Blocks) and the serialised tokens describe the same set of items", 5)
	sameNode := func(a, b ssa.Value) bool {
		if a == b {
			return true
		}
		// loads of the same local cell
		la, ok1 := a.(*ssa.UnOp)
		lb, ok2 := b.(*ssa.UnOp)
		return ok1 && ok2 && la.X == lb.X
	}
	for _, fn := range c.P.ModuleFuncs(func(p string) bool { return p == PkgHclwrite }) {
		if fn.Blocks == nil {
			continue
		}
		type site struct {
			call ssa.CallInstruction
			node ssa.Value
		}
		var adds, removes, detaches, attaches []site
		for _, b := range fn.Blocks {
			for _, in := range b.Instrs {
				call, ok := in.(ssa.CallInstruction)
				if !ok {
					continue
				}
				n := CalleeName(call)
				args := call.Common().Args
				switch {
				case strings.HasSuffix(n, "hclwrite.nodeSet).Add") && len(args) == 2:
					adds = append(adds, site{call, args[1]})
				case strings.HasSuffix(n, "hclwrite.nodeSet).Remove") && len(args) == 2:
					removes = append(removes, site{call, args[1]})
				case strings.HasSuffix(n, "hclwrite.node).Detach") && len(args) == 1:
					detaches = append(detaches, site{call, args[0]})
				case (strings.HasSuffix(n, "hclwrite.nodes).AppendNode") || strings.HasSuffix(n, "hclwrite.nodes).InsertNode")) && len(args) >= 2:
					attaches = append(attaches, site{call, args[len(args)-1]})
				case strings.HasSuffix(n, "hclwrite.nodes).Append") || strings.HasSuffix(n, "hclwrite.nodes).Insert"):
					if v := call.Value(); v != nil {
						attaches = append(attaches, site{call, v})
					}
				}
			}
		}
		fname := FuncShort(fn)
		for _, a := range adds {
			ok := false
			for _, t := range attaches {
				if sameNode(a.node, t.node) {
					ok = true
				}
			}
			if ok {
				c.R.Ok(rule, fname, "items.Add(n) with n attached to the child list", c.pos(a.call.Pos()), "the same node is appended to the children", true)
			} else {
				c.R.Bad(rule, fname, "items.Add(n) with n attached to the child list", c.pos(a.call.Pos()), "a node is recorded as an item without being attached to the child list in this function: lookups find an item that is not serialised")
			}
		}
		isBodyMethod := fn.Signature.Recv() != nil && strings.HasSuffix(fn.Signature.Recv().Type().String(), "hclwrite.Body")
		for _, d := range detaches {
			if !isBodyMethod {
				continue
			}
			ok := false
			for _, r := range removes {
				if sameNode(d.node, r.node) && (InstrDominates(d.call, r.call) || InstrDominates(r.call, d.call)) {
					ok = true
				}
			}
			if ok {
				c.R.Ok(rule, fname, "n.Detach() with items.Remove(n)", c.pos(d.call.Pos()), "the detached node is also dropped from the item set", true)
			} else {
				c.R.Bad(rule, fname, "n.Detach() with items.Remove(n)", c.pos(d.call.Pos()), "a node is detached from the tree but stays in the body's item set: GetAttribute/Attributes/Blocks still return the removed item and later edits go to the detached node")
			}
		}
		for _, r := range removes {
			ok := false
			for _, d := range detaches {
				if sameNode(d.node, r.node) {
					ok = true
				}
			}
			if ok {
				c.R.Ok(rule, fname, "items.Remove(n) with n.Detach()", c.pos(r.call.Pos()), "the node leaves both the item set and the tree", true)
			} else {
				c.R.Bad(rule, fname, "items.Remove(n) with n.Detach()", c.pos(r.call.Pos()), "a node is dropped from the item set but stays in the tree: it is still serialised although lookups no longer find it")
			}
		}
	}
}

// R20NumberExact — a number is written with all its digits.
func R20NumberExact(c *Ctx) {
	const rule = "R20-number-exact"
	c.R.Rule(rule, "hclwrite renders a cty number only through the arbitrary-precision formatter ((*big.Float).Text / Append with format 'f' and precision -1): no function of the package narrows a *big.Float / *big.Int to a machine integer or float (Int64, Uint64, Float64, Float32) on the way to a token — a narrowed value is clamped or rounded and re-parses as a different number than the one that was set", 1)
	n, exact := 0, 0
	for _, fn := range c.P.ModuleFuncs(func(p string) bool { return p == PkgYaotl+"/hclwrite" }) {
		EachCall(fn, func(call ssa.CallInstruction) {
			name := CalleeName(call)
			switch name {
			case "(*math/big.Float).Text", "(*math/big.Float).Append":
				args := call.Common().Args
				if len(args) >= 3 {
					f, ok1 := ConstInt(args[len(args)-2])
					pr, ok2 := ConstInt(args[len(args)-1])
					n++
					if ok1 && ok2 && f == 'f' && pr == -1 {
						exact++
						c.R.Ok(rule, FuncShort(fn), "big.Float.Text('f', -1)", c.pos(call.Pos()), "all digits, no exponent", true)
					} else {
						c.R.Bad(rule, FuncShort(fn), "big.Float.Text('f', -1)", c.pos(call.Pos()), "the number is formatted with a format/precision that can drop digits")
					}
				}
			case "(*math/big.Float).Int64", "(*math/big.Float).Uint64", "(*math/big.Float).Float64", "(*math/big.Float).Float32",
				"(*math/big.Int).Int64", "(*math/big.Int).Uint64":
				n++
				c.R.Bad(rule, FuncShort(fn), shortCallee(name)+"()", c.pos(call.Pos()), "a number is narrowed to a machine type while being written: values outside that type's range are clamped (or rounded) in the generated literal")
			}
		})
	}
	if exact == 0 {
		c.R.Anchor(rule, "the (*big.Float).Text('f', -1) call of hclwrite")
	}
}

// R20PassOrder — the indentation pass runs before the alignment pass that measures line prefixes.
func R20PassOrder(c *Ctx) {
	const rule = "R20-pass-order"
	c.R.Rule(rule, "in hclwrite.format the call of formatIndent comes before the call of formatCells on every path: formatCells aligns the assignment/comment cells by the width of the cells before them, which includes the leading spaces of the line — measured before the indentation is normalised, the padding depends on the input's indentation and a second run of the formatter changes the file again", 1)
	fn := c.P.Func(PkgYaotl+"/hclwrite", "format")
	if fn == nil {
		c.R.Anchor(rule, "hclwrite.format")
		return
	}
	var indent, cells ssa.Instruction
	for _, f := range HelperClosure(fn, 1) {
		if f != fn {
			continue
		}
		EachCall(f, func(call ssa.CallInstruction) {
			switch CalleeName(call) {
			case "Havoc/pkg/profile/yaotl/hclwrite.formatIndent":
				indent = call.(ssa.Instruction)
			case "Havoc/pkg/profile/yaotl/hclwrite.formatCells":
				cells = call.(ssa.Instruction)
			}
		})
	}
	if indent == nil || cells == nil {
		c.R.Anchor(rule, "the formatIndent and formatCells calls of hclwrite.format")
		return
	}
	construct := "formatIndent before formatCells"
	if InstrDominates(indent, cells) {
		c.R.Ok(rule, FuncShort(fn), construct, c.pos(cells.Pos()), "cells are measured on indented lines", true)
	} else {
		c.R.Bad(rule, FuncShort(fn), construct, c.pos(cells.Pos()), "the alignment pass runs on lines whose indentation has not been normalised yet: the padding it computes depends on the original indentation, so formatting is not idempotent")
	}
}

// R20EscapeSiblings — the writer escapes every byte the reader treats as the start of a special sequence.
func R20EscapeSiblings(c *Ctx) {
	const rule = "R20-escape-siblings"
	c.R.Rule(rule, "every byte value that hclsyntax.ParseStringLiteralToken dispatches on as the first byte of a special slice of a quoted string (backslash escapes, and the template introducers before `{`) is a rune hclwrite.escapeQuotedStringLit tests for when it writes a string: an introducer the writer does not know is written bare, and a literal `%{` or `${` in a value comes back as the start of a template", 2)
	rd := c.P.Func(PkgYaotl+"/hclsyntax", "ParseStringLiteralToken")
	wr := c.P.Func(PkgYaotl+"/hclwrite", "escapeQuotedStringLit")
	if rd == nil || wr == nil {
		c.R.Anchor(rule, "hclsyntax.ParseStringLiteralToken / hclwrite.escapeQuotedStringLit")
		return
	}
	// reader: constants compared with <slice>[0]
	reader := map[int64]token.Pos{}
	for _, f := range HelperClosure(rd, 1) {
		for _, b := range f.Blocks {
			for _, in := range b.Instrs {
				bo, ok := in.(*ssa.BinOp)
				if !ok || bo.Op != token.EQL {
					continue
				}
				for _, pair := range [][2]ssa.Value{{bo.X, bo.Y}, {bo.Y, bo.X}} {
					k, isC := ConstInt(pair[1])
					if !isC {
						continue
					}
					ld, isLd := pair[0].(*ssa.UnOp)
					if !isLd || ld.Op != token.MUL {
						continue
					}
					if ia, isIA := ld.X.(*ssa.IndexAddr); isIA {
						if idx, isC0 := ConstInt(ia.Index); isC0 && idx == 0 {
							reader[k] = bo.Pos()
						}
					}
				}
			}
		}
	}
	// writer: constants the ranged rune is compared with
	writer := map[int64]bool{}
	for _, f := range HelperClosure(wr, 1) {
		for _, b := range f.Blocks {
			for _, in := range b.Instrs {
				bo, ok := in.(*ssa.BinOp)
				if !ok || bo.Op != token.EQL {
					continue
				}
				for _, pair := range [][2]ssa.Value{{bo.X, bo.Y}, {bo.Y, bo.X}} {
					k, isC := ConstInt(pair[1])
					if !isC {
						continue
					}
					if ex, isEx := pair[0].(*ssa.Extract); isEx {
						if _, isNext := ex.Tuple.(*ssa.Next); isNext {
							writer[k] = true
						}
					}
				}
			}
		}
	}
	if len(reader) < 2 || len(writer) < 2 {
		c.R.Anchor(rule, "the first-byte dispatch of ParseStringLiteralToken and the rune switch of escapeQuotedStringLit")
		return
	}
	var ks []int64
	for k := range reader {
		ks = append(ks, k)
	}
	sort.Slice(ks, func(i, j int) bool { return ks[i] < ks[j] })
	for _, k := range ks {
		construct := "writer tests the reader's special first byte " + strconv.QuoteRune(rune(k))
		if writer[k] {
			c.R.Ok(rule, FuncShort(wr), construct, c.pos(wr.Pos()), "escaped on the way out", true)
		} else {
			c.R.Bad(rule, FuncShort(wr), construct, c.pos(reader[k]), "the reader gives "+strconv.QuoteRune(rune(k))+" a special meaning at the start of a slice, but the writer never tests for it: a value containing it (followed by `{`, for the introducers) is written unescaped and reads back as something else")
		}
	}
}

// R20ListEnds — removing the first or last node of a token list moves the list's end markers.
func R20ListEnds(c *Ctx) {
	const rule = "R20-list-ends"
	c.R.Rule(rule, "in hclwrite's (*node).Detach every path on which the node is known to be the list's last (resp. first) member passes a store to nodes.last (resp. nodes.first) or a call of nodes.Clear before the function returns: a tail removal that leaves `last` pointing at the detached node makes the next append hang its node off the detached one, outside the chain that is serialised", 2)
	fn := c.P.Func(PkgYaotl+"/hclwrite", "node.Detach")
	if fn == nil {
		c.R.Anchor(rule, "hclwrite.(*node).Detach")
		return
	}
	n := 0
	for _, end := range []string{"first", "last"} {
		isEndLoad := func(v ssa.Value) bool { return IsFieldLoad("", end)(v) && !IsFieldLoad("", "list")(v) }
		fixes := func(b *ssa.BasicBlock) bool {
			for _, in := range b.Instrs {
				switch x := in.(type) {
				case *ssa.Store:
					if t, f, _, ok := FieldOf(x.Addr); ok && strings.HasSuffix(t, "hclwrite.nodes") && f == end {
						return true
					}
				case ssa.CallInstruction:
					if strings.HasSuffix(CalleeName(x), "hclwrite.nodes).Clear") {
						return true
					}
				}
			}
			return false
		}
		for _, hf := range HelperClosure(fn, 1) {
			for _, b := range hf.Blocks {
				iff, ok := b.Instrs[len(b.Instrs)-1].(*ssa.If)
				if !ok {
					continue
				}
				bo, ok := iff.Cond.(*ssa.BinOp)
				if !ok || bo.Op != token.EQL {
					continue
				}
				var other ssa.Value
				switch {
				case isEndLoad(bo.X):
					other = bo.Y
				case isEndLoad(bo.Y):
					other = bo.X
				default:
					continue
				}
				// the node being detached: Detach's receiver, directly or as what a helper is given for it
				if !IsParam(other, fn.Params[0]) && c.RootParam(other, fn, 0) != fn.Params[0] {
					continue
				}
				n++
				construct := "n is the list's " + end + " member → nodes." + end + " is moved"
				// from the true edge: can a return be reached without a fixing block?
				leak := false
				seen := map[*ssa.BasicBlock]bool{}
				var walk func(x *ssa.BasicBlock)
				walk = func(x *ssa.BasicBlock) {
					if seen[x] || leak {
						return
					}
					seen[x] = true
					if fixes(x) {
						return
					}
					if len(x.Succs) == 0 {
						leak = true
						return
					}
					for _, s := range x.Succs {
						walk(s)
					}
				}
				walk(b.Succs[0])
				if leak {
					c.R.Bad(rule, FuncShort(fn), construct, c.pos(bo.Pos()), "on a path where the detached node is the list's "+end+" member the function returns without updating nodes."+end+": the list keeps pointing at a node that is no longer linked")
				} else {
					c.R.Ok(rule, FuncShort(fn), construct, c.pos(bo.Pos()), "the end marker is moved (or the list cleared) on every such path", true)
				}
			}
		}
	}
	if n < 2 {
		c.R.Anchor(rule, "the first/last membership tests of (*node).Detach")
	}
}
