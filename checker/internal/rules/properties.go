package rules

import (
	"encoding/json"
	"fmt"
	"strings"

	"golang.org/x/tools/go/ssa"
)

// Run dispatches the rule set of one property. It returns false for an
// unknown / unclaimed property id.
func Run(c *Ctx, prop string) bool {
	f, ok := Properties[prop]
	if !ok {
		return false
	}
	f(c)
	return true
}

// Properties maps a property id to the function that decides its clauses.
var Properties = map[string]func(*Ctx){
	"C09": C09,
	"C07": C07,
	"C06": C06,
	"C05": C05,
	"C02": C02,
	"C08": C08,
	"C10": C10,
	"C03": C03,
	"C01": C01,
	"C11": C11,
	"C12": C12,
	"C16": C16,
	"C04": C04,
	"C15": C15,
	"C13": C13,
	"C14": C14,
	"C17": C17,
	"C18": C18,
	"C20": C20,
}

func C14(c *Ctx) {
	R17YaotlTags(c)
	R17Consumers(c)
	R17Gohcl(c)
	R17Severity(c)
	R17LabelArity(c)
	R18ErrDrop(c)
	R18DiagsReachResult(c)
	R17Extraneous(c)
	R19NumberExact(c)
}

func C13(c *Ctx) {
	R1IndexSentinel(c)
	R1DownScanFirst(c)
	R14Config(c)
	R15ConfigOrder(c)
	R15EnumFam(c)
	R15ErrDiscipline(c)
	R8UTF16Encoder(c)
	R15PackVerbatim(c)
	R15FirstAddress(c)
	R15WorkingHours(c)
	R15NoCarry(c)
	R15CountLoop(c)
	R8PackerWidth(c)
	R8ByteOrder(c)
	R16ShellSink(c)
}

func C15(c *Ctx) {
	R15Socks(c)
	// relayed bytes reach the agent in order only if a check-in hands out a prefix of the queue
	R4QueueShape(c)
	R15FieldLoops(c)
	R15TypedNil(c)
	R15AgentClose(c)
	R15ClosePropagation(c)
	R8CmpWidth(c, 1)
	R15FailureCloses(c)
	R15PrivateChunk(c)
	R4Lockset(c, sharedRelayTables, 10)
	isRelay := func(fn string) bool {
		for _, s := range []string{"TaskPrepare", "TaskDispatch", "PortFwd", "SocksClient", "SocksServer", "socks."} {
			if strings.Contains(fn, s) {
				return true
			}
		}
		return false
	}
	R5RangeMut(c, isRelay, 5)
	R3LockPair(c, func(fn, lock string) bool { return strings.HasSuffix(lock, "Mtx") }, 10)
}

func C04(c *Ctx) {
	R4QueueShape(c)
	R4PivotQueue(c)
	R4Lockset(c, sharedAgentQueue, 2)
	R6Issue(c)
	// a queued relay task keeps its bytes until it is serialised: the chunk must be private to the task
	R15PrivateChunk(c)
	R4ReplyIsBatch(c)
}

func C16(c *Ctx) {
	R1IndexSentinel(c)
	R1DownScanFirst(c)
	R12Registry(c)
	R12NameOfKind(c)
	R12ExistAllKinds(c)
	R12RemoveWrites(c)
	R12StartBeforeRegister(c)
	R12OwnerEndpoints(c)
	R12EndpointKey(c)
	R12RemoveIdempotent(c)
	R12PointerHandlers(c)
	R9NameIdentity(c)
	R5RangeMut(c, func(fn string) bool {
		return strings.Contains(fn, "service.") || strings.Contains(fn, "ListenerRemove") || strings.Contains(fn, "EndpointRemove") || strings.Contains(fn, "EventRemove")
	}, 2)
	// the teamserver keeps running: panic sources in the service connection handler
	var roots []*ssa.Function
	for _, n := range [][2]string{{PkgService, "Service.handleConnection"}} {
		if fn := c.P.Func(n[0], n[1]); fn != nil {
			roots = append(roots, fn)
		}
	}
	scope := c.ScopeFrom(roots)
	var svc []*ssa.Function
	for _, fn := range scope {
		if FuncPkgPathOf(fn) == PkgService {
			svc = append(svc, fn)
		}
	}
	R3LockPair(c, func(fn, lock string) bool { return strings.Contains(fn, "service.") }, 3)
	R1Nil(c, svc, "-service", 0)
	R1Bounds(c, svc, "-service", 0)
}

func C12(c *Ctx) {
	R11ResponseHeaders(c)
	R11DecoyStatus(c)
	R1IndexSentinel(c)
	R1DownScanFirst(c)
	R11HTTPProfile(c)
	R11RedirProvenance(c)
	R11NoCarry(c)
	R11ListSeparator(c)
	R11ConfigVerbatim(c)
}

func C11(c *Ctx) {
	R1IndexSentinel(c)
	R1DownScanFirst(c)
	R13EventLog(c)
	// the retained Listener.Add event is pruned only if ListenerRemove gets past the database delete
	R12RemoveIdempotent(c)
	R13Deadline(c)
	R13Regenerated(c)
	R3LockPair(c, func(fn, lock string) bool {
		return strings.Contains(lock, "Mutex") && (strings.Contains(fn, "server.") || strings.Contains(fn, "service."))
	}, 3)
	// an unauthenticated connection must not be able to take an operator session out of the fan-out
	R10AuthGate(c)
}

func C01(c *Ctx) {
	R1IndexSentinel(c)
	R1DownScanFirst(c)
	scope := c.ScopeFrom(c.AgentFacingRoots())
	R1Bounds(c, scope, "", 100)
	R1PivotJobShape(c)
	R1Asserts(c, scope, "", 30)
	R1Nil(c, scope, "", 10)
	R1ExistPairs(c)
	R1AgentsAppendOnly(c)
	R1PivotAddJobPre(c)
	// the parent-chain walks (R1-loops) terminate because the pivot graph has no cycle
	R9CycleGuard(c)
	R1Explicit(c, scope, "")
	R1Loops(c, scope, "")
	R1RejectEffects(c)
	R2GuardRead(c, "C01")
	inScope := map[string]bool{}
	for _, fn := range scope {
		inScope[FuncShort(fn)] = true
	}
	sel := func(fn string) bool {
		if i := strings.Index(fn, "$"); i >= 0 {
			fn = fn[:i]
		}
		return inScope[fn]
	}
	R5RangeMut(c, sel, 4)
	R3LockPair(c, func(fn, lock string) bool { return sel(fn) }, 6)
}

func C03(c *Ctx) {
	R2DecoderCovers(c)
	R2KeyPresent(c)
	R14TableReach(c)
	R2DecryptOnce(c)
	R2Model(c)
	R2GuardRead(c, "C03")
	R2Identity(c)
	R2NameIDFormat(c)
	R14Callbacks(c)
	R8IDWidth(c)
}

func C10(c *Ctx) {
	R9SQLSchema(c)
	R9PersistAfterMark(c)
	R9DBAnswers(c)
	R9DBShape(c)
	R12Registry(c)
	R9ScanWidth(c)
	R9NameIdentity(c)
	R9AckOrder(c)
	R8IDWidth(c)
}

func C02(c *Ctx) {
	R8PackerBuffer(c)
	R8Exhaustive(c)
	R8Sibling(c)
	R8ByteOrder(c)
	R8PackerWidth(c)
	R8Encrypt(c)
	R8RequestID(c)
	R8Terminators(c)
	R8Pivot(c)
	R14Commands(c)
	R4ReplyIsBatch(c)
	R8UTF16Encoder(c)
	R8SizeField(c)
	R8UnwrittenElement(c)
	R15WorkingHours(c)
}

func C08(c *Ctx) {
	R9UnlinkTarget(c)
	R8PackerBuffer(c)
	R2DecryptOnce(c)
	R8IDWidth(c)
	R4PivotQueue(c)
	R9Pivot(c)
	R6GateDominance(c)
	R6AcceptList(c)
	R8Pivot(c)
	// the relayed callback is gated by the child's own outstanding tasks: they must be recorded for pivot children too
	R6Issue(c)
}

func C05(c *Ctx) {
	R6GateDominance(c)
	R6AcceptList(c)
	R6Issue(c)
	R6Completion(c)
	R6DeferredCapture(c)
	R6HandlerEffects(c)
}

// Gen prints a derived table for review.
func Gen(c *Ctx, what string) int {
	switch what {
	case "census":
		Census(c, c.ScopeFrom(c.AgentFacingRoots()))
		return 0
	case "completion":
		arms, missing := c.ClassifyCompletion()
		if missing != "" {
			fmt.Println("missing anchor:", missing)
			return 2
		}
		b, _ := json.MarshalIndent(arms, "", " ")
		fmt.Println(string(b))
		return 0
	}
	return 2
}

func C06(c *Ctx) {
	R10AuthGate(c)
	R10PreAuthAssert(c)
	// no pre-authentication message can crash the teamserver: panic sources in the code that
	// runs before (and while) a connection authenticates
	var roots []*ssa.Function
	for _, n := range [][2]string{{PkgServer, "Teamserver.ClientAuthenticate"}, {PkgPackager, "Packager.CreatePackage"}, {PkgProfile, "Profile.ListOfUsernames"},
		{PkgServer, "Teamserver.SendEvent"}, {PkgServer, "Teamserver.RemoveClient"}, {PkgService, "Service.authenticate"}} {
		if fn := c.P.Func(n[0], n[1]); fn != nil {
			roots = append(roots, fn)
		} else {
			c.R.Anchor("R1-preauth-scope", n[0]+"."+n[1])
		}
	}
	scope := c.ScopeFrom(roots)
	for _, n := range [][2]string{{PkgServer, "Teamserver.handleRequest"}, {PkgService, "Service.handleConnection"}} {
		if fn := c.P.Func(n[0], n[1]); fn != nil {
			scope = append(scope, fn)
			scope = append(scope, fn.AnonFuncs...)
		}
	}
	R1Bounds(c, scope, "-preauth", 0)
	R1Nil(c, scope, "-preauth", 0)
	R1Explicit(c, scope, "-preauth")
}

func C07(c *Ctx) {
	R7PathContain(c)
	R7FileID(c)
	R7FileIDDecode(c)
	R7CloseReasons(c)
	R7LootHandle(c)
}

func C09(c *Ctx) {
	R8IDWidth(c)
	R1IndexSentinel(c)
	R1DownScanFirst(c)
	R9DBAnswers(c)
	R9DBShape(c)
	R9Pivot(c)
	R9CycleGuard(c)
	R9MoveUnlinks(c)
	R9ParentAfterUnlink(c)
	R9DeadDetaches(c)
	R9UnlinkTarget(c)
	R5RangeMut(c, func(fn string) bool {
		return strings.Contains(fn, "UnlinkFromAll") || strings.Contains(fn, "LinkRemove") || strings.Contains(fn, "TaskDispatch") || strings.Contains(fn, "Died")
	}, 1)
	R1AgentsAppendOnly(c)
}

func C18(c *Ctx) {
	R19OpTable(c)
	R19Climb(c)
	R19Eval(c)
	R19NumberExact(c)
	R19InnermostScope(c)
	R19StripClass(c)
}

func C20(c *Ctx) {
	R20FormatEffects(c)
	R20Serialise(c)
	R20TokenOwnership(c)
	R20ItemPairing(c)
	R20NumberExact(c)
	R20PassOrder(c)
	R20EscapeSiblings(c)
	R20ListEnds(c)
}

func C17(c *Ctx) {
	R21Progress(c)
	R21Balance(c)
	var js []*ssa.Function
	for _, fn := range c.P.ModuleFuncs(func(p string) bool { return p == PkgJSON }) {
		if fn.Blocks != nil && fn.Pos().IsValid() && strings.HasSuffix(c.P.Fset.Position(fn.Pos()).Filename, "/json/scanner.go") {
			js = append(js, fn)
		}
	}
	R1Bounds(c, js, "-json", 8)
	// the template parser builds its nodes from slices it has just filled: first/last element accesses
	var tp []*ssa.Function
	for _, fn := range c.P.ModuleFuncs(func(p string) bool { return p == PkgYaotl+"/hclsyntax" }) {
		if fn.Blocks != nil && fn.Pos().IsValid() && strings.HasSuffix(c.P.Fset.Position(fn.Pos()).Filename, "/hclsyntax/parser_template.go") {
			tp = append(tp, fn)
		}
	}
	R1Bounds(c, tp, "-template", 8)
	var more []*ssa.Function
	for _, fn := range c.P.ModuleFuncs(func(p string) bool { return p == PkgYaotl+"/hclsyntax" || p == PkgJSON }) {
		if fn.Blocks == nil || !fn.Pos().IsValid() {
			continue
		}
		f := c.P.Fset.Position(fn.Pos()).Filename
		if strings.HasSuffix(f, "/hclsyntax/parser.go") || strings.HasSuffix(f, "/json/didyoumean.go") || strings.HasSuffix(f, "/json/parser.go") || strings.HasSuffix(f, "/hclsyntax/didyoumean.go") {
			more = append(more, fn)
		}
	}
	R1Bounds(c, more, "-parser", 8)
	R21TemplateEnd(c)
	R21ScanOrigin(c)
	R21RangeAssigned(c)
	R21BodyPlaceholder(c)
}
