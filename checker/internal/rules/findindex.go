package rules

import (
	"go/token"

	"golang.org/x/tools/go/ssa"
)

// findIndex summarises a helper of the shape
//
//	for i := range p.F { if p.F[i].G == q { return i } }; return NOTFOUND
//
// (p, q parameters; F a slice field; G a field of its elements; NOTFOUND a constant).
type findIndex struct {
	fn        *ssa.Function
	sliceArg  int    // parameter index of p
	sliceType string // "pkg.Type" of p's struct
	slice     string // field F
	elemType  string // "pkg.Type" of the elements
	elemField string // field G
	keyArg    int    // parameter index of q
	notFound  int64
}

// FindIndexOf returns the summary of fn if it has that shape.
func (c *Ctx) FindIndexOf(fn *ssa.Function) *findIndex {
	if c.findIdx == nil {
		c.findIdx = map[*ssa.Function]*findIndex{}
	}
	if fi, ok := c.findIdx[fn]; ok {
		return fi
	}
	c.findIdx[fn] = nil
	if fn == nil || fn.Blocks == nil || fn.Signature.Results().Len() != 1 || !isIntType(fn.Signature.Results().At(0).Type()) {
		return nil
	}
	res := &findIndex{fn: fn, sliceArg: -1, keyArg: -1}
	haveNF, haveIdx := false, false
	paramIdx := func(v ssa.Value) int {
		p := ParamOf(v)
		if p == nil {
			return -1
		}
		for i, q := range fn.Params {
			if q == p {
				return i
			}
		}
		return -1
	}
	for _, b := range fn.Blocks {
		if len(b.Instrs) == 0 {
			continue
		}
		ret, ok := b.Instrs[len(b.Instrs)-1].(*ssa.Return)
		if !ok {
			continue
		}
		v := ret.Results[0]
		if k, ok := ConstInt(v); ok {
			if haveNF && k != res.notFound {
				return nil
			}
			res.notFound, haveNF = k, true
			continue
		}
		// the returned index: a fact `p.F[v].G == q` must hold here
		found := false
		for _, f := range FactsAt(b) {
			bo, ok := f.Cond.(*ssa.BinOp)
			if !ok || !((bo.Op == token.EQL && f.Truth) || (bo.Op == token.NEQ && !f.Truth)) {
				continue
			}
			for _, pr := range [][2]ssa.Value{{bo.X, bo.Y}, {bo.Y, bo.X}} {
				q := paramIdx(pr[1])
				if q < 0 {
					continue
				}
				ld, ok := pr[0].(*ssa.UnOp)
				if !ok || ld.Op != token.MUL {
					continue
				}
				et, ef, ebase, ok := FieldOf(ld.X)
				if !ok {
					continue
				}
				if pl, isLoad := ebase.(*ssa.UnOp); isLoad && pl.Op == token.MUL {
					ebase = pl.X // a slice of pointers: the element is loaded first
				}
				ia, ok := ebase.(*ssa.IndexAddr)
				if !ok || ia.Index != v {
					continue
				}
				sl, ok := ia.X.(*ssa.UnOp)
				if !ok || sl.Op != token.MUL {
					continue
				}
				st, sf, sbase, ok := FieldOf(sl.X)
				if !ok {
					continue
				}
				// the slice may sit in a nested struct of the parameter (p.A.F): the path is kept relative to p
				for {
					if inner, isFA := sbase.(*ssa.FieldAddr); isFA {
						_, f2, b2, ok2 := FieldOf(inner)
						if !ok2 {
							break
						}
						sf = f2 + "." + sf
						sbase = b2
						continue
					}
					break
				}
				p := paramIdx(sbase)
				if p < 0 {
					continue
				}
				if haveIdx && (res.sliceArg != p || res.slice != sf || res.elemField != ef || res.keyArg != q) {
					return nil
				}
				res.sliceArg, res.sliceType, res.slice, res.elemType, res.elemField, res.keyArg = p, st, sf, et, ef, q
				haveIdx, found = true, true
			}
		}
		if !found {
			return nil
		}
	}
	if !haveNF || !haveIdx || res.notFound >= 0 {
		return nil
	}
	c.findIdx[fn] = res
	return res
}

// foundIndexAt: v is the result of a find-index helper and the point `at` is reached only when it is not NOTFOUND.
// Returns the summary and the call.
func (c *Ctx) foundIndexAt(v ssa.Value, at *ssa.BasicBlock) (*findIndex, *ssa.Call) {
	call, ok := v.(*ssa.Call)
	if !ok {
		return nil, nil
	}
	fi := c.FindIndexOf(call.Call.StaticCallee())
	if fi == nil {
		return nil, nil
	}
	for _, f := range FactsAt(at) {
		bo, ok := f.Cond.(*ssa.BinOp)
		if !ok {
			continue
		}
		for _, pr := range [][2]ssa.Value{{bo.X, bo.Y}, {bo.Y, bo.X}} {
			if pr[0] != ssa.Value(call) {
				continue
			}
			k, isC := ConstInt(pr[1])
			if !isC {
				continue
			}
			left := pr[0] == bo.X
			holds := func(x int64) bool {
				a, b := x, k
				if !left {
					a, b = k, x
				}
				var r bool
				switch bo.Op {
				case token.EQL:
					r = a == b
				case token.NEQ:
					r = a != b
				case token.LSS:
					r = a < b
				case token.LEQ:
					r = a <= b
				case token.GTR:
					r = a > b
				case token.GEQ:
					r = a >= b
				default:
					return true
				}
				return r == f.Truth
			}
			// the fact excludes NOTFOUND and admits every position
			if !holds(fi.notFound) && holds(0) && holds(1) && holds(1<<40) {
				return fi, call
			}
		}
	}
	return nil, nil
}

// R1IndexSentinel — the found-test on the result of a find-index helper does not lose element 0.
func R1IndexSentinel(c *Ctx) {
	const rule = "R1-index-sentinel"
	c.R.Rule(rule, "where the result idx of a find-index helper (returns a position of its slice, or a negative NOTFOUND) is used as an index of that slice under a comparison of idx with a constant, the comparison holds for every valid position including 0: a found-test such as idx > 0 silently skips the first element", 0)
	n := 0
	for _, fn := range c.P.ModuleFuncs(NonYaotl) {
		for _, b := range fn.Blocks {
			for _, in := range b.Instrs {
				call, ok := in.(*ssa.Call)
				if !ok {
					continue
				}
				fi := c.FindIndexOf(call.Call.StaticCallee())
				if fi == nil {
					continue
				}
				// uses of the result as an index
				for _, r := range *call.Referrers() {
					var at *ssa.BasicBlock
					switch u := r.(type) {
					case *ssa.IndexAddr:
						if u.Index == ssa.Value(call) {
							at = u.Block()
						}
					case *ssa.Index:
						if u.Index == ssa.Value(call) {
							at = u.Block()
						}
					}
					if at == nil {
						continue
					}
					n++
					construct := "found-test before [" + shortCallee(CalleeName(call)) + "()]"
					bad := ""
					for _, f := range FactsAt(at) {
						bo, ok := f.Cond.(*ssa.BinOp)
						if !ok {
							continue
						}
						var k int64
						var isC, left bool
						if bo.X == ssa.Value(call) {
							k, isC = ConstInt(bo.Y)
							left = true
						} else if bo.Y == ssa.Value(call) {
							k, isC = ConstInt(bo.X)
						}
						if !isC {
							continue
						}
						holds := func(x int64) bool {
							a, b := x, k
							if !left {
								a, b = k, x
							}
							var r bool
							switch bo.Op {
							case token.EQL:
								r = a == b
							case token.NEQ:
								r = a != b
							case token.LSS:
								r = a < b
							case token.LEQ:
								r = a <= b
							case token.GTR:
								r = a > b
							case token.GEQ:
								r = a >= b
							default:
								return true
							}
							return r == f.Truth
						}
						// the fact excludes NOTFOUND (a found-test) and holds for large positions, but not for 0
						if !holds(fi.notFound) && holds(1<<20) && !holds(0) {
							bad = c.pos(bo.Pos())
						}
					}
					if bad == "" {
						c.R.Ok(rule, FuncShort(fn), construct, c.pos(r.Pos()), "the guard admits every valid position", true)
					} else {
						c.R.Bad(rule, FuncShort(fn), construct, bad, "the found-test excludes position 0: the first element of the list is treated as not found")
					}
				}
			}
		}
	}
	c.R.Extra["R1-index-sentinel.sites"] = n
}

// R1DownScanFirst — a downward scan of a slice reaches its first element.
func R1DownScanFirst(c *Ctx) {
	const rule = "R1-downscan-first"
	c.R.Rule(rule, "a loop that walks a slice from len-1 downwards and only ever looks at x[i] continues while i >= 0: a loop condition i > 0 (with no use of x[i-1] in the body) never examines element 0, so a search or clean-up silently misses the oldest entry", 0)
	n := 0
	for _, fn := range c.P.ModuleFuncs(NonYaotl) {
		for _, l := range naturalLoops(fn) {
			h := l.header
			iff, ok := h.Instrs[len(h.Instrs)-1].(*ssa.If)
			if !ok {
				continue
			}
			cmp, ok := iff.Cond.(*ssa.BinOp)
			if !ok {
				continue
			}
			// i > 0  or  0 < i
			var iv ssa.Value
			switch {
			case cmp.Op == token.GTR:
				if k, isC := ConstInt(cmp.Y); isC && k == 0 {
					iv = cmp.X
				}
			case cmp.Op == token.LSS:
				if k, isC := ConstInt(cmp.X); isC && k == 0 {
					iv = cmp.Y
				}
			}
			ph, ok := iv.(*ssa.Phi)
			if !ok || ph.Block() != h {
				continue
			}
			// init len(x)-1, step -1
			var xs ssa.Value
			down := false
			for i, e := range ph.Edges {
				if l.body[h.Preds[i]] {
					if bo, ok := e.(*ssa.BinOp); ok && bo.Op == token.SUB && bo.X == ssa.Value(ph) {
						if k, isC := ConstInt(bo.Y); isC && k == 1 {
							down = true
						}
					}
					continue
				}
				if bo, ok := e.(*ssa.BinOp); ok && bo.Op == token.SUB {
					if k, isC := ConstInt(bo.Y); isC && k == 1 {
						if arg, isLen := isLenCall(bo.X); isLen {
							xs = arg
						}
					}
				}
			}
			if !down || xs == nil {
				continue
			}
			n++
			// uses of the cursor as an index: x[i] and x[i-1]
			usesI, usesPrev := false, false
			for b := range l.body {
				for _, in := range b.Instrs {
					var idx ssa.Value
					switch u := in.(type) {
					case *ssa.IndexAddr:
						idx = u.Index
					case *ssa.Index:
						idx = u.Index
					default:
						continue
					}
					if idx == ssa.Value(ph) {
						usesI = true
					}
					if bo, ok := idx.(*ssa.BinOp); ok && bo.Op == token.SUB && bo.X == ssa.Value(ph) {
						usesPrev = true
					}
				}
			}
			construct := "downward scan from len-1 while i > 0"
			if usesI && !usesPrev {
				c.R.Bad(rule, FuncShort(fn), construct, c.pos(cmp.Pos()), "the scan stops before index 0 and never looks at x[i-1]: the first element is never examined")
			} else {
				c.R.Ok(rule, FuncShort(fn), construct, c.pos(cmp.Pos()), "pairs x[i] with x[i-1], or does not index by the cursor", true)
			}
		}
	}
	c.R.Extra["R1-downscan-first.loops"] = n
}
