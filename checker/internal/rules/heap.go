package rules

import (
	"fmt"
	"go/token"
	"go/types"
	"os"
	"strings"

	"golang.org/x/tools/go/ssa"

	"hv/internal/core"
)

// heapLoad is a read of a slice/string stored in a struct field (or the
// result of a getter that returns its length) at a program point.
type heapLoad struct {
	in    ssa.Instruction
	val   ssa.Value // the loaded slice value; nil for Length() calls
	lenOf ssa.Value // for Length(): the call value that equals len(path)
	path  string    // identity of the memory location
	field string    // "pkg.Type.field" used for mod checks
}

// pathKey renders the address a value is loaded from: fields by name, other
// components by identity. "" when v is not a load of a field chain.
func pathKey(addr ssa.Value) (string, string) {
	switch x := addr.(type) {
	case *ssa.FieldAddr:
		t, f, base, ok := FieldOf(x)
		if !ok {
			return "", ""
		}
		return baseKey(base) + "." + f, t + "." + f
	}
	return "", ""
}

func baseKey(v ssa.Value) string {
	switch x := v.(type) {
	case *ssa.FieldAddr:
		k, _ := pathKey(x)
		if k != "" {
			return k
		}
	case *ssa.UnOp:
		if x.Op == token.MUL {
			// pointer loaded from another field: the path continues through that field
			if k, _ := pathKey(x.X); k != "" {
				return "*(" + k + ")"
			}
			if ia, ok := x.X.(*ssa.IndexAddr); ok {
				return "*(" + baseKey(ia.X) + fmt.Sprintf("[%p]", ia.Index) + ")"
			}
			if p := ParamOf(x); p != nil {
				return fmt.Sprintf("%p", p)
			}
			switch cell := x.X.(type) {
			case *ssa.FreeVar:
				// a captured variable that is never stored to inside the closure
				stored := false
				for _, r := range *cell.Referrers() {
					if st, ok := r.(*ssa.Store); ok && st.Addr == ssa.Value(cell) {
						stored = true
					}
				}
				if !stored {
					return fmt.Sprintf("*%p", cell)
				}
			case *ssa.Global:
				return "*" + cell.Name()
			case *ssa.Alloc:
				n := 0
				for _, r := range *cell.Referrers() {
					if st, ok := r.(*ssa.Store); ok && st.Addr == ssa.Value(cell) {
						n++
					}
				}
				if n == 1 {
					return fmt.Sprintf("*%p", cell)
				}
			}
			return fmt.Sprintf("(*%p)", x)
		}
	case *ssa.IndexAddr:
		return baseKey(x.X) + fmt.Sprintf("[%p]", x.Index)
	case *ssa.TypeAssert:
		// asserting the same interface value to the same type yields the same pointer
		return "assert(" + baseKey(x.X) + ")"
	}
	return fmt.Sprintf("%p", v)
}

// ModSummary computes, for every module function, the set of struct fields
// ("pkg.Type.field") it may store to, transitively over the CHA call graph.
func (c *Ctx) ModSummary() map[*ssa.Function]map[string]bool {
	if c.mods != nil {
		return c.mods
	}
	mods := map[*ssa.Function]map[string]bool{}
	var fns []*ssa.Function
	for fn := range c.P.AllFuncs() {
		if fn.Blocks == nil || !c.P.InModule(core.FuncPkgPath(fn)) || IsYaotl(core.FuncPkgPath(fn)) {
			continue
		}
		fns = append(fns, fn)
		m := map[string]bool{}
		for _, b := range fn.Blocks {
			for _, in := range b.Instrs {
				if st, ok := in.(*ssa.Store); ok {
					if t, f, _, ok := FieldOf(st.Addr); ok {
						m[t+"."+f] = true
					}
				}
			}
		}
		mods[fn] = m
	}
	cg := c.P.CHA()
	for changed := true; changed; {
		changed = false
		for _, fn := range fns {
			n := cg.Nodes[fn]
			if n == nil {
				continue
			}
			for _, e := range n.Out {
				cm, ok := mods[e.Callee.Func]
				if !ok {
					continue
				}
				for k := range cm {
					if !mods[fn][k] {
						mods[fn][k] = true
						changed = true
					}
				}
			}
			for _, an := range fn.AnonFuncs {
				for k := range mods[an] {
					if !mods[fn][k] {
						mods[fn][k] = true
						changed = true
					}
				}
			}
		}
	}
	c.mods = mods
	return mods
}

// mayModify reports whether instruction in may store to field.
func (c *Ctx) mayModify(in ssa.Instruction, field string) bool {
	switch x := in.(type) {
	case *ssa.Store:
		if t, f, _, ok := FieldOf(x.Addr); ok && t+"."+f == field {
			return true
		}
	case ssa.CallInstruction:
		mods := c.ModSummary()
		cc := x.Common()
		if fn := cc.StaticCallee(); fn != nil {
			if m, ok := mods[fn]; ok {
				if !m[field] {
					return false
				}
				// constant boolean arguments: a store that only happens under `if flag` does not happen for flag=false
				known := map[int]bool{}
				for i, a := range cc.Args {
					if k, ok := a.(*ssa.Const); ok && (isBoolConst(k, true) || isBoolConst(k, false)) {
						known[i] = isBoolConst(k, true)
					}
				}
				if len(known) > 0 {
					return c.modsUnder(fn, field, known, 0)
				}
				return true
			}
			return false // non-module callee: cannot store to module struct fields directly
		}
		// dynamic: any CHA callee
		if n := c.P.CHA().Nodes[in.Parent()]; n != nil {
			for _, e := range n.Out {
				if e.Site == x {
					if m, ok := mods[e.Callee.Func]; ok && m[field] {
						return true
					}
				}
			}
		}
		if cc.IsInvoke() || cc.StaticCallee() == nil {
			// closure call with unknown target: be conservative for module closures
			if _, isBuiltin := cc.Value.(*ssa.Builtin); isBuiltin {
				return false
			}
		}
	}
	return false
}

// stableBetween reports whether field cannot be modified on any path from
// instruction a to instruction b (a must dominate b).
func (c *Ctx) stableBetween(a, b ssa.Instruction, field string) bool {
	if !InstrDominates(a, b) && a != b {
		return false
	}
	ab, bb := a.Block(), b.Block()
	// blocks on some path from ab to bb
	fwd := map[*ssa.BasicBlock]bool{}
	var st []*ssa.BasicBlock
	st = append(st, ab.Succs...)
	for len(st) > 0 {
		x := st[len(st)-1]
		st = st[:len(st)-1]
		if fwd[x] {
			continue
		}
		fwd[x] = true
		if x == ab && ab != bb {
			continue // re-executing a rebinds it: only paths from the last execution of a matter
		}
		st = append(st, x.Succs...)
	}
	bwd := map[*ssa.BasicBlock]bool{}
	st = append(st[:0], bb.Preds...)
	for len(st) > 0 {
		x := st[len(st)-1]
		st = st[:len(st)-1]
		if bwd[x] {
			continue
		}
		bwd[x] = true
		if x == ab && ab != bb {
			continue // a path that passes through a's block again starts from a later execution of a
		}
		st = append(st, x.Preds...)
	}
	ia, ib := InstrBlockIndex(a), InstrBlockIndex(b)
	check := func(blk *ssa.BasicBlock, from, to int) bool {
		for i := from; i < to && i < len(blk.Instrs); i++ {
			if c.mayModify(blk.Instrs[i], field) {
				if os.Getenv("HV_DEBUG") != "" {
					fmt.Fprintf(os.Stderr, "stableBetween(%s): %s modified by %s at %s\n", a.Parent().Name(), field, blk.Instrs[i], c.pos(blk.Instrs[i].Pos()))
				}
				return false
			}
		}
		return true
	}
	if ab == bb && !fwd[ab] {
		return check(ab, ia+1, ib)
	}
	// a's block after a
	if !check(ab, ia+1, len(ab.Instrs)) {
		return false
	}
	// b's block before b
	if !check(bb, 0, ib) {
		return false
	}
	for blk := range fwd {
		if !bwd[blk] || blk == ab || blk == bb {
			continue
		}
		if !check(blk, 0, len(blk.Instrs)) {
			return false
		}
	}

	if fwd[bb] && bwd[bb] {
		if !check(bb, ib+1, len(bb.Instrs)) {
			return false
		}
		if ab == bb && !check(ab, 0, ia) {
			return false
		}
	}
	return true
}

// heapLoadsOf lists the loads of slice/string-typed fields and the getter calls in fn.
func heapLoadsOf(fn *ssa.Function) []heapLoad {
	var out []heapLoad
	for _, b := range fn.Blocks {
		for _, in := range b.Instrs {
			switch x := in.(type) {
			case *ssa.UnOp:
				if x.Op != token.MUL {
					continue
				}
				switch x.Type().Underlying().(type) {
				case *types.Slice, *types.Basic:
				default:
					continue
				}
				if bt, ok := x.Type().Underlying().(*types.Basic); ok && bt.Info()&types.IsString == 0 {
					continue
				}
				if k, f := pathKey(x.X); k != "" {
					out = append(out, heapLoad{in: x, val: x, path: k, field: f})
				}
			case *ssa.Call:
				if CalleeName(x) == "(*Havoc/pkg/common/parser.Parser).Length" {
					recv := x.Call.Args[0]
					out = append(out, heapLoad{in: x, lenOf: x, path: baseKey(recv) + ".buffer", field: PkgParser + ".Parser.buffer"})
				}
			}
		}
	}
	return out
}

var _ = strings.Join

// modsUnder: may fn store to field when the boolean parameters in known have those constant values? Blocks that are
// only reached under the opposite value of such a parameter are skipped; calls are followed (static callees, three
// levels) with the constants passed on, anything else falls back to the context-insensitive summary.
func (c *Ctx) modsUnder(fn *ssa.Function, field string, known map[int]bool, depth int) bool {
	mods := c.ModSummary()
	if !mods[fn][field] {
		return false
	}
	if depth > 3 || fn.Blocks == nil {
		return true
	}
	paramIdx := func(v ssa.Value) int {
		p := ParamOf(v)
		if p == nil {
			return -1
		}
		for i, q := range fn.Params {
			if q == p {
				return i
			}
		}
		return -1
	}
	infeasible := func(b *ssa.BasicBlock) bool {
		for _, f := range FactsAt(b) {
			cond, truth := StripNot(f.Cond, f.Truth)
			if i := paramIdx(cond); i >= 0 {
				if v, ok := known[i]; ok && v != truth {
					return true
				}
			}
		}
		return false
	}
	for _, b := range fn.Blocks {
		if infeasible(b) {
			continue
		}
		for _, in := range b.Instrs {
			switch x := in.(type) {
			case *ssa.Store:
				if t, f, _, ok := FieldOf(x.Addr); ok && t+"."+f == field {
					return true
				}
			case ssa.CallInstruction:
				cc := x.Common()
				if g := cc.StaticCallee(); g != nil {
					if _, inMod := mods[g]; !inMod {
						continue
					}
					k2 := map[int]bool{}
					for i, a := range cc.Args {
						if k, ok := a.(*ssa.Const); ok && (isBoolConst(k, true) || isBoolConst(k, false)) {
							k2[i] = isBoolConst(k, true)
						} else if pi := paramIdx(a); pi >= 0 {
							if v, ok := known[pi]; ok {
								k2[i] = v
							}
						}
					}
					if c.modsUnder(g, field, k2, depth+1) {
						return true
					}
					continue
				}
				if c.mayModify(in, field) {
					return true
				}
			}
		}
	}
	for _, an := range fn.AnonFuncs {
		if mods[an][field] {
			return true
		}
	}
	return false
}
