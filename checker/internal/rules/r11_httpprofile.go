package rules

import (
	"go/ast"
	"go/constant"
	"go/token"
	"go/types"
	"strconv"
	"strings"

	"golang.org/x/tools/go/packages"
	"golang.org/x/tools/go/ssa"
)

// R11 — the HTTP listener's admission checks.
func R11HTTPProfile(c *Ctx) {
	const rule = "R11-httpprofile"
	c.R.Rule(rule, "in (*HTTP).request the call of parseAgentRequest is reachable only through the passing outcome of the header check (every configured header equal), the URI check (request URI among the configured ones, when any) and the User-Agent check (equal, when configured); each failing outcome reaches fake404 and a return and cannot reach the parser; no teamserver call precedes the checks; configured `Name: value` strings are cut once (SplitN n=2 / Cut); the peer address comes from X-Forwarded-For only under BehindRedir, otherwise from net.SplitHostPort(RemoteAddr); Start routes POST to request and everything else to the decoy", 8)
	fn := c.P.Func(PkgHandlers, "HTTP.request")
	if fn == nil {
		c.R.Anchor(rule, "handlers.(*HTTP).request")
		return
	}
	fname := FuncShort(fn)
	var par *ssa.Call
	EachCall(fn, func(call ssa.CallInstruction) {
		if CalleeName(call) == "Havoc/pkg/handlers.parseAgentRequest" {
			par, _ = call.(*ssa.Call)
		}
	})
	if par == nil {
		c.R.Anchor(rule, "call of parseAgentRequest in request")
		return
	}
	pb := par.Block()
	reaches := func(b *ssa.BasicBlock) bool { return BlockReaches(b, pb, nil) }
	// a "reject edge": successor from which the parser is unreachable and which calls fake404
	isReject := func(b *ssa.BasicBlock) bool {
		if reaches(b) {
			return false
		}
		seen := map[*ssa.BasicBlock]bool{}
		var has func(x *ssa.BasicBlock) bool
		has = func(x *ssa.BasicBlock) bool {
			if seen[x] {
				return false
			}
			seen[x] = true
			for _, in := range x.Instrs {
				if call, ok := in.(ssa.CallInstruction); ok && CalleeName(call) == "(*Havoc/pkg/handlers.HTTP).fake404" {
					return true
				}
			}
			for _, s := range x.Succs {
				if has(s) {
					return true
				}
			}
			return false
		}
		return has(b)
	}
	isCfg := func(v ssa.Value, field string) bool {
		return DerivesFrom(v, IsFieldLoad(PkgHandlers+".HTTPConfig", field))
	}
	isCallTo := func(v ssa.Value, suffix string) bool {
		return DerivesFrom(v, func(w ssa.Value) bool {
			cl, ok := w.(*ssa.Call)
			return ok && strings.HasSuffix(CalleeName(cl), suffix)
		})
	}
	type found struct{ ua, uri, hdr bool }
	var f found
	type decisive struct {
		iff     *ssa.If
		passIdx int
		field   string
		name    string
	}
	var decs []decisive
	for _, b := range fn.Blocks {
		if len(b.Instrs) == 0 || b == pb || pb.Dominates(b) || !reaches(b) {
			continue
		}
		iff, ok := b.Instrs[len(b.Instrs)-1].(*ssa.If)
		if !ok {
			continue
		}
		cond, truth := StripNot(iff.Cond, true)
		rejT, rejF := isReject(b.Succs[0]), isReject(b.Succs[1])
		if rejT == rejF {
			continue
		}
		// value of cond (after stripping) on the reject edge
		rejVal := truth
		if rejF {
			rejVal = !truth
		}
		// the checks may be delegated to helpers of this package: a mismatch finder over the configured headers,
		// a find-index (or slices.Contains) over the configured URIs
		if field, rejectOn, ok := c.helperAdmission(cond, isCfg); ok {
			pi := 0
			if rejT {
				pi = 1
			}
			name := map[string]string{"Headers": "request-header check", "Uris": "URI check"}[field]
			if rejectOn == rejVal {
				if field == "Headers" {
					f.hdr = true
				} else {
					f.uri = true
				}
				decs = append(decs, decisive{iff, pi, field, name})
				c.R.Ok(rule, fname, name, c.pos(iff.Pos()), "delegated to a helper whose answer is decided by the comparison of the request with the configured values; the failing answer reaches only the decoy", true)
			} else {
				if field == "Headers" {
					f.hdr = true
				} else {
					f.uri = true
				}
				c.R.Bad(rule, fname, name, c.pos(iff.Pos()), "the helper's answer is used with the wrong polarity: matching requests are rejected and the others admitted")
			}
			continue
		}
		switch x := cond.(type) {
		case *ssa.BinOp:
			// User-Agent: h.Config.UserAgent != ctx.Request.UserAgent()  → reject
			if (x.Op == token.NEQ || x.Op == token.EQL) && ((isCfg(x.X, "UserAgent") && isCallTo(x.Y, ".UserAgent")) || (isCfg(x.Y, "UserAgent") && isCallTo(x.X, ".UserAgent"))) {
				rejectsWhenDifferent := (x.Op == token.NEQ) == rejVal
				// only under "configured"
				guarded := false
				for _, fct := range FactsAt(b) {
					if bo, ok := fct.Cond.(*ssa.BinOp); ok && isCfg(bo.X, "UserAgent") {
						if s, isC := ConstString(bo.Y); isC && s == "" && ((bo.Op == token.NEQ) == fct.Truth) {
							guarded = true
						}
					}
				}
				if rejectsWhenDifferent && guarded {
					f.ua = true
					pi := 0
					if rejT {
						pi = 1
					}
					decs = append(decs, decisive{iff, pi, "UserAgent", "User-Agent check"})
					c.R.Ok(rule, fname, "User-Agent check", c.pos(iff.Pos()), "a request whose User-Agent differs from the configured one (when configured) reaches only the decoy", true)
				} else {
					c.R.Bad(rule, fname, "User-Agent check", c.pos(iff.Pos()), "the User-Agent comparison rejects on the wrong outcome or is not limited to a configured value")
					f.ua = true
				}
			}
		case *ssa.Phi:
			// header / URI: a boolean flag; reject when it is false
			if rejVal {
				continue
			}
			// classify by what sets the flag
			var trueUnderURI, falseUnderHdr, initTrue, initFalse bool
			var walk func(p *ssa.Phi, seen map[*ssa.Phi]bool)
			walk = func(p *ssa.Phi, seen map[*ssa.Phi]bool) {
				if seen[p] {
					return
				}
				seen[p] = true
				for i, e := range p.Edges {
					pred := p.Block().Preds[i]
					if p2, ok := e.(*ssa.Phi); ok {
						walk(p2, seen)
						continue
					}
					isT, isF := isBoolConst(e, true), isBoolConst(e, false)
					if !isT && !isF {
						continue
					}
					under := ""
					for _, fct := range FactsAt(pred) {
						bo, ok := fct.Cond.(*ssa.BinOp)
						if !ok {
							continue
						}
						if bo.Op == token.EQL && fct.Truth && (DerivesFrom(bo.X, IsFieldLoad("net/http.Request", "RequestURI")) || DerivesFrom(bo.Y, IsFieldLoad("net/http.Request", "RequestURI"))) && (isCfg(bo.X, "Uris") || isCfg(bo.Y, "Uris")) {
							under = "uri-eq"
						}
						if bo.Op == token.NEQ && fct.Truth && (isCallTo(bo.X, ".Get") || isCallTo(bo.Y, ".Get")) && (isCfg(bo.X, "Headers") || isCfg(bo.Y, "Headers")) {
							under = "hdr-neq"
						}
					}
					// the conditions may also sit in pred's own terminating If (edge into the phi block)
					if under == "" && len(pred.Instrs) > 0 {
						if pi, ok := pred.Instrs[len(pred.Instrs)-1].(*ssa.If); ok {
							if bo, ok := pi.Cond.(*ssa.BinOp); ok {
								edgeTrue := pred.Succs[0] == p.Block()
								if bo.Op == token.EQL && edgeTrue && (DerivesFrom(bo.X, IsFieldLoad("net/http.Request", "RequestURI")) || DerivesFrom(bo.Y, IsFieldLoad("net/http.Request", "RequestURI"))) {
									under = "uri-eq"
								}
								if bo.Op == token.NEQ && edgeTrue && (isCallTo(bo.X, ".Get") || isCallTo(bo.Y, ".Get")) {
									under = "hdr-neq"
								}
							}
						}
					}
					switch {
					case isT && under == "uri-eq":
						trueUnderURI = true
					case isF && under == "hdr-neq":
						falseUnderHdr = true
					case isT && under == "":
						initTrue = true
					case isF && under == "":
						initFalse = true
					}
				}
			}
			walk(x, map[*ssa.Phi]bool{})
			switch {
			case falseUnderHdr && initTrue && !trueUnderURI:
				f.hdr = true
				{
					pi := 0
					if rejT {
						pi = 1
					}
					decs = append(decs, decisive{iff, pi, "Headers", "request-header check"})
				}
				c.R.Ok(rule, fname, "request-header check", c.pos(iff.Pos()), "the flag starts true and becomes false only where a configured header's value differs from the request's; false reaches only the decoy", true)
			case trueUnderURI && initFalse && !falseUnderHdr:
				f.uri = true
				{
					pi := 0
					if rejT {
						pi = 1
					}
					decs = append(decs, decisive{iff, pi, "Uris", "URI check"})
				}
				c.R.Ok(rule, fname, "URI check", c.pos(iff.Pos()), "the flag starts false (when URIs are configured) and becomes true only where the request URI equals a configured one; false reaches only the decoy", true)
			}
		}
	}
	// cut-set: without the passing edge of a check and without the configuration-only edges that
	// skip it (conditions over the same Config field only), the parser must be unreachable
	for _, d := range decs {
		cut := map[edge]bool{{d.iff.Block(), d.passIdx}: true}
		for _, b := range fn.Blocks {
			if len(b.Instrs) == 0 {
				continue
			}
			i2, ok := b.Instrs[len(b.Instrs)-1].(*ssa.If)
			if !ok || i2 == d.iff {
				continue
			}
			if !configOnly(i2.Cond, d.field) {
				continue
			}
			for si, sblk := range b.Succs {
				if !BlockReaches(sblk, d.iff.Block(), nil) {
					cut[edge{b, si}] = true // this edge skips the check on configuration grounds
				}
			}
		}
		if reachableAvoiding(fn, pb, cut) {
			c.R.Bad(rule, fname, d.name+" cannot be bypassed", c.pos(d.iff.Pos()), "a path reaches the agent protocol parser without passing this check and without a configuration-only reason (nothing configured) to skip it")
		} else {
			c.R.Ok(rule, fname, d.name+" cannot be bypassed", c.pos(d.iff.Pos()), "every path to the parser passes the check's accepting edge or skips it only because Config."+d.field+" is not configured", true)
		}
	}
	if !f.ua {
		c.R.Bad(rule, fname, "User-Agent check", c.pos(fn.Pos()), "no User-Agent comparison whose failing outcome reaches only the decoy dominates the parser: requests with any User-Agent are admitted")
	}
	if !f.uri {
		c.R.Bad(rule, fname, "URI check", c.pos(fn.Pos()), "no URI membership test whose failing outcome reaches only the decoy dominates the parser (or its polarity/initial value changed): requests for unconfigured paths are admitted")
	}
	if !f.hdr {
		c.R.Bad(rule, fname, "request-header check", c.pos(fn.Pos()), "no configured-header comparison whose failing outcome reaches only the decoy dominates the parser (or its polarity/initial value changed)")
	}
	// nothing of the teamserver before the parser
	EachCall(fn, func(call ssa.CallInstruction) {
		n := CalleeName(call)
		if call == ssa.CallInstruction(par) {
			return
		}
		if strings.HasPrefix(n, "Havoc/pkg/handlers.") || strings.HasPrefix(n, "(*Havoc/pkg/handlers.") {
			// a helper of this package that reaches nothing of the teamserver or the agent protocol is part of the checks themselves
			if callee := call.Common().StaticCallee(); callee != nil && callee.Blocks != nil && !reachesProtocol(callee) {
				return
			}
		}
		if (strings.HasPrefix(n, "(Havoc/pkg/agent.TeamServer).") || strings.HasPrefix(n, "Havoc/pkg/handlers.") || strings.HasPrefix(n, "(*Havoc/pkg/handlers.") || strings.HasPrefix(n, "(*Havoc/pkg/agent.")) && !InstrDominates(par, call) && n != "Havoc/pkg/handlers.peerAddress" && n != "(*Havoc/pkg/handlers.HTTP).fake404" {
			c.R.Bad(rule, fname, "call "+shortCallee(n)+" before admission", c.pos(call.Pos()), "a teamserver/agent call runs before (or beside) the admission checks")
		}
	})
	// split idioms: elements [1] of strings.Split results
	EachCall(fn, func(call ssa.CallInstruction) {
		n := CalleeName(call)
		if n != "strings.Split" && n != "strings.SplitN" {
			return
		}
		cv, ok := call.(*ssa.Call)
		if !ok {
			return
		}
		usesSecond := false
		for _, r := range *cv.Referrers() {
			if ia, ok := r.(*ssa.IndexAddr); ok {
				if i, ok := ConstInt(ia.Index); ok && i == 1 {
					usesSecond = true
				}
			}
		}
		if !usesSecond {
			return
		}
		construct := strings.TrimPrefix(n, "strings.") + "(" + AccessPath(cv.Call.Args[0]) + ", …)[1]"
		if n == "strings.SplitN" {
			if k, ok := ConstInt(cv.Call.Args[2]); ok && k == 2 {
				c.R.Ok(rule, fname, construct, c.pos(call.Pos()), "cut once: the value keeps any further separators", true)
				return
			}
		}
		c.R.Bad(rule, fname, construct, c.pos(call.Pos()), "a `Name: value` string is split on every separator and only piece [1] is used: values containing the separator are truncated")
	})
	// peer address
	ip := par.Call.Args[2]
	okFwd, okPeer, other := false, false, false
	var srcs func(v ssa.Value, seen map[ssa.Value]bool)
	srcs = func(v ssa.Value, seen map[ssa.Value]bool) {
		if seen[v] {
			return
		}
		seen[v] = true
		if ph, ok := v.(*ssa.Phi); ok {
			for i, e := range ph.Edges {
				pred := ph.Block().Preds[i]
				under := ""
				chk := func(cond ssa.Value, truth bool) {
					cnd, t := StripNot(cond, truth)
					if DerivesFrom(cnd, IsFieldLoad(PkgHandlers+".HTTPConfig", "BehindRedir")) {
						if t {
							under = "redir"
						} else {
							under = "direct"
						}
					}
				}
				for _, fct := range FactsAt(pred) {
					chk(fct.Cond, fct.Truth)
				}
				if under == "" && len(pred.Instrs) > 0 {
					if pi, ok := pred.Instrs[len(pred.Instrs)-1].(*ssa.If); ok {
						chk(pi.Cond, pred.Succs[0] == ph.Block())
					}
				}
				isFwd := DerivesFrom(e, func(w ssa.Value) bool {
					cl, ok := w.(*ssa.Call)
					if !ok || !strings.HasSuffix(CalleeName(cl), ".Get") {
						return false
					}
					a := CallArgs(cl)
					s, isC := ConstString(a[len(a)-1])
					return isC && s == "X-Forwarded-For"
				})
				isPeer := DerivesFrom(e, func(w ssa.Value) bool {
					cl, ok := w.(*ssa.Call)
					return ok && (CalleeName(cl) == "net.SplitHostPort" || CalleeName(cl) == "Havoc/pkg/handlers.peerAddress")
				}) && DerivesFrom(e, IsFieldLoad("net/http.Request", "RemoteAddr"))
				switch {
				case isFwd && under == "redir":
					okFwd = true
				case isPeer && under == "direct":
					okPeer = true
				default:
					other = true
				}
			}
			return
		}
		other = true
	}
	srcs(ip, map[ssa.Value]bool{})
	if okFwd && okPeer && !other {
		c.R.Ok(rule, fname, "ExternalIP", c.pos(par.Pos()), "X-Forwarded-For only under BehindRedir, otherwise the host part of RemoteAddr via net.SplitHostPort", true)
	} else {
		c.R.Bad(rule, fname, "ExternalIP", c.pos(par.Pos()), "the recorded sender address is not {X-Forwarded-For under BehindRedir | SplitHostPort(RemoteAddr) otherwise}")
	}
	// peerAddress itself uses net.SplitHostPort
	if pa := c.P.Func(PkgHandlers, "peerAddress"); pa != nil {
		ok := false
		EachCall(pa, func(call ssa.CallInstruction) {
			if CalleeName(call) == "net.SplitHostPort" && IsParam(call.Common().Args[0], pa.Params[0]) {
				ok = true
			}
		})
		if ok {
			c.R.Ok(rule, FuncShort(pa), "net.SplitHostPort(RemoteAddr)", c.pos(pa.Pos()), "handles IPv4 and bracketed IPv6 peers", true)
		} else {
			c.R.Bad(rule, FuncShort(pa), "net.SplitHostPort(RemoteAddr)", c.pos(pa.Pos()), "the peer address is not derived with net.SplitHostPort: IPv6 peers are recorded wrongly")
		}
	}
	// route table
	st := c.P.Func(PkgHandlers, "HTTP.Start")
	if st == nil {
		c.R.Anchor(rule, "handlers.(*HTTP).Start")
		return
	}
	postReq, catchAll := false, false
	isBound := func(v ssa.Value, method string) bool {
		return DerivesFrom(v, func(w ssa.Value) bool {
			mc, ok := w.(*ssa.MakeClosure)
			return ok && strings.Contains(mc.Fn.String(), "handlers.HTTP)."+method+"$bound")
		})
	}
	EachCall(st, func(call ssa.CallInstruction) {
		n := CalleeName(call)
		args := CallArgs(call)
		switch {
		case strings.HasSuffix(n, "gin.RouterGroup).POST"):
			if len(args) >= 2 && isBound(args[len(args)-1], "request") {
				postReq = true
			}
		case strings.HasSuffix(n, "gin.Engine).NoRoute"), strings.HasSuffix(n, "gin.RouterGroup).Any"):
			if len(args) >= 1 && isBound(args[len(args)-1], "fake404") {
				catchAll = true
			}
		case strings.HasSuffix(n, "gin.RouterGroup).GET"), strings.HasSuffix(n, "gin.RouterGroup).PUT"):
			if len(args) >= 2 && isBound(args[len(args)-1], "request") {
				c.R.Bad(rule, FuncShort(st), "route "+n, c.pos(call.Pos()), "a method other than POST is routed to the agent protocol handler")
			}
		}
	})
	if postReq && catchAll {
		c.R.Ok(rule, FuncShort(st), "routes: POST → request, NoRoute → fake404", c.pos(st.Pos()), "only POST reaches the protocol; everything else gets the decoy", true)
	} else {
		c.R.Bad(rule, FuncShort(st), "routes: POST → request, NoRoute → fake404", c.pos(st.Pos()), "the listener does not route POST to request and every other request to the decoy (POST→request: "+yn(postReq)+", catch-all decoy: "+yn(catchAll)+")")
	}
}

// configOnly: the condition is computed from h.Config.<field> (loads, len, index, constants) only.
func configOnly(cond ssa.Value, field string) bool {
	ok := true
	touches := false
	seen := map[ssa.Value]bool{}
	var rec func(v ssa.Value)
	rec = func(v ssa.Value) {
		if v == nil || seen[v] || !ok {
			return
		}
		seen[v] = true
		switch x := v.(type) {
		case *ssa.Const:
		case *ssa.BinOp:
			rec(x.X)
			rec(x.Y)
		case *ssa.UnOp:
			if x.Op == token.MUL {
				if t, f, _, isF := FieldOf(x.X); isF && t == PkgHandlers+".HTTPConfig" && f == field {
					touches = true
					return
				}
				if ia, isIA := x.X.(*ssa.IndexAddr); isIA {
					rec(ia.X)
					rec(ia.Index)
					return
				}
				ok = false
				return
			}
			rec(x.X)
		case *ssa.Call:
			if b, isB := x.Call.Value.(*ssa.Builtin); isB && b.Name() == "len" {
				rec(x.Call.Args[0])
				return
			}
			ok = false
		case *ssa.Phi:
			// short-circuit results: all edges config-only
			for _, e := range x.Edges {
				rec(e)
			}
		default:
			ok = false
		}
	}
	rec(cond)
	return ok && touches
}

// R11RedirProvenance — the "behind a redirector" switch comes from the profile only.
func R11RedirProvenance(c *Ctx) {
	const rule = "R11-redir-provenance"
	c.R.Rule(rule, "every write of HTTPConfig.BehindRedir (field store or literal field, anywhere in the module) takes its value from the profile's Demon.TrustXForwardedFor, so the X-Forwarded-For header is believed only when the profile says the teamserver sits behind a redirector; the only reader is the address selection in (*HTTP).request", 4)
	for _, fn := range c.P.ModuleFuncs(NonYaotl) {
		for _, b := range fn.Blocks {
			for _, in := range b.Instrs {
				st, ok := in.(*ssa.Store)
				if !ok {
					continue
				}
				t, f, _, ok := FieldOf(st.Addr)
				if !ok || t != PkgHandlers+".HTTPConfig" || f != "BehindRedir" {
					continue
				}
				good := false
				if ld, ok := st.Val.(*ssa.UnOp); ok && ld.Op == token.MUL {
					if t2, f2, _, ok := FieldOf(ld.X); ok && t2 == PkgProfile+".Demon" && f2 == "TrustXForwardedFor" {
						good = true
					}
				}
				construct := "HTTPConfig.BehindRedir = Profile.Config.Demon.TrustXForwardedFor"
				if good {
					c.R.Ok(rule, FuncShort(fn), construct, c.pos(st.Pos()), "taken from the profile", true)
				} else {
					c.R.Bad(rule, FuncShort(fn), construct, c.pos(st.Pos()), "the redirector switch is set from "+DescribeValue(st.Val)+" instead of the profile: the forwarded-for header is believed (or ignored) regardless of what the profile says")
				}
			}
		}
	}
}

// R11NoCarry — each configured header / URI is judged on its own.
func R11NoCarry(c *Ctx) {
	const rule = "R11-check-no-carry"
	c.R.Rule(rule, "inside the loops of (*HTTP).request that test the configured headers and URIs, no branch condition depends on a value carried over from an earlier iteration of that loop (a loop-header phi other than the range counter, or an outer variable assigned in the loop): whether one configured header is checked must not depend on which headers came before it", 3)
	fn := c.P.Func(PkgHandlers, "HTTP.request")
	if fn == nil {
		c.R.Anchor(rule, "handlers.(*HTTP).request")
		return
	}
	n := 0
	// the check loops may live in helpers of this package that do not touch the teamserver or the agent protocol
	for _, lf := range HelperClosure(fn, 2) {
		if lf != fn && reachesProtocol(lf) {
			continue
		}
		loops := naturalLoops(lf)
		for _, b := range lf.Blocks {
			if len(b.Instrs) == 0 {
				continue
			}
			iff, ok := b.Instrs[len(b.Instrs)-1].(*ssa.If)
			if !ok {
				continue
			}
			for _, l := range loops {
				if !l.body[b] || b == l.header {
					continue
				}
				n++
				pos := iff.Cond.Pos()
				if !pos.IsValid() {
					pos = lf.Pos()
				}
				if carried := carriedInto(iff.Cond, l); carried != nil {
					c.R.Bad(rule, FuncShort(lf), "branch inside a check loop is iteration-local", c.pos(pos), "this test depends on "+DescribeValue(carried)+", which is carried over from earlier iterations of the loop: once it flips, the headers/URIs that follow are judged differently (e.g. never checked)")
				} else {
					c.R.Ok(rule, FuncShort(lf), "branch inside a check loop is iteration-local", c.pos(pos), "depends on the current element and loop-invariant values only", true)
				}
			}
		}
	}
	if n == 0 {
		c.R.Anchor(rule, "the check loops of (*HTTP).request")
	}
}

// R11ListSeparator — the operator's list fields are cut the same way everywhere (sibling agreement).
func R11ListSeparator(c *Ctx) {
	const rule = "R11-list-separator"
	c.R.Rule(rule, "every strings.Split of a list field of a listener message (pk.Body.Info[\"Hosts\"|\"Headers\"|\"Uris\"]) in DispatchEvent — the Add and the Edit branch — uses one and the same separator constant (directly, or through a helper of this package that splits its argument at a constant): the client joins these lists one way, so a branch that cuts differently configures different headers/URIs than the operator entered (a header value containing a comma is split in two)", 3)
	fd, pk := c.P.FuncDecl(PkgServer, "Teamserver.DispatchEvent")
	if fd == nil {
		c.R.Anchor(rule, "server.(*Teamserver).DispatchEvent")
		return
	}
	type site struct {
		key, sep string
		pos      token.Pos
	}
	var sites []site
	ast.Inspect(fd.Body, func(n ast.Node) bool {
		call, ok := n.(*ast.CallExpr)
		if !ok {
			return true
		}
		fn := Callee(pk.TypesInfo, call)
		if fn == nil {
			return true
		}
		if fn.FullName() != "strings.Split" {
			// a same-package helper that splits its string parameter at a constant separator
			if fn.Pkg() == nil || fn.Pkg().Path() != PkgServer || len(call.Args) != 1 {
				return true
			}
			sep, ok := helperSplitSep(pk, fn)
			if !ok {
				return true
			}
			key := ""
			ast.Inspect(call.Args[0], func(m ast.Node) bool {
				if ix, ok := m.(*ast.IndexExpr); ok && strings.HasSuffix(ExprStr(ix.X), "Body.Info") {
					if tv, ok := pk.TypesInfo.Types[ix.Index]; ok && tv.Value != nil {
						key = constant.StringVal(tv.Value)
					}
				}
				return true
			})
			if key != "" {
				sites = append(sites, site{key, sep, call.Pos()})
			}
			return true
		}
		if len(call.Args) != 2 {
			return true
		}
		// first argument: pk.Body.Info["K"].(string)
		key := ""
		ast.Inspect(call.Args[0], func(m ast.Node) bool {
			if ix, ok := m.(*ast.IndexExpr); ok && strings.HasSuffix(ExprStr(ix.X), "Body.Info") {
				if tv, ok := pk.TypesInfo.Types[ix.Index]; ok && tv.Value != nil {
					key = constant.StringVal(tv.Value)
				}
			}
			return true
		})
		if key == "" {
			return true
		}
		sep := "<not constant>"
		if tv, ok := pk.TypesInfo.Types[call.Args[1]]; ok && tv.Value != nil && tv.Value.Kind() == constant.String {
			sep = constant.StringVal(tv.Value)
		}
		sites = append(sites, site{key, sep, call.Pos()})
		return true
	})
	count := map[string]int{}
	for _, s := range sites {
		count[s.sep]++
	}
	major, best := "", 0
	for s, n := range count {
		if n > best {
			major, best = s, n
		}
	}
	fname := DeclShort(pk, fd)
	for _, s := range sites {
		construct := "Split(Info[" + strconv.Quote(s.key) + "], sep)"
		if s.sep == major {
			c.R.Ok(rule, fname, construct, c.pos(s.pos), "separator "+strconv.Quote(s.sep)+" like its siblings", true)
		} else {
			c.R.Bad(rule, fname, construct, c.pos(s.pos), "this list is cut at "+strconv.Quote(s.sep)+" while the other "+itoa(best)+" list fields are cut at "+strconv.Quote(major)+": the same operator input yields different configured values in this branch")
		}
	}
}

// R11ConfigVerbatim — the lists the admission checks compare with are the configured ones, unedited.
func R11ConfigVerbatim(c *Ctx) {
	const rule = "R11-config-verbatim"
	c.R.Rule(rule, "no function rewrites an element of HTTPConfig.Uris / Headers / Hosts in place (a store through an index into one of these lists): what (*HTTP).request compares a request with is what the profile or the operator configured, not a normalised variant (a trailing-slash trim turns the URI \"/\" into \"\", which request() reads as 'no URI configured' and admits every path)", 1)
	n := 0
	for _, fn := range c.P.ModuleFuncs(NonYaotl) {
		for _, b := range fn.Blocks {
			for _, in := range b.Instrs {
				st, ok := in.(*ssa.Store)
				if !ok {
					continue
				}
				ia, ok := st.Addr.(*ssa.IndexAddr)
				if !ok {
					continue
				}
				hit := ""
				DerivesFromNarrow(ia.X, func(v ssa.Value) bool {
					if t, f, _, ok := FieldOf(v); ok && t == PkgHandlers+".HTTPConfig" && (f == "Uris" || f == "Headers" || f == "Hosts") {
						hit = f
						return true
					}
					return false
				})
				if hit != "" {
					n++
					c.R.Bad(rule, FuncShort(fn), "HTTPConfig."+hit+"[i] = …", c.pos(st.Pos()), "an element of the configured "+hit+" list is rewritten in place: the admission checks no longer compare with what was configured")
				}
			}
		}
	}
	c.R.Ok(rule, "-", "no in-place rewrite of configured lists", "-", "scanned every store through an index in the module: "+itoa(n)+" into HTTPConfig.Uris/Headers/Hosts", true)
}

// reachesProtocol: fn or a same-package helper it calls (three levels) calls into the teamserver interface, the agent
// package or the request parser — anything that can change state or act on the request body.
func reachesProtocol(fn *ssa.Function) bool {
	hit := false
	for _, f := range HelperClosure(fn, 3) {
		EachCall(f, func(call ssa.CallInstruction) {
			n := CalleeName(call)
			if call.Common().IsInvoke() {
				if strings.Contains(call.Common().Value.Type().String(), "Havoc/") {
					hit = true
				}
				return
			}
			if strings.HasPrefix(n, "(Havoc/pkg/agent.") || strings.HasPrefix(n, "(*Havoc/pkg/agent.") || strings.HasPrefix(n, "Havoc/pkg/agent.") ||
				strings.HasSuffix(n, ".parseAgentRequest") || strings.HasSuffix(n, ".handleDemonAgent") || strings.HasSuffix(n, ".handleServiceAgent") {
				hit = true
			}
		})
	}
	return hit
}

// helperSplitSep: fn (declared in pk) contains strings.Split(<its only string parameter>, <constant>) — returns the constant.
func helperSplitSep(pk *packages.Package, fn *types.Func) (string, bool) {
	for _, f := range pk.Syntax {
		for _, d := range f.Decls {
			fd, ok := d.(*ast.FuncDecl)
			if !ok || fd.Body == nil || pk.TypesInfo.Defs[fd.Name] != types.Object(fn) {
				continue
			}
			if fd.Type.Params == nil || len(fd.Type.Params.List) != 1 || len(fd.Type.Params.List[0].Names) != 1 {
				return "", false
			}
			param := pk.TypesInfo.Defs[fd.Type.Params.List[0].Names[0]]
			sep, found := "", false
			ast.Inspect(fd.Body, func(n ast.Node) bool {
				call, ok := n.(*ast.CallExpr)
				if !ok || len(call.Args) != 2 {
					return true
				}
				if c2 := Callee(pk.TypesInfo, call); c2 == nil || c2.FullName() != "strings.Split" {
					return true
				}
				if id, ok := ast.Unparen(call.Args[0]).(*ast.Ident); !ok || pk.TypesInfo.Uses[id] != param {
					return true
				}
				if tv, ok := pk.TypesInfo.Types[call.Args[1]]; ok && tv.Value != nil && tv.Value.Kind() == constant.String {
					sep, found = constant.StringVal(tv.Value), true
				}
				return true
			})
			return sep, found
		}
	}
	return "", false
}

// R11ResponseHeaders — the configured response headers are set before an admitted request is answered in any way.
func R11ResponseHeaders(c *Ctx) {
	const rule = "R11-response-headers"
	c.R.Rule(rule, "in HTTP.request the loop that copies h.Config.Response.Headers into the reply (ctx.Header) — inline or in a helper — is entered on every path before parseAgentRequest is called: whatever the agent protocol then answers (task data or the decoy after a parse failure) already carries the configured headers", 1)
	fn := c.P.Func(PkgHandlers, "HTTP.request")
	if fn == nil {
		c.R.Anchor(rule, "handlers.(*HTTP).request")
		return
	}
	setsHeaders := func(f *ssa.Function) ssa.Instruction {
		for _, l := range naturalLoops(f) {
			overCfg := false
			for _, in := range l.header.Instrs {
				_ = in
			}
			sets := false
			for b := range l.body {
				for _, in := range b.Instrs {
					if ci, ok := in.(ssa.CallInstruction); ok && CalleeName(ci) == "(*github.com/gin-gonic/gin.Context).Header" {
						sets = true
					}
					if v, ok := in.(ssa.Value); ok && IsFieldLoad("", "Headers")(v) && DerivesFrom(v, IsFieldLoad("", "Response")) {
						overCfg = true
					}
				}
			}
			// the ranged slice is loaded before the loop
			if sets && !overCfg {
				for _, b := range f.Blocks {
					for _, in := range b.Instrs {
						if v, ok := in.(ssa.Value); ok && IsFieldLoad("", "Headers")(v) && DerivesFrom(v, IsFieldLoad("", "Response")) && b.Dominates(l.header) {
							overCfg = true
						}
					}
				}
			}
			if sets && overCfg {
				return l.header.Instrs[0]
			}
		}
		return nil
	}
	var parse ssa.Instruction
	var setters []ssa.Instruction
	if in := setsHeaders(fn); in != nil {
		setters = append(setters, in)
	}
	EachCall(fn, func(call ssa.CallInstruction) {
		if CalleeName(call) == "Havoc/pkg/handlers.parseAgentRequest" {
			parse = call.(ssa.Instruction)
		}
		if h := call.Common().StaticCallee(); h != nil && h.Blocks != nil && FuncPkgPathOf(h) == PkgHandlers && h != fn {
			if setsHeaders(h) != nil {
				setters = append(setters, call.(ssa.Instruction))
			}
		}
	})
	if parse == nil {
		c.R.Anchor(rule, "the parseAgentRequest call of HTTP.request")
		return
	}
	construct := "Response.Headers set before parseAgentRequest"
	ok := false
	for _, s := range setters {
		if InstrDominates(s, parse) {
			ok = true
		}
	}
	if ok {
		c.R.Ok(rule, FuncShort(fn), construct, c.pos(parse.Pos()), "the header loop is entered before the request reaches the agent protocol", true)
	} else {
		c.R.Bad(rule, FuncShort(fn), construct, c.pos(parse.Pos()), "the request is handed to the agent protocol on a path that has not set the configured response headers: the answer to an admitted request (at least the one after a parse failure) goes out without them")
	}
}

// helperAdmission recognises an admission test delegated to a helper. It returns the configuration field the test
// is about ("Headers" or "Uris") and the truth value of cond on which the request must be rejected.
func (c *Ctx) helperAdmission(cond ssa.Value, isCfg func(ssa.Value, string) bool) (field string, rejectOn bool, ok bool) {
	isURI := func(v ssa.Value) bool { return DerivesFrom(v, IsFieldLoad("net/http.Request", "RequestURI")) }
	// (a) URIs: comparison of a find-index result with its not-found value, or slices.Contains
	if bo, isB := cond.(*ssa.BinOp); isB {
		for _, pair := range [][2]ssa.Value{{bo.X, bo.Y}, {bo.Y, bo.X}} {
			call, isCall := pair[0].(*ssa.Call)
			k, isC := ConstInt(pair[1])
			if !isCall || !isC {
				continue
			}
			h := call.Call.StaticCallee()
			sp, kp, nf, okIdx := elemIndexSummary(h)
			if !okIdx || sp >= len(call.Call.Args) || kp >= len(call.Call.Args) {
				continue
			}
			if !isCfg(call.Call.Args[sp], "Uris") || !isURI(call.Call.Args[kp]) {
				continue
			}
			left := pair[0] == bo.X
			holds := func(x int64) bool {
				a, b := x, k
				if !left {
					a, b = k, x
				}
				switch bo.Op {
				case token.EQL:
					return a == b
				case token.NEQ:
					return a != b
				case token.LSS:
					return a < b
				case token.LEQ:
					return a <= b
				case token.GTR:
					return a > b
				case token.GEQ:
					return a >= b
				}
				return false
			}
			// the comparison must separate not-found from every position
			if holds(nf) != holds(0) && holds(0) == holds(1<<20) {
				return "Uris", holds(nf), true
			}
		}
	}
	if call, isCall := cond.(*ssa.Call); isCall && len(call.Call.Args) == 2 {
		if n := CalleeName(call); strings.HasPrefix(n, "slices.Contains") && isCfg(call.Call.Args[0], "Uris") && isURI(call.Call.Args[1]) {
			return "Uris", false, true
		}
	}
	// (b) headers: a boolean answer (possibly one of several results) of a helper that says "mismatch" only under a
	// differing comparison of a received header with a value cut from its list parameter
	var call *ssa.Call
	idx := 0
	switch x := cond.(type) {
	case *ssa.Call:
		call = x
	case *ssa.Extract:
		call, _ = x.Tuple.(*ssa.Call)
		idx = x.Index
	}
	if call == nil {
		return "", false, false
	}
	h := call.Call.StaticCallee()
	if h == nil || h.Blocks == nil || FuncPkgPathOf(h) != PkgHandlers {
		return "", false, false
	}
	listParam := -1
	for i, a := range call.Call.Args {
		if isCfg(a, "Headers") && i < len(h.Params) {
			listParam = i
		}
	}
	if listParam < 0 {
		return "", false, false
	}
	fromList := func(v ssa.Value) bool {
		return DerivesFrom(v, func(w ssa.Value) bool { return w == ssa.Value(h.Params[listParam]) })
	}
	isGet := func(v ssa.Value) bool {
		return DerivesFrom(v, func(w ssa.Value) bool {
			cl, ok := w.(*ssa.Call)
			return ok && strings.HasSuffix(CalleeName(cl), ".Get")
		})
	}
	nTrue, nFalse := 0, 0
	for _, b := range h.Blocks {
		ret, isRet := b.Instrs[len(b.Instrs)-1].(*ssa.Return)
		if !isRet || idx >= len(ret.Results) {
			continue
		}
		r := ret.Results[idx]
		switch {
		case isBoolConst(r, true):
			under := false
			for _, fct := range FactsAt(b) {
				bo, ok := fct.Cond.(*ssa.BinOp)
				if !ok || !((bo.Op == token.NEQ) == fct.Truth) || (bo.Op != token.NEQ && bo.Op != token.EQL) {
					continue
				}
				if (isGet(bo.X) && fromList(bo.Y)) || (isGet(bo.Y) && fromList(bo.X)) {
					under = true
				}
			}
			if !under {
				return "", false, false
			}
			nTrue++
		case isBoolConst(r, false):
			nFalse++
		default:
			return "", false, false
		}
	}
	if nTrue == 0 || nFalse == 0 {
		return "", false, false
	}
	return "Headers", true, true
}

// elemIndexSummary: h is `for i := range s { if s[i] == k { return i } }; return NOTFOUND` over a slice parameter s and
// a parameter k (NOTFOUND a negative constant).
func elemIndexSummary(h *ssa.Function) (sliceParam, keyParam int, notFound int64, ok bool) {
	if h == nil || h.Blocks == nil || h.Signature.Results().Len() != 1 || !isIntType(h.Signature.Results().At(0).Type()) {
		return 0, 0, 0, false
	}
	pidx := func(v ssa.Value) int {
		for i, p := range h.Params {
			if ssa.Value(p) == v {
				return i
			}
		}
		return -1
	}
	sliceParam, keyParam = -1, -1
	haveNF := false
	for _, b := range h.Blocks {
		ret, isRet := b.Instrs[len(b.Instrs)-1].(*ssa.Return)
		if !isRet {
			continue
		}
		v := ret.Results[0]
		if k, isC := ConstInt(v); isC {
			if k >= 0 || (haveNF && k != notFound) {
				return 0, 0, 0, false
			}
			notFound, haveNF = k, true
			continue
		}
		found := false
		for _, f := range FactsAt(b) {
			bo, isB := f.Cond.(*ssa.BinOp)
			if !isB || !((bo.Op == token.EQL) == f.Truth) || (bo.Op != token.EQL && bo.Op != token.NEQ) {
				continue
			}
			for _, pr := range [][2]ssa.Value{{bo.X, bo.Y}, {bo.Y, bo.X}} {
				kp := pidx(pr[1])
				ld, isLd := pr[0].(*ssa.UnOp)
				if kp < 0 || !isLd || ld.Op != token.MUL {
					continue
				}
				ia, isIA := ld.X.(*ssa.IndexAddr)
				if !isIA || ia.Index != v {
					continue
				}
				sp := pidx(ia.X)
				if sp < 0 {
					continue
				}
				if sliceParam >= 0 && (sliceParam != sp || keyParam != kp) {
					return 0, 0, 0, false
				}
				sliceParam, keyParam, found = sp, kp, true
			}
		}
		if !found {
			return 0, 0, 0, false
		}
	}
	if !haveNF || sliceParam < 0 {
		return 0, 0, 0, false
	}
	return sliceParam, keyParam, notFound, true
}

// R11DecoyStatus: "every other request gets the decoy 404". gin answers 200 unless a status was written, and the
// first body write fixes the status line. So in fake404 every path from the entry to a return must pass a call that
// writes the status 404, and no body write may come before it.
func R11DecoyStatus(c *Ctx) {
	const rule = "R11-decoy-status"
	c.R.Rule(rule, "in (*HTTP).fake404 every path from the entry to a return passes a call that writes the status 404 (WriteHeader/Status/Data/String/AbortWithStatus/http.Error with the constant 404, http.NotFound, or a helper in this module that does so on all its paths), and no body write (Write/WriteString on the response writer) lies on a path in front of it: a return that was reached without it answers gin's default 200", 1)
	fn := c.P.Func(PkgHandlers, "HTTP.fake404")
	if fn == nil || fn.Blocks == nil {
		c.R.Anchor(rule, "handlers.(*HTTP).fake404")
		return
	}
	var always404 func(f *ssa.Function, depth int) (bool, ssa.Instruction, string)
	sets404 := func(call ssa.CallInstruction, depth int) bool {
		name := CalleeName(call)
		if name == "net/http.NotFound" {
			return true
		}
		if strings.Contains(name, "github.com/gin-gonic/gin.") || strings.HasPrefix(name, "net/http.") || strings.HasPrefix(name, "(net/http.") {
			for _, a := range CallArgs(call) {
				if n, ok := ConstInt(a); ok && n == 404 {
					if bt, isB := a.Type().Underlying().(*types.Basic); isB && bt.Info()&types.IsInteger != 0 {
						return true
					}
				}
			}
			return false
		}
		if h := call.Common().StaticCallee(); h != nil && h.Blocks != nil && strings.HasPrefix(FuncPkgPathOf(h), "Havoc/") && depth > 0 {
			if _, isDefer := call.(*ssa.Defer); isDefer {
				return false
			}
			ok, _, _ := always404(h, depth-1)
			return ok
		}
		return false
	}
	writesBody := func(call ssa.CallInstruction) bool {
		name := CalleeName(call)
		if call.Common().IsInvoke() && (call.Common().Method.Name() == "Write" || call.Common().Method.Name() == "WriteString") {
			return strings.Contains(name, "gin.ResponseWriter") || strings.Contains(name, "net/http.ResponseWriter") || strings.Contains(name, "io.Writer") || strings.Contains(name, "io.StringWriter")
		}
		return false
	}
	always404 = func(f *ssa.Function, depth int) (bool, ssa.Instruction, string) {
		seen := map[*ssa.BasicBlock]bool{}
		var bad ssa.Instruction
		var why string
		var walk func(b *ssa.BasicBlock) bool
		walk = func(b *ssa.BasicBlock) bool {
			if seen[b] {
				return true
			}
			seen[b] = true
			for _, in := range b.Instrs {
				switch x := in.(type) {
				case ssa.CallInstruction:
					if _, isGo := x.(*ssa.Go); isGo {
						continue
					}
					if _, isDefer := x.(*ssa.Defer); isDefer {
						continue
					}
					if sets404(x, depth) {
						return true
					}
					if writesBody(x) {
						bad, why = in, "a body write comes before the status: the status line has gone out as 200 by the time 404 is written"
						return false
					}
				case *ssa.Return:
					bad, why = in, "this return is reached on a path that wrote no 404 status: the rejected request is answered with gin's default 200"
					return false
				}
			}
			for _, s := range b.Succs {
				if !walk(s) {
					return false
				}
			}
			return true
		}
		ok := walk(f.Blocks[0])
		return ok, bad, why
	}
	construct := "status 404 on every path of the decoy"
	ok, bad, why := always404(fn, 2)
	if ok {
		c.R.Ok(rule, FuncShort(fn), construct, c.pos(fn.Pos()), "every path to a return passes a call that writes the status 404 before any body write", true)
		return
	}
	p := fn.Pos()
	if bad != nil && bad.Pos().IsValid() {
		p = bad.Pos()
	}
	c.R.Bad(rule, FuncShort(fn), construct, c.pos(p), why)
}
