package rules

import (
	"fmt"
	"go/constant"
	"go/token"
	"go/types"
	"sort"
	"strings"

	"golang.org/x/tools/go/ssa"

	"hv/internal/core"
)

// fileSinks: callee -> indexes of path arguments.
var fileSinks = map[string][]int{
	"os.Create":           {0},
	"os.OpenFile":         {0},
	"os.WriteFile":        {0},
	"os.Mkdir":            {0},
	"os.MkdirAll":         {0},
	"os.Rename":           {0, 1},
	"os.Symlink":          {1},
	"os.Link":             {1},
	"io/ioutil.WriteFile": {0},
}

// AgentFacingRoots are the entry points fed by untrusted agent traffic and by
// third-party service connections.
func (c *Ctx) AgentFacingRoots() []*ssa.Function {
	var roots []*ssa.Function
	for _, r := range [][2]string{
		{PkgHandlers, "HTTP.request"},
		{PkgHandlers, "External.Request"},
		{PkgHandlers, "parseAgentRequest"},
	} {
		if fn := c.P.Func(r[0], r[1]); fn != nil {
			roots = append(roots, fn)
		} else {
			c.R.Anchor("roots", r[0]+"."+r[1])
		}
	}
	return roots
}

// ServiceRoots are the entry points fed by third-party service connections.
func (c *Ctx) ServiceRoots() []*ssa.Function {
	var roots []*ssa.Function
	for _, r := range [][2]string{
		{PkgService, "Service.handleConnection"},
		{PkgService, "Service.dispatch"},
		{PkgService, "Service.routine"},
	} {
		if fn := c.P.Func(r[0], r[1]); fn != nil {
			roots = append(roots, fn)
		} else {
			c.R.Anchor("roots", r[0]+"."+r[1])
		}
	}
	return roots
}

// ScopeFrom returns module (non-yaotl) functions reachable from roots over CHA.
func (c *Ctx) ScopeFrom(roots []*ssa.Function) []*ssa.Function {
	reach := core.Reachable(c.P.CHA(), roots, func(fn *ssa.Function) bool {
		pk := core.FuncPkgPath(fn)
		return pk != "" && c.P.InModule(pk) && !IsYaotl(pk)
	})
	var out []*ssa.Function
	for fn := range reach {
		if fn.Blocks != nil {
			out = append(out, fn)
		}
	}
	sort.Slice(out, func(i, j int) bool {
		if out[i].Pos() != out[j].Pos() {
			return out[i].Pos() < out[j].Pos()
		}
		return out[i].String() < out[j].String()
	})
	return out
}

// endsWithSep reports whether a string value provably ends in a path separator.
func endsWithSep(v ssa.Value) bool {
	leaves := ConcatLeaves(v)
	if len(leaves) == 0 {
		return false
	}
	last := leaves[len(leaves)-1]
	if s, ok := ConstString(last); ok {
		return strings.HasSuffix(s, "/")
	}
	// string(os.PathSeparator) / string(filepath.Separator)
	if cv, ok := last.(*ssa.Convert); ok {
		if c, ok := cv.X.(*ssa.Const); ok && c.Value != nil && c.Value.ExactString() == "47" {
			return true
		}
	}
	return false
}

// cleanOf: v is filepath.Clean(x) (or path.Clean) -> x.
func cleanOf(v ssa.Value) (ssa.Value, bool) {
	call, ok := v.(*ssa.Call)
	if !ok {
		return nil, false
	}
	switch CalleeName(call) {
	case "path/filepath.Clean", "path.Clean", "path/filepath.Abs":
		return call.Call.Args[0], true
	}
	return nil, false
}

type containTest struct {
	call   *ssa.Call // strings.HasPrefix(clean, base)
	x      ssa.Value // the un-cleaned path vouched for
	clean  ssa.Value
	base   ssa.Value
	sepOK  bool
	eqAlso bool
}

// vouchEdges collects the CFG edges on which "clean(x) lies inside base" holds.
type edge struct {
	from *ssa.BasicBlock
	idx  int
}

// sameLeaves compares two leaf lists by value identity / constant equality.
func sameLeaf(a, b ssa.Value) bool {
	if a == b {
		return true
	}
	if sa, ok := ConstString(a); ok {
		if sb, ok := ConstString(b); ok {
			return sa == sb
		}
	}
	// two loads of the same field of the same base
	if ta, fa, ba, ok := FieldOf(derefOr(a)); ok {
		if tb, fb, bb, ok := FieldOf(derefOr(b)); ok {
			return ta == tb && fa == fb && (ba == bb || AccessPath(ba) == AccessPath(bb))
		}
	}
	return false
}

func derefOr(v ssa.Value) ssa.Value {
	if a, ok := Deref(v); ok {
		return a
	}
	return v
}

func leavesPrefix(p, full []ssa.Value) bool {
	if len(p) > len(full) {
		return false
	}
	for i := range p {
		if !sameLeaf(p[i], full[i]) {
			return false
		}
	}
	return true
}

// sepFree reports whether a string value cannot contain "/" because it is an
// element of strings.Split(_, "/") (possibly passed through NUL stripping).
func sepFree(v ssa.Value) bool {
	for depth := 0; depth < 8; depth++ {
		switch x := v.(type) {
		case *ssa.Call:
			switch CalleeName(x) {
			case "Havoc/pkg/common.StripNull", "strings.TrimSpace", "strings.Trim", "strings.TrimRight", "strings.TrimLeft":
				v = x.Call.Args[0]
				continue
			case "path/filepath.Base", "path.Base":
				return true
			}
			return false
		case *ssa.UnOp:
			if x.Op == token.MUL {
				if ia, ok := x.X.(*ssa.IndexAddr); ok {
					if call, ok := ia.X.(*ssa.Call); ok && CalleeName(call) == "strings.Split" {
						if s, ok := ConstString(call.Call.Args[1]); ok && s == "/" {
							return true
						}
					}
				}
			}
			return false
		case *ssa.Phi:
			for _, e := range x.Edges {
				if !sepFree(e) {
					return false
				}
			}
			return true
		default:
			return false
		}
	}
	return false
}

// R7 — loot writers: every file-creating call reachable from agent/service
// traffic is vouched for by a separator-safe containment test.
func R7PathContain(c *Ctx) {
	const rule = "R7-pathcontain"
	c.R.Rule(rule, "every file-creating call reachable from agent or service traffic takes a path that a dominating clean-then-prefix test (base ending in a separator, or with the equality alternative) vouches for; the failing edge reaches no such call", 8)
	roots := append(c.AgentFacingRoots(), c.ServiceRoots()...)
	scope := c.ScopeFrom(roots)
	c.R.Extra["r7_scope_functions"] = len(scope)

	// field stores: LocalFile-style fields whose loads are used as sink paths
	type storeSite struct {
		st *ssa.Store
		fn *ssa.Function
	}
	fieldStores := map[string][]storeSite{}
	for fn := range c.P.AllFuncs() {
		pk := core.FuncPkgPath(fn)
		if fn.Blocks == nil || !c.P.InModule(pk) || IsYaotl(pk) {
			continue
		}
		for _, b := range fn.Blocks {
			for _, in := range b.Instrs {
				if st, ok := in.(*ssa.Store); ok {
					if t, f, _, ok := FieldOf(st.Addr); ok {
						if bt, ok := st.Val.Type().Underlying().(*types.Basic); ok && bt.Kind() == types.String {
							fieldStores[t+"."+f] = append(fieldStores[t+"."+f], storeSite{st, fn})
						}
					}
				}
			}
		}
	}

	var decide func(fn *ssa.Function, at ssa.Instruction, p ssa.Value, depth int) (bool, string)
	decide = func(fn *ssa.Function, at ssa.Instruction, p ssa.Value, depth int) (bool, string) {
		// collect containment tests of this function
		var tests []*containTest
		for _, b := range fn.Blocks {
			for _, in := range b.Instrs {
				call, ok := in.(*ssa.Call)
				if !ok || CalleeName(call) != "strings.HasPrefix" {
					continue
				}
				cl, base := call.Call.Args[0], call.Call.Args[1]
				x, ok := cleanOf(cl)
				if !ok {
					continue
				}
				if normalisedBase(base) {
					continue // not a containment test: see normalisedBase
				}
				tests = append(tests, &containTest{call: call, x: x, clean: cl, base: base, sepOK: endsWithSep(base)})
			}
		}
		pLeaves := ConcatLeaves(p)
		// constant-only / config-only paths carry nothing agent-controlled
		trusted := true
		for _, l := range pLeaves {
			if _, ok := ConstString(l); ok {
				continue
			}
			trusted = false
		}
		if trusted {
			return true, "path is built from constants only"
		}
		// a load of a struct field: every store to that field must be vouched
		if addr, ok := Deref(p); ok {
			if t, f, _, ok := FieldOf(addr); ok && depth < 2 {
				sites := fieldStores[t+"."+f]
				if len(sites) == 0 {
					return false, "path is read from field " + t + "." + f + " which is never stored in the module"
				}
				for _, s := range sites {
					ok, why := decide(s.fn, s.st, s.st.Val, depth+1)
					if !ok {
						return false, fmt.Sprintf("path is read from field %s.%s; its store at %s is not vouched: %s", f, f, c.pos(s.st.Pos()), why)
					}
				}
				return true, "path is read from field " + f + "; all " + itoa(len(sites)) + " stores to it are vouched"
			}
		}
		// the path is (built from) a parameter of an unexported helper: every caller must hand in a vouched path
		if len(tests) == 0 && depth < 2 {
			var prm *ssa.Parameter
			for _, l := range pLeaves {
				if pp := ParamOf(l); pp != nil && pp.Parent() == fn {
					prm = pp
				}
			}
			if prm != nil {
				idx := -1
				for i, q := range fn.Params {
					if q == prm {
						idx = i
					}
				}
				why := ""
				all := c.EveryCallSite(fn, func(site ssa.CallInstruction) bool {
					args := site.Common().Args
					if idx < 0 || idx >= len(args) {
						return false
					}
					ok, w := decide(site.Parent(), site, args[idx], depth+1)
					if !ok {
						why = w
					}
					return ok
				})
				if all {
					return true, "the path is a parameter of this helper and every call site passes a vouched path"
				}
				if why != "" {
					return false, "the path is a parameter of this helper; a call site does not vouch for it: " + why
				}
			}
		}
		if len(tests) == 0 {
			return false, "no clean-then-prefix containment test in this function"
		}
		var reasons []string
		for _, t := range tests {
			xLeaves := ConcatLeaves(t.x)
			bLeaves := ConcatLeaves(t.base)
			// relation between the sink path and the vouched path
			rel := ""
			switch {
			case p == t.x || (len(pLeaves) == len(xLeaves) && leavesPrefix(pLeaves, xLeaves)):
				rel = "is the tested path"
			case len(pLeaves) == len(xLeaves)+2 && leavesPrefix(xLeaves, pLeaves) && isConstStr(pLeaves[len(xLeaves)], "/") && sepFree(pLeaves[len(pLeaves)-1]):
				rel = "is the tested directory plus one separator-free component"
			case leavesPrefix(pLeaves, bLeaves) || leavesPrefix(pLeaves, xLeaves):
				rel = "is the base directory (or an ancestor of it) of the tested path"
			default:
				reasons = append(reasons, "path is not the tested path of the test at "+c.pos(t.call.Pos()))
				continue
			}
			// vouching edges
			vouch := map[edge]bool{}
			sep := t.sepOK
			for _, b := range fn.Blocks {
				if len(b.Instrs) == 0 {
					continue
				}
				iff, ok := b.Instrs[len(b.Instrs)-1].(*ssa.If)
				if !ok {
					continue
				}
				cond, truth := StripNot(iff.Cond, true)
				if cond == ssa.Value(t.call) {
					if truth {
						vouch[edge{b, 0}] = true
					} else {
						vouch[edge{b, 1}] = true
					}
				}
				if bo, ok := cond.(*ssa.BinOp); ok && (bo.Op == token.EQL || bo.Op == token.NEQ) {
					if (bo.X == t.clean && sameLeavesVal(bo.Y, t.base, true)) || (bo.Y == t.clean && sameLeavesVal(bo.X, t.base, true)) {
						eq := bo.Op == token.EQL
						if eq == truth {
							vouch[edge{b, 0}] = true
						} else {
							vouch[edge{b, 1}] = true
						}
						t.eqAlso = true
					}
				}
			}
			if !sep {
				reasons = append(reasons, fmt.Sprintf("test at %s compares Clean(p) with a base that does not end in a separator: a sibling such as <base>_x/… passes it", c.pos(t.call.Pos())))
				continue
			}
			// cut-set check: sink unreachable from entry without a vouching edge
			if reachableAvoiding(fn, at.Block(), vouch) {
				reasons = append(reasons, fmt.Sprintf("a path reaches the call without passing the containment test at %s (or through its failing edge)", c.pos(t.call.Pos())))
				continue
			}
			return true, "path " + rel + " of the separator-safe test at " + c.pos(t.call.Pos())
		}
		sort.Strings(reasons)
		return false, strings.Join(reasons, "; ")
	}

	for _, fn := range scope {
		EachCall(fn, func(call ssa.CallInstruction) {
			idxs, ok := fileSinks[CalleeName(call)]
			if !ok {
				return
			}
			args := call.Common().Args
			// os.OpenFile without a write/create flag is a read
			if CalleeName(call) == "os.OpenFile" && len(args) > 1 {
				if fl, ok := ConstInt(args[1]); ok && fl&(1|2|0x40|0x400|0x200) == 0 {
					return
				}
			}
			for _, i := range idxs {
				if i >= len(args) {
					continue
				}
				c.R.CallSites++
				construct := CalleeName(call) + "(" + AccessPath(args[i]) + ")"
				ok, why := decide(fn, call, args[i], 0)
				if ok {
					c.R.Ok(rule, FuncShort(fn), construct, c.pos(call.Pos()), why, true)
				} else {
					c.R.Bad(rule, FuncShort(fn), construct, c.pos(call.Pos()), why)
				}
			}
		})
	}
}

func isConstStr(v ssa.Value, s string) bool {
	x, ok := ConstString(v)
	return ok && x == s
}

// sameLeavesVal compares v with base; when stripSep is set, base may carry one
// extra trailing "/" leaf (p == dir || HasPrefix(p, dir+"/")).
func sameLeavesVal(v, base ssa.Value, stripSep bool) bool {
	a, b := ConcatLeaves(v), ConcatLeaves(base)
	if stripSep && len(b) == len(a)+1 && isConstStr(b[len(b)-1], "/") {
		b = b[:len(b)-1]
	}
	return len(a) == len(b) && leavesPrefix(a, b)
}

// reachableAvoiding reports whether target is reachable from the entry block
// without using any edge in cut.
func reachableAvoiding(fn *ssa.Function, target *ssa.BasicBlock, cut map[edge]bool) bool {
	seen := map[*ssa.BasicBlock]bool{}
	stack := []*ssa.BasicBlock{fn.Blocks[0]}
	for len(stack) > 0 {
		b := stack[len(stack)-1]
		stack = stack[:len(stack)-1]
		if seen[b] {
			continue
		}
		seen[b] = true
		if b == target {
			return true
		}
		for i, s := range b.Succs {
			if cut[edge{b, i}] {
				continue
			}
			stack = append(stack, s)
		}
	}
	return false
}

// R7iv — file-id lookups: a write to / close of a download's file handle
// happens only on the element whose FileID equals the function's parameter.
func R7FileID(c *Ctx) {
	const rule = "R7-fileid"
	c.R.Rule(rule, "every (*os.File).Write/Close on a Download's File handle is control-dependent on `<element>.FileID == <id parameter>` being true; unknown or closed ids reach no write", 2)
	for fn := range c.P.AllFuncs() {
		if fn.Blocks == nil || core.FuncPkgPath(fn) != PkgAgent {
			continue
		}
		for _, b := range fn.Blocks {
			for _, in := range b.Instrs {
				call, ok := in.(*ssa.Call)
				if !ok {
					continue
				}
				name := CalleeName(call)
				if name != "(*os.File).Write" && name != "(*os.File).WriteString" && name != "(*os.File).Close" {
					continue
				}
				recv := CallRecv(call)
				addr, ok := Deref(recv)
				if !ok {
					continue
				}
				t, f, base, ok := FieldOf(addr)
				if !ok || t != PkgAgent+".Download" || f != "File" {
					continue
				}
				construct := name + " on " + AccessPath(recv)
				// find a dominating FileID == param test on the same element
				found := false
				for _, fact := range FactsAt(b) {
					bo, ok := fact.Cond.(*ssa.BinOp)
					if !ok || bo.Op != token.EQL && bo.Op != token.NEQ {
						continue
					}
					if (bo.Op == token.EQL) != fact.Truth {
						continue
					}
					for _, pair := range [][2]ssa.Value{{bo.X, bo.Y}, {bo.Y, bo.X}} {
						la, ok := Deref(pair[0])
						if !ok {
							continue
						}
						t2, f2, base2, ok := FieldOf(la)
						if !ok || t2 != PkgAgent+".Download" || f2 != "FileID" {
							continue
						}
						if AccessPath(base2) != AccessPath(base) {
							continue
						}
						if _, isParam := pair[1].(*ssa.Parameter); isParam {
							found = true
						}
					}
				}
				if found {
					c.R.Ok(rule, FuncShort(fn), construct, c.pos(call.Pos()), "dominated by the FileID == parameter edge on the same element", true)
				} else {
					c.R.Bad(rule, FuncShort(fn), construct, c.pos(call.Pos()), "file handle of a download is written/closed without a dominating `FileID == <parameter>` test on the same element: chunks for another or unknown id would be written")
				}
			}
		}
	}
}

// normalisedBase: the base of a prefix test contains filepath.Clean/Join/Abs applied to a string that
// includes a parameter-derived component (not reduced by filepath.Base). Normalising after the untrusted
// component was appended folds its ".." into the base, so "Clean(p) has prefix base" compares the path with
// itself and vouches for nothing.
func normalisedBase(base ssa.Value) bool {
	for _, leaf := range ConcatLeaves(base) {
		call, ok := leaf.(*ssa.Call)
		if !ok {
			continue
		}
		switch CalleeName(call) {
		case "path/filepath.Clean", "path/filepath.Join", "path/filepath.Abs", "path.Clean", "path.Join":
		default:
			continue
		}
		for _, a := range call.Call.Args {
			var leaves []ssa.Value
			if sl, ok := a.(*ssa.Slice); ok { // variadic Join
				if al, ok := sl.X.(*ssa.Alloc); ok {
					for _, r := range *al.Referrers() {
						if ia, ok := r.(*ssa.IndexAddr); ok {
							for _, r2 := range *ia.Referrers() {
								if st, ok := r2.(*ssa.Store); ok && st.Addr == ssa.Value(ia) {
									leaves = append(leaves, ConcatLeaves(st.Val)...)
								}
							}
						}
					}
				}
			} else {
				leaves = ConcatLeaves(a)
			}
			untrusted, dir := false, false
			for _, l := range leaves {
				if c2, ok := l.(*ssa.Call); ok && (CalleeName(c2) == "path/filepath.Base" || CalleeName(c2) == "path.Base") {
					continue
				}
				if ParamOf(l) != nil {
					untrusted = true
					continue
				}
				if s, ok := ConstString(l); ok && strings.Trim(s, "/\\") == "" {
					continue // a bare separator
				}
				dir = true
			}
			// normalising the component alone keeps a leading ".." visible in the base; normalising
			// directory + component together hides it
			if untrusted && dir {
				return true
			}
		}
	}
	return false
}

// R7LootHandle — a download's file starts empty and only the named download is written.
func R7LootHandle(c *Ctx) {
	const rule = "R7-loot-handle"
	c.R.Rule(rule, "the handle stored into Download.File is opened truncating (os.Create, or os.OpenFile with O_TRUNC or O_EXCL and without O_APPEND): what is on disk afterwards is what this transfer sent, not appended to an earlier file; and the file id handed to DownloadWrite / DownloadClose / DownloadGet comes from the callback being processed, never from the download table itself (a chunk for an unknown or closed id is not redirected into another transfer)", 4)
	flagConst := func(name string) (int64, bool) {
		for _, pk := range c.P.SSA.AllPackages() {
			if pk.Pkg.Path() != "os" {
				continue
			}
			if cn, ok := pk.Pkg.Scope().Lookup(name).(*types.Const); ok {
				v, ok := constant.Int64Val(constant.ToInt(cn.Val()))
				return v, ok
			}
		}
		return 0, false
	}
	oTrunc, ok1 := flagConst("O_TRUNC")
	oExcl, ok2 := flagConst("O_EXCL")
	oAppend, ok3 := flagConst("O_APPEND")
	if !ok1 || !ok2 || !ok3 {
		c.R.Anchor(rule, "os.O_TRUNC / O_EXCL / O_APPEND")
		return
	}
	for _, fn := range c.P.ModuleFuncs(func(p string) bool { return p == PkgAgent }) {
		for _, b := range fn.Blocks {
			for _, in := range b.Instrs {
				switch x := in.(type) {
				case *ssa.Store:
					t, f, _, ok := FieldOf(x.Addr)
					if !ok || t != PkgAgent+".Download" || f != "File" {
						continue
					}
					v := x.Val
					if ex, ok := v.(*ssa.Extract); ok {
						v = ex.Tuple
					}
					call, ok := v.(*ssa.Call)
					if !ok {
						if k, isC := x.Val.(*ssa.Const); isC && k.IsNil() {
							continue
						}
						c.R.Bad(rule, FuncShort(fn), "Download.File = <truncating open>", c.pos(x.Pos()), "the download's file handle does not come directly from an open call")
						continue
					}
					construct := "Download.File = <truncating open>"
					switch CalleeName(call) {
					case "os.Create":
						c.R.Ok(rule, FuncShort(fn), construct, c.pos(x.Pos()), "os.Create truncates", true)
					case "os.OpenFile":
						fl, isC := ConstInt(call.Call.Args[1])
						if isC && (fl&oTrunc != 0 || fl&oExcl != 0) && fl&oAppend == 0 {
							c.R.Ok(rule, FuncShort(fn), construct, c.pos(x.Pos()), "OpenFile with O_TRUNC/O_EXCL", true)
						} else {
							c.R.Bad(rule, FuncShort(fn), construct, c.pos(x.Pos()), "the loot file is opened without truncation (or for append): a second transfer of the same remote path is written behind the bytes of the first, so the file on disk is not what was sent")
						}
					default:
						c.R.Bad(rule, FuncShort(fn), construct, c.pos(x.Pos()), "the loot file handle comes from "+CalleeName(call))
					}
				case ssa.CallInstruction:
					name := CalleeName(x)
					if name != "(*Havoc/pkg/agent.Agent).DownloadWrite" && name != "(*Havoc/pkg/agent.Agent).DownloadClose" && name != "(*Havoc/pkg/agent.Agent).DownloadGet" {
						continue
					}
					args := CallArgs(x)
					if len(args) == 0 {
						continue
					}
					construct := shortCallee(name) + "(id from the callback)"
					if DerivesFrom(args[0], IsFieldLoad(PkgAgent+".Download", "FileID")) || DerivesFrom(args[0], IsFieldLoad(PkgAgent+".Agent", "Downloads")) {
						c.R.Bad(rule, FuncShort(fn), construct, c.pos(x.Pos()), "the file id is taken from the agent's download table instead of the callback: data for an unknown or closed id is written into whatever transfer is open")
					} else {
						c.R.Ok(rule, FuncShort(fn), construct, c.pos(x.Pos()), "the id does not come from the download table", true)
					}
				}
			}
		}
	}
}

// idDecodeKind: how a 32-bit id on the wire became the int that is passed on — "u32" (zero-extended) or "s32"
// (sign-extended) — read off the first 32-bit-typed value in its backward chain; "" when undecided.
func (c *Ctx) idDecodeKind(v ssa.Value, depth int, seen map[ssa.Value]bool) string {
	if v == nil || depth > 12 || seen[v] {
		return ""
	}
	seen[v] = true
	if b, ok := v.Type().Underlying().(*types.Basic); ok {
		switch b.Kind() {
		case types.Uint32:
			return "u32"
		case types.Int32:
			return "s32"
		}
	}
	switch x := v.(type) {
	case *ssa.Parameter:
		// a helper's parameter: what its call sites pass (all must agree)
		h := x.Parent()
		idx := -1
		for i, q := range h.Params {
			if q == x {
				idx = i
			}
		}
		k := ""
		agree := idx >= 0 && c.EveryCallSite(h, func(site ssa.CallInstruction) bool {
			args := site.Common().Args
			if idx >= len(args) {
				return false
			}
			ke := c.idDecodeKind(args[idx], depth+1, seen)
			if ke == "" || (k != "" && ke != k) {
				return false
			}
			k = ke
			return true
		})
		if agree {
			return k
		}
		return ""
	case *ssa.Convert:
		return c.idDecodeKind(x.X, depth+1, seen)
	case *ssa.ChangeType:
		return c.idDecodeKind(x.X, depth+1, seen)
	case *ssa.Phi:
		k := ""
		for _, e := range x.Edges {
			if _, isC := e.(*ssa.Const); isC {
				continue
			}
			ke := c.idDecodeKind(e, depth+1, seen)
			if ke == "" || (k != "" && ke != k) {
				return ""
			}
			k = ke
		}
		return k
	case *ssa.UnOp:
		if x.Op == token.MUL {
			if al, ok := x.X.(*ssa.Alloc); ok {
				if b, ok := al.Type().Underlying().(*types.Pointer).Elem().Underlying().(*types.Basic); ok {
					switch b.Kind() {
					case types.Uint32:
						return "u32"
					case types.Int32:
						return "s32"
					}
				}
				k := ""
				for _, r := range *al.Referrers() {
					if st, ok := r.(*ssa.Store); ok && st.Addr == ssa.Value(al) {
						if _, isC := st.Val.(*ssa.Const); isC {
							continue
						}
						ke := c.idDecodeKind(st.Val, depth+1, seen)
						if ke == "" || (k != "" && ke != k) {
							return ""
						}
						k = ke
					}
				}
				return k
			}
		}
	case *ssa.Extract:
		if call, ok := x.Tuple.(*ssa.Call); ok {
			return c.idDecodeKindOfCall(call, x.Index, depth, seen)
		}
	case *ssa.Call:
		return c.idDecodeKindOfCall(x, 0, depth, seen)
	}
	return ""
}

func (c *Ctx) idDecodeKindOfCall(call *ssa.Call, idx, depth int, seen map[ssa.Value]bool) string {
	callee := call.Call.StaticCallee()
	if callee == nil || callee.Blocks == nil {
		return ""
	}
	k := ""
	for _, b := range callee.Blocks {
		ret, ok := b.Instrs[len(b.Instrs)-1].(*ssa.Return)
		if !ok || idx >= len(ret.Results) {
			continue
		}
		if _, isC := ret.Results[idx].(*ssa.Const); isC {
			continue
		}
		ke := c.idDecodeKind(ret.Results[idx], depth+1, seen)
		if ke == "" || (k != "" && ke != k) {
			return ""
		}
		k = ke
	}
	return k
}

// R7FileIDDecode — open, write and close decode the file id the same way.
func R7FileIDDecode(c *Ctx) {
	const rule = "R7-fileid-decode"
	c.R.Rule(rule, "the file id that TaskDispatch hands to DownloadAdd (open), DownloadWrite and DownloadGet/DownloadClose is decoded from its four wire bytes with the same signedness at every site (today: unsigned, through Uint32/ParseInt32): a sibling that sign-extends looks up ids >= 0x80000000 that were registered under their unsigned value, so chunks and the close of such a transfer are dropped and the loot file stays empty and open", 4)
	td := c.P.Func(PkgAgent, "Agent.TaskDispatch")
	if td == nil {
		c.R.Anchor(rule, "agent.(*Agent).TaskDispatch")
		return
	}
	type site struct {
		name, kind, pos string
	}
	var sites []site
	argIdx := map[string]int{
		"(*Havoc/pkg/agent.Agent).DownloadAdd":   0,
		"(*Havoc/pkg/agent.Agent).DownloadWrite": 0,
		"(*Havoc/pkg/agent.Agent).DownloadGet":   0,
		"(*Havoc/pkg/agent.Agent).DownloadClose": 0,
	}
	for _, fn := range HelperClosure(td, 1) {
		EachCall(fn, func(call ssa.CallInstruction) {
			name := CalleeName(call)
			i, ok := argIdx[name]
			if !ok {
				return
			}
			args := CallArgs(call)
			if i >= len(args) {
				return
			}
			sites = append(sites, site{shortCallee(name), c.idDecodeKind(args[i], 0, map[ssa.Value]bool{}), c.pos(call.Pos())})
		})
	}
	count := map[string]int{}
	for _, s := range sites {
		count[s.kind]++
	}
	major := "u32"
	if count["s32"] > count["u32"] {
		major = "s32"
	}
	ord := map[string]int{}
	for _, s := range sites {
		ord[s.name]++
		construct := s.name + " file id decode #" + itoa(ord[s.name])
		switch {
		case s.kind == "":
			c.R.Und(rule, FuncShort(td), construct, s.pos, "could not determine how the id was widened from its 32 wire bits")
		case s.kind == major:
			c.R.Ok(rule, FuncShort(td), construct, s.pos, "decoded as "+s.kind+" like its siblings", true)
		default:
			c.R.Bad(rule, FuncShort(td), construct, s.pos, "this site widens the id as "+s.kind+" while the others use "+major+": ids with the top bit set name different transfers at open and at write/close")
		}
	}
	if len(sites) == 0 {
		c.R.Anchor(rule, "calls of DownloadAdd/DownloadWrite/DownloadGet/DownloadClose in TaskDispatch")
	}
}

// R7CloseReasons — every end-of-transfer reason the close handler distinguishes releases the transfer.
func R7CloseReasons(c *Ctx) {
	const rule = "R7-close-reasons"
	c.R.Rule(rule, "where TaskDispatch calls DownloadClose under a test `v == k` of a value v parsed from the callback that is compared with fewer than four constants in all (a reason/flag, not a command tag), every constant v is compared with has a DownloadClose call under it: the branches that tell the operator a transfer ended (finished, removed) all release it — a branch that only reports leaves the file handle open and the id accepting chunks", 1)
	td := c.P.Func(PkgAgent, "Agent.TaskDispatch")
	if td == nil {
		c.R.Anchor(rule, "agent.(*Agent).TaskDispatch")
		return
	}
	parsed := func(v ssa.Value) ssa.Value {
		for {
			if cv, ok := v.(*ssa.Convert); ok {
				v = cv.X
				continue
			}
			break
		}
		if call, ok := v.(*ssa.Call); ok && strings.HasPrefix(CalleeName(call), "(*Havoc/pkg/common/parser.Parser).Parse") {
			return call
		}
		return nil
	}
	// a parameter of a helper with one call site stands for the value parsed at that site
	var parsedDeep func(v ssa.Value, depth int) ssa.Value
	parsedDeep = func(v ssa.Value, depth int) ssa.Value {
		if x := parsed(v); x != nil {
			return x
		}
		for {
			if cv, ok := v.(*ssa.Convert); ok {
				v = cv.X
				continue
			}
			break
		}
		prm, ok := v.(*ssa.Parameter)
		if !ok || depth > 2 {
			return nil
		}
		h := prm.Parent()
		idx := -1
		for i, q := range h.Params {
			if q == prm {
				idx = i
			}
		}
		var res ssa.Value
		nSites := 0
		if idx < 0 || !c.EveryCallSite(h, func(site ssa.CallInstruction) bool {
			nSites++
			if idx < len(site.Common().Args) {
				res = parsedDeep(site.Common().Args[idx], depth+1)
			}
			return true
		}) || nSites != 1 {
			return nil
		}
		return res
	}
	n := 0
	consts := map[ssa.Value]map[int64]token.Pos{}
	closedUnder := map[ssa.Value]map[int64]bool{}
	for _, fn := range HelperClosure(td, 1) {
		for _, b := range fn.Blocks {
			for _, in := range b.Instrs {
				bo, ok := in.(*ssa.BinOp)
				if !ok || (bo.Op != token.EQL && bo.Op != token.NEQ) {
					continue
				}
				for _, pair := range [][2]ssa.Value{{bo.X, bo.Y}, {bo.Y, bo.X}} {
					if x := parsedDeep(pair[0], 0); x != nil {
						if k, isC := ConstInt(pair[1]); isC {
							if consts[x] == nil {
								consts[x] = map[int64]token.Pos{}
							}
							consts[x][k] = bo.Pos()
						}
					}
				}
			}
		}
	}
	for _, fn := range HelperClosure(td, 1) {
		EachCall(fn, func(call ssa.CallInstruction) {
			if CalleeName(call) != "(*Havoc/pkg/agent.Agent).DownloadClose" {
				return
			}
			// the innermost test of a parsed value around the call (outer ones select the sub-command and the mode)
			var inX ssa.Value
			var inK int64
			var inIf *ssa.If
			for _, f := range FactsAt(call.Block()) {
				cond, truth := StripNot(f.Cond, f.Truth)
				bo, ok := cond.(*ssa.BinOp)
				if !ok || !((bo.Op == token.EQL) == truth) || (bo.Op != token.EQL && bo.Op != token.NEQ) {
					continue
				}
				for _, pair := range [][2]ssa.Value{{bo.X, bo.Y}, {bo.Y, bo.X}} {
					if x := parsedDeep(pair[0], 0); x != nil {
						if k, isC := ConstInt(pair[1]); isC {
							if inIf == nil || inIf.Block().Dominates(f.If.Block()) {
								inX, inK, inIf = x, k, f.If
							}
						}
					}
				}
			}
			if inX != nil && len(consts[inX]) < 4 {
				if closedUnder[inX] == nil {
					closedUnder[inX] = map[int64]bool{}
				}
				closedUnder[inX][inK] = true
			}
		})
	}
	for x, ks := range closedUnder {
		n++
		construct := "DownloadClose under every compared value of a parsed reason"
		missing := ""
		var pos token.Pos
		for k, p := range consts[x] {
			if !ks[k] {
				missing = itoa(int(k))
				pos = p
			}
		}
		if missing == "" {
			c.R.Ok(rule, FuncShort(td), construct, c.pos(x.Pos()), "all distinguished reasons release the transfer", true)
		} else {
			c.R.Bad(rule, FuncShort(td), construct, c.pos(pos), "the handler distinguishes the value "+missing+" of this field but does not call DownloadClose under it, while it does under its siblings: that end-of-transfer report leaves the download open")
		}
	}

	if n == 0 {
		c.R.Anchor(rule, "a DownloadClose call under a reason test in TaskDispatch")
	}
}
