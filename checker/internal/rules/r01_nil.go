package rules

import (
	"fmt"
	"go/token"
	"go/types"
	"sort"
	"strings"

	"golang.org/x/tools/go/ssa"

	"hv/internal/core"
)

// optionalFields are pointer-typed struct fields that are legitimately nil in
// a reachable state (set only when the profile has the corresponding block).
var optionalFields = map[string]string{
	PkgServer + ".Teamserver.Service":   "nil when the profile has no Service block",
	PkgServer + ".Teamserver.WebHooks":  "",
	PkgProfile + ".HavocConfig.Service": "optional profile block",
	PkgProfile + ".HavocConfig.WebHook": "optional profile block",
	PkgAgent + ".Pivots.Parent":         "nil for agents that are not pivot children",
	PkgAgent + ".PortFwd.Conn":          "nil until the forward is opened",
	PkgAgent + ".SocksServer.Server":    "nil after the proxy was removed",
}

// nilImplications: guard(x) == true  =>  getter(x) != nil.
var nilImplications = map[string]string{
	".AgentInstance": ".AgentExist",
	".ServiceAgent":  ".ServiceAgentExist",
}

func isNilable(t types.Type) bool {
	switch t.Underlying().(type) {
	case *types.Pointer, *types.Interface:
		return true
	}
	return false
}

// NullableFuncs computes the module functions that may return nil for a
// pointer/interface result, to a fixpoint: result index -> true.
func (c *Ctx) NullableFuncs() map[*ssa.Function]map[int]bool {
	if c.nullable != nil {
		return c.nullable
	}
	res := map[*ssa.Function]map[int]bool{}
	var fns []*ssa.Function
	for fn := range c.P.AllFuncs() {
		if fn.Blocks == nil || !c.P.InModule(core.FuncPkgPath(fn)) || IsYaotl(core.FuncPkgPath(fn)) {
			continue
		}
		fns = append(fns, fn)
		res[fn] = map[int]bool{}
	}
	callNullable := func(call *ssa.Call, idx int) bool {
		if fn := call.Call.StaticCallee(); fn != nil {
			return res[fn][idx]
		}
		if call.Call.IsInvoke() {
			if n := c.P.CHA().Nodes[call.Parent()]; n != nil {
				for _, e := range n.Out {
					if e.Site == ssa.CallInstruction(call) && res[e.Callee.Func][idx] {
						return true
					}
				}
			}
		}
		return false
	}
	var mayNil func(v ssa.Value, seen map[ssa.Value]bool) bool
	mayNil = func(v ssa.Value, seen map[ssa.Value]bool) bool {
		if seen[v] {
			return false
		}
		seen[v] = true
		switch x := v.(type) {
		case *ssa.Const:
			return x.Value == nil
		case *ssa.Phi:
			for _, e := range x.Edges {
				if mayNil(e, seen) {
					return true
				}
			}
		case *ssa.Call:
			return callNullable(x, 0)
		case *ssa.Extract:
			if call, ok := x.Tuple.(*ssa.Call); ok {
				return callNullable(call, x.Index)
			}
		case *ssa.ChangeType:
			return mayNil(x.X, seen)
		case *ssa.MakeInterface:
			return false
		case *ssa.UnOp:
			if al, ok := x.X.(*ssa.Alloc); ok && x.Op == token.MUL {
				for _, r := range *al.Referrers() {
					if st, ok := r.(*ssa.Store); ok && st.Addr == ssa.Value(al) && mayNil(st.Val, seen) {
						return true
					}
				}
			}
		}
		return false
	}
	for changed := true; changed; {
		changed = false
		for _, fn := range fns {
			for _, b := range fn.Blocks {
				if len(b.Instrs) == 0 {
					continue
				}
				ret, ok := b.Instrs[len(b.Instrs)-1].(*ssa.Return)
				if !ok {
					continue
				}
				for i, r := range ret.Results {
					if !isNilable(r.Type()) || res[fn][i] {
						continue
					}
					// a returned value that was nil-checked on this path is not nil
					if mayNil(r, map[ssa.Value]bool{}) && !c.nonNilAt(r, ret) {
						res[fn][i] = true
						changed = true
					}
				}
			}
		}
	}
	c.nullable = res
	c.mayNilFn = mayNil
	return res
}

// nonNilAt: a dominating branch established v != nil at instruction at.
func (c *Ctx) nonNilAt(v ssa.Value, at ssa.Instruction) bool {
	for _, f := range FactsAt(at.Block()) {
		bo, ok := f.Cond.(*ssa.BinOp)
		if !ok || (bo.Op != token.EQL && bo.Op != token.NEQ) {
			continue
		}
		var w ssa.Value
		if isNilConst(bo.Y) {
			w = bo.X
		} else if isNilConst(bo.X) {
			w = bo.Y
		} else {
			continue
		}
		nonNil := (bo.Op == token.NEQ) == f.Truth
		if !nonNil {
			continue
		}
		if c.sameValue(w, v, f.If, at) {
			return true
		}
	}
	return false
}

// sameValue: w (tested at instruction tst) denotes the same pointer as v (used at use).
func (c *Ctx) sameValue(w, v ssa.Value, tst, use ssa.Instruction) bool {
	if w == v {
		return true
	}
	// conversions
	if ct, ok := v.(*ssa.ChangeType); ok && ct.X == w {
		return true
	}
	// two loads of the same local variable cell / same field path without a store in between
	wl, ok1 := w.(*ssa.UnOp)
	vl, ok2 := v.(*ssa.UnOp)
	if ok1 && ok2 && wl.Op == token.MUL && vl.Op == token.MUL {
		if wa, ok := wl.X.(*ssa.Alloc); ok && wl.X == vl.X {
			return c.allocStableBetween(wa, wl, vl)
		}
		k1, f1 := pathKey(wl.X)
		k2, _ := pathKey(vl.X)
		if k1 != "" && k1 == k2 {
			return c.stableBetween(wl, vl, f1)
		}
	}
	return false
}

// allocStableBetween: no store to cell al on any path from a to b.
func (c *Ctx) allocStableBetween(al *ssa.Alloc, a, b ssa.Instruction) bool {
	if !InstrDominates(a, b) {
		return false
	}
	for _, r := range *al.Referrers() {
		st, ok := r.(*ssa.Store)
		if !ok || st.Addr != ssa.Value(al) {
			if mc, ok := r.(*ssa.MakeClosure); ok {
				// a closure that writes the captured variable
				fn := mc.Fn.(*ssa.Function)
				for i, bnd := range mc.Bindings {
					if bnd == ssa.Value(al) && i < len(fn.FreeVars) {
						for _, r2 := range *fn.FreeVars[i].Referrers() {
							if s2, ok := r2.(*ssa.Store); ok && s2.Addr == ssa.Value(fn.FreeVars[i]) {
								return false
							}
						}
					}
				}
			}
			continue
		}
		// is the store on a path from a to b (not re-passing a)?
		if InstrDominates(st, a) && !BlockReaches(b.Block(), st.Block(), map[*ssa.BasicBlock]bool{}) {
			continue
		}
		if st.Block() == a.Block() && InstrBlockIndex(st) < InstrBlockIndex(a) && !blockInCycle(a.Block()) {
			continue
		}
		if BlockReaches(a.Block(), st.Block(), nil) && BlockReaches(st.Block(), b.Block(), map[*ssa.BasicBlock]bool{a.Block(): a.Block() != st.Block()}) {
			// same block ordering
			if st.Block() == a.Block() && st.Block() == b.Block() && !(InstrBlockIndex(a) < InstrBlockIndex(st) && InstrBlockIndex(st) < InstrBlockIndex(b)) && !blockInCycle(a.Block()) {
				continue
			}
			if st.Block() == b.Block() && st.Block() != a.Block() && InstrBlockIndex(st) > InstrBlockIndex(b) && !blockInCycle(b.Block()) {
				continue
			}
			return false
		}
	}
	return true
}

func blockInCycle(b *ssa.BasicBlock) bool {
	for _, s := range b.Succs {
		if BlockReaches(s, b, nil) {
			return true
		}
	}
	return false
}

// R1Nil — nil dereference of nullable results and optional fields.
func R1Nil(c *Ctx, scope []*ssa.Function, ruleSuffix string, floor int) {
	R1NilOpt(c, scope, ruleSuffix, floor, nil, true)
}

// R1NilOpt is R1Nil with a configurable set of optional fields; withCalls=false
// restricts the nullable sources to those fields (no function results).
func R1NilOpt(c *Ctx, scope []*ssa.Function, ruleSuffix string, floor int, optional func(tf string) bool, withCalls bool) {
	rule := "R1-nil" + ruleSuffix
	c.R.Rule(rule, "every dereference (field access, method call, load/store through, map update) of a value that may be nil — the result of a module function with a `return nil` path (fixpoint summary), or an optional pointer field — is dominated by a nil test of the same value (or by the existence test that implies it)", floor)
	nullable := c.NullableFuncs()
	reviewed := loadReviewed(c)
	var names []string
	for fn, m := range nullable {
		for i := range m {
			names = append(names, fmt.Sprintf("%s#%d", FuncShort(fn), i))
		}
	}
	sort.Strings(names)
	c.R.Extra["nullable_functions"+ruleSuffix] = names
	for _, fn := range scope {
		// nullable values of fn
		nul := map[ssa.Value]string{}
		for _, b := range fn.Blocks {
			for _, in := range b.Instrs {
				switch x := in.(type) {
				case *ssa.Call:
					if !withCalls {
						continue
					}
					if !isNilable(x.Type()) && x.Call.Signature().Results().Len() <= 1 {
						continue
					}
					if c.callMayReturnNil(x, 0) && isNilable(x.Type()) {
						nul[x] = "result of " + shortCallee(CalleeName(x))
					}
				case *ssa.Extract:
					if call, ok := x.Tuple.(*ssa.Call); ok && withCalls && isNilable(x.Type()) && c.callMayReturnNil(call, x.Index) {
						nul[x] = "result of " + shortCallee(CalleeName(call))
					}
				case *ssa.UnOp:
					if x.Op == token.MUL && isNilable(x.Type()) {
						if t, f, _, ok := FieldOf(x.X); ok {
							_, opt := optionalFields[t+"."+f]
							if optional != nil {
								opt = optional(t + "." + f)
							}
							if opt {
								nul[x] = "optional field " + f
							}
						}
					}
				}
			}
		}
		// propagate through phis and local cells
		for changed := true; changed; {
			changed = false
			for _, b := range fn.Blocks {
				for _, in := range b.Instrs {
					switch x := in.(type) {
					case *ssa.Phi:
						if _, ok := nul[x]; ok {
							continue
						}
						for _, e := range x.Edges {
							if why, ok := nul[e]; ok {
								nul[x] = why
								changed = true
								break
							}
							if isNilConst(e) && isNilable(x.Type()) {
								nul[x] = "nil on one incoming edge"
								changed = true
								break
							}
						}
					case *ssa.UnOp:
						if _, ok := nul[x]; ok || x.Op != token.MUL {
							continue
						}
						if al, ok := x.X.(*ssa.Alloc); ok && isNilable(x.Type()) {
							for _, r := range *al.Referrers() {
								if st, ok := r.(*ssa.Store); ok && st.Addr == ssa.Value(al) {
									if why, ok := nul[st.Val]; ok {
										nul[x] = why
										changed = true
									} else if isNilConst(st.Val) {
										nul[x] = "variable initialised to nil"
										changed = true
									}
								}
							}
						}
					case *ssa.ChangeType:
						if why, ok := nul[x.X]; ok {
							if _, had := nul[x]; !had {
								nul[x] = why
								changed = true
							}
						}
					}
				}
			}
		}
		if len(nul) == 0 {
			continue
		}
		// uses
		for _, b := range fn.Blocks {
			for _, in := range b.Instrs {
				var v ssa.Value
				kind := ""
				switch x := in.(type) {
				case *ssa.FieldAddr:
					v, kind = x.X, "field access"
				case *ssa.Field:
					continue
				case *ssa.UnOp:
					if x.Op == token.MUL {
						if _, isPtr := x.X.Type().Underlying().(*types.Pointer); isPtr {
							v, kind = x.X, "load through"
						}
					}
				case *ssa.Store:
					v, kind = x.Addr, "store through"
				case *ssa.MapUpdate:
					v, kind = x.Map, "map update"
				case ssa.CallInstruction:
					cc := x.Common()
					if cc.IsInvoke() {
						v, kind = cc.Value, "method call on"
					} else if fnc := cc.StaticCallee(); fnc != nil && fnc.Signature.Recv() != nil && len(cc.Args) > 0 {
						if _, isPtr := cc.Args[0].Type().Underlying().(*types.Pointer); isPtr && c.P.InModule(core.FuncPkgPath(fnc)) {
							v, kind = cc.Args[0], "method call on"
						}
					}
				}
				// a nullable value handed to a callee that dereferences that parameter unguarded
				if ci, ok := in.(ssa.CallInstruction); ok {
					cc := ci.Common()
					if callee := cc.StaticCallee(); callee != nil || cc.IsInvoke() {
						for ai, a := range cc.Args {
							why, isNul := nul[a]
							if !isNul || !c.calleeDerefsArg(ci, ai) {
								continue
							}
							construct := "pass " + AccessPath(a) + " to " + shortCallee(CalleeName(ci))
							if c.nonNilAt(a, in) || c.impliedNonNil(a, in) {
								c.R.Ok(rule, FuncShort(fn), construct, c.pos(in.Pos()), "nil-checked before the call: "+why, true)
							} else if w, isRev := c.reviewedWhy(reviewed, fn, FuncShort(fn), construct); isRev {
								c.R.Ok(rule, FuncShort(fn), construct, c.pos(in.Pos()), "reviewed: "+w, true)
							} else {
								c.R.Bad(rule, FuncShort(fn), construct, c.pos(in.Pos()), "may be nil ("+why+") and the callee dereferences that parameter without a nil test")
							}
						}
					}
				}
				if v == nil {
					continue
				}
				why, isNul := nul[v]
				if !isNul {
					continue
				}
				construct := kind + " " + AccessPath(v)
				if c.nonNilAt(v, in) {
					c.R.Ok(rule, FuncShort(fn), construct, c.pos(in.Pos()), "nil-checked: "+why, true)
					continue
				}
				// implication: guard(x) true => getter(x) != nil
				if c.impliedNonNil(v, in) {
					c.R.Ok(rule, FuncShort(fn), construct, c.pos(in.Pos()), "existence test with the same argument dominates: "+why, true)
					continue
				}
				// a phi whose nil edges are excluded by the dominating checks on its operands
				if ph, ok := v.(*ssa.Phi); ok && c.phiNonNil(ph, nul) {
					c.R.Ok(rule, FuncShort(fn), construct, c.pos(in.Pos()), "every incoming edge was nil-checked: "+why, true)
					continue
				}
				if w, isRev := c.reviewedWhy(reviewed, fn, FuncShort(fn), construct); isRev {
					c.R.Ok(rule, FuncShort(fn), construct, c.pos(in.Pos()), "reviewed: "+w, true)
					continue
				}
				c.R.Bad(rule, FuncShort(fn), construct, c.pos(in.Pos()), "may be nil ("+why+") and is dereferenced without a dominating nil test: nil pointer dereference")
			}
		}
	}
}

func (c *Ctx) callMayReturnNil(call *ssa.Call, idx int) bool {
	nullable := c.NullableFuncs()
	if fn := call.Call.StaticCallee(); fn != nil {
		return nullable[fn][idx]
	}
	if call.Call.IsInvoke() {
		if n := c.P.CHA().Nodes[call.Parent()]; n != nil {
			for _, e := range n.Out {
				if e.Site == ssa.CallInstruction(call) && nullable[e.Callee.Func][idx] {
					return true
				}
			}
		}
	}
	return false
}

// impliedNonNil: v = X.Getter(arg) and a dominating X.Guard(arg') == true with arg' same as arg.
func (c *Ctx) impliedNonNil(v ssa.Value, at ssa.Instruction) bool {
	// (value, err) := helper(): the helper returns a nil value only together with a non-nil error, and the use is
	// on the err == nil side
	if ex, ok := v.(*ssa.Extract); ok {
		if call, ok := ex.Tuple.(*ssa.Call); ok {
			if fn := call.Call.StaticCallee(); fn != nil && fn.Blocks != nil && c.errCorrelated(fn, ex.Index) {
				last := fn.Signature.Results().Len() - 1
				for _, f := range FactsAt(at.Block()) {
					bo, ok := f.Cond.(*ssa.BinOp)
					if !ok || !(isNilConst(bo.X) || isNilConst(bo.Y)) {
						continue
					}
					e := bo.X
					if isNilConst(bo.X) {
						e = bo.Y
					}
					if ee, ok := e.(*ssa.Extract); ok && ee.Tuple == ssa.Value(call) && ee.Index == last {
						if (bo.Op == token.EQL) == f.Truth {
							return true
						}
					}
				}
			}
		}
	}
	call, ok := v.(*ssa.Call)
	if !ok {
		// through a local variable: find the single stored call
		if l, ok := v.(*ssa.UnOp); ok && l.Op == token.MUL {
			if al, ok := l.X.(*ssa.Alloc); ok {
				for _, r := range *al.Referrers() {
					if st, ok := r.(*ssa.Store); ok && st.Addr == ssa.Value(al) {
						if cl, ok := st.Val.(*ssa.Call); ok && c.impliedNonNil(cl, at) && c.allocStableBetween(al, st, at) {
							return true
						}
					}
				}
			}
		}
		return false
	}
	name := CalleeName(call)
	for getter, guard := range nilImplications {
		if !strings.HasSuffix(name, getter) {
			continue
		}
		args := CallArgs(call)
		for _, f := range FactsAt(at.Block()) {
			g, ok := f.Cond.(*ssa.Call)
			if !ok || !f.Truth || !strings.HasSuffix(CalleeName(g), guard) {
				continue
			}
			ga := CallArgs(g)
			if len(ga) == len(args) && len(args) == 1 && (ga[0] == args[0] || AccessPath(ga[0]) == AccessPath(args[0])) {
				return true
			}
		}
	}
	return false
}

// phiNonNil: each incoming edge is either not nullable or comes from a block
// where its operand was nil-checked.
func (c *Ctx) phiNonNil(ph *ssa.Phi, nul map[ssa.Value]string) bool {
	for i, e := range ph.Edges {
		if isNilConst(e) {
			return false
		}
		if _, isNul := nul[e]; !isNul {
			continue
		}
		pred := ph.Block().Preds[i]
		if len(pred.Instrs) == 0 {
			return false
		}
		if !c.nonNilAt(e, pred.Instrs[len(pred.Instrs)-1]) {
			return false
		}
	}
	return true
}

// R1AgentsAppendOnly — sessions are never removed from the session table (the
// argument several reviewed nil-obligations rest on: an id taken from a live
// session still resolves).
func R1AgentsAppendOnly(c *Ctx) {
	const rule = "R1-agents-append-only"
	c.R.Rule(rule, "the session table Agents.Agents is only ever appended to (no removal, re-slice or reset): AgentInstance(id) of an id that once resolved keeps resolving", 1)
	n := 0
	for fn := range c.P.AllFuncs() {
		if fn.Blocks == nil || !c.P.InModule(core.FuncPkgPath(fn)) {
			continue
		}
		for _, b := range fn.Blocks {
			for _, in := range b.Instrs {
				st, ok := in.(*ssa.Store)
				if !ok {
					continue
				}
				t, f, base, ok := FieldOf(st.Addr)
				if !ok || t != PkgAgent+".Agents" || f != "Agents" {
					continue
				}
				n++
				okApp := false
				if call, ok := st.Val.(*ssa.Call); ok && CalleeName(call) == "builtin.append" {
					// first argument is the current table itself (not a sub-slice)
					if l, ok := call.Call.Args[0].(*ssa.UnOp); ok && l.Op == token.MUL {
						if t2, f2, b2, ok := FieldOf(l.X); ok && t2 == t && f2 == f && AccessPath(b2) == AccessPath(base) {
							okApp = true
						}
					}
				}
				if okApp {
					c.R.Ok(rule, FuncShort(fn), "Agents.Agents = append(Agents.Agents, …)", c.pos(st.Pos()), "grows the table", true)
				} else {
					c.R.Bad(rule, FuncShort(fn), "Agents.Agents = "+AccessPath(st.Val), c.pos(st.Pos()), "the session table is shrunk or replaced: ids held by queued relay jobs and pivot links may stop resolving (nil dereference at their use sites)")
				}
			}
		}
	}
	if n == 0 {
		c.R.Anchor(rule, "a store to agent.Agents.Agents")
	}
}

// derefParams: for module functions, the parameters (by index, receiver = 0)
// that are dereferenced on some path without a dominating nil test.
func (c *Ctx) derefParams() map[*ssa.Function]map[int]bool {
	if c.derefs != nil {
		return c.derefs
	}
	res := map[*ssa.Function]map[int]bool{}
	for fn := range c.P.AllFuncs() {
		if fn.Blocks == nil || !c.P.InModule(core.FuncPkgPath(fn)) || IsYaotl(core.FuncPkgPath(fn)) {
			continue
		}
		m := map[int]bool{}
		for pi, prm := range fn.Params {
			if _, isPtr := prm.Type().Underlying().(*types.Pointer); !isPtr {
				continue
			}
			for _, b := range fn.Blocks {
				for _, in := range b.Instrs {
					var v ssa.Value
					switch x := in.(type) {
					case *ssa.FieldAddr:
						v = x.X
					case *ssa.UnOp:
						if x.Op == token.MUL {
							v = x.X
						}
					case *ssa.Store:
						v = x.Addr
					}
					if v == nil || ParamOf(v) != prm {
						continue
					}
					if !c.nonNilAt(v, in) {
						m[pi] = true
					}
				}
			}
		}
		res[fn] = m
	}
	c.derefs = res
	return res
}

// calleeDerefsArg: some possible callee of the call dereferences argument ai unguarded.
func (c *Ctx) calleeDerefsArg(ci ssa.CallInstruction, ai int) bool {
	d := c.derefParams()
	cc := ci.Common()
	if fn := cc.StaticCallee(); fn != nil {
		return d[fn][ai]
	}
	if cc.IsInvoke() {
		if n := c.P.CHA().Nodes[ci.Parent()]; n != nil {
			for _, e := range n.Out {
				if e.Site == ci && d[e.Callee.Func][ai+1] { // receiver shifts parameters by one
					return true
				}
			}
		}
	}
	return false
}

// errCorrelated: fn returns (…, error) and whenever result idx is the nil constant the error result is not.
func (c *Ctx) errCorrelated(fn *ssa.Function, idx int) bool {
	res := fn.Signature.Results()
	if res.Len() < 2 || res.At(res.Len()-1).Type().String() != "error" || idx >= res.Len()-1 {
		return false
	}
	last := res.Len() - 1
	any := false
	for _, b := range fn.Blocks {
		if len(b.Instrs) == 0 {
			continue
		}
		ret, ok := b.Instrs[len(b.Instrs)-1].(*ssa.Return)
		if !ok || len(ret.Results) != res.Len() {
			continue
		}
		any = true
		v := ret.Results[idx]
		k, isC := v.(*ssa.Const)
		if isC && k.IsNil() {
			if ek, isEC := ret.Results[last].(*ssa.Const); isEC && ek.IsNil() {
				return false
			}
			continue
		}
		if isC {
			continue
		}
		// a non-constant value: it must itself be non-nullable on this path
		if c.mayNilFn != nil && c.mayNilFn(v, map[ssa.Value]bool{}) && !c.nonNilAt(v, ret) {
			return false
		}
	}
	return any
}
