package rules

import (
	"go/token"
	"go/types"
	"path/filepath"
	"sort"
	"strings"

	"golang.org/x/tools/go/ssa"
)

const PkgJSON = PkgYaotl + "/json"

// progressScope: the hand-written recursive-descent parsers (not the ragel-generated scanners).
func (c *Ctx) progressScope() []*ssa.Function {
	files := map[string]bool{
		"parser.go": true, "parser_template.go": true, "parser_traversal.go": true, "peeker.go": true,
	}
	var out []*ssa.Function
	for _, fn := range c.P.ModuleFuncs(func(p string) bool { return p == PkgHclsyntax || p == PkgJSON }) {
		if fn.Blocks == nil || !fn.Pos().IsValid() {
			continue
		}
		base := filepath.Base(c.P.Fset.Position(fn.Pos()).Filename)
		if FuncPkgPathOf(fn) == PkgHclsyntax && !files[base] {
			continue
		}
		if FuncPkgPathOf(fn) == PkgJSON && base != "parser.go" && base != "peeker.go" {
			continue
		}
		out = append(out, fn)
	}
	sort.Slice(out, func(i, j int) bool { return out[i].Pos() < out[j].Pos() })
	return out
}

func isTokenRead(name string) bool {
	return name == "(*"+PkgHclsyntax+".peeker).Read" || name == "(*"+PkgJSON+".peeker).Read" || name == "(*"+PkgHclsyntax+".templateParser).Read"
}

// advanceFuncs: bufio.SplitFunc-style scanners; with atEOF=true and a non-empty input they return advance > 0.
var advanceFuncs = map[string]bool{
	"github.com/apparentlymart/go-textseg/v13/textseg.ScanGraphemeClusters": true,
	"github.com/apparentlymart/go-textseg/v13/textseg.ScanUTF8Sequences":    true,
}

// shrinkingLoop: the loop is governed by a slice that gets strictly shorter on every way round:
// x = x[:len(x)-1], x = x[k:] with constant k > 0, or x = x[adv:] with adv the advance of a listed scanner.
func shrinkingLoop(l *natLoop) bool {
	h := l.header
	for _, in := range h.Instrs {
		ph, ok := in.(*ssa.Phi)
		if !ok {
			continue
		}
		if _, isSlice := ph.Type().Underlying().(*types.Slice); !isSlice {
			continue
		}
		// the header tests len(phi)
		tested := false
		for _, r := range *ph.Referrers() {
			if call, ok := r.(*ssa.Call); ok && CalleeName(call) == "builtin.len" && call.Block() == h {
				tested = true
			}
		}
		if !tested {
			continue
		}
		all, any := true, false
		for i, e := range ph.Edges {
			if !l.body[h.Preds[i]] {
				continue
			}
			any = true
			sl, ok := e.(*ssa.Slice)
			if !ok || sl.X != ssa.Value(ph) {
				all = false
				continue
			}
			switch {
			case sl.Low == nil && sl.High != nil:
				bo, ok := sl.High.(*ssa.BinOp)
				if !ok || bo.Op != token.SUB {
					all = false
					break
				}
				k, isC := ConstInt(bo.Y)
				ln, isLen := bo.X.(*ssa.Call)
				if !isC || k <= 0 || !isLen || CalleeName(ln) != "builtin.len" || ln.Call.Args[0] != ssa.Value(ph) {
					all = false
				}
			case sl.Low != nil && sl.High == nil:
				if k, isC := ConstInt(sl.Low); isC && k > 0 {
					break
				}
				if ex, ok := sl.Low.(*ssa.Extract); ok && ex.Index == 0 {
					if call, ok := ex.Tuple.(*ssa.Call); ok && advanceFuncs[CalleeName(call)] {
						break
					}
				}
				all = false
			default:
				all = false
			}
		}
		if all && any {
			return true
		}
	}
	return false
}

// mustConsume computes the functions every returning path of which reads at least one token.
func (c *Ctx) mustConsume(scope []*ssa.Function) map[*ssa.Function]bool {
	m := map[*ssa.Function]bool{}
	for changed := true; changed; {
		changed = false
		for _, fn := range scope {
			if m[fn] {
				continue
			}
			cut := c.cutBlocks(fn, m)
			if len(fn.Blocks) == 0 {
				continue
			}
			// can a Return be reached from the entry through non-cut blocks?
			seen := map[*ssa.BasicBlock]bool{}
			escapes := false
			var walk func(b *ssa.BasicBlock)
			walk = func(b *ssa.BasicBlock) {
				if seen[b] || escapes || cut[b] {
					return
				}
				seen[b] = true
				if len(b.Instrs) > 0 {
					if _, ok := b.Instrs[len(b.Instrs)-1].(*ssa.Return); ok {
						escapes = true
						return
					}
				}
				for _, s := range b.Succs {
					walk(s)
				}
			}
			walk(fn.Blocks[0])
			if !escapes {
				m[fn] = true
				changed = true
			}
		}
	}
	return m
}

// cutBlocks: blocks that contain a token read or a static call to a must-consume function.
func (c *Ctx) cutBlocks(fn *ssa.Function, m map[*ssa.Function]bool) map[*ssa.BasicBlock]bool {
	cut := map[*ssa.BasicBlock]bool{}
	for _, b := range fn.Blocks {
		for _, in := range b.Instrs {
			call, ok := in.(ssa.CallInstruction)
			if !ok {
				continue
			}
			if _, isDefer := in.(*ssa.Defer); isDefer {
				continue
			}
			if _, isGo := in.(*ssa.Go); isGo {
				continue
			}
			if isTokenRead(CalleeName(call)) {
				cut[b] = true
			} else if callee := call.Common().StaticCallee(); callee != nil && m[callee] {
				cut[b] = true
			}
		}
	}
	return cut
}

// countedHeader: the loop is governed by an integer that moves by a constant each turn and is compared in the header
// (for i := …; i < n; i++ and the range loops go/ssa builds), or by a range iterator (Next).
func countedHeader(l *natLoop) bool {
	h := l.header
	for _, in := range h.Instrs {
		if _, ok := in.(*ssa.Next); ok {
			return true
		}
	}
	if len(h.Instrs) == 0 {
		return false
	}
	iff, ok := h.Instrs[len(h.Instrs)-1].(*ssa.If)
	if !ok {
		return false
	}
	bo, ok := iff.Cond.(*ssa.BinOp)
	if !ok {
		return false
	}
	switch bo.Op {
	case token.LSS, token.LEQ, token.GTR, token.GEQ, token.NEQ:
	default:
		return false
	}
	isInduction := func(v ssa.Value) bool {
		// v is phi, or phi+const defined in the header (rotated range loops compare phi+1)
		var ph *ssa.Phi
		switch x := v.(type) {
		case *ssa.Phi:
			ph = x
		case *ssa.BinOp:
			if p, ok := x.X.(*ssa.Phi); ok && (x.Op == token.ADD || x.Op == token.SUB) {
				if _, isC := x.Y.(*ssa.Const); isC {
					ph = p
				}
			}
		}
		if ph == nil || ph.Block() != h {
			return false
		}
		okAll := false
		for i, e := range ph.Edges {
			if !l.body[h.Preds[i]] {
				continue
			}
			b2, ok := e.(*ssa.BinOp)
			if !ok || (b2.Op != token.ADD && b2.Op != token.SUB) {
				return false
			}
			k, isC := ConstInt(b2.Y)
			if !isC || k == 0 || b2.X != ssa.Value(ph) {
				return false
			}
			okAll = true
		}
		return okAll
	}
	return isInduction(bo.X) || isInduction(bo.Y)
}

// R21Progress — the recursive-descent parsers make progress.
func R21Progress(c *Ctx) {
	const rule = "R21-parser-progress"
	c.R.Rule(rule, "in the hand-written parsers of hclsyntax (parser*.go, peeker.go) and json (parser.go, peeker.go): every loop that is not a range/counted loop reads at least one token on every path around it — the loop header cannot be reached again from itself through blocks that contain neither (*peeker).Read nor a static call to a function that reads a token on every returning path (must-consume summary, least fixpoint); and no cycle of the call graph can be entered again without a token having been read since the function was entered (the graph of call sites reachable before any read is acyclic, apart from the listed descents over a strictly shrinking argument)", 20)
	scope := c.progressScope()
	if len(scope) < 40 {
		c.R.Anchor(rule, "the recursive-descent parser functions (found "+itoa(len(scope))+")")
		return
	}
	inScope := map[*ssa.Function]bool{}
	for _, fn := range scope {
		inScope[fn] = true
	}
	m := c.mustConsume(scope)
	c.R.Extra["must_consume_functions"] = len(m)
	c.R.Extra["progress_scope_functions"] = len(scope)
	reviewed := loadReviewed(c)
	for _, fn := range scope {
		cut := c.cutBlocks(fn, m)
		fname := FuncShort(fn)
		loops := naturalLoops(fn)
		sort.Slice(loops, func(i, j int) bool { return loops[i].header.Index < loops[j].header.Index })
		for _, l := range loops {
			pos := fn.Pos()
			for _, in := range l.header.Instrs {
				if in.Pos().IsValid() {
					pos = in.Pos()
					break
				}
			}
			if countedHeader(l) {
				c.R.Ok(rule, fname, "counted/range loop", c.pos(pos), "bounded by an induction variable or a range iterator", false)
				continue
			}
			if shrinkingLoop(l) {
				c.R.Ok(rule, fname, "loop over a strictly shrinking slice", c.pos(pos), "the slice tested in the header gets shorter on every way round (pop, constant advance, or the advance of a bufio.SplitFunc-style scanner)", true)
				continue
			}
			// a token-free way around the loop?
			free := false
			var witness []*ssa.BasicBlock
			if !cut[l.header] {
				seen := map[*ssa.BasicBlock]bool{}
				var walk func(b *ssa.BasicBlock, path []*ssa.BasicBlock)
				walk = func(b *ssa.BasicBlock, path []*ssa.BasicBlock) {
					if free {
						return
					}
					for _, s := range b.Succs {
						if !l.body[s] {
							continue
						}
						if s == l.header {
							free = true
							witness = append(append([]*ssa.BasicBlock{}, path...), b)
							return
						}
						if seen[s] || cut[s] {
							continue
						}
						seen[s] = true
						walk(s, append(path, b))
					}
				}
				walk(l.header, nil)
			}
			construct := "loop reads a token on every way round"
			if !free {
				c.R.Ok(rule, fname, construct, c.pos(pos), "every path from the loop header back to it passes a token read (directly or through a must-consume callee)", true)
				// Read does not advance past the end-of-input token: the loop must not be able to go round on it
				c2 := "loop cannot go round on the end-of-input token"
				if w := c.spinsAtEOF(fn, l); w == nil {
					c.R.Ok(rule, fname, c2, c.pos(pos), "with every token seen in the loop being the end-of-input token, every way back to the loop header is closed by a test of that token's type", true)
				} else if why, ok := reviewed["|"+fname+"|"+c2]; ok {
					c.R.Ok(rule, fname, c2, c.pos(pos), "reviewed: "+why, true)
				} else {
					var ws []string
					for _, b := range w {
						for _, in := range b.Instrs {
							if in.Pos().IsValid() {
								ws = append(ws, c.pos(in.Pos()))
								break
							}
						}
					}
					c.R.Bad(rule, fname, c2, c.pos(pos), "Read() does not advance past the end-of-input token, and with that token in hand there is still a way round this loop: on an input that ends here (an unclosed bracket, a truncated file) the parser never returns", ws...)
				}
				continue
			}
			if why, ok := reviewed["|"+fname+"|"+construct]; ok {
				c.R.Ok(rule, fname, construct, c.pos(pos), "reviewed: "+why, true)
				continue
			}
			var w []string
			for _, b := range witness {
				for _, in := range b.Instrs {
					if in.Pos().IsValid() {
						w = append(w, c.pos(in.Pos()))
						break
					}
				}
			}
			c.R.Bad(rule, fname, construct, c.pos(pos), "there is a way round this loop that reads no token: on an input that keeps taking it the parser never terminates", w...)
		}
	}
	// recursion: edges to scope functions reachable before any token read
	unguarded := map[*ssa.Function][]*ssa.Function{}
	site := map[[2]*ssa.Function]token.Pos{}
	for _, fn := range scope {
		cut := c.cutBlocks(fn, m)
		seen := map[*ssa.BasicBlock]bool{}
		var walk func(b *ssa.BasicBlock)
		walk = func(b *ssa.BasicBlock) {
			if seen[b] {
				return
			}
			seen[b] = true
			for _, in := range b.Instrs {
				call, ok := in.(ssa.CallInstruction)
				if !ok {
					continue
				}
				name := CalleeName(call)
				if isTokenRead(name) {
					return // everything after this in the block, and beyond, is guarded
				}
				callee := call.Common().StaticCallee()
				if callee == fn && strictTailDescent(fn, call) {
					continue // descent over a strictly shorter slice argument: bounded by its length
				}
				if callee != nil && inScope[callee] {
					unguarded[fn] = append(unguarded[fn], callee)
					if _, ok := site[[2]*ssa.Function{fn, callee}]; !ok {
						site[[2]*ssa.Function{fn, callee}] = call.Pos()
					}
					if m[callee] {
						return // the callee has read a token when it returns
					}
				}
			}
			if cut[b] {
				return
			}
			for _, s := range b.Succs {
				walk(s)
			}
		}
		walk(fn.Blocks[0])
	}
	// cycles in the unguarded graph (Tarjan-free: DFS from each node)
	reported := map[string]bool{}
	for _, start := range scope {
		var stack []*ssa.Function
		onPath := map[*ssa.Function]bool{}
		done := map[*ssa.Function]bool{}
		var dfs func(f *ssa.Function)
		dfs = func(f *ssa.Function) {
			if done[f] {
				return
			}
			onPath[f] = true
			stack = append(stack, f)
			for _, g := range unguarded[f] {
				if g == start && onPath[start] {
					// cycle through start
					var names []string
					for _, s := range stack {
						names = append(names, FuncShort(s))
					}
					key := cycleKey(names)
					if !reported[key] {
						reported[key] = true
						construct := "token-free recursion " + strings.Join(canonCycle(names), " → ")
						pos := c.pos(site[[2]*ssa.Function{f, g}])
						if why, ok := reviewed["|-|"+construct]; ok {
							c.R.Ok(rule, "-", construct, pos, "reviewed: "+why, true)
						} else {
							c.R.Bad(rule, "-", construct, pos, "these functions can call each other again without any token having been read in between: unbounded recursion on some input")
						}
					}
					continue
				}
				if !onPath[g] && !done[g] {
					dfs(g)
				}
			}
			onPath[f] = false
			stack = stack[:len(stack)-1]
			done[f] = true
		}
		dfs(start)
	}
	c.R.Ok(rule, "-", "recursion graph", "-", "call sites reachable before any token read form a graph over "+itoa(len(scope))+" parser functions; "+itoa(len(m))+" functions read a token on every returning path", false)
}

func canonCycle(names []string) []string {
	if len(names) == 0 {
		return names
	}
	// rotate so that the smallest name comes first
	mi := 0
	for i := range names {
		if names[i] < names[mi] {
			mi = i
		}
	}
	return append(append([]string{}, names[mi:]...), names[:mi]...)
}

func cycleKey(names []string) string {
	s := append([]string{}, names...)
	sort.Strings(s)
	return strings.Join(s, "|")
}

// strictTailDescent: a self-call that passes x[k:] (constant k ≥ 1) for a slice parameter x.
func strictTailDescent(fn *ssa.Function, call ssa.CallInstruction) bool {
	args := call.Common().Args
	for i, a := range args {
		sl, ok := a.(*ssa.Slice)
		if !ok || sl.High != nil || sl.Low == nil || i >= len(fn.Params) {
			continue
		}
		if k, isC := ConstInt(sl.Low); isC && k >= 1 && IsParam(sl.X, fn.Params[i]) {
			return true
		}
	}
	return false
}

// exitsOnEOF is NOT part of the armed rule (most loops leave on the end-of-input token through a default/else branch, which
// this positive test does not see; see DESIGN section 4, C17 'not decided'). Kept as a discovery aid.
// exitsOnEOF: some If inside the loop compares a token type with the end-of-input constant (or asserts
// *templateEndToken) and has a successor outside the loop.
func (c *Ctx) exitsOnEOF(fn *ssa.Function, l *natLoop, m map[*ssa.Function]bool) bool {
	eof := map[int64]bool{}
	for _, pn := range [][2]string{{PkgHclsyntax, "TokenEOF"}, {PkgJSON, "tokenEOF"}} {
		if v, ok := c.pkgConst(pn[0], pn[1]); ok {
			eof[v] = true
		}
	}
	isEOFTest := func(v ssa.Value) bool {
		v, _ = StripNot(v, true)
		switch x := v.(type) {
		case *ssa.BinOp:
			if x.Op != token.EQL && x.Op != token.NEQ {
				return false
			}
			for _, o := range []ssa.Value{x.X, x.Y} {
				if k, ok := ConstInt(o); ok && eof[k] {
					return true
				}
			}
		case *ssa.Extract:
			if ta, ok := x.Tuple.(*ssa.TypeAssert); ok && x.Index == 1 && strings.HasSuffix(ta.AssertedType.String(), "templateEndToken") {
				return true
			}
		}
		return false
	}
	for b := range l.body {
		if len(b.Instrs) == 0 {
			continue
		}
		iff, ok := b.Instrs[len(b.Instrs)-1].(*ssa.If)
		if !ok {
			continue
		}
		leaves := false
		for _, s := range b.Succs {
			if !l.body[s] {
				leaves = true
			}
		}
		if !leaves {
			// the test may sit one block before the leaving jump (switch lowering): look one step ahead
			for _, s := range b.Succs {
				if l.body[s] && len(s.Succs) == 1 && !l.body[s.Succs[0]] {
					leaves = true
				}
			}
		}
		if leaves && isEOFTest(iff.Cond) {
			return true
		}
	}
	return false
}

// spinsAtEOF: assuming every token looked at inside the loop is the end-of-input token (Read does not advance
// past it, so once it is reached every later Peek/Read yields it again), can the loop header be reached again?
// Conditions that compare the Type of a token obtained inside the loop with a constant are decided under that
// assumption (== EOF true, == anything else false; type assertions of template tokens likewise); all other
// conditions are left open. Returns a witness path when the loop may spin.
func (c *Ctx) spinsAtEOF(fn *ssa.Function, l *natLoop) []*ssa.BasicBlock {
	eof := map[int64]bool{}
	for _, pn := range [][2]string{{PkgHclsyntax, "TokenEOF"}, {PkgJSON, "tokenEOF"}} {
		if v, ok := c.pkgConst(pn[0], pn[1]); ok {
			eof[v] = true
		}
	}
	isTokCall := func(v ssa.Value) bool {
		call, ok := v.(*ssa.Call)
		if !ok || !l.body[call.Block()] {
			return false
		}
		n := CalleeName(call)
		return strings.HasSuffix(n, "peeker).Peek") || strings.HasSuffix(n, "peeker).Read") || strings.HasSuffix(n, "templateParser).Peek") || strings.HasSuffix(n, "templateParser).Read")
	}
	// a value that is the Type field of a token obtained in the loop
	var isTokType func(v ssa.Value, d int) bool
	isTokType = func(v ssa.Value, d int) bool {
		if d > 6 {
			return false
		}
		switch x := v.(type) {
		case *ssa.Field:
			if _, f, _, ok := FieldOf(x); ok && f == "Type" {
				return isTokCall(x.X) || isTokPhi(x.X, isTokCall)
			}
		case *ssa.UnOp:
			if x.Op == token.MUL {
				if _, f, base, ok := FieldOf(x.X); ok && f == "Type" {
					// spilled token: the cell's stores are token calls
					if al, ok := base.(*ssa.Alloc); ok {
						okAll, any := true, false
						for _, r := range *al.Referrers() {
							if st, ok := r.(*ssa.Store); ok && st.Addr == ssa.Value(al) {
								if _, isParam := st.Val.(*ssa.Parameter); isParam {
									continue // the first token, handed in by the caller
								}
								any = true
								if !isTokCall(st.Val) {
									okAll = false
								}
							}
						}
						return okAll && any
					}
				}
				// a local copy of the type (ty := tok.Type)
				if al, ok := x.X.(*ssa.Alloc); ok {
					okAll, any := true, false
					for _, r := range *al.Referrers() {
						if st, ok := r.(*ssa.Store); ok && st.Addr == ssa.Value(al) {
							any = true
							if !isTokType(st.Val, d+1) {
								okAll = false
							}
						}
					}
					return okAll && any
				}
			}
		case *ssa.Phi:
			// ty normalised on some paths (ty = TokenTemplateInterp): not purely a token type
			return false
		}
		return false
	}
	decide := func(cond ssa.Value) (bool, bool) { // (value, known)
		cond, truth := StripNot(cond, true)
		switch x := cond.(type) {
		case *ssa.BinOp:
			if x.Op != token.EQL && x.Op != token.NEQ {
				return false, false
			}
			var k int64
			var okc bool
			if isTokType(x.X, 0) {
				k, okc = ConstInt(x.Y)
			} else if isTokType(x.Y, 0) {
				k, okc = ConstInt(x.X)
			}
			if !okc {
				return false, false
			}
			v := eof[k]
			if x.Op == token.NEQ {
				v = !v
			}
			return v == truth, true
		case *ssa.Extract:
			if ta, ok := x.Tuple.(*ssa.TypeAssert); ok && x.Index == 1 && ta.CommaOk && (isTokCall(ta.X)) {
				v := strings.HasSuffix(ta.AssertedType.String(), "templateEndToken")
				return v == truth, true
			}
		}
		return false, false
	}
	seen := map[*ssa.BasicBlock]bool{}
	var witness []*ssa.BasicBlock
	var walk func(b *ssa.BasicBlock, path []*ssa.BasicBlock) bool
	walk = func(b *ssa.BasicBlock, path []*ssa.BasicBlock) bool {
		succs := b.Succs
		if len(b.Instrs) > 0 {
			if iff, ok := b.Instrs[len(b.Instrs)-1].(*ssa.If); ok {
				if v, known := decide(iff.Cond); known {
					if v {
						succs = b.Succs[:1]
					} else {
						succs = b.Succs[1:2]
					}
				}
			}
		}
		for _, s := range succs {
			if !l.body[s] {
				continue
			}
			if s == l.header {
				witness = append(append([]*ssa.BasicBlock{}, path...), b)
				return true
			}
			if seen[s] {
				continue
			}
			seen[s] = true
			if walk(s, append(path, b)) {
				return true
			}
		}
		return false
	}
	if walk(l.header, nil) {
		return witness
	}
	return nil
}

// isTokPhi: a phi all of whose edges that are token reads inside the loop — edges that enter from outside the
// loop (the first token, handed in by the caller) do not matter for the question whether the loop can spin forever.
func isTokPhi(v ssa.Value, isTokCall func(ssa.Value) bool) bool {
	ph, ok := v.(*ssa.Phi)
	if !ok {
		return false
	}
	n := 0
	for _, e := range ph.Edges {
		if isTokCall(e) {
			n++
			continue
		}
		if _, isParam := e.(*ssa.Parameter); isParam {
			continue
		}
		return false
	}
	return n > 0
}

// R21Balance — the include-newlines stack is balanced on every path.
func R21Balance(c *Ctx) {
	const rule = "R21-newline-stack"
	c.R.Rule(rule, "in every hclsyntax function that calls PushIncludeNewlines / PopIncludeNewlines the stack depth relative to the function's entry is the same on every path into a block (in particular around every loop) and zero at every return, deferred pops included: the public Parse* entry points end with AssertEmptyIncludeNewlinesStack, which panics on a leftover entry, and an extra pop indexes an empty slice", 7)
	for _, fn := range c.P.ModuleFuncs(func(p string) bool { return p == PkgHclsyntax }) {
		if fn.Blocks == nil {
			continue
		}
		uses := false
		EachCall(fn, func(call ssa.CallInstruction) {
			n := CalleeName(call)
			if strings.HasSuffix(n, "peeker).PushIncludeNewlines") || strings.HasSuffix(n, "peeker).PopIncludeNewlines") {
				uses = true
			}
		})
		if !uses || strings.HasSuffix(FuncShort(fn), "peeker).PushIncludeNewlines") || strings.HasSuffix(FuncShort(fn), "peeker).PopIncludeNewlines") {
			continue
		}
		fname := FuncShort(fn)
		type state struct {
			depth, deferred int
			set             bool
		}
		in := map[*ssa.BasicBlock]*state{fn.Blocks[0]: {set: true}}
		work := []*ssa.BasicBlock{fn.Blocks[0]}
		bad := ""
		var badPos token.Pos
		for len(work) > 0 && bad == "" {
			b := work[0]
			work = work[1:]
			st := *in[b]
			for _, ins := range b.Instrs {
				switch x := ins.(type) {
				case *ssa.Call:
					n := CalleeName(x)
					if strings.HasSuffix(n, "peeker).PushIncludeNewlines") {
						st.depth++
					} else if strings.HasSuffix(n, "peeker).PopIncludeNewlines") {
						st.depth--
						if st.depth+0 < -1000 {
							bad = "pops without end"
						}
					}
				case *ssa.Defer:
					n := CalleeName(x)
					if strings.HasSuffix(n, "peeker).PopIncludeNewlines") {
						st.deferred++
					} else if strings.HasSuffix(n, "peeker).PushIncludeNewlines") {
						st.deferred--
					}
				case *ssa.Return:
					if st.depth-st.deferred != 0 {
						bad = "a return is reached with the include-newlines stack " + itoa(st.depth-st.deferred) + " deeper than at entry"
						badPos = x.Pos()
					}
				}
			}
			for _, s := range b.Succs {
				if cur, ok := in[s]; ok {
					if cur.depth != st.depth || cur.deferred != st.deferred {
						bad = "two paths reach the same point with different stack depths (" + itoa(cur.depth-cur.deferred) + " and " + itoa(st.depth-st.deferred) + "): some way round a loop or through a branch pushes without popping (or pops twice)"
						for _, ins := range s.Instrs {
							if ins.Pos().IsValid() {
								badPos = ins.Pos()
								break
							}
						}
					}
					continue
				}
				ns := st
				in[s] = &ns
				work = append(work, s)
			}
		}
		construct := "PushIncludeNewlines/PopIncludeNewlines balanced on every path"
		if bad == "" {
			c.R.Ok(rule, fname, construct, c.pos(fn.Pos()), "the depth is path-independent at every block and zero at every return", true)
		} else {
			if !badPos.IsValid() {
				badPos = fn.Pos()
			}
			c.R.Bad(rule, fname, construct, c.pos(badPos), bad+": the parse ends in the panic of AssertEmptyIncludeNewlinesStack (or in an index out of range on the empty stack)")
		}
	}
}

// R21TemplateEnd — the template token stream ends with an end token and the cursor never moves past it.
func R21TemplateEnd(c *Ctx) {
	const rule = "R21-template-end"
	c.R.Rule(rule, "the invariant the reviewed bound of templateParser.Peek rests on: (a) the Tokens of every templateParts built in hclsyntax come from an append whose last element is a *templateEndToken; (b) every store to templateParser.pos is the initial 0 or pos+1 on the path where the token just peeked is not a *templateEndToken — so pos stays at or before the end token and Tokens[pos] exists", 2)
	pkg := PkgYaotl + "/hclsyntax"
	nA, nB := 0, 0
	for _, fn := range c.P.ModuleFuncs(func(p string) bool { return p == pkg }) {
		for _, b := range fn.Blocks {
			for _, in := range b.Instrs {
				st, ok := in.(*ssa.Store)
				if !ok {
					continue
				}
				t, f, _, ok := FieldOf(st.Addr)
				if !ok {
					continue
				}
				switch {
				case t == pkg+".templateParts" && f == "Tokens":
					nA++
					construct := "templateParts.Tokens = append(…, &templateEndToken{})"
					good := false
					if ap, isCall := st.Val.(*ssa.Call); isCall && CalleeName(ap) == "builtin.append" && len(ap.Call.Args) == 2 {
						if sl, isSl := ap.Call.Args[1].(*ssa.Slice); isSl {
							if al, isAl := sl.X.(*ssa.Alloc); isAl {
								// the last element stored into the variadic array
								last := int64(-1)
								var lastVal ssa.Value
								for _, r := range *al.Referrers() {
									if ia, isIA := r.(*ssa.IndexAddr); isIA {
										if k, isC := ConstInt(ia.Index); isC && k > last {
											for _, r2 := range *ia.Referrers() {
												if s2, isSt := r2.(*ssa.Store); isSt && s2.Addr == ssa.Value(ia) {
													last, lastVal = k, s2.Val
												}
											}
										}
									}
								}
								if mi, isMI := lastVal.(*ssa.MakeInterface); isMI && strings.HasSuffix(mi.X.Type().String(), ".templateEndToken") {
									good = true
								}
							}
						}
					}
					if good {
						c.R.Ok(rule, FuncShort(fn), construct, c.pos(st.Pos()), "the stream is closed by an end token", true)
					} else {
						c.R.Bad(rule, FuncShort(fn), construct, c.pos(st.Pos()), "a templateParts is built whose token list is not visibly terminated by a *templateEndToken: templateParser.Peek can index past the end")
					}
				case t == pkg+".templateParser" && f == "pos":
					nB++
					construct := "templateParser.pos advances only past non-end tokens"
					if k, isC := ConstInt(st.Val); isC && k == 0 {
						c.R.Ok(rule, FuncShort(fn), construct, c.pos(st.Pos()), "initial position", true)
						continue
					}
					good := false
					if bo, isB := st.Val.(*ssa.BinOp); isB && bo.Op == token.ADD {
						if k, isC := ConstInt(bo.Y); isC && k == 1 && DerivesFromNarrowCalls(bo.X, IsFieldLoad(pkg+".templateParser", "pos")) {
							for _, fa := range FactsAt(b) {
								ex, isEx := fa.Cond.(*ssa.Extract)
								if !isEx || ex.Index != 1 || fa.Truth {
									continue
								}
								if ta, isTA := ex.Tuple.(*ssa.TypeAssert); isTA && strings.HasSuffix(ta.AssertedType.String(), ".templateEndToken") {
									good = true
								}
							}
						}
					}
					if good {
						c.R.Ok(rule, FuncShort(fn), construct, c.pos(st.Pos()), "incremented only when the current token is not the end token", true)
					} else {
						c.R.Bad(rule, FuncShort(fn), construct, c.pos(st.Pos()), "the cursor is moved by something other than +1 behind a non-end token: it can pass the end token and Peek indexes out of range")
					}
				}
			}
		}
	}
	if nA == 0 || nB == 0 {
		c.R.Anchor(rule, "stores to templateParts.Tokens and templateParser.pos")
	}
}

// R21ScanOrigin — positions are counted over the caller's own buffer.
func R21ScanOrigin(c *Ctx) {
	const rule = "R21-scan-origin"
	c.R.Rule(rule, "the entry points that hand a caller's buffer and start position to a scanner (json.parseFileContent/parseExpression → scan, hclsyntax.ParseConfig/ParseExpression/ParseTemplate/LexConfig/… → scanTokens) pass the buffer parameter itself together with the start parameter itself: a buffer that was trimmed or re-sliced first while the start position stays put shifts every token, node and diagnostic range against the bytes the caller holds", 4)
	type ref struct{ pkg, scanner string }
	n := 0
	for _, r := range []ref{{PkgJSON, "scan"}, {PkgYaotl + "/hclsyntax", "scanTokens"}} {
		sc := c.P.Func(r.pkg, r.scanner)
		if sc == nil {
			c.R.Anchor(rule, r.pkg+"."+r.scanner)
			continue
		}
		node := c.P.CHA().Nodes[sc]
		if node == nil {
			continue
		}
		for _, e := range node.In {
			if e.Site == nil || e.Site.Common().StaticCallee() != sc {
				continue
			}
			caller := e.Site.Parent()
			args := e.Site.Common().Args
			if len(args) < 2 {
				continue
			}
			// only entry points: the caller has a []byte parameter and a position parameter
			var bufParam, posParam *ssa.Parameter
			for _, p := range caller.Params {
				if p.Type().String() == "[]byte" && bufParam == nil {
					bufParam = p
				}
				if strings.HasSuffix(p.Type().String(), "yaotl.Pos") && posParam == nil {
					posParam = p
				}
			}
			if bufParam == nil || posParam == nil {
				continue
			}
			n++
			construct := r.scanner + "(<buffer parameter>, …<start parameter>…)"
			bufIsParam := ParamOf(args[0]) == bufParam
			usesStart := false
			for _, a := range args[1:] {
				if DerivesFrom(a, func(v ssa.Value) bool { return ParamOf(v) == posParam }) {
					usesStart = true
				}
			}
			derivedBuf := !bufIsParam && DerivesFrom(args[0], func(v ssa.Value) bool { return ParamOf(v) == bufParam })
			startIsParam := false
			for _, a := range args[1:] {
				if ParamOf(a) == posParam {
					startIsParam = true
				}
				// pos{Filename: …, Pos: start}: a struct built directly from the parameter
				if al, ok := derefOr(a).(*ssa.Alloc); ok {
					for _, rr := range *al.Referrers() {
						if fa, ok := rr.(*ssa.FieldAddr); ok {
							for _, r2 := range *fa.Referrers() {
								if st, ok := r2.(*ssa.Store); ok && st.Addr == ssa.Value(fa) && ParamOf(st.Val) == posParam {
									startIsParam = true
								}
							}
						}
					}
				}
			}
			switch {
			case bufIsParam:
				c.R.Ok(rule, FuncShort(caller), construct, c.pos(e.Site.Pos()), "scans the caller's buffer from the caller's start position", true)
			case derivedBuf && usesStart && startIsParam:
				c.R.Bad(rule, FuncShort(caller), construct, c.pos(e.Site.Pos()), "the scanner gets a buffer derived from the parameter (trimmed, re-sliced, copied) but the unmodified start position: all ranges are shifted against the caller's bytes")
			default:
				c.R.Ok(rule, FuncShort(caller), construct, c.pos(e.Site.Pos()), "buffer and start position are both derived", true)
			}
		}
	}
	if n == 0 {
		c.R.Anchor(rule, "entry points calling scan/scanTokens")
	}
}

// R21RangeAssigned — a source range put into a node or diagnostic was assigned on the path that got there.
func R21RangeAssigned(c *Ctx) {
	const rule = "R21-range-assigned"
	c.R.Rule(rule, "in the hclsyntax parser files every read of a local hcl.Range variable is preceded, on every path from the function's entry, by an assignment to it (a whole-value store or a store to its Start and End): a branch that leaves such a variable at its zero value yields a node whose range is byte 0 / line 0 with an empty file name — outside the input and not containing its children", 3)
	n := 0
	for _, fn := range c.P.ModuleFuncs(func(p string) bool { return p == PkgYaotl+"/hclsyntax" }) {
		if fn.Blocks == nil || !fn.Pos().IsValid() {
			continue
		}
		file := c.P.Fset.Position(fn.Pos()).Filename
		if !strings.Contains(file, "/hclsyntax/parser") {
			continue
		}
		for _, b0 := range fn.Blocks {
			for _, in := range b0.Instrs {
				al, ok := in.(*ssa.Alloc)
				if !ok || al.Heap && false {
					continue
				}
				if !strings.HasSuffix(al.Type().String(), "yaotl.Range") || al.Comment == "complit" || al.Comment == "" {
					continue
				}
				// assignments and reads
				assignIn := map[*ssa.BasicBlock]int{} // block -> index of first assigning instruction
				type read struct {
					in  ssa.Instruction
					idx int
				}
				var reads []read
				escapes := false
				note := func(i ssa.Instruction, assign bool) {
					idx := InstrBlockIndex(i)
					if assign {
						if cur, ok := assignIn[i.Block()]; !ok || idx < cur {
							assignIn[i.Block()] = idx
						}
					} else {
						reads = append(reads, read{i, idx})
					}
				}
				for _, r := range *al.Referrers() {
					switch u := r.(type) {
					case *ssa.Store:
						if u.Addr == ssa.Value(al) {
							note(u, true)
						} else {
							escapes = true
						}
					case *ssa.UnOp:
						note(u, false)
					case *ssa.FieldAddr:
						for _, r2 := range *u.Referrers() {
							switch u2 := r2.(type) {
							case *ssa.Store:
								if u2.Addr == ssa.Value(u) {
									note(u2, true)
								}
							case *ssa.UnOp:
								note(u2, false)
							case *ssa.FieldAddr:
								for _, r3 := range *u2.Referrers() {
									if st, ok := r3.(*ssa.Store); ok && st.Addr == ssa.Value(u2) {
										note(st, true)
									} else if ld, ok := r3.(*ssa.UnOp); ok {
										note(ld, false)
									}
								}
							default:
								escapes = true
							}
						}
					case *ssa.DebugRef:
					default:
						escapes = true // address passed on (to a call, a closure): assigned elsewhere
					}
				}
				if escapes || len(reads) == 0 {
					continue
				}
				n++
				// blocks reachable from the entry without passing an assignment
				unassignedAtEntry := map[*ssa.BasicBlock]bool{}
				stack := []*ssa.BasicBlock{fn.Blocks[0]}
				for len(stack) > 0 {
					b := stack[len(stack)-1]
					stack = stack[:len(stack)-1]
					if unassignedAtEntry[b] {
						continue
					}
					unassignedAtEntry[b] = true
					if _, assigns := assignIn[b]; assigns {
						continue
					}
					stack = append(stack, b.Succs...)
				}
				bad := ""
				for _, r := range reads {
					b := r.in.Block()
					if !unassignedAtEntry[b] {
						continue
					}
					if ai, ok := assignIn[b]; ok && ai < r.idx {
						continue
					}
					bad = c.pos(r.in.Pos())
				}
				construct := "local range " + al.Comment + " assigned before use"
				if bad == "" {
					c.R.Ok(rule, FuncShort(fn), construct, c.pos(al.Pos()), "every read follows an assignment", true)
				} else {
					c.R.Bad(rule, FuncShort(fn), construct, bad, "a path reaches this read without assigning the range: the node or diagnostic built from it gets the zero range (byte 0, line 0, no file name)")
				}
			}
		}
	}
	if n == 0 {
		c.R.Anchor(rule, "local hcl.Range variables in the hclsyntax parser")
	}
}

// R21BodyPlaceholder — a block never carries a nil body.
func R21BodyPlaceholder(c *Ctx) {
	const rule = "R21-body-placeholder"
	c.R.Rule(rule, "where the parser stores a body into a Block that may come back nil from a sub-parser, the nil case is replaced by a placeholder under a HasErrors() test of diagnostics that already include that sub-parser's own diagnostics (the only reason for a nil body is an error it reported): a test that runs before those diagnostics were appended leaves Body == nil, and every walk over the syntax tree dereferences it", 1)
	n := 0
	for _, fn := range c.P.ModuleFuncs(func(p string) bool { return p == PkgYaotl+"/hclsyntax" }) {
		for _, b := range fn.Blocks {
			for _, in := range b.Instrs {
				st, ok := in.(*ssa.Store)
				if !ok {
					continue
				}
				t, f, _, ok := FieldOf(st.Addr)
				if !ok || !strings.HasSuffix(t, "hclsyntax.Block") || f != "Body" {
					continue
				}
				ph, ok := st.Val.(*ssa.Phi)
				if !ok {
					continue
				}
				// the sub-parser calls whose first result can be the body, and the placeholder edge
				var producers []*ssa.Call
				var placeholder *ssa.BasicBlock
				var walk func(v ssa.Value, from *ssa.BasicBlock, seen map[ssa.Value]bool)
				walk = func(v ssa.Value, from *ssa.BasicBlock, seen map[ssa.Value]bool) {
					if seen[v] {
						return
					}
					seen[v] = true
					switch x := v.(type) {
					case *ssa.Phi:
						for i, e := range x.Edges {
							walk(e, x.Block().Preds[i], seen)
						}
					case *ssa.Extract:
						if call, ok := x.Tuple.(*ssa.Call); ok && x.Index == 0 {
							producers = append(producers, call)
						}
					case *ssa.Alloc:
						placeholder = from
					}
				}
				walk(ph, b, map[ssa.Value]bool{})
				if len(producers) == 0 || placeholder == nil {
					continue
				}
				n++
				construct := "placeholder body under HasErrors() of diagnostics that include the sub-parser's"
				good := false
				for _, fct := range FactsAt(placeholder) {
					hc, ok := fct.Cond.(*ssa.Call)
					if !ok || !fct.Truth || !strings.HasSuffix(CalleeName(hc), ".HasErrors") {
						continue
					}
					all := true
					for _, pc := range producers {
						var dg ssa.Value
						for _, r := range *pc.Referrers() {
							if ex, ok := r.(*ssa.Extract); ok && ex.Index == 1 {
								dg = ex
							}
						}
						if dg == nil || !DerivesFrom(hc.Call.Args[0], func(v ssa.Value) bool { return v == dg }) {
							all = false
						}
					}
					if all {
						good = true
					}
				}
				if good {
					c.R.Ok(rule, FuncShort(fn), construct, c.pos(st.Pos()), "the test sees the diagnostics of every sub-parser that can return a nil body", true)
				} else {
					c.R.Bad(rule, FuncShort(fn), construct, c.pos(st.Pos()), "the HasErrors() test that inserts the placeholder does not see the diagnostics of the sub-parser whose body may be nil: when those are the only errors the Block keeps a nil Body")
				}
			}
		}
	}
	if n == 0 {
		c.R.Anchor(rule, "a Block.Body store with a placeholder in hclsyntax")
	}
}
