package rules

import (
	"go/ast"
	"go/token"
	"os"
	"path/filepath"
	"regexp"
	"strconv"
	"strings"

	"golang.org/x/tools/go/packages"
)

// A wire shape is a sequence of tokens I32 / I64 / BYTES with loop{…} and opt{…}.

var packerKinds = map[string]string{
	"AddInt": "I32", "AddInt32": "I32", "AddUInt32": "I32", "AddInt64": "I64",
	"AddString": "BYTES", "AddWString": "BYTES", "AddBytes": "BYTES",
}

// goShape extracts the shape of the Add* calls on receiver recvName in stmts.
func goShape(pk *packages.Package, stmts []ast.Stmt, recvName string) []string {
	var out []string
	addCall := func(e ast.Expr) (string, *ast.CallExpr) {
		call, ok := ast.Unparen(e).(*ast.CallExpr)
		if !ok {
			return "", nil
		}
		sel, ok := call.Fun.(*ast.SelectorExpr)
		if !ok {
			return "", nil
		}
		id, ok := sel.X.(*ast.Ident)
		if !ok || id.Name != recvName {
			return "", nil
		}
		return packerKinds[sel.Sel.Name], call
	}
	returnsOnly := func(body []ast.Stmt) bool {
		// a branch that ends in return and packs nothing is an error exit, not an alternative
		if len(goShape(pk, body, recvName)) > 0 {
			return false
		}
		for _, s := range body {
			if _, ok := s.(*ast.ReturnStmt); ok {
				return true
			}
		}
		return false
	}
	for _, st := range stmts {
		switch s := st.(type) {
		case *ast.ExprStmt:
			if k, _ := addCall(s.X); k != "" {
				out = append(out, k)
			}
		case *ast.BlockStmt:
			out = append(out, goShape(pk, s.List, recvName)...)
		case *ast.ForStmt:
			if in := goShape(pk, s.Body.List, recvName); len(in) > 0 {
				out = append(out, "loop{"+strings.Join(in, " ")+"}")
			}
		case *ast.RangeStmt:
			if in := goShape(pk, s.Body.List, recvName); len(in) > 0 {
				out = append(out, "loop{"+strings.Join(in, " ")+"}")
			}
		case *ast.IfStmt:
			thenS := goShape(pk, s.Body.List, recvName)
			var elseS []string
			elseRet := false
			switch e := s.Else.(type) {
			case *ast.BlockStmt:
				elseS = goShape(pk, e.List, recvName)
				elseRet = returnsOnly(e.List)
			case *ast.IfStmt:
				elseS = goShape(pk, []ast.Stmt{e}, recvName)
			}
			thenRet := returnsOnly(s.Body.List)
			switch {
			case len(thenS) == 0 && len(elseS) == 0:
			case thenRet:
				out = append(out, elseS...)
			case elseRet || (s.Else == nil && len(elseS) == 0 && false):
				out = append(out, thenS...)
			default:
				a, b := canonCounted(pk, s.Body.List, thenS, recvName), canonCountedElse(pk, s.Else, elseS, recvName)
				switch {
				case strings.Join(a, " ") == strings.Join(b, " "):
					out = append(out, a...)
				case len(elseS) == 0:
					out = append(out, "opt{"+strings.Join(thenS, " ")+"}")
				case len(thenS) == 0:
					out = append(out, "opt{"+strings.Join(elseS, " ")+"}")
				default:
					// a flag followed by optional fields: `I32 X…` vs `I32`
					if len(a) > 0 && len(b) > 0 && a[0] == b[0] && len(b) == 1 {
						out = append(out, a[0], "opt{"+strings.Join(a[1:], " ")+"}")
					} else if len(a) > 0 && len(b) > 0 && a[0] == b[0] && len(a) == 1 {
						out = append(out, a[0], "opt{"+strings.Join(b[1:], " ")+"}")
					} else {
						out = append(out, "alt{"+strings.Join(a, " ")+" | "+strings.Join(b, " ")+"}")
					}
				}
			}
		case *ast.SwitchStmt:
			var shapes [][]string
			for _, cc := range s.Body.List {
				shapes = append(shapes, goShape(pk, cc.(*ast.CaseClause).Body, recvName))
			}
			same := true
			for _, sh := range shapes {
				if strings.Join(sh, " ") != strings.Join(shapes[0], " ") {
					same = false
				}
			}
			if len(shapes) > 0 {
				if same {
					out = append(out, shapes[0]...)
				} else {
					var alts []string
					for _, sh := range shapes {
						alts = append(alts, strings.Join(sh, " "))
					}
					out = append(out, "alt{"+strings.Join(alts, " | ")+"}")
				}
			}
		}
	}
	return out
}

// canonCounted rewrites `AddInt(k) followed by exactly k length-prefixed fields`
// (k a literal) into the counted form `I32 loop{BYTES}` so that hand-unrolled
// branches compare equal to the general loop.
func canonCounted(pk *packages.Package, body []ast.Stmt, shape []string, recvName string) []string {
	if len(shape) < 2 || shape[0] != "I32" {
		return shape
	}
	// nested if/else whose branches are all counted forms
	if len(body) == 1 {
		if ifs, ok := body[0].(*ast.IfStmt); ok {
			a := canonCounted(pk, ifs.Body.List, goShape(pk, ifs.Body.List, recvName), recvName)
			b := canonCountedElse(pk, ifs.Else, nil, recvName)
			if strings.Join(a, " ") == strings.Join(b, " ") {
				return a
			}
		}
	}
	// literal count
	for _, st := range body {
		es, ok := st.(*ast.ExprStmt)
		if !ok {
			continue
		}
		call, ok := es.X.(*ast.CallExpr)
		if !ok || len(call.Args) != 1 {
			continue
		}
		if lit, ok := call.Args[0].(*ast.BasicLit); ok && lit.Kind == token.INT {
			k, _ := strconv.Atoi(lit.Value)
			if k == len(shape)-1 {
				allSame := true
				for _, t := range shape[1:] {
					if t != shape[1] {
						allSame = false
					}
				}
				if allSame {
					return []string{"I32", "loop{" + shape[1] + "}"}
				}
			}
		}
		break
	}
	return shape
}

func canonCountedElse(pk *packages.Package, e ast.Stmt, shape []string, recvName string) []string {
	switch x := e.(type) {
	case *ast.BlockStmt:
		return canonCounted(pk, x.List, goShape(pk, x.List, recvName), recvName)
	case *ast.IfStmt:
		return goShape(pk, []ast.Stmt{x}, recvName)
	}
	return shape
}

// ---- C side -----------------------------------------------------------------

var reCCall = regexp.MustCompile(`ParserGet(Int32|Int64|Bool|Byte|Bytes|String|WString)\s*\(`)

// cShape extracts the shape of the ParserGet* calls in a C function body,
// selecting the #ifdef branch named by define (e.g. TRANSPORT_HTTP); lines in
// the other branch of #ifdef TRANSPORT_* / #else are skipped.
func cShape(src string, fn string, define string) ([]string, bool) {
	i := strings.Index(src, fn+"(")
	for i >= 0 {
		// definition, not a call: followed by a '{' before a ';'
		rest := src[i:]
		b, s := strings.Index(rest, "{"), strings.Index(rest, ";")
		if b >= 0 && (s < 0 || b < s) {
			break
		}
		j := strings.Index(src[i+1:], fn+"(")
		if j < 0 {
			return nil, false
		}
		i = i + 1 + j
	}
	if i < 0 {
		return nil, false
	}
	body := src[i:]
	// cut at the matching brace
	depth, start, end := 0, -1, -1
	for k, ch := range body {
		if ch == '{' {
			if depth == 0 {
				start = k
			}
			depth++
		} else if ch == '}' {
			depth--
			if depth == 0 {
				end = k
				break
			}
		}
	}
	if start < 0 || end < 0 {
		return nil, false
	}
	body = body[start+1 : end]
	// preprocessor selection
	var kept []string
	type frame struct{ active, isTransport bool }
	var stack []frame
	activeAll := func() bool {
		for _, f := range stack {
			if !f.active {
				return false
			}
		}
		return true
	}
	for _, line := range strings.Split(body, "\n") {
		t := strings.TrimSpace(line)
		switch {
		case strings.HasPrefix(t, "#ifdef"), strings.HasPrefix(t, "#if "), strings.HasPrefix(t, "#ifndef"):
			name := strings.TrimSpace(strings.TrimPrefix(strings.TrimPrefix(strings.TrimPrefix(t, "#ifdef"), "#ifndef"), "#if"))
			if strings.HasPrefix(name, "TRANSPORT_") {
				stack = append(stack, frame{name == define, true})
			} else {
				// DEBUG and friends: code inside carries no reads we care about, but keep it neutral
				stack = append(stack, frame{true, false})
			}
			continue
		case strings.HasPrefix(t, "#else"):
			if n := len(stack); n > 0 && stack[n-1].isTransport {
				stack[n-1].active = !stack[n-1].active
			}
			continue
		case strings.HasPrefix(t, "#endif"):
			if n := len(stack); n > 0 {
				stack = stack[:n-1]
			}
			continue
		}
		if activeAll() {
			kept = append(kept, line)
		}
	}
	text := strings.Join(kept, "\n")
	// strip comments
	text = regexp.MustCompile(`(?s)/\*.*?\*/`).ReplaceAllString(text, " ")
	text = regexp.MustCompile(`//[^\n]*`).ReplaceAllString(text, " ")
	return cShapeBlock(text), true
}

// cShapeBlock walks a brace-structured text collecting reads with loop/opt nesting.
func cShapeBlock(text string) []string {
	var out []string
	i := 0
	for i < len(text) {
		// next interesting thing: a read call, a `for (`, a `while (`, an `if (` with a block
		loc := reCCall.FindStringSubmatchIndex(text[i:])
		forIdx := indexKeyword(text[i:], "for")
		ifIdx := indexKeyword(text[i:], "if")
		whIdx := indexKeyword(text[i:], "while")
		next, kind := -1, ""
		pick := func(idx int, k string) {
			if idx >= 0 && (next < 0 || idx < next) {
				next, kind = idx, k
			}
		}
		if loc != nil {
			pick(loc[0], "read")
		}
		pick(forIdx, "for")
		pick(ifIdx, "if")
		pick(whIdx, "while")
		if next < 0 {
			break
		}
		switch kind {
		case "read":
			switch text[i+loc[2] : i+loc[3]] {
			case "Int32", "Bool":
				out = append(out, "I32")
			case "Int64":
				out = append(out, "I64")
			default:
				out = append(out, "BYTES")
			}
			i += loc[1]
		default:
			// header (…) then either a block {…} or a single statement
			p := i + next + len(kind)
			hs := strings.Index(text[p:], "(")
			if hs < 0 {
				i = p
				continue
			}
			he := matchParen(text, p+hs, '(', ')')
			if he < 0 {
				i = p
				continue
			}
			header := text[p+hs : he+1]
			k := he + 1
			for k < len(text) && (text[k] == ' ' || text[k] == '\n' || text[k] == '\t' || text[k] == '\r') {
				k++
			}
			var inner string
			if k < len(text) && text[k] == '{' {
				be := matchParen(text, k, '{', '}')
				if be < 0 {
					i = k + 1
					continue
				}
				inner = text[k+1 : be]
				i = be + 1
			} else {
				se := strings.Index(text[k:], ";")
				if se < 0 {
					se = len(text) - k - 1
				}
				inner = text[k : k+se+1]
				i = k + se + 1
			}
			hdr := cShapeBlock(header)
			in := cShapeBlock(inner)
			out = append(out, hdr...)
			if len(in) > 0 {
				if kind == "if" {
					// else branch?
					out = append(out, "opt{"+strings.Join(in, " ")+"}")
				} else {
					out = append(out, "loop{"+strings.Join(in, " ")+"}")
				}
			}
		}
	}
	return out
}

func indexKeyword(s, kw string) int {
	off := 0
	for {
		i := strings.Index(s[off:], kw)
		if i < 0 {
			return -1
		}
		i += off
		before := i == 0 || !isIdentChar(s[i-1])
		after := i+len(kw) >= len(s) || !isIdentChar(s[i+len(kw)])
		if before && after {
			// must be followed by optional spaces and '('
			k := i + len(kw)
			for k < len(s) && (s[k] == ' ' || s[k] == '\t') {
				k++
			}
			if k < len(s) && s[k] == '(' {
				return i
			}
		}
		off = i + len(kw)
	}
}

func isIdentChar(c byte) bool {
	return c == '_' || (c >= '0' && c <= '9') || (c >= 'a' && c <= 'z') || (c >= 'A' && c <= 'Z')
}

func matchParen(s string, open int, o, c byte) int {
	depth := 0
	for k := open; k < len(s); k++ {
		if s[k] == o {
			depth++
		} else if s[k] == c {
			depth--
			if depth == 0 {
				return k
			}
		}
	}
	return -1
}

// R14Config — the configuration block packed by PatchConfig has the shape the
// Demon's DemonConfig() reads.
func R14Config(c *Ctx) {
	const rule = "R14-config-schema"
	c.R.Rule(rule, "the sequence of DemonConfig.Add* calls in PatchConfig (common part, then per listener type), reduced to a shape over {I32, I64, BYTES, loop{}, opt{}}, equals the shape of the ParserGet* sequence of DemonConfig() in payloads/Demon/src/Demon.c for the matching TRANSPORT_* branch", 2)
	fd, pk := c.P.FuncDecl(PkgBuilder, "Builder.PatchConfig")
	if fd == nil {
		c.R.Anchor(rule, "builder.(*Builder).PatchConfig")
		return
	}
	b, err := os.ReadFile(filepath.Join(c.Repo, "payloads", "Demon", "src", "Demon.c"))
	if err != nil {
		c.R.Anchor(rule, "payloads/Demon/src/Demon.c")
		return
	}
	src := string(b)
	// Go: statements before the listener switch are common; the switch on ListenerType gives the variants
	var common []ast.Stmt
	var sw *ast.SwitchStmt
	for _, st := range fd.Body.List {
		if s, ok := st.(*ast.SwitchStmt); ok && strings.Contains(ExprStr(s.Tag), "ListenerType") {
			sw = s
			break
		}
		common = append(common, st)
	}
	if sw == nil {
		c.R.Anchor(rule, "switch b.config.ListenerType in PatchConfig")
		return
	}
	commonShape := goShape(pk, common, "DemonConfig")
	for _, cc := range sw.Body.List {
		clause := cc.(*ast.CaseClause)
		label := caseLabel(clause)
		define := ""
		switch {
		case strings.Contains(label, "LISTENER_HTTP"):
			define = "TRANSPORT_HTTP"
		case strings.Contains(label, "LISTENER_PIVOT_SMB"):
			define = "TRANSPORT_SMB"
		default:
			continue
		}
		goS := append(append([]string{}, commonShape...), goShape(pk, clause.Body, "DemonConfig")...)
		cS, ok := cShape(src, "DemonConfig", define)
		if !ok {
			c.R.Anchor(rule, "function DemonConfig in Demon.c")
			return
		}
		gs, cs := strings.Join(goS, " "), strings.Join(cS, " ")
		construct := "PatchConfig[" + define + "] vs DemonConfig()"
		if gs == cs {
			c.R.Ok(rule, DeclShort(pk, fd), construct, c.pos(clause.Pos()), "both sides: "+gs, true)
		} else {
			c.R.Bad(rule, DeclShort(pk, fd), construct, c.pos(clause.Pos()), "the block the builder packs and the block the Demon reads at start-up differ in field kind, order or count", "teamserver packs: "+gs, "Demon reads:     "+cs)
		}
	}
}
