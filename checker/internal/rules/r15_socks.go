package rules

import (
	"go/token"
	"go/types"
	"strings"

	"golang.org/x/tools/go/ssa"

	"hv/internal/core"
)

// socksHandler finds the closure passed to (*socks.Socks).SetHandler in TaskPrepare.
func (c *Ctx) socksHandler() *ssa.Function {
	tp := c.P.Func(PkgAgent, "Agent.TaskPrepare")
	if tp == nil {
		return nil
	}
	var h *ssa.Function
	EachCall(tp, func(call ssa.CallInstruction) {
		if CalleeName(call) == "(*Havoc/pkg/socks.Socks).SetHandler" {
			args := CallArgs(call)
			if mc, ok := args[0].(*ssa.MakeClosure); ok {
				h = mc.Fn.(*ssa.Function)
			}
		}
	})
	return h
}

// R15Socks — protocol shape of the SOCKS5 front end.
func R15Socks(c *Ctx) {
	const rule = "R15-socks-shape"
	c.R.Rule(rule, "the SOCKS handler answers {VER, NOAUTH} only where NOAUTH was offered and {VER, NOMATCH} otherwise, lets only CONNECT proceed; the reply is VER, REP, 0x00, ATYP, [len if FQDN], addr, port-hi, port-lo built from the ATYP/address/port stored for that client; the handshake readers read unbuffered and only return complete fields (no bufio read-ahead, no single Read compared with a length); the connect task carries socket id, ATYP, address and port of the parsed request and relay tasks the client's own socket id", 8)
	h := c.socksHandler()
	if h == nil {
		c.R.Anchor(rule, "the closure passed to Socks.SetHandler in TaskPrepare")
		return
	}
	hname := FuncShort(h)
	ver, _ := c.pkgConstAny(PkgSocks, "Version")
	noauth, _ := c.pkgConstAny(PkgSocks, "NoAuth")
	nomatch, _ := c.pkgConstAny(PkgSocks, "NoMatch")
	connect, _ := c.pkgConstAny(PkgSocks, "ConnectCommand")
	// (a) method selection writes
	for _, b := range h.Blocks {
		for _, in := range b.Instrs {
			call, ok := in.(ssa.CallInstruction)
			if !ok || CalleeName(call) != "(net.Conn).Write" {
				continue
			}
			bytes := literalBytes(call.Common().Args[0])
			if len(bytes) != 2 || bytes[0] != ver {
				continue
			}
			// the HasNoAuth flag
			flagTrue, flagKnown := false, false
			for _, f := range FactsAt(b) {
				if ph, ok := f.Cond.(*ssa.Phi); ok {
					srcs, other := trueSources(ph)
					if len(other) == 0 && len(srcs) > 0 {
						allUnderNoAuth := true
						for _, sb := range srcs {
							under := false
							if sb != nil {
								for _, f2 := range FactsAt(sb) {
									if bo, ok := f2.Cond.(*ssa.BinOp); ok && bo.Op == token.EQL && f2.Truth {
										if v, ok := ConstInt(bo.Y); ok && v == noauth {
											under = true
										}
									}
								}
								if !under && len(sb.Instrs) > 0 {
									if pi, ok := sb.Instrs[len(sb.Instrs)-1].(*ssa.If); ok {
										if bo, ok := pi.Cond.(*ssa.BinOp); ok && bo.Op == token.EQL {
											if v, ok := ConstInt(bo.Y); ok && v == noauth {
												under = true
											}
										}
									}
								}
							}
							if !under {
								allUnderNoAuth = false
							}
						}
						if allUnderNoAuth {
							flagKnown, flagTrue = true, f.Truth
						}
					}
				}
			}
			switch bytes[1] {
			case noauth:
				if flagKnown && flagTrue {
					c.R.Ok(rule, hname, "write {VER, NOAUTH}", c.pos(call.Pos()), "only where a NOAUTH method was found among the offered ones", true)
				} else {
					c.R.Bad(rule, hname, "write {VER, NOAUTH}", c.pos(call.Pos()), "no-authentication is selected on a path where the client did not offer it")
				}
			case nomatch:
				if flagKnown && !flagTrue {
					c.R.Ok(rule, hname, "write {VER, NOMATCH}", c.pos(call.Pos()), "only where NOAUTH was not offered", true)
				} else {
					c.R.Bad(rule, hname, "write {VER, NOMATCH}", c.pos(call.Pos()), "the refusal is sent on a path where NOAUTH was offered (or independently of the offer)")
				}
			default:
				c.R.Bad(rule, hname, "method selection write", c.pos(call.Pos()), "a method other than NOAUTH/NOMATCH is selected")
			}
		}
	}
	// only CONNECT proceeds
	var add ssa.CallInstruction
	EachCall(h, func(call ssa.CallInstruction) {
		if CalleeName(call) == "(*Havoc/pkg/agent.Agent).SocksClientAdd" {
			add = call
		}
	})
	if add == nil {
		c.R.Anchor(rule, "SocksClientAdd call in the handler")
	} else {
		okCmd := false
		for _, f := range FactsAt(add.Block()) {
			if bo, ok := f.Cond.(*ssa.BinOp); ok {
				if v, isC := ConstInt(bo.Y); isC && v == connect && DerivesFrom(bo.X, IsFieldLoad(PkgSocks+".SocksHeader", "Command")) {
					if (bo.Op == token.EQL) == f.Truth {
						okCmd = true
					}
				}
			}
		}
		if okCmd {
			c.R.Ok(rule, hname, "register client only for CONNECT", c.pos(add.Pos()), "every other command reaches SendCommandNotSupported and returns", true)
		} else {
			c.R.Bad(rule, hname, "register client only for CONNECT", c.pos(add.Pos()), "a request with a command other than CONNECT proceeds to the agent")
		}
		// (e) connect task data from the parsed header; relay jobs carry the client's id
		args := CallArgs(add)
		okArgs := len(args) == 5 && DerivesFrom(args[2], IsFieldLoad(PkgSocks+".SocksHeader", "ATYP")) && DerivesFrom(args[3], IsFieldLoad(PkgSocks+".SocksHeader", "IpDomain")) && DerivesFrom(args[4], IsFieldLoad(PkgSocks+".SocksHeader", "Port"))
		if okArgs {
			c.R.Ok(rule, hname, "SocksClientAdd(id, conn, hdr.ATYP, hdr.IpDomain, hdr.Port)", c.pos(add.Pos()), "the address type, address and port echoed later are the parsed ones", true)
		} else {
			c.R.Bad(rule, hname, "SocksClientAdd(id, conn, hdr.ATYP, hdr.IpDomain, hdr.Port)", c.pos(add.Pos()), "the client record does not store ATYP/address/port of the parsed request: the reply echoes something else")
		}
	}
	// (b) CreateResponsePackage layout
	cr := c.P.Func(PkgSocks, "CreateResponsePackage")
	if cr == nil {
		c.R.Anchor(rule, "socks.CreateResponsePackage")
	} else {
		okHdr, okLen, okPort := false, false, false
		for _, b := range cr.Blocks {
			for _, in := range b.Instrs {
				switch x := in.(type) {
				case *ssa.Store:
					// the 4-byte literal header {Version, ErrorType, 0, ATYP}
					if ia, ok := x.Addr.(*ssa.IndexAddr); ok {
						if i, ok := ConstInt(ia.Index); ok {
							switch i {
							case 1:
								if IsParam(x.Val, cr.Params[0]) {
									okHdr = true
								}
							case 3:
								if !IsParam(x.Val, cr.Params[1]) {
									okHdr = false
								}
							}
						}
					}
				case *ssa.Convert:
					// byte(len(IpDomain)) under ATYP == FQDN
					if arg, ok := isLenCall(x.X); ok && IsParam(arg, cr.Params[2]) {
						for _, f := range FactsAt(b) {
							if bo, ok := f.Cond.(*ssa.BinOp); ok && bo.Op == token.EQL && f.Truth && IsParam(bo.X, cr.Params[1]) {
								if v, ok := ConstInt(bo.Y); ok && v == 3 {
									okLen = true
								}
							}
						}
					}
				case *ssa.BinOp:
					if x.Op == token.SHR && DerivesFrom(x.X, func(v ssa.Value) bool { return IsParam(v, cr.Params[3]) }) {
						if v, ok := ConstInt(x.Y); ok && v == 8 {
							okPort = true
						}
					}
				}
			}
		}
		if okHdr && okLen && okPort {
			c.R.Ok(rule, FuncShort(cr), "VER REP 0x00 ATYP [len] addr port-hi port-lo", c.pos(cr.Pos()), "reply code and address type from the parameters, length byte only for FQDN, port big-endian", true)
		} else {
			c.R.Bad(rule, FuncShort(cr), "VER REP 0x00 ATYP [len] addr port-hi port-lo", c.pos(cr.Pos()), "the reply layout changed (reply code/ATYP from parameters: "+yn(okHdr)+", length byte under ATYP==FQDN: "+yn(okLen)+", big-endian port: "+yn(okPort)+")")
		}
	}
	// SendConnect* callers pass the client's stored triple
	td := c.P.Func(PkgAgent, "Agent.TaskDispatch")
	if td != nil {
		n := 0
		for _, tdf := range HelperClosure(td, 1) {
			tdf := tdf
			EachCall(tdf, func(call ssa.CallInstruction) {
				name := CalleeName(call)
				if name != "Havoc/pkg/socks.SendConnectSuccess" && name != "Havoc/pkg/socks.SendConnectFailure" {
					return
				}
				n++
				a := call.Common().Args
				k := len(a)
				ok := DerivesFrom(a[k-3], IsFieldLoad(PkgAgent+".SocksClient", "ATYP")) && DerivesFrom(a[k-2], IsFieldLoad(PkgAgent+".SocksClient", "IpDomain")) && DerivesFrom(a[k-1], IsFieldLoad(PkgAgent+".SocksClient", "Port")) && DerivesFrom(a[0], IsFieldLoad(PkgAgent+".SocksClient", "Conn"))
				if ok {
					c.R.Ok(rule, FuncShort(td), shortCallee(name)+"(client.Conn, …, client.ATYP, client.IpDomain, client.Port)", c.pos(call.Pos()), "the reply echoes what this client asked for, on this client's connection", true)
				} else {
					c.R.Bad(rule, FuncShort(td), shortCallee(name)+"(…)", c.pos(call.Pos()), "the SOCKS reply is not built from the connection, address type, address and port stored for that client")
				}
			})
		}
		if n == 0 {
			c.R.Anchor(rule, "SendConnectSuccess/Failure calls in TaskDispatch")
		}
	}
	// (c)(d) readers: no bufio on the connection, no single Read of a fixed-length field
	for _, name := range []string{"SubNegotiationClient", "ReadSocksHeader"} {
		fn := c.P.Func(PkgSocks, name)
		if fn == nil {
			c.R.Anchor(rule, "socks."+name)
			continue
		}
		var bad []string
		EachCall(fn, func(call ssa.CallInstruction) {
			switch n := CalleeName(call); n {
			case "bufio.NewReader", "bufio.NewReaderSize":
				bad = append(bad, "wraps the connection in a bufio.Reader at "+c.pos(call.Pos())+" (bytes read ahead are lost to the next reader of the same connection)")
			case "(*bufio.Reader).Read", "(net.Conn).Read":
				bad = append(bad, "reads a fixed-length field with a single Read at "+c.pos(call.Pos())+" (short reads on segment boundaries)")
			}
		})
		if len(bad) == 0 {
			c.R.Ok(rule, FuncShort(fn), "unbuffered, complete-field reads", c.pos(fn.Pos()), "no read-ahead and no single Read compared with a length", true)
		} else {
			c.R.Bad(rule, FuncShort(fn), "unbuffered, complete-field reads", c.pos(fn.Pos()), strings.Join(bad, "; "))
		}
	}
	if er := c.P.Func(PkgSocks, "exactReader.Read"); er != nil {
		ok := false
		EachCall(er, func(call ssa.CallInstruction) {
			if CalleeName(call) == "io.ReadFull" {
				ok = true
			}
		})
		if ok {
			c.R.Ok(rule, FuncShort(er), "io.ReadFull", c.pos(er.Pos()), "a field is returned only when all its bytes have arrived", true)
		} else {
			c.R.Bad(rule, FuncShort(er), "io.ReadFull", c.pos(er.Pos()), "the handshake reader no longer waits for the complete field")
		}
	}
	// (e) relay jobs built in the reader goroutine carry the client's own socket id
	for _, an := range h.AnonFuncs {
		EachCall(an, func(call ssa.CallInstruction) {
			if CalleeName(call) != "(*Havoc/pkg/agent.Agent).AddJobToQueue" {
				return
			}
			ok := DerivesFrom(call.Common().Args[1], func(v ssa.Value) bool {
				return IsFieldLoad(PkgAgent+".SocksClient", "SocketID")(v) || (len(an.Params) > 0 && v == ssa.Value(an.Params[0]))
			})
			if ok {
				c.R.Ok(rule, FuncShort(an), "relay job carries the client's socket id", c.pos(call.Pos()), "write/close tasks are addressed to the socket of the client they were read from", true)
			} else {
				c.R.Bad(rule, FuncShort(an), "relay job carries the client's socket id", c.pos(call.Pos()), "a relay task is queued without the socket id of the client it was read from")
			}
		})
	}
}

// R15ClosePropagation — closing either side removes the socket everywhere.
func R15ClosePropagation(c *Ctx) {
	const rule = "R15-close-propagation"
	c.R.Rule(rule, "in the SOCKS reader goroutine every exit caused by a failed client read closes the client entry and queues a SOCKET_COMMAND_CLOSE task for the agent", 1)
	h := c.socksHandler()
	if h == nil {
		c.R.Anchor(rule, "the SOCKS handler closure")
		return
	}
	for _, an := range h.AnonFuncs {
		var read *ssa.Call
		EachCall(an, func(call ssa.CallInstruction) {
			if CalleeName(call) == "(*Havoc/pkg/agent.Agent).SocksClientRead" {
				read, _ = call.(*ssa.Call)
			}
		})
		if read == nil {
			continue
		}
		// blocks on the err != nil edge that leave the loop must call SocksClientClose; find exits without it
		closes := map[*ssa.BasicBlock]bool{}
		EachCall(an, func(call ssa.CallInstruction) {
			if CalleeName(call) == "(*Havoc/pkg/agent.Agent).SocksClientClose" {
				closes[call.Block()] = true
			}
		})
		// the error edge
		var errBlock *ssa.BasicBlock
		for _, b := range an.Blocks {
			if len(b.Instrs) == 0 {
				continue
			}
			if iff, ok := b.Instrs[len(b.Instrs)-1].(*ssa.If); ok {
				if bo, ok := iff.Cond.(*ssa.BinOp); ok && (isNilConst(bo.X) || isNilConst(bo.Y)) {
					v := bo.X
					if isNilConst(bo.X) {
						v = bo.Y
					}
					if ex, ok := v.(*ssa.Extract); ok && ex.Tuple == ssa.Value(read) && ex.Index == 1 {
						if bo.Op == token.EQL {
							errBlock = b.Succs[1]
						} else {
							errBlock = b.Succs[0]
						}
					}
				}
			}
		}
		if errBlock == nil {
			c.R.Und(rule, FuncShort(an), "read-error edge", c.pos(read.Pos()), "could not locate the branch on SocksClientRead's error")
			continue
		}
		// can a return be reached from errBlock without passing a closing block?
		seen := map[*ssa.BasicBlock]bool{}
		leak := false
		var walk func(b *ssa.BasicBlock)
		walk = func(b *ssa.BasicBlock) {
			if seen[b] || closes[b] || leak {
				return
			}
			seen[b] = true
			if len(b.Succs) == 0 {
				leak = true
				return
			}
			for _, s := range b.Succs {
				if s == read.Block() || s.Dominates(read.Block()) {
					continue // back to the loop: not an exit
				}
				walk(s)
			}
		}
		walk(errBlock)
		construct := "read error → SocksClientClose + SOCKET_COMMAND_CLOSE"
		if !leak {
			c.R.Ok(rule, FuncShort(an), construct, c.pos(read.Pos()), "every exit after a failed client read removes the client and tells the agent", true)
		} else {
			c.R.Bad(rule, FuncShort(an), construct, c.pos(read.Pos()), "a failed client read (io.EOF: the client closed its side) leaves the reader goroutine without closing the client entry or telling the agent: the socket stays in the table and on the agent")
		}
	}
}

// literalBytes extracts the constant bytes of a []byte{…} literal argument.
func literalBytes(v ssa.Value) []int64 {
	sl, ok := v.(*ssa.Slice)
	if !ok {
		return nil
	}
	al, ok := sl.X.(*ssa.Alloc)
	if !ok {
		return nil
	}
	elems := map[int64]int64{}
	max := int64(-1)
	for _, r := range *al.Referrers() {
		ia, ok := r.(*ssa.IndexAddr)
		if !ok {
			continue
		}
		idx, ok := ConstInt(ia.Index)
		if !ok {
			return nil
		}
		for _, r2 := range *ia.Referrers() {
			if st, ok := r2.(*ssa.Store); ok && st.Addr == ssa.Value(ia) {
				val, ok := ConstInt(st.Val)
				if !ok {
					return nil
				}
				elems[idx] = val
				if idx > max {
					max = idx
				}
			}
		}
	}
	out := make([]int64, max+1)
	for i := range out {
		out[i] = elems[int64(i)]
	}
	return out
}

// pkgConstAny returns the value of a typed or untyped integer constant.
func (c *Ctx) pkgConstAny(pkgPath, name string) (int64, bool) { return c.pkgConst(pkgPath, name) }

var _ = core.Discharged

// R15FailureCloses — a refused CONNECT is answered and the socket dropped.
func R15FailureCloses(c *Ctx) {
	const rule = "R15-failure-closes"
	c.R.Rule(rule, "every path that continues after socks.SendConnectFailure in the agent's callback handling passes SocksClientClose before the function returns: the client of a refused/failed CONNECT gets its failure reply and is then closed and removed from the socket table, whether or not the reply could be written", 1)
	n := 0
	for _, fn := range c.P.ModuleFuncs(func(p string) bool { return p == PkgAgent }) {
		closes := map[*ssa.BasicBlock][]int{}
		for _, b := range fn.Blocks {
			for i, in := range b.Instrs {
				if call, ok := in.(ssa.CallInstruction); ok && CalleeName(call) == "(*Havoc/pkg/agent.Agent).SocksClientClose" {
					closes[b] = append(closes[b], i)
				}
			}
		}
		for _, b := range fn.Blocks {
			for i, in := range b.Instrs {
				call, ok := in.(ssa.CallInstruction)
				if !ok || CalleeName(call) != "Havoc/pkg/socks.SendConnectFailure" {
					continue
				}
				n++
				// same block, later instruction?
				covered := false
				for _, j := range closes[b] {
					if j > i {
						covered = true
					}
				}
				leak := false
				if !covered {
					seen := map[*ssa.BasicBlock]bool{}
					var walk func(x *ssa.BasicBlock)
					walk = func(x *ssa.BasicBlock) {
						if seen[x] || leak {
							return
						}
						seen[x] = true
						if len(closes[x]) > 0 {
							return
						}
						if len(x.Succs) == 0 {
							leak = true
							return
						}
						for _, s := range x.Succs {
							walk(s)
						}
					}
					if len(b.Succs) == 0 {
						leak = true
					}
					for _, s := range b.Succs {
						walk(s)
					}
				}
				construct := "SendConnectFailure → SocksClientClose on every path"
				if !leak {
					c.R.Ok(rule, FuncShort(fn), construct, c.pos(call.Pos()), "the failure reply is always followed by closing and removing the client", true)
				} else {
					c.R.Bad(rule, FuncShort(fn), construct, c.pos(call.Pos()), "after the failure reply a path reaches the end of the function without SocksClientClose: the client connection stays open and its id stays in the socket table")
				}
			}
		}
	}
	if n == 0 {
		c.R.Anchor(rule, "a call of socks.SendConnectFailure in package agent")
	}
}

// R15PrivateChunk — a relayed chunk is a private copy.
func R15PrivateChunk(c *Ctx) {
	const rule = "R15-private-chunk"
	c.R.Rule(rule, "the byte slice SocksClientRead / PortFwdRead return — which is queued in a socket-write task and serialised later, possibly after further reads — is backed by memory allocated in that call (make, append onto nil, a local bytes.Buffer) and not handed to anything else: it is never a sub-slice of a buffer that is reused, pooled or stored (the next read would overwrite a chunk that is still queued)", 2)
	for _, name := range []string{"Agent.SocksClientRead", "Agent.PortFwdRead"} {
		fn := c.P.Func(PkgAgent, name)
		if fn == nil {
			c.R.Anchor(rule, "agent.(*"+name+")")
			continue
		}
		for _, b := range fn.Blocks {
			if len(b.Instrs) == 0 {
				continue
			}
			ret, ok := b.Instrs[len(b.Instrs)-1].(*ssa.Return)
			if !ok || len(ret.Results) == 0 {
				continue
			}
			why := privateBytes(ret.Results[0], fn, 0)
			if k, isC := ret.Results[0].(*ssa.Const); isC && k.IsNil() {
				continue
			}
			construct := "returned chunk is freshly allocated"
			if why == "" {
				c.R.Ok(rule, FuncShort(fn), construct, c.pos(ret.Pos()), "backed by memory allocated in this call and not shared", true)
			} else {
				c.R.Bad(rule, FuncShort(fn), construct, c.pos(ret.Pos()), "the returned chunk "+why+": a later read reuses that memory while the chunk is still queued for the agent, so relayed bytes are overwritten")
			}
		}
	}
}

// privateBytes returns "" when v is backed by memory allocated in fn and not shared, else a description.
func privateBytes(v ssa.Value, fn *ssa.Function, depth int) string {
	if depth > 8 {
		return "has an origin the rule cannot follow"
	}
	escapes := func(x ssa.Value) string {
		for _, r := range *x.Referrers() {
			switch u := r.(type) {
			case *ssa.Store:
				if u.Val == x {
					if _, isAlloc := u.Addr.(*ssa.Alloc); !isAlloc {
						return "is also stored into a longer-lived location"
					}
				}
			case ssa.CallInstruction:
				n := CalleeName(u)
				if strings.Contains(n, "sync.Pool).Put") {
					return "is put back into a sync.Pool"
				}
			}
		}
		return ""
	}
	switch x := v.(type) {
	case *ssa.Const:
		return ""
	case *ssa.MakeSlice:
		return escapes(x)
	case *ssa.Slice:
		return privateBytes(x.X, fn, depth+1)
	case *ssa.Alloc:
		// make with constant size: new [N]byte; or a local variable cell
		if s := escapes(x); s != "" {
			return s
		}
		for _, r := range *x.Referrers() {
			if st, ok := r.(*ssa.Store); ok && st.Addr == ssa.Value(x) {
				if s := privateBytes(st.Val, fn, depth+1); s != "" {
					return s
				}
			}
		}
		return ""
	case *ssa.UnOp:
		return privateBytes(x.X, fn, depth+1)
	case *ssa.Phi:
		for _, e := range x.Edges {
			if s := privateBytes(e, fn, depth+1); s != "" {
				return s
			}
		}
		return ""
	case *ssa.Call:
		switch CalleeName(x) {
		case "builtin.append":
			return privateBytes(x.Call.Args[0], fn, depth+1)
		case "(*bytes.Buffer).Bytes":
			// a buffer local to this call
			if al, ok := x.Call.Args[0].(*ssa.Alloc); ok {
				return escapes(al)
			}
			return "comes from a bytes.Buffer that is not local to the call"
		case "bytes.Clone":
			return ""
		}
		return "comes from " + CalleeName(x) + "()"
	case *ssa.TypeAssert:
		return "is " + DescribeValue(x.X) + " asserted to []byte (not allocated here)"
	case *ssa.Parameter, *ssa.Global, *ssa.FreeVar:
		return "is memory owned outside this call"
	}
	return "has an origin the rule cannot follow"
}

// R15FieldLoops — the loops of the handshake readers consume a counted field completely.
func R15FieldLoops(c *Ctx) {
	const rule = "R15-field-loops"
	c.R.Rule(rule, "in the SOCKS handshake readers (package socks: SubNegotiationClient, ReadSocksHeader and their helpers) a loop that reads a counted field byte by byte is left only when the count is exhausted or a read failed: no exit of such a loop depends on the value of a byte just read — bytes of the field left unread would be parsed as the start of the next message", 1)
	n := 0
	for _, fn := range c.P.ModuleFuncs(func(p string) bool { return p == PkgSocks }) {
		for _, l := range naturalLoops(fn) {
			// bytes read inside the loop
			var reads []ssa.Value
			for b := range l.body {
				for _, in := range b.Instrs {
					call, ok := in.(*ssa.Call)
					if !ok {
						continue
					}
					name := CalleeName(call)
					if strings.HasSuffix(name, ".ReadByte") || strings.HasSuffix(name, ".Read") || name == "io.ReadFull" || strings.HasSuffix(name, ".ReadFull") {
						reads = append(reads, call)
						for _, a := range call.Call.Args {
							reads = append(reads, a) // the buffer filled by the read
						}
					}
				}
			}
			if len(reads) == 0 {
				continue
			}
			n++
			construct := "loop reading a counted field"
			bad := ""
			for b := range l.body {
				iff, ok := b.Instrs[len(b.Instrs)-1].(*ssa.If)
				if !ok {
					continue
				}
				leaves := false
				for _, s := range b.Succs {
					if !l.body[s] {
						leaves = true
					}
				}
				if !leaves {
					continue
				}
				// an exit on the error result of the read is the failed-read exit
				onData := derivesFieldwise(iff.Cond, func(v ssa.Value) bool {
					ex, isEx := v.(*ssa.Extract)
					if !isEx || isErrorType(ex.Type()) {
						return false
					}
					for _, r := range reads {
						if ex.Tuple == r {
							return true
						}
					}
					return false
				})
				if onData {
					bad = c.pos(iff.Cond.Pos())
				}
			}
			pos := c.pos(l.header.Instrs[0].Pos())
			if bad == "" {
				c.R.Ok(rule, FuncShort(fn), construct, pos, "every exit is the exhausted count or a failed read", true)
			} else {
				c.R.Bad(rule, FuncShort(fn), construct, bad, "the loop is left on the value of a byte it just read: the rest of the counted field stays in the stream and is parsed as the next message")
			}
		}
	}
	if n == 0 {
		c.R.Anchor(rule, "a reading loop in package socks")
	}
}

func isErrorType(t types.Type) bool { return t.String() == "error" }

// derivesFieldwise: backward data dependence through arithmetic, conversions, phis and local variables, where a load
// of a field of a local struct depends only on the stores to that same field.
func derivesFieldwise(v ssa.Value, pred func(ssa.Value) bool) bool {
	seen := map[ssa.Value]bool{}
	var rec func(v ssa.Value) bool
	storesTo := func(al *ssa.Alloc, field int) []ssa.Value {
		var out []ssa.Value
		for _, r := range *al.Referrers() {
			switch x := r.(type) {
			case *ssa.Store:
				if x.Addr == ssa.Value(al) && field < 0 {
					out = append(out, x.Val)
				}
			case *ssa.FieldAddr:
				if x.Field != field {
					continue
				}
				for _, r2 := range *x.Referrers() {
					if st, ok := r2.(*ssa.Store); ok && st.Addr == ssa.Value(x) {
						out = append(out, st.Val)
					}
				}
			}
		}
		return out
	}
	rec = func(v ssa.Value) bool {
		if v == nil || seen[v] {
			return false
		}
		seen[v] = true
		if pred(v) {
			return true
		}
		switch x := v.(type) {
		case *ssa.BinOp:
			return rec(x.X) || rec(x.Y)
		case *ssa.Convert:
			return rec(x.X)
		case *ssa.ChangeType:
			return rec(x.X)
		case *ssa.Phi:
			for _, e := range x.Edges {
				if rec(e) {
					return true
				}
			}
		case *ssa.Extract:
			return false
		case *ssa.Index:
			return rec(x.X) || rec(x.Index)
		case *ssa.Lookup:
			return rec(x.X)
		case *ssa.Slice:
			return rec(x.X)
		case *ssa.UnOp:
			if x.Op != token.MUL {
				return rec(x.X)
			}
			switch a := x.X.(type) {
			case *ssa.Alloc:
				for _, sv := range storesTo(a, -1) {
					if rec(sv) {
						return true
					}
				}
			case *ssa.FieldAddr:
				if al, ok := a.X.(*ssa.Alloc); ok {
					for _, sv := range storesTo(al, a.Field) {
						if rec(sv) {
							return true
						}
					}
				}
			case *ssa.IndexAddr:
				return rec(a.X)
			}
		case *ssa.Call:
			if b, ok := x.Call.Value.(*ssa.Builtin); ok && (b.Name() == "len" || b.Name() == "append") {
				for _, a := range x.Call.Args {
					if rec(a) {
						return true
					}
				}
			}
		}
		return false
	}
	return rec(v)
}

// R15TypedNil — a connection field never holds a typed nil.
func R15TypedNil(c *Ctx) {
	const rule = "R15-typed-nil"
	c.R.Rule(rule, "every store of a pointer into an interface-typed struct field (PortFwd.Conn and the like, whose `!= nil` test means \"open\") where the pointer is the first result of a call that also returns an error happens on the path where that error is nil (or the pointer was tested): a failed dial stored before the check leaves a non-nil interface holding a nil pointer, and the forward counts as open for ever", 0)
	n := 0
	for _, fn := range c.P.ModuleFuncs(NonYaotl) {
		for _, b := range fn.Blocks {
			for _, in := range b.Instrs {
				st, ok := in.(*ssa.Store)
				if !ok {
					continue
				}
				fa, ok := st.Addr.(*ssa.FieldAddr)
				if !ok {
					continue
				}
				if _, isIface := st.Val.Type().Underlying().(*types.Interface); !isIface {
					continue
				}
				mi, ok := st.Val.(*ssa.MakeInterface)
				if !ok {
					continue
				}
				if _, isPtr := mi.X.Type().Underlying().(*types.Pointer); !isPtr {
					continue
				}
				// through a local variable
				src := mi.X
				if ld, ok := src.(*ssa.UnOp); ok && ld.Op == token.MUL {
					if al, ok := ld.X.(*ssa.Alloc); ok {
						var only ssa.Value
						cnt := 0
						for _, r := range *al.Referrers() {
							if s2, ok := r.(*ssa.Store); ok && s2.Addr == ssa.Value(al) {
								only = s2.Val
								cnt++
							}
						}
						if cnt == 1 {
							src = only
						}
					}
				}
				ex, ok := src.(*ssa.Extract)
				if !ok || ex.Index != 0 {
					continue
				}
				call, ok := ex.Tuple.(*ssa.Call)
				if !ok {
					continue
				}
				res := call.Call.Signature().Results()
				if res.Len() < 2 || !isErrorType(res.At(res.Len()-1).Type()) {
					continue
				}
				n++
				_, fname, _, _ := FieldOf(fa)
				construct := "." + fname + " = <pointer result of " + shortCallee(CalleeName(call)) + ">"
				okGuard := false
				for _, f := range FactsAt(b) {
					bo, isBin := f.Cond.(*ssa.BinOp)
					if !isBin || !(isNilConst(bo.X) || isNilConst(bo.Y)) {
						continue
					}
					v := bo.X
					if isNilConst(bo.X) {
						v = bo.Y
					}
					if e2, isEx := v.(*ssa.Extract); isEx && e2.Tuple == ssa.Value(call) {
						if e2.Index == res.Len()-1 && ((bo.Op == token.EQL) == f.Truth) {
							okGuard = true // err == nil
						}
						if e2.Index == 0 && ((bo.Op == token.NEQ) == f.Truth) {
							okGuard = true // ptr != nil
						}
					}
				}
				if okGuard {
					c.R.Ok(rule, FuncShort(fn), construct, c.pos(st.Pos()), "stored on the path where the call succeeded", true)
				} else {
					c.R.Bad(rule, FuncShort(fn), construct, c.pos(st.Pos()), "the pointer result is stored into the interface field before the call's error is tested: after a failure the field is a non-nil interface around a nil pointer, every `!= nil` test on it reports an open connection")
				}
			}
		}
	}
	c.R.Extra["R15-typed-nil.sites"] = n
}

// R15AgentClose — a close/remove reported by the agent closes the server side for every socket type that has one.
func R15AgentClose(c *Ctx) {
	const rule = "R15-agent-close"
	c.R.Rule(rule, "in TaskDispatch, under the socket sub-command SOCKET_COMMAND_RPORTFWD_REMOVE the call PortFwdClose(<socket id>) is reached for both socket types the agent reports that way (SOCKET_TYPE_REVERSE_PORTFWD: the forward itself, SOCKET_TYPE_CLIENT: one of its clients), and under SOCKET_COMMAND_CLOSE the call SocksClientClose is reached for SOCKET_TYPE_REVERSE_PROXY: the comparisons of parsed values with constants that dominate the call do not exclude any of these types", 3)
	td := c.P.Func(PkgAgent, "Agent.TaskDispatch")
	if td == nil {
		c.R.Anchor(rule, "agent.(*Agent).TaskDispatch")
		return
	}
	parsed := func(v ssa.Value) ssa.Value {
		for {
			switch x := v.(type) {
			case *ssa.Convert:
				v = x.X
				continue
			case *ssa.ChangeType:
				v = x.X
				continue
			}
			break
		}
		if call, ok := v.(*ssa.Call); ok && strings.HasPrefix(CalleeName(call), "(*Havoc/pkg/common/parser.Parser).Parse") {
			return call
		}
		return nil
	}
	type cmpFact struct {
		x     ssa.Value
		k     int64
		equal bool // the fact says x == k (true) or x != k (false)
	}
	// how many distinct constants each parsed value is compared with (the switch tag has many)
	consts := map[ssa.Value]map[int64]bool{}
	for _, fn := range HelperClosure(td, 1) {
		for _, b := range fn.Blocks {
			for _, in := range b.Instrs {
				bo, ok := in.(*ssa.BinOp)
				if !ok || (bo.Op != token.EQL && bo.Op != token.NEQ) {
					continue
				}
				for _, pair := range [][2]ssa.Value{{bo.X, bo.Y}, {bo.Y, bo.X}} {
					if x := parsed(pair[0]); x != nil {
						if k, isC := ConstInt(pair[1]); isC {
							if consts[x] == nil {
								consts[x] = map[int64]bool{}
							}
							consts[x][k] = true
						}
					}
				}
			}
		}
	}
	factsOf := func(b *ssa.BasicBlock) []cmpFact {
		var out []cmpFact
		for _, f := range FactsAt(b) {
			cond, truth := StripNot(f.Cond, f.Truth)
			bo, ok := cond.(*ssa.BinOp)
			if !ok || (bo.Op != token.EQL && bo.Op != token.NEQ) {
				continue
			}
			for _, pair := range [][2]ssa.Value{{bo.X, bo.Y}, {bo.Y, bo.X}} {
				if x := parsed(pair[0]); x != nil {
					if k, isC := ConstInt(pair[1]); isC {
						out = append(out, cmpFact{x, k, (bo.Op == token.EQL) == truth})
					}
				}
			}
		}
		return out
	}
	type row struct {
		callee, arm string
		types       []string
	}
	for _, r := range []row{
		{"(*Havoc/pkg/agent.Agent).PortFwdClose", "SOCKET_COMMAND_RPORTFWD_REMOVE", []string{"SOCKET_TYPE_REVERSE_PORTFWD", "SOCKET_TYPE_CLIENT"}},
		{"(*Havoc/pkg/agent.Agent).SocksClientClose", "SOCKET_COMMAND_CLOSE", []string{"SOCKET_TYPE_REVERSE_PROXY"}},
	} {
		armK, ok := c.pkgConst(PkgAgent, r.arm)
		if !ok {
			c.R.Anchor(rule, "agent."+r.arm)
			continue
		}
		// the sites of the call inside the arm: dominated by (tag == armK) where tag is compared with many constants
		type site struct {
			pos   token.Pos
			other []cmpFact
		}
		var sites []site
		for _, fn := range HelperClosure(td, 1) {
			EachCall(fn, func(call ssa.CallInstruction) {
				if CalleeName(call) != r.callee {
					return
				}
				fs := factsOf(call.Block())
				inArm := false
				var other []cmpFact
				for _, f := range fs {
					if len(consts[f.x]) >= 4 {
						if f.equal && f.k == armK {
							inArm = true
						}
						continue
					}
					other = append(other, f)
				}
				if inArm {
					sites = append(sites, site{call.Pos(), other})
				}
			})
		}
		for _, tn := range r.types {
			tk, ok := c.pkgConst(PkgAgent, tn)
			if !ok {
				c.R.Anchor(rule, "agent."+tn)
				continue
			}
			construct := shortCallee(r.callee) + " under " + r.arm + " for " + tn
			admitted := false
			for _, s := range sites {
				okSite := true
				for _, f := range s.other {
					if f.equal && f.k != tk {
						okSite = false
					}
					if !f.equal && f.k == tk {
						okSite = false
					}
				}
				if okSite {
					admitted = true
				}
			}
			switch {
			case len(sites) == 0:
				c.R.Bad(rule, FuncShort(td), construct, c.pos(td.Pos()), "no call of "+shortCallee(r.callee)+" is left under this sub-command: a close reported by the agent no longer closes the server side")
			case admitted:
				c.R.Ok(rule, FuncShort(td), construct, c.pos(sites[0].pos), "the call is reached for this socket type", true)
			default:
				c.R.Bad(rule, FuncShort(td), construct, c.pos(sites[0].pos), "every call of "+shortCallee(r.callee)+" under this sub-command is conditional on comparisons that exclude "+tn+": the agent's report for such a socket leaves the server-side entry and its connection open")
			}
		}
	}
}
