package rules

import (
	"encoding/json"
	"go/token"
	"go/types"
	"os"
	"path/filepath"
	"regexp"
	"sort"
	"strconv"
	"strings"

	"golang.org/x/tools/go/ssa"
)

// ---- C side: command handlers ---------------------------------------------------

var reCRead = regexp.MustCompile(`ParserGet(Int16|Int32|Int64|Bool|Byte|Bytes|String|WString)\s*\(`)
var reDefine = regexp.MustCompile(`(?m)^\s*#define\s+([A-Z_][A-Z0-9_]*)\s+(0x[0-9a-fA-F]+|\d+)\b`)
var reCmdTable = regexp.MustCompile(`\.ID\s*=\s*([A-Z_][A-Z0-9_]*)\s*,\s*\.Function\s*=\s*([A-Za-z_][A-Za-z0-9_]*)`)
var reCase = regexp.MustCompile(`\bcase\s+([A-Z_][A-Z0-9_]*)\s*:`)

func cReadKind(name string) string {
	switch name {
	case "Int32", "Bool":
		return "I32"
	case "Int64":
		return "I64"
	case "Int16":
		return "I16"
	case "Byte":
		return "I8"
	}
	return "BYTES"
}

// cFuncText returns the body of a C function definition with comments removed.
func cFuncText(src, fn string) (string, bool) {
	re := regexp.MustCompile(`(?m)^[A-Za-z_][A-Za-z0-9_ \*]*\b` + regexp.QuoteMeta(fn) + `\s*\(`)
	for _, loc := range re.FindAllStringIndex(src, -1) {
		rest := src[loc[1]:]
		b, s := strings.Index(rest, "{"), strings.Index(rest, ";")
		if b < 0 || (s >= 0 && s < b) {
			continue
		}
		end := matchParen(rest, b, '{', '}')
		if end < 0 {
			return "", false
		}
		text := rest[b+1 : end]
		text = regexp.MustCompile(`(?s)/\*.*?\*/`).ReplaceAllString(text, " ")
		text = regexp.MustCompile(`//[^\n]*`).ReplaceAllString(text, " ")
		text = regexp.MustCompile(`"(\\.|[^"\\])*"`).ReplaceAllString(text, `""`)
		return text, true
	}
	return "", false
}

// cFlat: the reads of a text in order; ok=false when a read sits under for/while/if/switch (control flow).
func cFlat(text string) (kinds []string, straight bool) {
	straight = true
	depthCtl := 0
	_ = depthCtl
	// any read inside a nested control construct makes the arm non-straight
	sh := cShapeBlockAll(text)
	for _, t := range sh {
		if strings.HasPrefix(t, "loop{") || strings.HasPrefix(t, "opt{") {
			straight = false
			continue
		}
		kinds = append(kinds, t)
	}
	if indexKeyword(text, "switch") >= 0 && reCRead.MatchString(text[indexKeyword(text, "switch"):]) {
		straight = false
	}
	return
}

// cShapeBlockAll is cShapeBlock with the full getter set (I16/I8 included).
func cShapeBlockAll(text string) []string { return cShapeWith(text, reCRead, cReadKind) }

// cShapeWith walks brace-structured C text collecting the calls matched by re (first group = kind name).
func cShapeWith(text string, re *regexp.Regexp, kindOf func(string) string) []string {
	var out []string
	i := 0
	for i < len(text) {
		loc := re.FindStringSubmatchIndex(text[i:])
		next, kind := -1, ""
		pick := func(idx int, k string) {
			if idx >= 0 && (next < 0 || idx < next) {
				next, kind = idx, k
			}
		}
		if loc != nil {
			pick(loc[0], "read")
		}
		pick(indexKeyword(text[i:], "for"), "for")
		pick(indexKeyword(text[i:], "if"), "if")
		pick(indexKeyword(text[i:], "while"), "while")
		if next < 0 {
			break
		}
		if kind == "read" {
			out = append(out, kindOf(text[i+loc[2]:i+loc[3]]))
			i += loc[1]
			continue
		}
		p := i + next + len(kind)
		hs := strings.Index(text[p:], "(")
		if hs < 0 {
			i = p
			continue
		}
		he := matchParen(text, p+hs, '(', ')')
		if he < 0 {
			i = p
			continue
		}
		header := text[p+hs : he+1]
		k := he + 1
		for k < len(text) && strings.ContainsRune(" \n\t\r", rune(text[k])) {
			k++
		}
		var inner string
		if k < len(text) && text[k] == '{' {
			be := matchParen(text, k, '{', '}')
			if be < 0 {
				i = k + 1
				continue
			}
			inner = text[k+1 : be]
			i = be + 1
		} else {
			se := strings.Index(text[k:], ";")
			if se < 0 {
				se = len(text) - k - 1
			}
			inner = text[k : k+se+1]
			i = k + se + 1
		}
		out = append(out, cShapeWith(header, re, kindOf)...)
		if in := cShapeWith(inner, re, kindOf); len(in) > 0 {
			if kind == "if" {
				out = append(out, "opt{"+strings.Join(in, " ")+"}")
			} else {
				out = append(out, "loop{"+strings.Join(in, " ")+"}")
			}
		}
		// else / else if: its statement or block is conditional too
		for kind == "if" {
			k := i
			for k < len(text) && strings.ContainsRune(" \n\t\r", rune(text[k])) {
				k++
			}
			if !strings.HasPrefix(text[k:], "else") || (k+4 < len(text) && isIdentChar(text[k+4])) {
				break
			}
			k += 4
			for k < len(text) && strings.ContainsRune(" \n\t\r", rune(text[k])) {
				k++
			}
			if strings.HasPrefix(text[k:], "if") && indexKeyword(text[k:], "if") == 0 {
				i = k // handled by the main loop as another if (still conditional)
				break
			}
			var els string
			if k < len(text) && text[k] == '{' {
				be := matchParen(text, k, '{', '}')
				if be < 0 {
					break
				}
				els = text[k+1 : be]
				i = be + 1
			} else {
				se := strings.Index(text[k:], ";")
				if se < 0 {
					break
				}
				els = text[k : k+se+1]
				i = k + se + 1
			}
			if in := cShapeWith(els, re, kindOf); len(in) > 0 {
				out = append(out, "opt{"+strings.Join(in, " ")+"}")
			}
			break
		}
	}
	return out
}

type cHandler struct {
	fn       string
	prefix   []string            // reads before the sub-command switch (or all reads when there is none)
	prefixOK bool                // prefix is straight-line
	hasSub   bool                // switches on the first value read
	cases    map[string][]string // case label -> reads
	caseOK   map[string]bool     // straight-line?
	// the variables the reads are assigned to, for straight-line texts (same order as the kinds; "" when not an assignment)
	prefixNames []string
	caseNames   map[string][]string
}

var reCAssign = regexp.MustCompile(`([A-Za-z_][A-Za-z0-9_]*)\s*=\s*(?:\([^()=;]*\)\s*)*$`)

// cReadNames: for every ParserGet* call of a straight-line text, the identifier it is assigned to.
func cReadNames(text string) []string {
	var out []string
	for _, loc := range reCRead.FindAllStringIndex(text, -1) {
		st := strings.LastIndexAny(text[:loc[0]], ";{}")
		stmt := text[st+1 : loc[0]]
		if m := reCAssign.FindStringSubmatch(stmt); m != nil {
			out = append(out, m[1])
		} else {
			out = append(out, "")
		}
	}
	return out
}

// cParseHandler splits a handler body at its first top-level switch.
func cParseHandler(text, fn string) *cHandler {
	h := &cHandler{fn: fn, cases: map[string][]string{}, caseOK: map[string]bool{}, caseNames: map[string][]string{}}
	sw := indexKeywordTop(text, "switch")
	if sw < 0 {
		h.prefix, h.prefixOK = cFlat(text)
		h.prefixNames = cReadNames(text)
		return h
	}
	pre := text[:sw]
	h.prefix, h.prefixOK = cFlat(pre)
	h.prefixNames = cReadNames(pre)
	// switch header and body
	hs := strings.Index(text[sw:], "(")
	he := matchParen(text, sw+hs, '(', ')')
	bs := strings.Index(text[he:], "{")
	if hs < 0 || he < 0 || bs < 0 {
		return h
	}
	be := matchParen(text, he+bs, '{', '}')
	if be < 0 {
		return h
	}
	body := text[he+bs+1 : be]
	rest := text[be+1:]
	if reCRead.MatchString(rest) {
		// reads after the switch: treat the whole handler as non-straight
		h.prefixOK = false
	}
	h.hasSub = len(h.prefix) >= 1
	// split body at depth-0 case labels
	type lab struct {
		name string
		at   int
		end  int
	}
	var labs []lab
	depth := 0
	for k := 0; k < len(body); k++ {
		switch body[k] {
		case '{':
			depth++
		case '}':
			depth--
		}
		if depth == 0 {
			if m := reCase.FindStringSubmatchIndex(body[k:]); m != nil && m[0] == 0 {
				labs = append(labs, lab{name: body[k+m[2] : k+m[3]], at: k + m[1]})
				k += m[1] - 1
			} else if strings.HasPrefix(body[k:], "default") && (k == 0 || !isIdentChar(body[k-1])) {
				labs = append(labs, lab{name: "default", at: k + len("default")})
			}
		}
	}
	for i := range labs {
		if i+1 < len(labs) {
			labs[i].end = labs[i+1].at
		} else {
			labs[i].end = len(body)
		}
	}
	// fall-through labels (case A: case B: {...}) share the following text
	for i := range labs {
		seg := body[labs[i].at:labs[i].end]
		// cut the trailing "case NAME" text that belongs to the next label
		if j := reCase.FindStringIndex(seg); j != nil {
			seg = seg[:j[0]]
		}
		if strings.TrimSpace(strings.Trim(strings.TrimSpace(seg), ":")) == "" && i+1 < len(labs) {
			// empty: falls through to the next
			continue
		}
		k, ok := cFlat(seg)
		h.cases[labs[i].name] = k
		h.caseOK[labs[i].name] = ok
		h.caseNames[labs[i].name] = cReadNames(seg)
	}
	for i := len(labs) - 2; i >= 0; i-- {
		if _, have := h.cases[labs[i].name]; !have {
			h.cases[labs[i].name] = h.cases[labs[i+1].name]
			h.caseOK[labs[i].name] = h.caseOK[labs[i+1].name]
			h.caseNames[labs[i].name] = h.caseNames[labs[i+1].name]
		}
	}
	return h
}

// indexKeywordTop: first occurrence of kw( at brace depth 0.
func indexKeywordTop(s, kw string) int {
	depth := 0
	for k := 0; k < len(s); k++ {
		switch s[k] {
		case '{':
			depth++
		case '}':
			depth--
		}
		if depth == 0 && strings.HasPrefix(s[k:], kw) && (k == 0 || !isIdentChar(s[k-1])) {
			j := k + len(kw)
			for j < len(s) && (s[j] == ' ' || s[j] == '\t') {
				j++
			}
			if j < len(s) && s[j] == '(' {
				return k
			}
		}
	}
	return -1
}

// ---- Go side -----------------------------------------------------------------------

func goWireKind(t types.Type) string {
	switch u := t.Underlying().(type) {
	case *types.Basic:
		switch u.Kind() {
		case types.Int, types.Int32, types.Uint32, types.Bool, types.UntypedInt, types.UntypedBool:
			return "I32"
		case types.Int64, types.Uint64:
			return "I64"
		case types.Int16, types.Uint16:
			return "I16"
		case types.Uint8, types.Int8:
			return "I8"
		case types.String, types.UntypedString:
			return "BYTES"
		}
	case *types.Slice:
		if b, ok := u.Elem().Underlying().(*types.Basic); ok && b.Kind() == types.Uint8 {
			return "BYTES"
		}
	}
	return "?" + t.String()
}

type goTask struct {
	pos    token.Pos
	cmd    int64
	kinds  []string
	sub    int64
	hasSub bool
	exact  bool     // literal assigned once (no append on top)
	names  []string // the variable an element is read from, when it is one
}

// goVarName: the source variable a value is read from (a join or a memory cell carries its variable's name).
func goVarName(v ssa.Value) string {
	for {
		switch x := v.(type) {
		case *ssa.Convert:
			v = x.X
			continue
		case *ssa.ChangeType:
			v = x.X
			continue
		}
		break
	}
	switch x := v.(type) {
	case *ssa.Phi:
		return x.Comment
	case *ssa.Parameter:
		return x.Name()
	case *ssa.UnOp:
		if al, ok := x.X.(*ssa.Alloc); ok && x.Op == token.MUL {
			return al.Comment
		}
	}
	return ""
}

// goTasks lists the literal Job.Data assignments of TaskPrepare with their command id.
func (c *Ctx) goTasks(fn *ssa.Function) []goTask {
	cmdParam := switchedParam(fn)
	var out []goTask
	for _, b := range fn.Blocks {
		for _, in := range b.Instrs {
			st, ok := in.(*ssa.Store)
			if !ok {
				continue
			}
			t, f, _, ok := FieldOf(st.Addr)
			if !ok || t != PkgAgent+".Job" || f != "Data" {
				continue
			}
			sl, ok := st.Val.(*ssa.Slice)
			if !ok {
				continue // append(...) or a variable: dynamic
			}
			arr, ok := sl.X.(*ssa.Alloc)
			if !ok {
				continue
			}
			at, ok := arr.Type().Underlying().(*types.Pointer).Elem().Underlying().(*types.Array)
			if !ok {
				continue
			}
			elems := make([]ssa.Value, at.Len())
			for _, r := range *arr.Referrers() {
				ia, ok := r.(*ssa.IndexAddr)
				if !ok {
					continue
				}
				idx, ok := ConstInt(ia.Index)
				if !ok || idx < 0 || idx >= at.Len() {
					continue
				}
				for _, r2 := range *ia.Referrers() {
					if s2, ok := r2.(*ssa.Store); ok && s2.Addr == ssa.Value(ia) {
						elems[idx] = s2.Val
					}
				}
			}
			gt := goTask{pos: st.Pos(), cmd: -1, exact: true}
			for i, e := range elems {
				if e == nil {
					gt.kinds = append(gt.kinds, "?")
					gt.names = append(gt.names, "")
					continue
				}
				v := e
				if mi, ok := v.(*ssa.MakeInterface); ok {
					v = mi.X
				}
				gt.kinds = append(gt.kinds, goWireKind(v.Type()))
				gt.names = append(gt.names, goVarName(v))
				if i == 0 {
					if k, ok := ConstInt(v); ok && goWireKind(v.Type()) == "I32" {
						gt.sub, gt.hasSub = k, true
					}
				}
			}
			// a first element that is a variable: its value is known where a dominating `v == K` holds (switch SubCommand)
			if !gt.hasSub && len(elems) > 0 && elems[0] != nil {
				v0 := elems[0]
				if mi, ok := v0.(*ssa.MakeInterface); ok {
					v0 = mi.X
				}
				if goWireKind(v0.Type()) == "I32" {
					for _, fct := range FactsAt(b) {
						bo, ok := fct.Cond.(*ssa.BinOp)
						if !ok || bo.Op != token.EQL || !fct.Truth {
							continue
						}
						if bo.X == v0 {
							if k, ok := ConstInt(bo.Y); ok {
								gt.sub, gt.hasSub = k, true
							}
						}
					}
				}
			}
			// command: the dominating Command == K
			for _, fct := range FactsAt(b) {
				bo, ok := fct.Cond.(*ssa.BinOp)
				if !ok || bo.Op != token.EQL || !fct.Truth || cmdParam == nil {
					continue
				}
				if IsParam(bo.X, cmdParam) {
					if k, ok := ConstInt(bo.Y); ok {
						gt.cmd = k
					}
				}
			}
			out = append(out, gt)
		}
	}
	sort.Slice(out, func(i, j int) bool { return out[i].pos < out[j].pos })
	return out
}

// R14Commands — each task literal carries what the Demon's handler for that command reads.
func R14Commands(c *Ctx) {
	const rule = "R14-command-schema"
	c.R.Rule(rule, "for every literal argument list a task is given in TaskPrepare (job.Data = []interface{}{…} under `case COMMAND_X`), the wire kinds of its elements (4/8/2/1-byte integers, length-prefixed bytes — as BuildPayloadMessage encodes the Go types) equal, in order, the ParserGet* sequence of the Demon's handler registered for that command id in DemonCommands[] (payloads/Demon/src/core/Command.c), for the sub-command case selected by the literal's constant first element; both sides are re-read from source on every run; arms whose C side reads under a loop/if, or whose Go side is built by append, are listed as not compared", 15)
	fn := c.P.Func(PkgAgent, "Agent.TaskPrepare")
	if fn == nil {
		c.R.Anchor(rule, "agent.(*Agent).TaskPrepare")
		return
	}
	csrcB, err1 := os.ReadFile(filepath.Join(c.Repo, "payloads/Demon/src/core/Command.c"))
	chdrB, err2 := os.ReadFile(filepath.Join(c.Repo, "payloads/Demon/include/core/Command.h"))
	if err1 != nil || err2 != nil {
		c.R.Anchor(rule, "payloads/Demon/src/core/Command.c and include/core/Command.h")
		return
	}
	csrc, chdr := string(csrcB), string(chdrB)
	defs := map[string]int64{}
	ambiguous := map[string]bool{}
	addDefs := func(text string) {
		for _, m := range reDefine.FindAllStringSubmatch(text, -1) {
			if v, err := strconv.ParseInt(m[2], 0, 64); err == nil {
				if old, have := defs[m[1]]; have && old != v {
					ambiguous[m[1]] = true
				}
				defs[m[1]] = v
			}
		}
	}
	addDefs(chdr)
	filepath.Walk(filepath.Join(c.Repo, "payloads/Demon/include"), func(path string, info os.FileInfo, err error) error {
		if err == nil && !info.IsDir() && strings.HasSuffix(path, ".h") {
			if b, err := os.ReadFile(path); err == nil {
				addDefs(string(b))
			}
		}
		return nil
	})
	handlers := map[int64]*cHandler{}
	for _, m := range reCmdTable.FindAllStringSubmatch(csrc, -1) {
		id, ok := defs[m[1]]
		if !ok || m[2] == "NULL" {
			continue
		}
		text, ok := cFuncText(csrc, m[2])
		if !ok {
			continue
		}
		handlers[id] = cParseHandler(text, m[2])
	}
	if len(handlers) < 15 {
		c.R.Anchor(rule, "the DemonCommands[] table (resolved "+itoa(len(handlers))+" handlers)")
		return
	}
	fname := FuncShort(fn)
	reviewedCmd := map[string]string{}
	reviewedGo := map[string]string{}
	if b, err := os.ReadFile(filepath.Join(c.Verif, "tables", "command_schema_reviewed.json")); err == nil {
		var rows []struct{ Key, Why, Go string }
		if json.Unmarshal(b, &rows) == nil {
			for _, r := range rows {
				reviewedCmd[r.Key] = r.Why
				reviewedGo[r.Key] = r.Go
			}
		}
	}
	compared, skipped := 0, 0
	for _, gt := range c.goTasks(fn) {
		if gt.cmd < 0 {
			continue
		}
		h := handlers[gt.cmd]
		construct := "task literal for command " + itoa(int(gt.cmd))
		if gt.hasSub {
			construct += "/" + itoa(int(gt.sub))
		}
		if h == nil {
			c.R.NoteOb(rule, fname, construct, c.pos(gt.pos), "no handler for this command id in DemonCommands[] (teamserver-side command)")
			skipped++
			continue
		}
		var want, wantNames []string
		wantOK := h.prefixOK
		if len(h.cases) > 0 {
			if !gt.hasSub || !h.hasSub {
				c.R.NoteOb(rule, fname, construct, c.pos(gt.pos), "not compared: the handler "+h.fn+" switches on a sub-command but the literal's first element is not a constant")
				skipped++
				continue
			}
			// the case whose define equals the sub-command
			var label string
			for name := range h.cases {
				if v, ok := defs[name]; ok && v == gt.sub {
					if label == "" || name < label {
						label = name
					}
				}
			}
			unknownLabel := false
			for name := range h.cases {
				if _, ok := defs[name]; (!ok || ambiguous[name]) && name != "default" {
					unknownLabel = true
				}
			}
			if label == "" && unknownLabel {
				c.R.NoteOb(rule, fname, construct, c.pos(gt.pos), "not compared: a case label of "+h.fn+" has no (unique) #define under payloads/Demon/include")
				skipped++
				continue
			}
			if label == "" {
				if _, ok := h.cases["default"]; ok {
					label = "default"
				} else {
					c.R.Bad(rule, fname, construct, c.pos(gt.pos), "the Demon's handler "+h.fn+" has no case for sub-command "+itoa(int(gt.sub))+": the task is built but never acted on")
					continue
				}
			}
			want = append(append([]string{}, h.prefix...), h.cases[label]...)
			wantNames = append(append([]string{}, h.prefixNames...), h.caseNames[label]...)
			wantOK = wantOK && h.caseOK[label]
			construct += " ↔ " + h.fn + " case " + label
		} else {
			want = h.prefix
			wantNames = h.prefixNames
			construct += " ↔ " + h.fn
		}
		if !wantOK {
			c.R.NoteOb(rule, fname, construct, c.pos(gt.pos), "not compared: the C side reads under a loop/if/switch here")
			skipped++
			continue
		}
		for _, k := range gt.kinds {
			if strings.HasPrefix(k, "?") {
				wantOK = false
			}
		}
		if !wantOK {
			c.R.NoteOb(rule, fname, construct, c.pos(gt.pos), "not compared: an element of the literal has a type the encoder does not list")
			skipped++
			continue
		}
		compared++
		if why, ok := reviewedCmd[construct]; ok && reviewedGo[construct] == strings.Join(gt.kinds, " ") && len(want) < len(gt.kinds) && strings.Join(want, " ") == strings.Join(gt.kinds[:len(want)], " ") {
			c.R.Ok(rule, fname, construct, c.pos(gt.pos), "reviewed: the handler reads a strict prefix ["+strings.Join(want, " ")+"] of what the teamserver sends ["+strings.Join(gt.kinds, " ")+"]; the trailing argument is never looked at: "+why, true)
			continue
		}
		if why, ok := reviewedCmd[construct]; ok && reviewedGo[construct] == strings.Join(gt.kinds, " ") && len(gt.kinds) < len(want) && strings.Join(gt.kinds, " ") == strings.Join(want[:len(gt.kinds)], " ") {
			c.R.Ok(rule, fname, construct, c.pos(gt.pos), "reviewed: the teamserver sends a strict prefix ["+strings.Join(gt.kinds, " ")+"] of what the handler reads ["+strings.Join(want, " ")+"]; the Demon's parser returns 0 past the end: "+why, true)
			continue
		}
		if strings.Join(gt.kinds, " ") == strings.Join(want, " ") {
			// same kinds: two arguments of one kind may still be handed over in the other order. Where both sides
			// name their variables alike, a mutual exchange of two names is reported.
			if swap := swappedNames(gt.names, wantNames, gt.kinds); swap != "" {
				c.R.Bad(rule, fname, construct, c.pos(gt.pos), "the wire kinds agree, but "+swap+": the Demon reads each of the two values into the other one's variable")
				continue
			}
			c.R.Ok(rule, fname, construct, c.pos(gt.pos), "["+strings.Join(gt.kinds, " ")+"] on both sides", true)
		} else {
			c.R.Bad(rule, fname, construct, c.pos(gt.pos), "the teamserver packs ["+strings.Join(gt.kinds, " ")+"] but the Demon reads ["+strings.Join(want, " ")+"]: every field after the first difference is misread")
		}
	}
	c.R.Extra["command_arms_compared"] = compared
	c.R.Extra["command_arms_not_compared"] = skipped
}

// swappedNames: positions i, j of the same kind where the Go element is read from a variable named like the C
// variable at the other position, both ways round.
func swappedNames(goNames, cNames, kinds []string) string {
	if len(goNames) != len(kinds) || len(cNames) != len(kinds) {
		return ""
	}
	norm := func(s string) string { return strings.ToLower(strings.ReplaceAll(s, "_", "")) }
	for i := range kinds {
		for j := i + 1; j < len(kinds); j++ {
			if kinds[i] != kinds[j] || goNames[i] == "" || goNames[j] == "" || cNames[i] == "" || cNames[j] == "" {
				continue
			}
			gi, gj, ci, cj := norm(goNames[i]), norm(goNames[j]), norm(cNames[i]), norm(cNames[j])
			if gi != gj && gi == cj && gj == ci {
				return "argument " + itoa(i+1) + " is " + goNames[i] + " where the Demon reads " + cNames[i] + ", and argument " + itoa(j+1) + " is " + goNames[j] + " where it reads " + cNames[j]
			}
		}
	}
	return ""
}
