package rules

import (
	"go/ast"
	"go/token"
	"go/types"
	"strings"

	"golang.org/x/tools/go/packages"
	"golang.org/x/tools/go/ssa"

	"hv/internal/core"
)

// benignDrops: callees whose error/diagnostics result may be discarded, with the reason.
var benignDrops = map[string]string{
	"fmt.Fprintf":                 "formatting into an in-memory buffer",
	"fmt.Fprint":                  "formatting into an in-memory buffer",
	"fmt.Fprintln":                "formatting into an in-memory buffer",
	"bytes.Buffer.WriteString":    "bytes.Buffer writes cannot fail",
	"bytes.Buffer.Write":          "bytes.Buffer writes cannot fail",
	"bytes.Buffer.WriteByte":      "bytes.Buffer writes cannot fail",
	"bytes.Buffer.WriteRune":      "bytes.Buffer writes cannot fail",
	"strings.Builder.WriteString": "strings.Builder writes cannot fail",
	"strings.Builder.WriteByte":   "strings.Builder writes cannot fail",
	"strings.Builder.WriteRune":   "strings.Builder writes cannot fail",
	"github.com/apparentlymart/go-textseg/v13/textseg.ScanGraphemeClusters": "split function over in-memory bytes; its error is always nil for complete input",
	"github.com/apparentlymart/go-textseg/v13/textseg.TokenCount":           "counts grapheme clusters of in-memory bytes",
	"github.com/apparentlymart/go-textseg/v13/textseg.FirstToken":           "in-memory scan",
}

// benignDropsAt: (enclosing function | callee) pairs confirmed by reading.
var benignDropsAt = map[string]string{
	"(*profile/yaotl/hclsyntax.parser).parseExpressionTraversals|Havoc/pkg/profile/yaotl/hclsyntax.LiteralValueExpr.Value": "evaluating a literal node with a nil context cannot produce diagnostics (upstream HCL idiom)",
	"(*profile/yaotl/hclsyntax.parser).parseExpressionTraversals|Havoc/pkg/profile/yaotl/hclsyntax.TemplateExpr.Value":     "guarded by IsStringLiteral(): a template that is a single string literal evaluates without diagnostics (upstream HCL idiom)",
	"(*profile/yaotl/hclsyntax.SplatExpr).Value|resultTy":                                                                  "the same diagnostics were already collected while iterating (upstream comment); the value returned is unknown anyway",
}

func isErrOrDiags(t types.Type) bool {
	if t == nil {
		return false
	}
	if n, ok := t.(*types.Named); ok {
		if n.Obj().Name() == "error" && n.Obj().Pkg() == nil {
			return true
		}
		if n.Obj().Name() == "Diagnostics" && n.Obj().Pkg() != nil && n.Obj().Pkg().Path() == PkgYaotl {
			return true
		}
	}
	return false
}

// R18 — no discarded error in the profile decode path.
func R18ErrDrop(c *Ctx) {
	const rule = "R18-errdrop"
	c.R.Rule(rule, "in the functions of hclsimple, gohcl, hclsyntax (and pkg/profile) reachable from hclsimple.DecodeFile, no call result of type error or hcl.Diagnostics is bound to _ or dropped, except for the enumerated callees that cannot fail on in-memory data", 10)
	root := c.P.Func(PkgYaotl+"/hclsimple", "DecodeFile")
	if root == nil {
		c.R.Anchor(rule, "hclsimple.DecodeFile")
		return
	}
	inPkgs := func(p string) bool {
		return p == PkgYaotl+"/hclsimple" || p == PkgYaotl+"/gohcl" || p == PkgYaotl+"/hclsyntax" || p == PkgProfile || p == PkgYaotl
	}
	reach := core.Reachable(c.P.CHA(), []*ssa.Function{root, c.P.Func(PkgProfile, "Profile.SetProfile")}, func(fn *ssa.Function) bool {
		return inPkgs(core.FuncPkgPath(fn))
	})
	decls := map[*ast.FuncDecl]*packages.Package{}
	for fn := range reach {
		r := fn
		for r.Parent() != nil {
			r = r.Parent()
		}
		if fd, ok := r.Syntax().(*ast.FuncDecl); ok && fd.Body != nil {
			if pk := c.P.ByPath[core.FuncPkgPath(r)]; pk != nil {
				decls[fd] = pk
			}
		}
	}
	c.R.Extra["errdrop_functions"] = len(decls)
	var fds []*ast.FuncDecl
	for fd := range decls {
		fds = append(fds, fd)
	}
	sortDecls(fds)
	for _, fd := range fds {
		pk := decls[fd]
		fname := DeclShort(pk, fd)
		check := func(call *ast.CallExpr, dropped []int, pos ast.Node) {
			sig, ok := pk.TypesInfo.TypeOf(call.Fun).(*types.Signature)
			if !ok {
				return
			}
			res := sig.Results()
			var which []string
			for _, i := range dropped {
				if i < res.Len() && isErrOrDiags(res.At(i).Type()) {
					which = append(which, res.At(i).Type().String())
				}
			}
			if len(which) == 0 {
				return
			}
			callee := FullName(Callee(pk.TypesInfo, call))
			construct := "discard " + strings.Join(which, ",") + " of " + shortCallee(callee)
			if why, ok := benignDrops[callee]; ok {
				c.R.Ok(rule, fname, construct, c.pos(pos.Pos()), "benign: "+why, false)
				return
			}
			if callee == "" {
				callee = ExprStr(call.Fun)
				construct = "discard " + strings.Join(which, ",") + " of " + callee
			}
			if why, ok := benignDropsAt[fname+"|"+callee]; ok {
				c.R.Ok(rule, fname, construct, c.pos(pos.Pos()), "benign here: "+why, true)
				return
			}
			c.R.Bad(rule, fname, construct, c.pos(pos.Pos()), "an error/diagnostics result is discarded on the profile decode path: a malformed value is applied in part (or as zero) without any error")
		}
		ast.Inspect(fd.Body, func(n ast.Node) bool {
			switch x := n.(type) {
			case *ast.ExprStmt:
				if call, ok := x.X.(*ast.CallExpr); ok {
					sig, ok := pk.TypesInfo.TypeOf(call.Fun).(*types.Signature)
					if ok {
						var all []int
						for i := 0; i < sig.Results().Len(); i++ {
							all = append(all, i)
						}
						check(call, all, x)
					}
				}
			case *ast.AssignStmt:
				if len(x.Rhs) == 1 {
					if call, ok := x.Rhs[0].(*ast.CallExpr); ok {
						var dropped []int
						for i, l := range x.Lhs {
							if id, ok := l.(*ast.Ident); ok && id.Name == "_" {
								dropped = append(dropped, i)
							}
						}
						if len(dropped) > 0 {
							check(call, dropped, x)
						}
					}
				}
			case *ast.ValueSpec:
				if len(x.Values) == 1 {
					if call, ok := x.Values[0].(*ast.CallExpr); ok {
						var dropped []int
						for i, l := range x.Names {
							if l.Name == "_" {
								dropped = append(dropped, i)
							}
						}
						if len(dropped) > 0 {
							check(call, dropped, x)
						}
					}
				}
			}
			return true
		})
	}
	c.R.Ok(rule, "-", "decode-path scan", "-", "scanned "+itoa(len(decls))+" functions reachable from hclsimple.DecodeFile", false)
}

func sortDecls(fds []*ast.FuncDecl) {
	for i := 1; i < len(fds); i++ {
		for j := i; j > 0 && fds[j].Pos() < fds[j-1].Pos(); j-- {
			fds[j], fds[j-1] = fds[j-1], fds[j]
		}
	}
}

// R18DiagsReachResult — diagnostics produced on the profile load path are returned or known to be free of errors.
func R18DiagsReachResult(c *Ctx) {
	const rule = "R18-diags-reach-result"
	c.R.Rule(rule, "in hclsimple (Decode, DecodeFile), gohcl and pkg/profile, for every call that yields hcl.Diagnostics or error into a variable, every return that can follow it either returns a value built from that result or lies on the path where its HasErrors()/!= nil test was negative: a profile with syntax errors is never reported as loaded", 3)
	inScope := func(p string) bool { return p == PkgYaotl+"/hclsimple" || p == PkgProfile || p == PkgYaotl+"/gohcl" }
	n := 0
	for _, fn := range c.P.ModuleFuncs(inScope) {
		for _, b := range fn.Blocks {
			for _, in := range b.Instrs {
				call, ok := in.(*ssa.Call)
				if !ok {
					continue
				}
				res := call.Call.Signature().Results()
				idx := -1
				for i := 0; i < res.Len(); i++ {
					if isErrOrDiags(res.At(i).Type()) {
						idx = i
					}
				}
				if idx < 0 {
					continue
				}
				var d ssa.Value
				if res.Len() == 1 {
					d = call
				} else {
					for _, r := range *call.Referrers() {
						if ex, ok := r.(*ssa.Extract); ok && ex.Index == idx {
							d = ex
						}
					}
				}
				if d == nil || len(*d.Referrers()) == 0 {
					continue // discarded results are R18-errdrop's business
				}
				isD := func(v ssa.Value) bool { return v == d }
				n++
				construct := "result of " + shortCallee(CalleeName(call)) + " reaches every later return"
				bad := ""
				for _, rb := range fn.Blocks {
					ret, isRet := rb.Instrs[len(rb.Instrs)-1].(*ssa.Return)
					if !isRet || len(ret.Results) == 0 {
						continue
					}
					if !(rb == b || BlockReaches(b, rb, nil)) {
						continue
					}
					carried := false
					for _, rv := range ret.Results {
						if DerivesFrom(rv, isD) {
							carried = true
						}
					}
					if carried {
						continue
					}
					cleared := false
					for _, f := range FactsAt(rb) {
						cond, truth := StripNot(f.Cond, f.Truth)
						switch x := cond.(type) {
						case *ssa.Call:
							if strings.HasSuffix(CalleeName(x), ".HasErrors") && DerivesFrom(x, isD) {
								// negative: nothing to report; positive: this is the failure edge, which answers with an error of its own
								cleared = !truth || !isNilConst(ret.Results[len(ret.Results)-1])
							}
						case *ssa.BinOp:
							if (isNilConst(x.X) || isNilConst(x.Y)) && DerivesFrom(x, isD) {
								cleared = ((x.Op == token.EQL) == truth) || !isNilConst(ret.Results[len(ret.Results)-1])
							}
						}
					}
					if !cleared {
						bad = c.pos(ret.Pos())
					}
				}
				if bad == "" {
					c.R.Ok(rule, FuncShort(fn), construct, c.pos(call.Pos()), "returned, or tested negative, on every path", true)
				} else {
					c.R.Bad(rule, FuncShort(fn), construct, bad, "this return can follow the call without carrying its diagnostics and without a negative HasErrors()/nil test of them: errors found there are lost and the configuration is used as if it had loaded cleanly")
				}
			}
		}
	}
	if n == 0 {
		c.R.Anchor(rule, "calls yielding diagnostics in hclsimple / pkg/profile")
	}
}
