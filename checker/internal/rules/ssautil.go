package rules

import (
	"fmt"
	"go/constant"
	"go/token"
	"go/types"
	"os"
	"strings"

	"golang.org/x/tools/go/ssa"
)

// CalleeName gives the static callee's full name of a call instruction:
// "strings.HasPrefix", "(*Havoc/pkg/agent.Agent).TaskDispatch"; for interface
// method calls "(Havoc/pkg/agent.TeamServer).AgentExist"; "" for dynamic calls.
func CalleeName(call ssa.CallInstruction) string {
	cc := call.Common()
	if cc.IsInvoke() {
		return cc.Method.FullName()
	}
	if fn := cc.StaticCallee(); fn != nil {
		if fn.Object() != nil {
			if f, ok := fn.Object().(*types.Func); ok {
				return f.FullName()
			}
		}
		return fn.String()
	}
	if b, ok := cc.Value.(*ssa.Builtin); ok {
		return "builtin." + b.Name()
	}
	return ""
}

// CallArgs returns the arguments of a call excluding the receiver.
func CallArgs(call ssa.CallInstruction) []ssa.Value {
	cc := call.Common()
	if cc.IsInvoke() {
		return cc.Args
	}
	if fn := cc.StaticCallee(); fn != nil && fn.Signature.Recv() != nil && len(cc.Args) > 0 {
		return cc.Args[1:]
	}
	return cc.Args
}

// CallRecv returns the receiver value of a method call or nil.
func CallRecv(call ssa.CallInstruction) ssa.Value {
	cc := call.Common()
	if cc.IsInvoke() {
		return cc.Value
	}
	if fn := cc.StaticCallee(); fn != nil && fn.Signature.Recv() != nil && len(cc.Args) > 0 {
		return cc.Args[0]
	}
	return nil
}

// EachCall visits every call/defer/go instruction of fn.
func EachCall(fn *ssa.Function, f func(call ssa.CallInstruction)) {
	for _, b := range fn.Blocks {
		for _, in := range b.Instrs {
			if c, ok := in.(ssa.CallInstruction); ok {
				f(c)
			}
		}
	}
}

// EdgeDominates reports whether the edge from.Succs[idx] dominates block b:
// every path from entry to b uses that edge.
func EdgeDominates(from *ssa.BasicBlock, idx int, b *ssa.BasicBlock) bool {
	if idx >= len(from.Succs) {
		return false
	}
	s := from.Succs[idx]
	if !s.Dominates(b) {
		return false
	}
	// all other predecessors of s must be dominated by s (loop back-edges)
	for _, p := range s.Preds {
		if p == from {
			// the same block may reach s by both edges
			if len(from.Succs) == 2 && from.Succs[0] == from.Succs[1] {
				return false
			}
			continue
		}
		if !s.Dominates(p) {
			return false
		}
	}
	return true
}

// CondFact is the truth value of an SSA boolean known at a program point.
type CondFact struct {
	Cond  ssa.Value
	Truth bool
	If    *ssa.If
}

// FactsAt lists the branch conditions whose outcome is fixed on every path
// from entry to block b (dominating If edges).
func FactsAt(b *ssa.BasicBlock) []CondFact {
	var out []CondFact
	for d := b.Idom(); d != nil; d = d.Idom() {
		if len(d.Instrs) == 0 {
			continue
		}
		iff, ok := d.Instrs[len(d.Instrs)-1].(*ssa.If)
		if !ok {
			continue
		}
		t := EdgeDominates(d, 0, b)
		f := EdgeDominates(d, 1, b)
		if t == f {
			continue
		}
		c, truth := StripNot(iff.Cond, t)
		out = append(out, CondFact{Cond: c, Truth: truth, If: iff})
	}
	return out
}

// StripNot removes leading boolean negations, flipping truth accordingly.
func StripNot(v ssa.Value, truth bool) (ssa.Value, bool) {
	for {
		u, ok := v.(*ssa.UnOp)
		if ok && u.Op == token.NOT {
			v = u.X
			truth = !truth
			continue
		}
		// x == false / x != true / x == true / x != false
		if b, ok := v.(*ssa.BinOp); ok && (b.Op == token.EQL || b.Op == token.NEQ) {
			if c, ok := b.Y.(*ssa.Const); ok && c.Value != nil && c.Value.Kind() == constant.Bool {
				cv := constant.BoolVal(c.Value)
				same := b.Op == token.EQL
				v = b.X
				if cv != same {
					truth = !truth
				}
				continue
			}
		}
		return v, truth
	}
}

// ConstString returns the constant string value of v.
func ConstString(v ssa.Value) (string, bool) {
	if c, ok := v.(*ssa.Const); ok && c.Value != nil && c.Value.Kind() == constant.String {
		return constant.StringVal(c.Value), true
	}
	return "", false
}

// ConstInt returns the constant integer value of v.
func ConstInt(v ssa.Value) (int64, bool) {
	if c, ok := v.(*ssa.Const); ok && c.Value != nil && c.Value.Kind() == constant.Int {
		if i, ok := constant.Int64Val(c.Value); ok {
			return i, true
		}
		if u, ok := constant.Uint64Val(c.Value); ok {
			return int64(u), true
		}
	}
	return 0, false
}

// ConcatLeaves flattens a string value built with + into its operands.
func ConcatLeaves(v ssa.Value) []ssa.Value {
	var out []ssa.Value
	var rec func(v ssa.Value, depth int)
	rec = func(v ssa.Value, depth int) {
		if depth > 40 {
			out = append(out, v)
			return
		}
		switch x := v.(type) {
		case *ssa.BinOp:
			if x.Op == token.ADD {
				rec(x.X, depth+1)
				rec(x.Y, depth+1)
				return
			}
		case *ssa.Phi:
			// a phi with one distinct operand
			var d ssa.Value
			for _, e := range x.Edges {
				if e == x {
					continue
				}
				if d == nil {
					d = e
				} else if d != e {
					d = nil
					break
				}
			}
			if d != nil {
				rec(d, depth+1)
				return
			}
		}
		out = append(out, v)
	}
	rec(v, 0)
	return out
}

// DescribeValue renders an SSA value for messages.
func DescribeValue(v ssa.Value) string {
	switch x := v.(type) {
	case *ssa.Const:
		return x.String()
	case *ssa.Parameter:
		return "param " + x.Name()
	case *ssa.Call:
		return "call " + CalleeName(x)
	case *ssa.FieldAddr:
		return DescribeValue(x.X) + "." + fieldName(x.X.Type(), x.Field)
	case *ssa.Field:
		return DescribeValue(x.X) + "." + fieldName(x.X.Type(), x.Field)
	case *ssa.UnOp:
		if x.Op == token.MUL {
			return DescribeValue(x.X)
		}
		return x.Op.String() + DescribeValue(x.X)
	case *ssa.Global:
		return x.Name()
	case *ssa.Alloc:
		if x.Comment != "" {
			return "&" + x.Comment
		}
	}
	return v.Name()
}

func fieldName(t types.Type, i int) string {
	if p, ok := t.Underlying().(*types.Pointer); ok {
		t = p.Elem()
	}
	if s, ok := t.Underlying().(*types.Struct); ok && i < s.NumFields() {
		return s.Field(i).Name()
	}
	return "?"
}

// FieldOf reports the struct type name and field name addressed by a FieldAddr/Field.
func FieldOf(v ssa.Value) (typ string, field string, base ssa.Value, ok bool) {
	var x ssa.Value
	var idx int
	switch f := v.(type) {
	case *ssa.FieldAddr:
		x, idx = f.X, f.Field
	case *ssa.Field:
		x, idx = f.X, f.Field
	default:
		return "", "", nil, false
	}
	t := x.Type()
	if p, ok := t.Underlying().(*types.Pointer); ok {
		t = p.Elem()
	}
	name := ""
	if n, ok := t.(*types.Named); ok {
		name = n.Obj().Name()
		if n.Obj().Pkg() != nil {
			name = n.Obj().Pkg().Path() + "." + name
		}
	}
	s, ok2 := t.Underlying().(*types.Struct)
	if !ok2 || idx >= s.NumFields() {
		return "", "", nil, false
	}
	return name, s.Field(idx).Name(), x, true
}

// Deref looks through a load (*p) and returns the address operand.
func Deref(v ssa.Value) (ssa.Value, bool) {
	if u, ok := v.(*ssa.UnOp); ok && u.Op == token.MUL {
		return u.X, true
	}
	return nil, false
}

// AccessPath renders a value as a source-like access path (a.Pivots.Links) when
// it is a chain of field selections from a parameter/receiver/global/call.
func AccessPath(v ssa.Value) string {
	switch x := v.(type) {
	case *ssa.Parameter:
		return x.Name()
	case *ssa.FreeVar:
		return x.Name()
	case *ssa.Global:
		return x.Name()
	case *ssa.FieldAddr:
		return AccessPath(x.X) + "." + fieldName(x.X.Type(), x.Field)
	case *ssa.Field:
		return AccessPath(x.X) + "." + fieldName(x.X.Type(), x.Field)
	case *ssa.UnOp:
		if x.Op == token.MUL {
			return AccessPath(x.X)
		}
	case *ssa.IndexAddr:
		return AccessPath(x.X) + "[" + AccessPath(x.Index) + "]"
	case *ssa.Index:
		return AccessPath(x.X) + "[" + AccessPath(x.Index) + "]"
	case *ssa.Const:
		if x.Value == nil {
			return "nil"
		}
		return x.Value.String()
	case *ssa.Call:
		return CalleeName(x) + "()"
	case *ssa.Alloc:
		return x.Comment
	case *ssa.Phi:
		return x.Comment
	case *ssa.Extract:
		return AccessPath(x.Tuple) + "#" + itoa(x.Index)
	case *ssa.Convert:
		return AccessPath(x.X)
	case *ssa.ChangeType:
		return AccessPath(x.X)
	case *ssa.MakeInterface:
		return AccessPath(x.X)
	case *ssa.TypeAssert:
		return AccessPath(x.X) + ".(" + types.TypeString(x.AssertedType, func(p *types.Package) string { return p.Name() }) + ")"
	case *ssa.Lookup:
		return AccessPath(x.X) + "[" + AccessPath(x.Index) + "]"
	case *ssa.BinOp:
		if x.Op == token.ADD {
			var parts []string
			for _, l := range ConcatLeaves(x) {
				if _, ok := l.(*ssa.BinOp); ok {
					parts = append(parts, l.Name())
				} else {
					parts = append(parts, AccessPath(l))
				}
			}
			return strings.Join(parts, "+")
		}
		return AccessPath(x.X) + x.Op.String() + AccessPath(x.Y)
	}
	return v.Name()
}

// HasSuffixStr is a tiny helper for name matching.
func HasSuffixStr(s string, suf ...string) bool {
	for _, x := range suf {
		if strings.HasSuffix(s, x) {
			return true
		}
	}
	return false
}

// InstrBlockIndex returns the index of instr in its block.
func InstrBlockIndex(instr ssa.Instruction) int {
	for i, in := range instr.Block().Instrs {
		if in == instr {
			return i
		}
	}
	return -1
}

// InstrDominates reports whether a executes before b on every path to b.
func InstrDominates(a, b ssa.Instruction) bool {
	if a.Block() == b.Block() {
		return InstrBlockIndex(a) < InstrBlockIndex(b)
	}
	return a.Block().Dominates(b.Block())
}

// BlockReaches reports whether to is reachable from from (following successors),
// optionally refusing to pass through blocks in stop.
func BlockReaches(from, to *ssa.BasicBlock, stop map[*ssa.BasicBlock]bool) bool {
	seen := map[*ssa.BasicBlock]bool{}
	stack := []*ssa.BasicBlock{from}
	for len(stack) > 0 {
		b := stack[len(stack)-1]
		stack = stack[:len(stack)-1]
		if seen[b] || stop[b] {
			continue
		}
		seen[b] = true
		if b == to {
			return true
		}
		stack = append(stack, b.Succs...)
	}
	return false
}

// ParamOf resolves v to the function parameter it denotes: the parameter
// itself, or a load of the heap/stack cell the parameter was spilled into
// (go/ssa spills parameters captured by closures) when that cell is never
// stored to again.
func ParamOf(v ssa.Value) *ssa.Parameter {
	if p, ok := v.(*ssa.Parameter); ok {
		return p
	}
	addr, ok := Deref(v)
	if !ok {
		return nil
	}
	al, ok := addr.(*ssa.Alloc)
	if !ok {
		return nil
	}
	var param *ssa.Parameter
	for _, r := range *al.Referrers() {
		if st, ok := r.(*ssa.Store); ok && st.Addr == ssa.Value(al) {
			p, ok := st.Val.(*ssa.Parameter)
			if !ok || param != nil {
				return nil
			}
			param = p
		}
		// a closure capturing the cell could write it; only accept if no closure stores to it
		if mc, ok := r.(*ssa.MakeClosure); ok {
			fn := mc.Fn.(*ssa.Function)
			for i, b := range mc.Bindings {
				if b == ssa.Value(al) && i < len(fn.FreeVars) {
					for _, r2 := range *fn.FreeVars[i].Referrers() {
						if st, ok := r2.(*ssa.Store); ok && st.Addr == ssa.Value(fn.FreeVars[i]) {
							return nil
						}
					}
				}
			}
		}
	}
	return param
}

// IsParam reports whether v denotes parameter p.
func IsParam(v ssa.Value, p *ssa.Parameter) bool { return ParamOf(v) == p }

// FactsAtDeep is FactsAt plus the conjuncts hidden in short-circuit phis: a
// fact `phi == true` where every edge but one carries the constant false means
// the remaining edge was taken (so the facts of its source block hold) and
// its value is true — and dually for `||`.
func FactsAtDeep(b *ssa.BasicBlock) []CondFact {
	out := FactsAt(b)
	seen := map[ssa.Value]bool{}
	for i := 0; i < len(out); i++ {
		ph, ok := out[i].Cond.(*ssa.Phi)
		if !ok || seen[ph] {
			continue
		}
		seen[ph] = true
		live := -1
		n := 0
		for j, e := range ph.Edges {
			if k, isC := e.(*ssa.Const); isC && isBoolConst(k, !out[i].Truth) {
				continue
			}
			live = j
			n++
		}
		if n != 1 {
			continue
		}
		pred := ph.Block().Preds[live]
		cv, truth := StripNot(ph.Edges[live], out[i].Truth)
		if _, isC := cv.(*ssa.Const); !isC {
			out = append(out, CondFact{Cond: cv, Truth: truth, If: out[i].If})
		}
		out = append(out, FactsAt(pred)...)
	}
	return out
}

// HelperClosure returns fn followed by the functions of the same package it reaches through static calls
// (closures included), up to depth levels. Rules anchored in a function use it so that moving statements
// into an unexported helper does not hide them ("extract function" is the commonest refactoring).
func HelperClosure(fn *ssa.Function, depth int) []*ssa.Function {
	if fn == nil {
		return nil
	}
	pkg := FuncPkgPathOf(fn)
	seen := map[*ssa.Function]bool{fn: true}
	out := []*ssa.Function{fn}
	frontier := []*ssa.Function{fn}
	for d := 0; d < depth && len(frontier) > 0; d++ {
		var next []*ssa.Function
		for _, f := range frontier {
			add := func(g *ssa.Function) {
				if g == nil || seen[g] || g.Blocks == nil || FuncPkgPathOf(g) != pkg {
					return
				}
				seen[g] = true
				out = append(out, g)
				next = append(next, g)
			}
			for _, an := range f.AnonFuncs {
				add(an)
			}
			EachCall(f, func(call ssa.CallInstruction) {
				add(call.Common().StaticCallee())
			})
		}
		frontier = next
	}
	return out
}

// EveryCallSite reports whether fn is called only statically from module code and pred holds at every call site.
func (c *Ctx) EveryCallSite(fn *ssa.Function, pred func(site ssa.CallInstruction) bool) bool {
	n := c.P.CHA().Nodes[fn]
	if n == nil || len(n.In) == 0 {
		if os.Getenv("HV_DEBUG") != "" {
			fmt.Fprintf(os.Stderr, "EveryCallSite(%s): no callers (node=%v)\n", fn.Name(), n != nil)
		}
		return false
	}
	for _, e := range n.In {
		if e.Site != nil && e.Site.Common().StaticCallee() == nil && !e.Site.Common().IsInvoke() && !c.addressTaken()[fn] {
			continue // CHA pairs every call of a function value with every function of that signature; fn is never used as a value
		}
		if e.Site == nil || e.Site.Common().StaticCallee() != fn {
			if os.Getenv("HV_DEBUG") != "" {
				fmt.Fprintf(os.Stderr, "EveryCallSite(%s): non-static caller %v\n", fn.Name(), e.Caller.Func)
			}
			return false
		}
		if !pred(e.Site) {
			return false
		}
	}
	return true
}

// RootParam resolves v to a parameter of root: directly, or — when v is a parameter of a helper that is only
// called statically — through the argument every call site passes for it (all call sites must agree).
func (c *Ctx) RootParam(v ssa.Value, root *ssa.Function, depth int) *ssa.Parameter {
	p := ParamOf(v)
	if p == nil || depth > 3 {
		return nil
	}
	if p.Parent() == root {
		return p
	}
	h := p.Parent()
	idx := -1
	for i, q := range h.Params {
		if q == p {
			idx = i
		}
	}
	if idx < 0 {
		return nil
	}
	var res *ssa.Parameter
	ok := c.EveryCallSite(h, func(site ssa.CallInstruction) bool {
		args := site.Common().Args
		if idx >= len(args) {
			return false
		}
		r := c.RootParam(args[idx], root, depth+1)
		if r == nil || (res != nil && r != res) {
			return false
		}
		res = r
		return true
	})
	if !ok {
		return nil
	}
	return res
}

// addressTaken: the functions that occur as a value (operand other than the callee of a static call) anywhere in the
// program — only those can be the target of a call through a function value.
func (c *Ctx) addressTaken() map[*ssa.Function]bool {
	if c.addrTaken != nil {
		return c.addrTaken
	}
	c.addrTaken = map[*ssa.Function]bool{}
	for fn := range c.P.AllFuncs() {
		for _, b := range fn.Blocks {
			for _, in := range b.Instrs {
				var callee *ssa.Value
				if ci, ok := in.(ssa.CallInstruction); ok && !ci.Common().IsInvoke() {
					callee = &ci.Common().Value
				}
				for _, op := range in.Operands(nil) {
					if op == callee || *op == nil {
						continue
					}
					if f, ok := (*op).(*ssa.Function); ok {
						c.addrTaken[f] = true
					}
				}
			}
		}
	}
	return c.addrTaken
}
