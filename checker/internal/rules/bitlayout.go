package rules

import (
	"fmt"
	"go/token"
	"sort"

	"golang.org/x/tools/go/ssa"
)

// bitField is one operand placed in a packed word: (src & mask) << shift. A constant contribution has src == "".
type bitField struct {
	src   string
	mask  uint64
	shift int
}

type bitEnv struct {
	fn   *ssa.Function
	args []ssa.Value // arguments bound to fn's parameters (nil at the root)
	up   *bitEnv
}

// bitLayout evaluates an integer expression built from |, +, &const, <<const, conversions, joins and calls of small
// pure helpers into the list of fields it packs. ok is false when the expression has another shape.
func bitLayout(v ssa.Value, env *bitEnv, depth int) (fields []bitField, ok bool) {
	if depth > 30 {
		return nil, false
	}
	if k, isC := ConstInt(v); isC {
		if k == 0 {
			return nil, true
		}
		return []bitField{{"", uint64(k), 0}}, true
	}
	switch x := v.(type) {
	case *ssa.Convert:
		return bitLayout(x.X, env, depth+1)
	case *ssa.ChangeType:
		return bitLayout(x.X, env, depth+1)
	case *ssa.Parameter:
		if env != nil && env.args != nil {
			for i, p := range env.fn.Params {
				if p == x && i < len(env.args) {
					return bitLayout(env.args[i], env.up, depth+1)
				}
			}
		}
	case *ssa.BinOp:
		switch x.Op {
		case token.OR, token.ADD, token.XOR:
			a, ok1 := bitLayout(x.X, env, depth+1)
			b, ok2 := bitLayout(x.Y, env, depth+1)
			if ok1 && ok2 {
				return append(append([]bitField{}, a...), b...), true
			}
			return nil, false
		case token.AND:
			k, isC := ConstInt(x.Y)
			inner := x.X
			if !isC {
				k, isC = ConstInt(x.X)
				inner = x.Y
			}
			if !isC {
				return nil, false
			}
			a, ok1 := bitLayout(inner, env, depth+1)
			if !ok1 {
				return nil, false
			}
			var out []bitField
			for _, f := range a {
				m := (f.mask << uint(f.shift)) & uint64(k)
				if m == 0 {
					continue
				}
				out = append(out, bitField{f.src, m >> uint(f.shift), f.shift})
			}
			return out, true
		case token.SHL:
			k, isC := ConstInt(x.Y)
			if !isC || k < 0 || k > 63 {
				return nil, false
			}
			a, ok1 := bitLayout(x.X, env, depth+1)
			if !ok1 {
				return nil, false
			}
			var out []bitField
			for _, f := range a {
				out = append(out, bitField{f.src, f.mask, f.shift + int(k)})
			}
			return out, true
		}
	case *ssa.Phi:
		// a join of "nothing packed yet" (0) and one packed value, or of identical layouts
		var got []bitField
		have := false
		for _, e := range x.Edges {
			if k, isC := ConstInt(e); isC && k == 0 {
				continue
			}
			a, ok1 := bitLayout(e, env, depth+1)
			if !ok1 {
				return nil, false
			}
			if have && layoutString(a) != layoutString(got) {
				return nil, false
			}
			got, have = a, true
		}
		return got, true
	case *ssa.Call:
		callee := x.Call.StaticCallee()
		if callee == nil || callee.Blocks == nil || callee.Signature.Results().Len() != 1 {
			break
		}
		var rets []ssa.Value
		for _, b := range callee.Blocks {
			if r, isRet := b.Instrs[len(b.Instrs)-1].(*ssa.Return); isRet {
				rets = append(rets, r.Results[0])
			}
		}
		if len(rets) != 1 {
			break
		}
		// bind the arguments in the caller's environment
		args := make([]ssa.Value, len(x.Call.Args))
		copy(args, x.Call.Args)
		return bitLayout(rets[0], &bitEnv{fn: callee, args: args, up: env}, depth+1)
	}
	// an opaque operand: all bits of it
	src := ""
	if env != nil {
		src = canonExpr(v, env.fn, 0)
		// a value of the caller seen through a parameter is named in the caller's terms by the Parameter case above
	} else {
		src = fmt.Sprintf("%p", v)
	}
	return []bitField{{src, ^uint64(0), 0}}, true
}

func layoutString(fs []bitField) string {
	var parts []string
	for _, f := range fs {
		parts = append(parts, fmt.Sprintf("%s&%#x<<%d", f.src, f.mask, f.shift))
	}
	sort.Strings(parts)
	return fmt.Sprint(parts)
}
