package rules

import (
	"encoding/json"
	"go/ast"
	"go/token"
	"go/types"
	"os"
	"path/filepath"
	"sort"
	"strconv"
	"strings"

	"golang.org/x/tools/go/ssa"
)

const PkgHclsyntax = PkgYaotl + "/hclsyntax"

// opTable is the reference operator table (tables/hcl_operators.json), taken
// from the language definition (HCL native syntax specification, "Operations"):
// levels from lowest to highest precedence, every operator with the stdlib
// function that defines it and its result type.
type opTable struct {
	Source string `json:"source"`
	Levels [][]struct {
		Token, Op string
	} `json:"levels"`
	Unary []struct {
		Token, Op string
	} `json:"unary"`
	Ops map[string]struct {
		Impl, Type string
	} `json:"ops"`
}

// valueRoots walks backwards from v through value-carrying instructions only
// (phis, conversions, tuple extraction, loads of locals, call arguments and
// receivers of type cty.Value / Expression / slices thereof) and returns the
// roots it ends in: "field:T.F" for a field load, "call:<callee>" (with the
// call instruction) for results of parser calls, "global:<name>".
type rootSet struct {
	names map[string]bool
	calls map[*ssa.Call]bool
}

func carriesValue(t types.Type) bool {
	s := t.String()
	if strings.HasSuffix(s, "cty.Value") || strings.HasSuffix(s, "hclsyntax.Expression") || strings.HasSuffix(s, "yaotl.Expression") {
		return true
	}
	switch u := t.Underlying().(type) {
	case *types.Slice:
		return carriesValue(u.Elem())
	case *types.Array:
		return carriesValue(u.Elem())
	case *types.Pointer:
		if _, ok := u.Elem().Underlying().(*types.Struct); ok {
			return strings.Contains(u.Elem().String(), "hclsyntax.")
		}
		return carriesValue(u.Elem())
	case *types.Tuple:
		for i := 0; i < u.Len(); i++ {
			if carriesValue(u.At(i).Type()) {
				return true
			}
		}
	}
	return false
}

func valueRoots(v ssa.Value, stopAtCall func(*ssa.Call) bool) *rootSet {
	rs := &rootSet{names: map[string]bool{}, calls: map[*ssa.Call]bool{}}
	seen := map[ssa.Value]bool{}
	var rec func(v ssa.Value)
	rec = func(v ssa.Value) {
		if v == nil || seen[v] {
			return
		}
		seen[v] = true
		switch x := v.(type) {
		case *ssa.Phi:
			for _, e := range x.Edges {
				rec(e)
			}
		case *ssa.MakeInterface:
			rec(x.X)
		case *ssa.ChangeInterface:
			rec(x.X)
		case *ssa.ChangeType:
			rec(x.X)
		case *ssa.Convert:
			rec(x.X)
		case *ssa.TypeAssert:
			rec(x.X)
		case *ssa.Extract:
			rec(x.Tuple)
		case *ssa.Slice:
			rec(x.X)
		case *ssa.UnOp:
			if x.Op == token.MUL {
				if t, f, _, ok := FieldOf(x.X); ok {
					rs.names["field:"+shortType(t)+"."+f] = true
					return
				}
				if g, ok := x.X.(*ssa.Global); ok {
					rs.names["global:"+g.Name()] = true
					return
				}
				rec(x.X)
			}
		case *ssa.Field:
			if t, f, _, ok := FieldOf(x); ok {
				rs.names["field:"+shortType(t)+"."+f] = true
			}
		case *ssa.IndexAddr:
			rec(x.X)
		case *ssa.Index:
			rec(x.X)
		case *ssa.Alloc:
			// local cell / composite literal: values stored into it (or its elements/fields)
			rs.names["alloc:"+shortType(strings.TrimPrefix(x.Type().String(), "*"))] = true
			for _, r := range *x.Referrers() {
				switch st := r.(type) {
				case *ssa.Store:
					if st.Addr == x {
						rec(st.Val)
					}
				case *ssa.IndexAddr:
					for _, r2 := range *st.Referrers() {
						if s2, ok := r2.(*ssa.Store); ok && s2.Addr == st {
							rec(s2.Val)
						}
					}
				}
			}
		case *ssa.Call:
			if stopAtCall != nil && stopAtCall(x) {
				rs.calls[x] = true
				rs.names["call:"+shortCallee(CalleeName(x))] = true
				return
			}
			if x.Call.IsInvoke() {
				rec(x.Call.Value)
			} else if sig := x.Call.Signature(); sig != nil && sig.Recv() != nil && len(x.Call.Args) > 0 && carriesValue(x.Call.Args[0].Type()) {
				rec(x.Call.Args[0])
			}
			for _, a := range x.Call.Args {
				if carriesValue(a.Type()) {
					rec(a)
				}
			}
		case *ssa.Global:
			rs.names["global:"+x.Name()] = true
		}
	}
	rec(v)
	return rs
}

func shortType(t string) string {
	if i := strings.LastIndex(t, "/"); i >= 0 {
		return t[i+1:]
	}
	return t
}

func (r *rootSet) fields() []string {
	var out []string
	for k := range r.names {
		if strings.HasPrefix(k, "field:") {
			out = append(out, strings.TrimPrefix(k, "field:"))
		}
	}
	sort.Strings(out)
	return out
}

func (r *rootSet) hasField(f string) bool { return r.names["field:"+f] }

// R19OpTable — operator tables agree with the language definition.
func R19OpTable(c *Ctx) {
	const rule = "R19-optable"
	c.R.Rule(rule, "the binary operator table (token → operation, grouped by precedence level, lowest first), the unary operator choice in the term parser and every Operation's implementing function and result type agree with the reference table taken from the language definition (tables/hcl_operators.json); compared on resolved constants and objects, not on text", 25)
	var ref opTable
	b, err := os.ReadFile(filepath.Join(c.Verif, "tables", "hcl_operators.json"))
	if err != nil || json.Unmarshal(b, &ref) != nil {
		c.R.Anchor(rule, "tables/hcl_operators.json")
		return
	}
	pk := c.P.ByPath[PkgHclsyntax]
	if pk == nil {
		c.R.Anchor(rule, "package hclsyntax")
		return
	}
	// locate `binaryOps = []map[TokenType]*Operation{...}`
	var lit *ast.CompositeLit
	var opLits = map[string]*ast.CompositeLit{}
	for _, f := range pk.Syntax {
		ast.Inspect(f, func(n ast.Node) bool {
			switch x := n.(type) {
			case *ast.AssignStmt:
				if len(x.Lhs) == 1 && len(x.Rhs) == 1 {
					if id, ok := x.Lhs[0].(*ast.Ident); ok && id.Name == "binaryOps" {
						if obj := pk.TypesInfo.Uses[id]; obj != nil && obj.Parent() == pk.Types.Scope() {
							if cl, ok := x.Rhs[0].(*ast.CompositeLit); ok {
								lit = cl
							}
						}
					}
				}
			case *ast.ValueSpec:
				for i, nm := range x.Names {
					if i < len(x.Values) {
						if nm.Name == "binaryOps" {
							if cl, ok := x.Values[i].(*ast.CompositeLit); ok {
								lit = cl
							}
						}
						if u, ok := x.Values[i].(*ast.UnaryExpr); ok && u.Op == token.AND {
							if cl, ok := u.X.(*ast.CompositeLit); ok {
								if tv := pk.TypesInfo.TypeOf(cl); tv != nil && strings.HasSuffix(tv.String(), "hclsyntax.Operation") {
									opLits[nm.Name] = cl
								}
							}
						}
					}
				}
			}
			return true
		})
	}
	if lit == nil {
		c.R.Anchor(rule, "hclsyntax.binaryOps table literal")
		return
	}
	// count assignments to binaryOps anywhere (who-may-write)
	nW := 0
	for _, fn := range c.P.ModuleFuncs(func(string) bool { return true }) {
		for _, bb := range fn.Blocks {
			for _, in := range bb.Instrs {
				if st, ok := in.(*ssa.Store); ok {
					if g, ok := st.Addr.(*ssa.Global); ok && g.Name() == "binaryOps" && g.Pkg.Pkg.Path() == PkgHclsyntax {
						nW++
					}
					if ia, ok := st.Addr.(*ssa.IndexAddr); ok {
						if DerivesFrom(ia.X, func(v ssa.Value) bool { g, ok := v.(*ssa.Global); return ok && g.Name() == "binaryOps" }) {
							nW += 10
						}
					}
				}
				if mu, ok := in.(*ssa.MapUpdate); ok {
					if DerivesFrom(mu.Map, func(v ssa.Value) bool { g, ok := v.(*ssa.Global); return ok && g.Name() == "binaryOps" }) {
						nW += 10
					}
				}
			}
		}
	}
	if nW == 1 {
		c.R.Ok(rule, "hclsyntax.init", "binaryOps written once", c.pos(lit.Pos()), "the table is assigned exactly once and never updated in place", true)
	} else {
		c.R.Bad(rule, "hclsyntax.init", "binaryOps written once", c.pos(lit.Pos()), "the precedence table is written from more than one place or updated in place: its content is no longer the literal")
	}
	// levels
	type ent struct{ tok, op string }
	var got [][]ent
	for _, lv := range lit.Elts {
		cl, ok := lv.(*ast.CompositeLit)
		if !ok {
			c.R.Und(rule, "hclsyntax.init", "binaryOps level", c.pos(lv.Pos()), "a precedence level is not a map literal")
			return
		}
		var level []ent
		for _, e := range cl.Elts {
			kv, ok := e.(*ast.KeyValueExpr)
			if !ok {
				continue
			}
			level = append(level, ent{objName(pk.TypesInfo, kv.Key), objName(pk.TypesInfo, kv.Value)})
		}
		sort.Slice(level, func(i, j int) bool { return level[i].tok < level[j].tok })
		got = append(got, level)
	}
	if len(got) != len(ref.Levels) {
		c.R.Bad(rule, "hclsyntax.init", "number of precedence levels", c.pos(lit.Pos()), "the table has "+itoa(len(got))+" precedence levels, the language defines "+itoa(len(ref.Levels)))
	} else {
		c.R.Ok(rule, "hclsyntax.init", "number of precedence levels", c.pos(lit.Pos()), itoa(len(got))+" levels", false)
	}
	for i, lv := range ref.Levels {
		want := map[string]string{}
		for _, e := range lv {
			want[e.Token] = e.Op
		}
		have := map[string]string{}
		if i < len(got) {
			for _, e := range got[i] {
				have[e.tok] = e.op
			}
		}
		for tok, op := range want {
			construct := "level " + itoa(i) + ": " + tok + " → " + op
			switch h, ok := have[tok]; {
			case ok && h == op:
				c.R.Ok(rule, "hclsyntax.init", construct, c.pos(lit.Pos()), "as the language defines", true)
			case ok:
				c.R.Bad(rule, "hclsyntax.init", construct, c.pos(lit.Pos()), "the token is bound to "+h+" instead: the written operator evaluates as a different operation")
			default:
				where := "missing from the table"
				for j, g := range got {
					for _, e := range g {
						if e.tok == tok {
							where = "found on level " + itoa(j) + " (precedence changed)"
						}
					}
				}
				c.R.Bad(rule, "hclsyntax.init", construct, c.pos(lit.Pos()), "the operator is "+where)
			}
		}
		for tok, op := range have {
			if _, ok := want[tok]; !ok {
				c.R.Bad(rule, "hclsyntax.init", "level "+itoa(i)+": extra "+tok+" → "+op, c.pos(lit.Pos()), "an operator the language does not define on this precedence level")
			}
		}
	}
	// Operation definitions
	var names []string
	for n := range ref.Ops {
		names = append(names, n)
	}
	sort.Strings(names)
	for _, n := range names {
		want := ref.Ops[n]
		cl := opLits[n]
		construct := n + " = {Impl: " + want.Impl + ", Type: " + want.Type + "}"
		if cl == nil {
			c.R.Bad(rule, "hclsyntax", construct, c.pos(lit.Pos()), "the operation variable is not defined as an &Operation{...} literal any more")
			continue
		}
		impl, typ := "", ""
		for i, e := range cl.Elts {
			if kv, ok := e.(*ast.KeyValueExpr); ok {
				switch ExprStr(kv.Key) {
				case "Impl":
					impl = objName(pk.TypesInfo, kv.Value)
				case "Type":
					typ = objName(pk.TypesInfo, kv.Value)
				}
			} else if i == 0 {
				impl = objName(pk.TypesInfo, e)
			} else if i == 1 {
				typ = objName(pk.TypesInfo, e)
			}
		}
		if impl == want.Impl && typ == want.Type {
			c.R.Ok(rule, "hclsyntax", construct, c.pos(cl.Pos()), "implementation and result type as defined", true)
		} else {
			c.R.Bad(rule, "hclsyntax", construct, c.pos(cl.Pos()), "defined as {Impl: "+impl+", Type: "+typ+"}: the operator computes a different function or announces a different type")
		}
	}
	// operation variables are never reassigned
	for _, fn := range c.P.ModuleFuncs(func(string) bool { return true }) {
		for _, bb := range fn.Blocks {
			for _, in := range bb.Instrs {
				st, ok := in.(*ssa.Store)
				if !ok {
					continue
				}
				if g, ok := st.Addr.(*ssa.Global); ok && g.Pkg.Pkg.Path() == PkgHclsyntax {
					if _, isOp := ref.Ops[g.Name()]; isOp && fn.Name() != "init" {
						c.R.Bad(rule, FuncShort(fn), "reassign "+g.Name(), c.pos(st.Pos()), "an operation variable is reassigned at run time")
					}
				}
				if t, f, base, ok := FieldOf(st.Addr); ok && strings.HasSuffix(t, "hclsyntax.Operation") {
					if DerivesFrom(base, func(v ssa.Value) bool { g, ok := v.(*ssa.Global); return ok && g.Pkg.Pkg.Path() == PkgHclsyntax }) && fn.Name() != "init" {
						c.R.Bad(rule, FuncShort(fn), "rewrite Operation."+f, c.pos(st.Pos()), "a field of a shared Operation is rewritten at run time")
					}
				}
			}
		}
	}
	// unary operators in the term parser
	term := c.P.Func(PkgHclsyntax, "parser.parseExpressionTerm")
	if term == nil {
		c.R.Anchor(rule, "hclsyntax.(*parser).parseExpressionTerm")
		return
	}
	for _, u := range ref.Unary {
		construct := "unary " + u.Token + " → " + u.Op
		found, good := false, false
		for _, bb := range term.Blocks {
			for _, in := range bb.Instrs {
				st, ok := in.(*ssa.Store)
				if !ok {
					continue
				}
				t, f, _, ok := FieldOf(st.Addr)
				if !ok || !strings.HasSuffix(t, "hclsyntax.UnaryOpExpr") || f != "Op" {
					continue
				}
				// which token is this block under?
				tok := ""
				for _, fct := range FactsAt(bb) {
					if bo, ok := fct.Cond.(*ssa.BinOp); ok && bo.Op == token.EQL && fct.Truth {
						if k, ok := bo.Y.(*ssa.Const); ok && k.Value != nil {
							tok = tokenConstName(c, k)
						}
					}
				}
				if tok != u.Token {
					continue
				}
				found = true
				rs := valueRoots(st.Val, nil)
				if rs.names["global:"+u.Op] && len(rs.names) == 1 {
					good = true
				}
				// the operand binds tighter than every binary operator: it is a term with traversals
				for _, in2 := range bb.Instrs {
					if st2, ok := in2.(*ssa.Store); ok {
						if t2, f2, _, ok := FieldOf(st2.Addr); ok && strings.HasSuffix(t2, "hclsyntax.UnaryOpExpr") && f2 == "Val" {
							rv := valueRoots(st2.Val, func(call *ssa.Call) bool { return strings.Contains(CalleeName(call), "hclsyntax.parser).") })
							if len(rv.calls) != 1 {
								good = false
							}
							for call := range rv.calls {
								if !strings.HasSuffix(CalleeName(call), ".parseExpressionWithTraversals") {
									good = false
								}
							}
						}
					}
				}
			}
		}
		if !found {
			// the node may be built by a helper that receives the operation: h(p, OpX) under `case TokenX`
			for _, bb := range term.Blocks {
				tok := ""
				for _, fct := range FactsAt(bb) {
					if bo, ok := fct.Cond.(*ssa.BinOp); ok && bo.Op == token.EQL && fct.Truth {
						if k, ok := bo.Y.(*ssa.Const); ok && k.Value != nil {
							tok = tokenConstName(c, k)
						}
					}
				}
				if tok != u.Token {
					continue
				}
				for _, in := range bb.Instrs {
					call, ok := in.(*ssa.Call)
					if !ok {
						continue
					}
					h := call.Call.StaticCallee()
					if h == nil || h.Blocks == nil || FuncPkgPathOf(h) != PkgHclsyntax || h == term {
						continue
					}
					// which parameter of h becomes UnaryOpExpr.Op, and is the node what h returns on every path?
					opParam := -1
					var node *ssa.Alloc
					valOK := true
					for _, hb := range h.Blocks {
						for _, hin := range hb.Instrs {
							st, ok := hin.(*ssa.Store)
							if !ok {
								continue
							}
							t, f, base, ok := FieldOf(st.Addr)
							if !ok || !strings.HasSuffix(t, "hclsyntax.UnaryOpExpr") {
								continue
							}
							if al, isAl := base.(*ssa.Alloc); isAl {
								node = al
							}
							switch f {
							case "Op":
								for i, prm := range h.Params {
									if st.Val == ssa.Value(prm) {
										opParam = i
									}
								}
							case "Val":
								rv := valueRoots(st.Val, func(cl *ssa.Call) bool { return strings.Contains(CalleeName(cl), "hclsyntax.parser).") })
								if len(rv.calls) != 1 {
									valOK = false
								}
								for cl := range rv.calls {
									if !strings.HasSuffix(CalleeName(cl), ".parseExpressionWithTraversals") {
										valOK = false
									}
								}
							}
						}
					}
					if opParam < 0 || node == nil || opParam >= len(call.Call.Args) {
						continue
					}
					found = true
					returnsNode := true
					for _, hb := range h.Blocks {
						if ret, ok := hb.Instrs[len(hb.Instrs)-1].(*ssa.Return); ok && len(ret.Results) > 0 {
							if !DerivesFromNarrowCalls(ret.Results[0], func(v ssa.Value) bool { return v == ssa.Value(node) }) {
								returnsNode = false
							}
						}
					}
					rs := valueRoots(call.Call.Args[opParam], nil)
					if rs.names["global:"+u.Op] && len(rs.names) == 1 && valOK && returnsNode {
						good = true
					}
				}
			}
		}
		switch {
		case found && good:
			c.R.Ok(rule, FuncShort(term), construct, c.pos(term.Pos()), "the prefix operator builds a UnaryOpExpr with the defined operation", true)
		case found:
			c.R.Bad(rule, FuncShort(term), construct, c.pos(term.Pos()), "the prefix operator is bound to a different operation")
		default:
			c.R.Bad(rule, FuncShort(term), construct, c.pos(term.Pos()), "no UnaryOpExpr is built under this token any more")
		}
	}
}

func objName(info *types.Info, e ast.Expr) string {
	switch x := ast.Unparen(e).(type) {
	case *ast.Ident:
		if o := info.Uses[x]; o != nil {
			return o.Name()
		}
		return x.Name
	case *ast.SelectorExpr:
		if o := info.Uses[x.Sel]; o != nil && o.Pkg() != nil {
			return o.Pkg().Name() + "." + o.Name()
		}
		return ExprStr(x)
	}
	return ExprStr(e)
}

// tokenConstName maps a TokenType constant value back to its declared name.
func tokenConstName(c *Ctx, k *ssa.Const) string {
	pk := c.P.ByPath[PkgHclsyntax]
	if pk == nil || k.Value == nil {
		return ""
	}
	sc := pk.Types.Scope()
	for _, n := range sc.Names() {
		if cn, ok := sc.Lookup(n).(*types.Const); ok && strings.HasPrefix(n, "Token") && types.Identical(cn.Type(), k.Type()) {
			if cn.Val().ExactString() == k.Value.ExactString() {
				return n
			}
		}
	}
	return ""
}

// R19Climb — the precedence-climbing parser builds the tree the table prescribes.
func R19Climb(c *Ctx) {
	const rule = "R19-climb"
	c.R.Rule(rule, "parseBinaryOps consults the first level of its table argument for the operator and parses both operands with the strict tail of that argument (so tighter operators bind first and the recursion ends); the operation of each node is the one looked up for the consumed token; the left operand of a node is everything parsed before the operator (left associativity) and the right operand is parsed after it; the conditional takes its condition from the binary-operator parser started at the complete table, then the true and false results in source order", 8)
	fn := c.P.Func(PkgHclsyntax, "parser.parseBinaryOps")
	if fn == nil {
		c.R.Anchor(rule, "hclsyntax.(*parser).parseBinaryOps")
		return
	}
	fname := FuncShort(fn)
	var ops *ssa.Parameter
	for _, p := range fn.Params {
		if _, ok := p.Type().Underlying().(*types.Slice); ok {
			ops = p
		}
	}
	if ops == nil {
		c.R.Anchor(rule, "parseBinaryOps table parameter")
		return
	}
	isTail := func(v ssa.Value) bool {
		sl, ok := v.(*ssa.Slice)
		if !ok || !IsParam(sl.X, ops) || sl.High != nil {
			return false
		}
		n, ok := ConstInt(sl.Low)
		return ok && n == 1
	}
	// (i) recursive calls
	var rec []*ssa.Call
	EachCall(fn, func(call ssa.CallInstruction) {
		if cv, ok := call.(*ssa.Call); ok && call.Common().StaticCallee() == fn {
			rec = append(rec, cv)
		}
	})
	if len(rec) < 2 {
		c.R.Bad(rule, fname, "operands parsed by recursive calls", c.pos(fn.Pos()), "fewer than two recursive operand parses: the shape of precedence climbing is gone")
		return
	}
	for _, call := range rec {
		arg := call.Call.Args[len(call.Call.Args)-1]
		if isTail(arg) {
			c.R.Ok(rule, fname, "operand parsed with ops[1:]", c.pos(call.Pos()), "the operand is parsed at the next tighter level", true)
		} else {
			c.R.Bad(rule, fname, "operand parsed with ops[1:]", c.pos(call.Pos()), "an operand is parsed with "+DescribeValue(arg)+" instead of the strict tail of the table: same-level operators nest to the right / the recursion does not descend")
		}
	}
	// base case: empty table → term parser
	baseOK := false
	for _, bb := range fn.Blocks {
		for _, in := range bb.Instrs {
			if call, ok := in.(*ssa.Call); ok && strings.HasSuffix(CalleeName(call), ".parseExpressionWithTraversals") {
				for _, f := range FactsAt(bb) {
					if bo, ok := f.Cond.(*ssa.BinOp); ok && bo.Op == token.EQL && f.Truth {
						if l, ok := bo.X.(*ssa.Call); ok && CalleeName(l) == "builtin.len" && IsParam(l.Call.Args[0], ops) {
							if n, ok := ConstInt(bo.Y); ok && n == 0 {
								baseOK = true
							}
						}
					}
				}
			}
		}
	}
	if baseOK {
		c.R.Ok(rule, fname, "empty table → term", c.pos(fn.Pos()), "with no operator level left a term is parsed", true)
	} else {
		c.R.Bad(rule, fname, "empty table → term", c.pos(fn.Pos()), "the base case (len(ops) == 0 → parseExpressionWithTraversals) is gone")
	}
	// (ii) the lookup
	var lookups []*ssa.Lookup
	for _, bb := range fn.Blocks {
		for _, in := range bb.Instrs {
			if lk, ok := in.(*ssa.Lookup); ok {
				lookups = append(lookups, lk)
			}
		}
	}
	lookOK := len(lookups) == 1
	var peekRead bool
	if lookOK {
		lk := lookups[0]
		// map = ops[0]
		m := lk.X
		if u, ok := m.(*ssa.UnOp); ok {
			m = u.X
		}
		ia, ok := m.(*ssa.IndexAddr)
		if !ok || !IsParam(ia.X, ops) {
			lookOK = false
		} else if n, ok := ConstInt(ia.Index); !ok || n != 0 {
			lookOK = false
		}
		// key = Peek().Type
		peekRead = DerivesFrom(lk.Index, func(v ssa.Value) bool {
			call, ok := v.(*ssa.Call)
			return ok && strings.HasSuffix(CalleeName(call), ".Peek")
		})
	}
	if lookOK && peekRead {
		c.R.Ok(rule, fname, "operator = ops[0][Peek().Type]", c.pos(lookups[0].Pos()), "the next token is looked up in the current level only", true)
	} else {
		c.R.Bad(rule, fname, "operator = ops[0][Peek().Type]", c.pos(fn.Pos()), "the operator is no longer looked up in the first level of the table by the type of the next token")
	}
	// (iii) node construction
	first := rec[0]
	for _, r := range rec {
		if InstrDominates(r, first) && r != first {
			first = r
		}
	}
	stop := func(call *ssa.Call) bool { return call.Common().StaticCallee() == fn }
	nLit := 0
	for _, bb := range fn.Blocks {
		for _, in := range bb.Instrs {
			st, ok := in.(*ssa.Store)
			if !ok {
				continue
			}
			t, f, base, ok := FieldOf(st.Addr)
			if !ok || !strings.HasSuffix(t, "hclsyntax.BinaryOpExpr") {
				continue
			}
			if _, isAlloc := base.(*ssa.Alloc); !isAlloc {
				continue
			}
			switch f {
			case "Op":
				nLit++
				good := len(lookups) == 1 && DerivesFrom(st.Val, func(v ssa.Value) bool { return v == ssa.Value(lookups[0]) })
				// must not come from anything else: phis of nil and the lookup only
				if good {
					c.R.Ok(rule, fname, "node.Op = looked-up operation", c.pos(st.Pos()), "the node carries the operation found for the consumed token", true)
				} else {
					c.R.Bad(rule, fname, "node.Op = looked-up operation", c.pos(st.Pos()), "the node's operation does not come from the table lookup")
				}
			case "LHS":
				rs := valueRoots(st.Val, stop)
				if rs.calls[first] {
					c.R.Ok(rule, fname, "node.LHS = everything parsed before the operator", c.pos(st.Pos()), "the left operand accumulates from the first operand parse (left associativity)", true)
				} else {
					c.R.Bad(rule, fname, "node.LHS = everything parsed before the operator", c.pos(st.Pos()), "the left operand of the node does not include the first parsed operand: operands are swapped or dropped")
				}
			case "RHS":
				rs := valueRoots(st.Val, stop)
				bad := rs.calls[first] || len(rs.calls) == 0 || rs.names["alloc:hclsyntax.BinaryOpExpr"]
				// every source call must come after a token read
				for call := range rs.calls {
					if !precededByRead(call) {
						bad = true
					}
				}
				if !bad {
					c.R.Ok(rule, fname, "node.RHS = operand parsed after the operator", c.pos(st.Pos()), "the right operand is a single operand parse following the consumed operator", true)
				} else {
					c.R.Bad(rule, fname, "node.RHS = operand parsed after the operator", c.pos(st.Pos()), "the right operand of the node can be the first operand or an accumulated node: operands are swapped / associativity changed")
				}
			}
		}
	}
	if nLit == 0 {
		c.R.Bad(rule, fname, "BinaryOpExpr nodes built", c.pos(fn.Pos()), "parseBinaryOps builds no BinaryOpExpr")
	}
	// conditional
	tern := c.P.Func(PkgHclsyntax, "parser.parseTernaryConditional")
	if tern == nil {
		c.R.Anchor(rule, "hclsyntax.(*parser).parseTernaryConditional")
		return
	}
	tname := FuncShort(tern)
	stopT := func(call *ssa.Call) bool {
		n := CalleeName(call)
		return strings.HasSuffix(n, ".parseBinaryOps") || strings.HasSuffix(n, ".ParseExpression")
	}
	src := map[string]*ssa.Call{}
	okT := true
	for _, bb := range tern.Blocks {
		for _, in := range bb.Instrs {
			st, ok := in.(*ssa.Store)
			if !ok {
				continue
			}
			t, f, base, ok := FieldOf(st.Addr)
			if !ok || !strings.HasSuffix(t, "hclsyntax.ConditionalExpr") {
				continue
			}
			if _, isAlloc := base.(*ssa.Alloc); !isAlloc {
				continue
			}
			if f == "Condition" || f == "TrueResult" || f == "FalseResult" {
				rs := valueRoots(st.Val, stopT)
				if len(rs.calls) != 1 {
					okT = false
					continue
				}
				for call := range rs.calls {
					src[f] = call
				}
			}
		}
	}
	cnd, tr, fl := src["Condition"], src["TrueResult"], src["FalseResult"]
	if !okT || cnd == nil || tr == nil || fl == nil {
		c.R.Bad(rule, tname, "cond ? true : false in source order", c.pos(tern.Pos()), "the ConditionalExpr fields are not each bound to one sub-expression parse")
	} else {
		full := false
		if len(cnd.Call.Args) > 0 {
			a := cnd.Call.Args[len(cnd.Call.Args)-1]
			if u, ok := a.(*ssa.UnOp); ok {
				if g, ok := u.X.(*ssa.Global); ok && g.Name() == "binaryOps" {
					full = true
				}
			}
		}
		order := strings.HasSuffix(CalleeName(cnd), ".parseBinaryOps") && cnd != tr && tr != fl && cnd != fl && InstrDominates(cnd, tr) && InstrDominates(tr, fl)
		guards := tokenGuard(c, tr, "TokenQuestion") && tokenGuard(c, fl, "TokenColon")
		if full && order && guards {
			c.R.Ok(rule, tname, "cond ? true : false in source order", c.pos(tern.Pos()), "condition from the complete operator table; true result after '?', false result after ':'", true)
		} else {
			c.R.Bad(rule, tname, "cond ? true : false in source order", c.pos(tern.Pos()), "condition/true/false are not bound to the three sub-expressions in source order behind their '?' and ':' tokens, or the condition is not parsed with the complete operator table")
		}
	}
}

// precededByRead: a call to (*parser).Read precedes the call in its block or dominates it from inside the same loop body.
func precededByRead(call *ssa.Call) bool {
	b := call.Block()
	for _, in := range b.Instrs {
		if in == ssa.Instruction(call) {
			break
		}
		if r, ok := in.(*ssa.Call); ok && strings.HasSuffix(CalleeName(r), ".Read") {
			return true
		}
	}
	return false
}

// tokenGuard: the call happens only when the peeked token had the named type.
func tokenGuard(c *Ctx, call *ssa.Call, tok string) bool {
	for _, f := range FactsAt(call.Block()) {
		bo, ok := f.Cond.(*ssa.BinOp)
		if !ok {
			continue
		}
		k, ok := bo.Y.(*ssa.Const)
		if !ok {
			continue
		}
		if tokenConstName(c, k) != tok {
			continue
		}
		if (bo.Op == token.NEQ && !f.Truth) || (bo.Op == token.EQL && f.Truth) {
			return true
		}
	}
	return false
}

// R19Eval — operator nodes evaluate their operands in place.
func R19Eval(c *Ctx) {
	const rule = "R19-eval"
	c.R.Rule(rule, "BinaryOpExpr.Value applies the node's own operation to (value of LHS, value of RHS) in that order and UnaryOpExpr.Value to the value of its operand; ConditionalExpr.Value returns (a conversion of) the true result exactly on the branch where the condition value is true and the false result on the other; value provenance is followed through conversions and locals, not through types", 6)
	// binary
	if fn := c.P.Func(PkgHclsyntax, "BinaryOpExpr.Value"); fn == nil {
		c.R.Anchor(rule, "hclsyntax.(*BinaryOpExpr).Value")
	} else {
		checkImplCall(c, rule, fn, "hclsyntax.BinaryOpExpr", []string{"LHS", "RHS"})
	}
	if fn := c.P.Func(PkgHclsyntax, "UnaryOpExpr.Value"); fn == nil {
		c.R.Anchor(rule, "hclsyntax.(*UnaryOpExpr).Value")
	} else {
		checkImplCall(c, rule, fn, "hclsyntax.UnaryOpExpr", []string{"Val"})
	}
	fn := c.P.Func(PkgHclsyntax, "ConditionalExpr.Value")
	if fn == nil {
		c.R.Anchor(rule, "hclsyntax.(*ConditionalExpr).Value")
		return
	}
	fname := FuncShort(fn)
	// the deciding branch: If on (cty.Value).True() of a value derived from Condition
	var decide *ssa.If
	for _, bb := range fn.Blocks {
		if len(bb.Instrs) == 0 {
			continue
		}
		iff, ok := bb.Instrs[len(bb.Instrs)-1].(*ssa.If)
		if !ok {
			continue
		}
		call, ok := iff.Cond.(*ssa.Call)
		if !ok || !strings.HasSuffix(CalleeName(call), "cty.Value).True") {
			continue
		}
		rs := valueRoots(call.Call.Args[0], nil)
		if rs.hasField("hclsyntax.ConditionalExpr.Condition") && !rs.hasField("hclsyntax.ConditionalExpr.TrueResult") && !rs.hasField("hclsyntax.ConditionalExpr.FalseResult") {
			decide = iff
		}
	}
	if decide == nil {
		c.R.Bad(rule, fname, "branch on Condition value .True()", c.pos(fn.Pos()), "the result is no longer selected by the truth of the condition's value")
		return
	}
	c.R.Ok(rule, fname, "branch on Condition value .True()", c.pos(decide.Pos()), "selection is by the truth of the (converted, unmarked) condition value", true)
	nT, nF := 0, 0
	for _, bb := range fn.Blocks {
		if len(bb.Instrs) == 0 {
			continue
		}
		ret, ok := bb.Instrs[len(bb.Instrs)-1].(*ssa.Return)
		if !ok || len(ret.Results) == 0 {
			continue
		}
		onTrue := EdgeDominates(decide.Block(), 0, bb)
		onFalse := EdgeDominates(decide.Block(), 1, bb)
		if !onTrue && !onFalse {
			continue
		}
		rs := valueRoots(ret.Results[0], nil)
		hasT, hasF := rs.hasField("hclsyntax.ConditionalExpr.TrueResult"), rs.hasField("hclsyntax.ConditionalExpr.FalseResult")
		if onTrue {
			nT++
			if hasT && !hasF {
				c.R.Ok(rule, fname, "condition true → TrueResult", c.pos(ret.Pos()), "the value returned on the true branch stems from TrueResult only", true)
			} else {
				c.R.Bad(rule, fname, "condition true → TrueResult", c.pos(ret.Pos()), "the value returned when the condition is true stems from "+strings.Join(rs.fields(), ", "))
			}
		} else {
			nF++
			if hasF && !hasT {
				c.R.Ok(rule, fname, "condition false → FalseResult", c.pos(ret.Pos()), "the value returned on the false branch stems from FalseResult only", true)
			} else {
				c.R.Bad(rule, fname, "condition false → FalseResult", c.pos(ret.Pos()), "the value returned when the condition is false stems from "+strings.Join(rs.fields(), ", "))
			}
		}
	}
	if nT == 0 || nF == 0 {
		c.R.Bad(rule, fname, "both branches return a result", c.pos(decide.Pos()), "one of the two branches of the condition returns nothing")
	}
}

// checkImplCall: the single Impl.Call in fn receives, in order, the values of the named operand fields.
func checkImplCall(c *Ctx, rule string, fn *ssa.Function, typ string, operands []string) {
	fname := FuncShort(fn)
	var calls []*ssa.Call
	EachCall(fn, func(call ssa.CallInstruction) {
		if cv, ok := call.(*ssa.Call); ok && CalleeName(call) == "(github.com/zclconf/go-cty/cty/function.Function).Call" {
			calls = append(calls, cv)
		}
	})
	construct := "Op.Impl.Call(" + strings.Join(operands, ", ") + ")"
	if len(calls) != 1 {
		c.R.Bad(rule, fname, construct, c.pos(fn.Pos()), "expected exactly one call of the operation's implementation, found "+itoa(len(calls)))
		return
	}
	call := calls[0]
	// receiver: e.Op.Impl
	recvOK := DerivesFrom(call.Call.Args[0], func(v ssa.Value) bool {
		t, f, _, ok := FieldOf(v)
		return ok && strings.HasSuffix(t, "hclsyntax.Operation") && f == "Impl"
	}) && DerivesFrom(call.Call.Args[0], func(v ssa.Value) bool {
		t, f, _, ok := FieldOf(v)
		return ok && strings.HasSuffix(t, typ) && f == "Op"
	})
	if recvOK {
		c.R.Ok(rule, fname, "implementation = e.Op.Impl", c.pos(call.Pos()), "the node's own operation is applied", true)
	} else {
		c.R.Bad(rule, fname, "implementation = e.Op.Impl", c.pos(call.Pos()), "the function applied is not the Impl of the node's Op")
	}
	// the argument slice: elements by constant index
	args := call.Call.Args[1]
	elems := map[int64]ssa.Value{}
	var arr *ssa.Alloc
	if sl, ok := args.(*ssa.Slice); ok {
		arr, _ = sl.X.(*ssa.Alloc)
	}
	if arr != nil {
		for _, r := range *arr.Referrers() {
			if ia, ok := r.(*ssa.IndexAddr); ok {
				if n, ok := ConstInt(ia.Index); ok {
					for _, r2 := range *ia.Referrers() {
						if st, ok := r2.(*ssa.Store); ok && st.Addr == ia {
							elems[n] = st.Val
						}
					}
				}
			}
		}
	}
	if len(elems) != len(operands) {
		c.R.Bad(rule, fname, construct, c.pos(call.Pos()), "the argument list is not a literal of "+itoa(len(operands))+" values")
		return
	}
	for i, op := range operands {
		rs := valueRoots(elems[int64(i)], nil)
		want := typ + "." + op
		good := rs.hasField(want)
		for _, o := range operands {
			if o != op && rs.hasField(typ+"."+o) {
				good = false
			}
		}
		// the operand is converted to the operation's own i-th parameter type and to nothing else
		if conv := convertOf(elems[int64(i)]); conv != nil {
			tgt := conv.Call.Args[1]
			okT := false
			if ld, isLd := tgt.(*ssa.UnOp); isLd {
				tgt = ld.X
			}
			if t, f, base, okF := FieldOf(tgt); okF && strings.HasSuffix(t, "function.Parameter") && f == "Type" {
				if k, okK := paramsIndexOf(base); okK && k == int64(i) {
					okT = true
				}
			}
			c2 := "operand " + itoa(i) + " converted to Impl.Params()[" + itoa(i) + "].Type"
			if okT {
				c.R.Ok(rule, fname, c2, c.pos(conv.Pos()), "the conversion target is the operation's declared parameter type", true)
			} else {
				c.R.Bad(rule, fname, c2, c.pos(conv.Pos()), "the operand is converted to "+DescribeValue(conv.Call.Args[1])+" instead of the operation's declared parameter type: operands of different types are brought together before the operator sees them (e.g. 1 == \"1\" becomes true)")
			}
		}
		cons := "argument " + itoa(i) + " = value of e." + op
		if good {
			c.R.Ok(rule, fname, cons, c.pos(call.Pos()), "stems from e."+op+".Value(ctx) through a type conversion", true)
		} else {
			c.R.Bad(rule, fname, cons, c.pos(call.Pos()), "argument "+itoa(i)+" stems from "+strings.Join(rs.fields(), ", ")+": operands swapped or replaced")
		}
	}
}

// convertOf finds the convert.Convert call an operand value comes from (through tuple extraction and phis).
func convertOf(v ssa.Value) *ssa.Call {
	seen := map[ssa.Value]bool{}
	var rec func(v ssa.Value) *ssa.Call
	rec = func(v ssa.Value) *ssa.Call {
		if v == nil || seen[v] {
			return nil
		}
		seen[v] = true
		switch x := v.(type) {
		case *ssa.Extract:
			return rec(x.Tuple)
		case *ssa.Call:
			if strings.HasSuffix(CalleeName(x), "cty/convert.Convert") {
				return x
			}
		case *ssa.Phi:
			for _, e := range x.Edges {
				if r := rec(e); r != nil {
					return r
				}
			}
		}
		return nil
	}
	return rec(v)
}

// paramsIndexOf: v is (a local copy of) element k of the slice returned by function.Function.Params().
func paramsIndexOf(v ssa.Value) (int64, bool) {
	for d := 0; d < 4; d++ {
		switch x := v.(type) {
		case *ssa.Alloc:
			var val ssa.Value
			n := 0
			for _, r := range *x.Referrers() {
				if st, ok := r.(*ssa.Store); ok && st.Addr == ssa.Value(x) {
					val = st.Val
					n++
				}
			}
			if n != 1 {
				return 0, false
			}
			v = val
		case *ssa.UnOp:
			v = x.X
		case *ssa.IndexAddr:
			k, ok := ConstInt(x.Index)
			if !ok {
				return 0, false
			}
			if pc, isCall := x.X.(*ssa.Call); isCall && strings.HasSuffix(CalleeName(pc), "function.Function).Params") {
				return k, true
			}
			return 0, false
		default:
			return 0, false
		}
	}
	return 0, false
}

// R19NumberExact — numeric literals become exact numbers.
func R19NumberExact(c *Ctx) {
	const rule = "R19-number-exact"
	c.R.Rule(rule, "the native and the JSON parser turn the text of a number token into a value only through cty.ParseNumberVal (arbitrary precision, the same routine the string-to-number conversion uses): no function of hclsyntax or yaotl/json calls strconv.ParseFloat/ParseInt/Atoi on token text or builds a number with cty.NumberFloatVal/NumberIntVal from it — a float64 detour changes integers above 2^53 and makes a quoted and an unquoted number load differently", 2)
	n := 0
	exact := 0
	for _, fn := range c.P.ModuleFuncs(func(p string) bool { return p == PkgYaotl+"/hclsyntax" || p == PkgYaotl+"/json" }) {
		EachCall(fn, func(call ssa.CallInstruction) {
			name := CalleeName(call)
			switch name {
			case "github.com/zclconf/go-cty/cty.ParseNumberVal":
				n++
				exact++
				c.R.Ok(rule, FuncShort(fn), "cty.ParseNumberVal(<token text>)", c.pos(call.Pos()), "exact parse", true)
			case "strconv.ParseFloat", "github.com/zclconf/go-cty/cty.NumberFloatVal", "(*math/big.Float).Float64":
				// on token text?
				fromTok := false
				for _, a := range call.Common().Args {
					if DerivesFrom(a, func(v ssa.Value) bool {
						return IsFieldLoad("", "Bytes")(v)
					}) {
						fromTok = true
					}
				}
				// NumberFloatVal of a ParseFloat result
				if name == "github.com/zclconf/go-cty/cty.NumberFloatVal" {
					for _, a := range call.Common().Args {
						if DerivesFrom(a, func(v ssa.Value) bool {
							cl, ok := v.(*ssa.Call)
							return ok && CalleeName(cl) == "strconv.ParseFloat"
						}) {
							fromTok = true
						}
					}
				}
				if fromTok {
					n++
					c.R.Bad(rule, FuncShort(fn), shortCallee(name)+"(<token text>)", c.pos(call.Pos()), "a number token is converted through float64: integers beyond 2^53 are rounded (or rejected), while the same digits in a quoted string still load exactly")
				}
			}
		})
	}
	// narrowing of a number inside the evaluator: the accuracy result must be looked at
	for _, fn := range c.P.ModuleFuncs(func(p string) bool {
		return p == PkgYaotl || p == PkgYaotl+"/hclsyntax" || p == PkgYaotl+"/json" || p == PkgYaotl+"/gohcl"
	}) {
		EachCall(fn, func(call ssa.CallInstruction) {
			name := CalleeName(call)
			switch name {
			case "(*math/big.Float).Int64", "(*math/big.Float).Uint64", "(*math/big.Float).Float64", "(*math/big.Float).Float32", "(*math/big.Float).Int":
			default:
				return
			}
			v := call.Value()
			if v == nil {
				return
			}
			checked := false
			for _, r := range *v.Referrers() {
				if ex, ok := r.(*ssa.Extract); ok && ex.Index == 1 && len(*ex.Referrers()) > 0 {
					checked = true
				}
			}
			n++
			if checked {
				c.R.Ok(rule, FuncShort(fn), shortCallee(name)+"() with its accuracy tested", c.pos(call.Pos()), "the conversion's accuracy result is used", true)
			} else {
				c.R.Bad(rule, FuncShort(fn), shortCallee(name)+"() with its accuracy tested", c.pos(call.Pos()), "a number is narrowed and the accuracy result is thrown away: a fractional or out-of-range value silently becomes another number (an index 1.5 selects element 1 instead of being an error)")
			}
		})
	}
	if exact < 2 {
		c.R.Anchor(rule, "the cty.ParseNumberVal calls of hclsyntax.numberLitValue and json.parseNumber")
	}
}

// R19InnermostScope — a name resolves in the innermost scope that defines it.
func R19InnermostScope(c *Ctx) {
	const rule = "R19-innermost-scope"
	c.R.Rule(rule, "where yaotl walks an EvalContext chain (through .parent / Parent()) to resolve a variable or function name, the walk is left on the path where the current scope has the name (a return or a break under the successful lookup): a walk that goes on after a hit lets an outer definition overwrite the inner one, so iteration variables of for-expressions are shadowed by same-named outer variables", 1)
	n := 0
	for _, fn := range c.P.ModuleFuncs(func(p string) bool { return p == PkgYaotl || p == PkgYaotl+"/hclsyntax" }) {
		for _, l := range naturalLoops(fn) {
			// a header phi stepping through .parent
			var cur *ssa.Phi
			for _, in := range l.header.Instrs {
				ph, ok := in.(*ssa.Phi)
				if !ok {
					break
				}
				for i, e := range ph.Edges {
					if !l.body[l.header.Preds[i]] {
						continue
					}
					if DerivesFromNarrowCalls(e, func(v ssa.Value) bool {
						if IsFieldLoad(PkgYaotl+".EvalContext", "parent")(v) {
							return true
						}
						cl, ok := v.(*ssa.Call)
						return ok && CalleeName(cl) == "(*Havoc/pkg/profile/yaotl.EvalContext).Parent"
					}) {
						cur = ph
					}
				}
			}
			if cur == nil {
				continue
			}
			// hits: the true successor of a test inside the loop that is a successful lookup in the current scope's
			// table, or key == name in a range over it
			var hits []*ssa.BasicBlock
			for b := range l.body {
				iff, ok := b.Instrs[len(b.Instrs)-1].(*ssa.If)
				if !ok {
					continue
				}
				isHit := false
				if ex, ok := iff.Cond.(*ssa.Extract); ok && ex.Index == 1 {
					if lk, ok := ex.Tuple.(*ssa.Lookup); ok && DerivesFrom(lk.X, func(v ssa.Value) bool {
						return IsFieldLoad(PkgYaotl+".EvalContext", "Variables")(v) || IsFieldLoad(PkgYaotl+".EvalContext", "Functions")(v)
					}) {
						isHit = true
					}
				}
				if bo, ok := iff.Cond.(*ssa.BinOp); ok && bo.Op == token.EQL {
					for _, side := range []ssa.Value{bo.X, bo.Y} {
						if ex, ok := side.(*ssa.Extract); ok {
							if _, isNext := ex.Tuple.(*ssa.Next); isNext && ex.Index == 1 {
								isHit = true
							}
						}
					}
				}
				if isHit {
					hits = append(hits, b.Succs[0])
				}
			}
			if len(hits) == 0 {
				continue
			}
			n++
			construct := "scope walk stops at the first scope that defines the name"
			bad := ""
			for _, hb := range hits {
				// can the walk go on to the next scope from here?
				stop := map[*ssa.BasicBlock]bool{}
				for b := range l.body {
					_ = b
				}
				reaches := false
				seen := map[*ssa.BasicBlock]bool{}
				var walk func(b *ssa.BasicBlock)
				walk = func(b *ssa.BasicBlock) {
					if seen[b] || reaches || !l.body[b] {
						return
					}
					seen[b] = true
					for _, s := range b.Succs {
						if s == l.header {
							reaches = true
							return
						}
						walk(s)
					}
				}
				walk(hb)
				_ = stop
				if reaches {
					bad = c.pos(hb.Instrs[0].Pos())
				}
			}
			if bad == "" {
				c.R.Ok(rule, FuncShort(fn), construct, c.pos(l.header.Instrs[0].Pos()), "a hit leaves the walk", true)
			} else {
				c.R.Bad(rule, FuncShort(fn), construct, bad, "after the name was found in a scope the walk continues to the enclosing scopes: the outermost definition wins instead of the innermost")
			}
		}
	}
	if n == 0 {
		c.R.Anchor(rule, "a scope-chain walk with a lookup in yaotl")
	}
}

// R19StripClass — all strip markers trim the same class of characters.
func R19StripClass(c *Ctx) {
	const rule = "R19-strip-class"
	c.R.Rule(rule, "the trims that implement the strip markers (`~}` eats the leading, `${~` and `%{~` the trailing white space of the neighbouring literal) in hclsyntax.parser.parseTemplateParts (and helpers) all use the same character class — today strings.Trim{Left,Right}Func with unicode.IsSpace: a sibling that trims another class (a cutset of blanks, say) leaves newlines where the other marker removes them", 2)
	fn := c.P.Func(PkgYaotl+"/hclsyntax", "parser.parseTemplateParts")
	if fn == nil {
		c.R.Anchor(rule, "hclsyntax.(*parser).parseTemplateParts")
		return
	}
	type site struct {
		class string
		pos   token.Pos
		name  string
	}
	var sites []site
	for _, f := range HelperClosure(fn, 1) {
		EachCall(f, func(call ssa.CallInstruction) {
			name := CalleeName(call)
			if !strings.HasPrefix(name, "strings.Trim") {
				return
			}
			args := call.Common().Args
			class := "?"
			switch {
			case strings.HasSuffix(name, "Func") && len(args) == 2:
				if pf, ok := args[1].(*ssa.Function); ok {
					class = "func:" + pf.String()
				} else if mc, ok := args[1].(*ssa.MakeClosure); ok {
					class = "closure:" + mc.Fn.String()
				}
			case name == "strings.TrimSpace":
				class = "func:unicode.IsSpace" // same class by definition for valid UTF-8
			case len(args) == 2:
				if s, ok := ConstString(args[1]); ok {
					class = "cutset:" + strconv.Quote(s)
				}
			}
			sites = append(sites, site{class, call.Pos(), name})
		})
	}
	if len(sites) < 2 {
		c.R.Anchor(rule, "the strip-marker trims of parseTemplateParts")
		return
	}
	count := map[string]int{}
	for _, s := range sites {
		count[s.class]++
	}
	major := ""
	for k, v := range count {
		if v > count[major] || (v == count[major] && k < major) {
			major = k
		}
	}
	ord := 0
	for _, s := range sites {
		ord++
		construct := "strip-marker trim #" + itoa(ord)
		if s.class == major {
			c.R.Ok(rule, FuncShort(fn), construct, c.pos(s.pos), "trims "+s.class+" like its siblings", true)
		} else {
			c.R.Bad(rule, FuncShort(fn), construct, c.pos(s.pos), shortCallee(s.name)+" trims "+s.class+" while the other strip markers trim "+major+": the markers disagree about what white space is")
		}
	}
}
