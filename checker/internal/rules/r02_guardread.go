package rules

import (
	"fmt"
	"go/token"
	"go/types"
	"sort"
	"strings"

	"golang.org/x/tools/go/ssa"
)

// width classes of reads
const (
	w4    = "I32"
	w8    = "I64"
	wByts = "BYTES"
)

var readTypeClass = map[string]string{"ReadInt32": w4, "ReadBool": w4, "ReadInt64": w8, "ReadPointer": w8, "ReadBytes": wByts}

var readerClass = map[string]string{
	"(*Havoc/pkg/common/parser.Parser).ParseInt32":       w4,
	"(*Havoc/pkg/common/parser.Parser).ParseBool":        w4,
	"(*Havoc/pkg/common/parser.Parser).ParseInt64":       w8,
	"(*Havoc/pkg/common/parser.Parser).ParsePointer":     w8,
	"(*Havoc/pkg/common/parser.Parser).ParseBytes":       wByts,
	"(*Havoc/pkg/common/parser.Parser).ParseString":      wByts,
	"(*Havoc/pkg/common/parser.Parser).ParseUTF16String": wByts,
}

const canIReadName = "(*Havoc/pkg/common/parser.Parser).CanIRead"

// readTypeNames maps the integer value of a parser.ReadType constant to its name.
func (c *Ctx) readTypeNames() map[int64]string {
	out := map[int64]string{}
	for n := range readTypeClass {
		if v, ok := c.pkgConst(PkgParser, n); ok {
			out[v] = n
		}
	}
	return out
}

// listOption is one resolution of a CanIRead argument to a literal list.
type listOption struct {
	list []string // width classes
	cond ssa.Value
	when bool // fact that selects this option (cond == when); cond nil = unconditional
}

// literalList resolves a []ReadType SSA value built from a composite literal.
func literalList(v ssa.Value, names map[int64]string) ([]string, bool) {
	sl, ok := v.(*ssa.Slice)
	if !ok {
		return nil, false
	}
	al, ok := sl.X.(*ssa.Alloc)
	if !ok {
		return nil, false
	}
	elems := map[int64]string{}
	max := int64(-1)
	for _, r := range *al.Referrers() {
		ia, ok := r.(*ssa.IndexAddr)
		if !ok {
			continue
		}
		idx, ok := ConstInt(ia.Index)
		if !ok {
			return nil, false
		}
		for _, r2 := range *ia.Referrers() {
			if st, ok := r2.(*ssa.Store); ok && st.Addr == ssa.Value(ia) {
				val, ok := ConstInt(st.Val)
				if !ok {
					return nil, false
				}
				n, ok := names[val]
				if !ok {
					return nil, false
				}
				elems[idx] = readTypeClass[n]
				if idx > max {
					max = idx
				}
			}
		}
	}
	out := make([]string, max+1)
	for i := range out {
		e, ok := elems[int64(i)]
		if !ok {
			// zero value: ReadInt32 == 0
			if n, ok := names[0]; ok {
				e = readTypeClass[n]
			} else {
				return nil, false
			}
		}
		out[i] = e
	}
	return out, true
}

// resolveList resolves the argument of CanIRead into one or more options.
func resolveList(v ssa.Value, names map[int64]string) ([]listOption, bool) {
	if l, ok := literalList(v, names); ok {
		return []listOption{{list: l}}, true
	}
	if ph0, ok := v.(*ssa.Phi); ok {
		var opts []listOption
		// flatten nested / loop-carried phis into (leaf value, predecessor block, phi block)
		type leaf struct {
			e    ssa.Value
			pred *ssa.BasicBlock
			ph   *ssa.Phi
		}
		var leaves []leaf
		seenPhi := map[*ssa.Phi]bool{}
		var flat func(ph *ssa.Phi)
		flat = func(ph *ssa.Phi) {
			if seenPhi[ph] {
				return
			}
			seenPhi[ph] = true
			for i, e := range ph.Edges {
				if p2, ok := e.(*ssa.Phi); ok {
					flat(p2)
					continue
				}
				leaves = append(leaves, leaf{e, ph.Block().Preds[i], ph})
			}
		}
		flat(ph0)
		for _, lf := range leaves {
			e, ph := lf.e, lf.ph
			i := -1
			for k, p := range ph.Block().Preds {
				if p == lf.pred {
					i = k
				}
			}
			l, ok := literalList(e, names)
			if !ok {
				// nil slice (var WhatToRead []ReadType without value)
				if isNilConst(e) {
					l = []string{}
				} else {
					return nil, false
				}
			}
			pred := ph.Block().Preds[i]
			// the branch that selects pred
			var cond ssa.Value
			when := false
			for b := pred; b != nil; b = b.Idom() {
				d := b.Idom()
				if d == nil || len(d.Instrs) == 0 {
					break
				}
				iff, ok := d.Instrs[len(d.Instrs)-1].(*ssa.If)
				if !ok {
					continue
				}
				t, f := EdgeDominates(d, 0, pred) || d.Succs[0] == pred && len(pred.Preds) == 1, EdgeDominates(d, 1, pred) || d.Succs[1] == pred && len(pred.Preds) == 1
				if t != f {
					cond, when = StripNot(iff.Cond, t)
					break
				}
				// pred is the branching block itself (empty else): the edge into the phi block
				if d == pred {
					break
				}
			}
			if cond == nil {
				// the phi's predecessor is itself the If block: edge index tells the outcome
				if len(pred.Instrs) > 0 {
					if iff, ok := pred.Instrs[len(pred.Instrs)-1].(*ssa.If); ok {
						for si, s := range pred.Succs {
							if s == ph.Block() {
								cond, when = StripNot(iff.Cond, si == 0)
							}
						}
					}
				}
			}
			opts = append(opts, listOption{list: l, cond: cond, when: when})
		}
		return opts, true
	}
	return nil, false
}

// parserKey identifies the parser a method is called on.
func parserKey(v ssa.Value) string {
	if p := ParamOf(v); p != nil {
		return p.Name()
	}
	return AccessPath(v)
}

type guardSite struct {
	fn    *ssa.Function
	call  *ssa.Call
	key   string
	opts  []listOption
	iff   *ssa.If
	tIdx  int // successor index on which the guard holds
	where string
}

type pathResult struct {
	seq     []string
	reads   []*ssa.Call
	endKind string // "guard" | "return" | "back" | "cycle" | "escape"
}

// R2 — agreement of CanIRead guards and the reads they protect.
func R2GuardRead(c *Ctx, prop string) {
	const rule = "R2-guard-read"
	const ruleUn = "R2-unguarded-read"
	const ruleProg = "R2-loop-progress"
	c.R.Rule(rule, "for every CanIRead(list) guard: on every path from its true edge the Parse* calls on the same parser (up to the next guard, a loop back-edge or an exit) form a prefix of the list by width class, no such read is reachable when the guard fails, and some path consumes the whole list", 110)
	c.R.Rule(ruleUn, "every Parse* call on the callback parser in TaskDispatch is covered by a CanIRead guard", 300)
	c.R.Rule(ruleProg, "a loop whose condition is CanIRead(list) consumes at least one listed field on every path back to the condition (otherwise it never terminates)", 15)
	names := c.readTypeNames()
	if len(names) < 5 {
		c.R.Anchor(rule, "parser.ReadType constants")
		return
	}
	var fns []*ssa.Function
	for _, fn := range c.P.ModuleFuncs(func(p string) bool { return p == PkgAgent || p == PkgHandlers }) {
		fns = append(fns, fn)
	}
	covered := map[*ssa.Call]bool{}
	totalPaths := 0
	for _, fn := range fns {
		var guards []*guardSite
		EachCall(fn, func(ci ssa.CallInstruction) {
			call, ok := ci.(*ssa.Call)
			if !ok || CalleeName(call) != canIReadName {
				return
			}
			g := &guardSite{fn: fn, call: call, key: parserKey(call.Call.Args[0]), where: c.pos(call.Pos())}
			opts, ok := resolveList(call.Call.Args[1], names)
			if !ok {
				c.R.Und(rule, FuncShort(fn), "CanIRead(<unresolved list>)", g.where, fmt.Sprintf("the guard's list is not a literal (or a phi of literals): its agreement with the reads cannot be decided [%T %s]", call.Call.Args[1], call.Call.Args[1].String()))
				return
			}
			g.opts = opts
			// the branch on the guard
			for _, r := range *call.Referrers() {
				switch x := r.(type) {
				case *ssa.If:
					g.iff, g.tIdx = x, 0
				case *ssa.UnOp, *ssa.BinOp:
					for _, r2 := range *x.(ssa.Value).Referrers() {
						if i2, ok := r2.(*ssa.If); ok {
							cnd, truth := StripNot(i2.Cond, true)
							if cnd == ssa.Value(call) {
								g.iff = i2
								if truth {
									g.tIdx = 0
								} else {
									g.tIdx = 1
								}
							}
						}
					}
				}
			}
			if g.iff == nil {
				c.R.Und(rule, FuncShort(fn), "CanIRead(…) not branched on", g.where, "the guard's result is not used as a branch condition")
				return
			}
			guards = append(guards, g)
		})
		for _, g := range guards {
			listStr := func(l []string) string { return "[" + strings.Join(l, " ") + "]" }
			var problems []string
			fullSeen := false
			nPaths := 0
			loopGuard := false
			loopNoProgress := false
			for _, opt := range g.opts {
				facts := map[ssa.Value]bool{}
				// conditions already decided on every path to the guard (`ListOnly && CanIRead(A)`)
				for _, f := range FactsAt(g.iff.Block()) {
					facts[f.Cond] = f.Truth
				}
				if opt.cond != nil {
					facts[opt.cond] = opt.when
				}
				results := walkGuard(g, facts)
				nPaths += len(results)
				if len(results) >= maxGuardPaths {
					problems = append(problems, "more than "+itoa(maxGuardPaths)+" paths in the guarded region")
				}
				for _, r := range results {
					for _, rd := range r.reads {
						covered[rd] = true
					}
					if r.endKind == "back" {
						loopGuard = true
						if len(r.seq) == 0 {
							loopNoProgress = true
						}
					}
					// prefix check
					if len(r.seq) > len(opt.list) {
						problems = append(problems, fmt.Sprintf("a path reads %s but the guard only vouches for %s (extra read at %s)", listStr(r.seq), listStr(opt.list), c.pos(r.reads[len(opt.list)].Pos())))
						continue
					}
					okPrefix := true
					for i := range r.seq {
						if r.seq[i] != opt.list[i] {
							okPrefix = false
							problems = append(problems, fmt.Sprintf("read #%d at %s is %s but the guard lists %s there (guard %s, reads %s)", i+1, c.pos(r.reads[i].Pos()), r.seq[i], opt.list[i], listStr(opt.list), listStr(r.seq)))
							break
						}
					}
					if okPrefix && len(r.seq) == len(opt.list) {
						fullSeen = true
					}
				}
				if len(opt.list) == 0 {
					fullSeen = true
				}
			}
			totalPaths += nPaths
			if !fullSeen && len(problems) == 0 {
				var ls []string
				for _, o := range g.opts {
					ls = append(ls, listStr(o.list))
				}
				problems = append(problems, "no path consumes the whole list "+strings.Join(ls, " / ")+": the guard demands fields nobody reads (a packet without them is rejected although every field that is read is present)")
			}
			var ls []string
			for _, o := range g.opts {
				ls = append(ls, listStr(o.list))
			}
			construct := g.key + ".CanIRead(" + strings.Join(ls, " | ") + ")"
			if len(problems) == 0 {
				c.R.Ok(rule, FuncShort(g.fn), construct, g.where, fmt.Sprintf("%d path(s): every read sequence is a prefix of the list, one consumes it all", nPaths), true)
			} else {
				problems = dedupe(problems)
				c.R.Bad(rule, FuncShort(g.fn), construct, g.where, problems[0], problems[1:]...)
			}
			if loopGuard {
				if loopNoProgress {
					c.R.Bad(ruleProg, FuncShort(g.fn), "for "+construct, g.where, "a path through the loop body returns to the guard without reading anything from the parser: with a well-formed remaining buffer the loop never terminates")
				} else {
					c.R.Ok(ruleProg, FuncShort(g.fn), "for "+construct, g.where, "every path back to the guard consumes at least one listed field", true)
				}
			}
		}
	}
	c.R.Paths += totalPaths
	// unguarded reads in TaskDispatch
	td := c.P.Func(PkgAgent, "Agent.TaskDispatch")
	if td == nil {
		c.R.Anchor(ruleUn, "agent.(*Agent).TaskDispatch")
		return
	}
	for _, fn := range append([]*ssa.Function{td}, td.AnonFuncs...) {
		EachCall(fn, func(ci ssa.CallInstruction) {
			call, ok := ci.(*ssa.Call)
			if !ok {
				return
			}
			cl, ok := readerClass[CalleeName(call)]
			if !ok {
				return
			}
			key := parserKey(call.Call.Args[0])
			construct := key + "." + strings.TrimPrefix(CalleeName(call), "(*Havoc/pkg/common/parser.Parser).") + "() " + cl
			if unusedResult(call) {
				c.R.Ok(ruleUn, FuncShort(fn), construct, c.pos(call.Pos()), "value is discarded (field skipped); nothing is recorded from it", false)
				return
			}
			if subFrame(call) {
				c.R.Ok(ruleUn, FuncShort(fn), construct, c.pos(call.Pos()), "self-delimiting sub-frame: ParseBytes clamps to the buffer and the nested parser is guarded by its consumer", false)
				return
			}
			if covered[call] {
				// cut-set: without any successful guard on this parser the read must be unreachable
				cut := map[edge]bool{}
				EachCall(fn, func(gi ssa.CallInstruction) {
					gc, ok := gi.(*ssa.Call)
					if !ok || CalleeName(gc) != canIReadName || parserKey(gc.Call.Args[0]) != key {
						return
					}
					for _, r := range *gc.Referrers() {
						if iff, ok := r.(*ssa.If); ok {
							cut[edge{iff.Block(), 0}] = true
						}
						if v, ok := r.(ssa.Value); ok {
							if _, isIf := r.(*ssa.If); !isIf {
								for _, r2 := range *v.Referrers() {
									if i2, ok := r2.(*ssa.If); ok {
										cnd, truth := StripNot(i2.Cond, true)
										if cnd == ssa.Value(gc) {
											if truth {
												cut[edge{i2.Block(), 0}] = true
											} else {
												cut[edge{i2.Block(), 1}] = true
											}
										}
									}
								}
							}
						}
					}
				})
				if reachableAvoiding(fn, call.Block(), cut) {
					c.R.Bad(ruleUn, FuncShort(fn), construct, c.pos(call.Pos()), "a path reaches this read without any CanIRead guard on the parser having succeeded")
					return
				}
				c.R.Ok(ruleUn, FuncShort(fn), construct, c.pos(call.Pos()), "reachable only through the true edge of a CanIRead guard that lists it", false)
				return
			}
			c.R.Bad(ruleUn, FuncShort(fn), construct, c.pos(call.Pos()), "read of agent-supplied data that no CanIRead guard covers: a short packet yields zero/empty values that are then recorded as if the agent had sent them")
		})
	}
	_ = prop
	_ = token.NoPos
}

const maxGuardPaths = 4096

func dedupe(l []string) []string {
	seen := map[string]bool{}
	var out []string
	for _, s := range l {
		if !seen[s] {
			seen[s] = true
			out = append(out, s)
		}
	}
	sort.Strings(out[1:])
	return out
}

// walkGuard enumerates the read sequences on the paths from the guard's true
// edge. States (block, sequence so far, boolean facts) are memoised, so the
// cost is bounded by the number of distinct states, not of paths.
func walkGuard(g *guardSite, init map[ssa.Value]bool) []pathResult {
	var results []pathResult
	gb := g.iff.Block()
	visited := map[string]bool{}
	factsKey := func(f map[ssa.Value]bool) string {
		var ks []string
		for k, v := range f {
			ks = append(ks, fmt.Sprintf("%s=%v", k.Name(), v))
		}
		sort.Strings(ks)
		return strings.Join(ks, ",")
	}
	var rec func(b *ssa.BasicBlock, facts map[ssa.Value]bool, seq []string, reads []*ssa.Call)
	enter := func(from, s *ssa.BasicBlock, facts map[ssa.Value]bool, seq []string, reads []*ssa.Call) {
		if s == gb {
			results = append(results, pathResult{seq: seq, reads: reads, endKind: "back"})
			return
		}
		// phi facts: a boolean phi whose incoming value on this edge is a constant
		f := facts
		copied := false
		for _, in := range s.Instrs {
			ph, ok := in.(*ssa.Phi)
			if !ok {
				break
			}
			for i, p := range s.Preds {
				if p != from {
					continue
				}
				e := ph.Edges[i]
				set := func(v bool) {
					if !copied {
						f = map[ssa.Value]bool{}
						for k, vv := range facts {
							f[k] = vv
						}
						copied = true
					}
					f[ph] = v
				}
				if isBoolConst(e, true) {
					set(true)
				} else if isBoolConst(e, false) {
					set(false)
				} else if v, known := facts[e]; known {
					set(v)
				} else if _, had := f[ph]; had {
					if !copied {
						f = map[ssa.Value]bool{}
						for k, vv := range facts {
							f[k] = vv
						}
						copied = true
					}
					delete(f, ph)
				}
			}
		}
		key := fmt.Sprintf("%d|%s|%s", s.Index, strings.Join(seq, ","), factsKey(f))
		if visited[key] {
			return
		}
		visited[key] = true
		if len(visited) > maxGuardPaths*8 {
			return
		}
		rec(s, f, seq, reads)
	}
	rec = func(b *ssa.BasicBlock, facts map[ssa.Value]bool, seq []string, reads []*ssa.Call) {
		for _, in := range b.Instrs {
			call, ok := in.(*ssa.Call)
			if !ok {
				continue
			}
			name := CalleeName(call)
			if name == canIReadName && parserKey(call.Call.Args[0]) == g.key {
				kind := "guard"
				if call == g.call {
					kind = "back"
				}
				results = append(results, pathResult{seq: seq, reads: reads, endKind: kind})
				return
			}
			if cl, ok := readerClass[name]; ok && parserKey(call.Call.Args[0]) == g.key {
				if cl == wByts && subFrame(call) {
					continue // self-delimiting sub-frame handed to a nested parser
				}
				seq = append(append([]string{}, seq...), cl)
				reads = append(append([]*ssa.Call{}, reads...), call)
			}
		}
		if len(b.Succs) == 0 {
			results = append(results, pathResult{seq: seq, reads: reads, endKind: "return"})
			return
		}
		if iff, ok := b.Instrs[len(b.Instrs)-1].(*ssa.If); ok {
			cond, truth := StripNot(iff.Cond, true)
			if v, known := facts[cond]; known {
				if v == truth {
					enter(b, b.Succs[0], facts, seq, reads)
				} else {
					enter(b, b.Succs[1], facts, seq, reads)
				}
				return
			}
			// record facts only for values that cannot change inside the region:
			// defined in a block dominating the guard, parameters, constants
			stable := true
			if vi, ok := cond.(ssa.Instruction); ok {
				stable = vi.Block().Dominates(gb) && vi.Block() != gb || vi.Block() == gb && InstrBlockIndexOf(vi) < InstrBlockIndexOf(g.call)
				if _, isPhi := cond.(*ssa.Phi); isPhi && !vi.Block().Dominates(gb) {
					stable = false
				}
			}
			for si, s := range b.Succs {
				f := facts
				if stable {
					f = map[ssa.Value]bool{}
					for k, v := range facts {
						f[k] = v
					}
					f[cond] = (si == 0) == truth
				}
				enter(b, s, f, seq, reads)
			}
			return
		}
		for _, s := range b.Succs {
			enter(b, s, facts, seq, reads)
		}
	}
	enter(gb, gb.Succs[g.tIdx], init, nil, nil)
	return results
}

// InstrBlockIndexOf is InstrBlockIndex for any instruction value.
func InstrBlockIndexOf(in ssa.Instruction) int { return InstrBlockIndex(in) }

// subFrame: the ParseBytes result is used only as the buffer of a nested parser.
func subFrame(call *ssa.Call) bool {
	if CalleeName(call) != "(*Havoc/pkg/common/parser.Parser).ParseBytes" {
		return false
	}
	refs := *call.Referrers()
	if len(refs) == 0 {
		return false
	}
	for _, r := range refs {
		c2, ok := r.(*ssa.Call)
		if !ok || CalleeName(c2) != "Havoc/pkg/common/parser.NewParser" {
			if _, isDbg := r.(*ssa.DebugRef); isDbg {
				continue
			}
			return false
		}
	}
	return true
}

// unusedResult: the value read is not used (a field being skipped).
func unusedResult(call *ssa.Call) bool {
	for _, r := range *call.Referrers() {
		if _, isDbg := r.(*ssa.DebugRef); !isDbg {
			return false
		}
	}
	return true
}

// R2Model — the readers and CanIRead agree on widths.
func R2Model(c *Ctx) {
	const rule = "R2-reader-model"
	c.R.Rule(rule, "ParseInt32/ParseBool consume exactly 4 and ParseInt64 exactly 8 leading bytes (copy source is buffer[:W] or buffer[:Length()] under Length()==W; advance is buffer[W:]); CanIRead advances by the same width per ReadType; ParseBytes/ParseAtLeastBytes clamp to the buffer", 8)
	// length prefixes are unsigned
	for _, n := range []string{"Parser.CanIRead", "Parser.ParseBytes", "Parser.ParseAtLeastBytes"} {
		fn := c.P.Func(PkgParser, n)
		if fn == nil {
			continue
		}
		EachCall(fn, func(call ssa.CallInstruction) {
			name := CalleeName(call)
			if !strings.HasPrefix(name, "(encoding/binary.") || !(strings.HasSuffix(name, ").Uint32") || strings.HasSuffix(name, ").Uint64")) {
				return
			}
			v := call.Value()
			if v == nil {
				return
			}
			signed := false
			seen := map[ssa.Value]bool{}
			var walk func(x ssa.Value)
			walk = func(x ssa.Value) {
				if seen[x] || x.Referrers() == nil {
					return
				}
				seen[x] = true
				for _, r := range *x.Referrers() {
					if cv, ok := r.(*ssa.Convert); ok {
						if bt, ok := cv.Type().Underlying().(*types.Basic); ok {
							switch bt.Kind() {
							case types.Int32, types.Int16, types.Int8:
								signed = true
							}
						}
						walk(cv)
					}
				}
			}
			walk(v)
			construct := "length prefix read unsigned"
			if !signed {
				c.R.Ok(rule, FuncShort(fn), construct, c.pos(call.Pos()), "the 32-bit length is widened without passing through a signed 32-bit type: it cannot become negative", true)
			} else {
				c.R.Bad(rule, FuncShort(fn), construct, c.pos(call.Pos()), "the 4-byte length prefix is converted through a signed narrow type: a prefix with the top bit set becomes a negative length, the pre-flight/reader accepts a field that is not there")
			}
		})
	}
	widths := map[string]int64{"Parser.ParseInt32": 4, "Parser.ParseBool": 4, "Parser.ParseInt64": 8}
	var names []string
	for n := range widths {
		names = append(names, n)
	}
	sort.Strings(names)
	for _, n := range names {
		w := widths[n]
		fn := c.P.Func(PkgParser, n)
		if fn == nil {
			c.R.Anchor(rule, "parser."+n)
			continue
		}
		// the copy/advance statements may sit in fn itself or in a same-package helper that fn calls with its
		// width as a constant argument (e.g. takeFixed(4)); inside the helper that parameter stands for W
		bf := fn
		var wParam *ssa.Parameter
		hasCopy := func(f *ssa.Function) bool {
			found := false
			EachCall(f, func(ci ssa.CallInstruction) {
				if CalleeName(ci) == "builtin.copy" {
					found = true
				}
			})
			return found
		}
		if !hasCopy(fn) {
			EachCall(fn, func(ci ssa.CallInstruction) {
				h := ci.Common().StaticCallee()
				if h == nil || h.Blocks == nil || FuncPkgPathOf(h) != PkgParser || !hasCopy(h) || wParam != nil {
					return
				}
				for i, a := range ci.Common().Args {
					if k, ok := ConstInt(a); ok && k == w && i < len(h.Params) {
						if bt, ok := h.Params[i].Type().Underlying().(*types.Basic); ok && bt.Info()&types.IsInteger != 0 {
							bf, wParam = h, h.Params[i]
						}
					}
				}
			})
		}
		wv := func(v ssa.Value) (int64, bool) {
			if v != nil && wParam != nil && IsParam(v, wParam) {
				return w, true
			}
			return ConstInt(v)
		}
		nCopy, nAdv := 0, 0
		for _, b := range bf.Blocks {
			for _, in := range b.Instrs {
				switch x := in.(type) {
				case *ssa.Call:
					if CalleeName(x) != "builtin.copy" {
						continue
					}
					nCopy++
					src, ok := x.Call.Args[1].(*ssa.Slice)
					construct := "copy(integer, " + AccessPath(x.Call.Args[1]) + ")"
					if !ok {
						c.R.Bad(rule, FuncShort(fn), construct, c.pos(x.Pos()), "copy source is not a prefix slice of the buffer")
						continue
					}
					lowOK := src.Low == nil
					if v, ok := wv(src.Low); ok && v == 0 {
						lowOK = true
					}
					highOK, how := false, ""
					if v, ok := wv(src.High); ok && v == w {
						highOK, how = true, fmt.Sprintf("buffer[:%d]", w)
					} else if src.High != nil && isLenOfBuffer(src.High) {
						// only under Length() == W
						for _, f := range FactsAt(b) {
							if bo, ok := f.Cond.(*ssa.BinOp); ok && bo.Op == token.EQL && f.Truth {
								if v, ok := wv(bo.Y); ok && v == w && isLenOfBuffer(bo.X) {
									highOK, how = true, fmt.Sprintf("buffer[:Length()] under Length()==%d", w)
								}
							}
						}
					}
					if lowOK && highOK {
						c.R.Ok(rule, FuncShort(fn), construct, c.pos(x.Pos()), "copies exactly the field's "+itoa(int(w))+" leading bytes: "+how, true)
					} else {
						c.R.Bad(rule, FuncShort(fn), construct, c.pos(x.Pos()), fmt.Sprintf("the copy does not take exactly the first %d bytes of the buffer: with fewer than %d bytes after the field its value is truncated", w, w))
					}
				case *ssa.Store:
					if _, f, _, ok := FieldOf(x.Addr); !ok || f != "buffer" {
						continue
					}
					nAdv++
					construct := "p.buffer = " + AccessPath(x.Val)
					okAdv := false
					if sl, ok := x.Val.(*ssa.Slice); ok {
						if v, ok := wv(sl.Low); ok && v == w && sl.High == nil {
							okAdv = true
						}
						// empty literal: []byte{} is a slice of a zero-length array
						if al, ok := sl.X.(*ssa.Alloc); ok && strings.Contains(al.Type().String(), "[0]") {
							okAdv = hasLenEqW(b, w, wv)
						}
					}
					if okAdv {
						c.R.Ok(rule, FuncShort(fn), construct, c.pos(x.Pos()), "advances by the field width", true)
					} else {
						c.R.Bad(rule, FuncShort(fn), construct, c.pos(x.Pos()), fmt.Sprintf("the buffer is not advanced by exactly %d bytes", w))
					}
				}
			}
		}
		if nCopy == 0 || nAdv == 0 {
			c.R.Anchor(rule, "copy/advance statements of parser."+n)
		}
		// coverage: the field is decoded for every buffer length >= W (both the
		// "exactly W" and the "more than W" class reach a copy)
		coverEq, coverGt := false, false
		for _, b := range bf.Blocks {
			has := false
			for _, in := range b.Instrs {
				if cl, ok := in.(*ssa.Call); ok && CalleeName(cl) == "builtin.copy" {
					has = true
				}
			}
			if !has {
				continue
			}
			ge, gt, eqT, eqF, other := false, false, false, false, false
			for _, f := range FactsAt(b) {
				bo, ok := f.Cond.(*ssa.BinOp)
				if ok {
					// exit condition of the zero-fill range loop over the local array: neutral
					if _, isPhi := bo.X.(*ssa.Phi); isPhi {
						continue
					}
					if add, isAdd := bo.X.(*ssa.BinOp); isAdd {
						if _, isPhi := add.X.(*ssa.Phi); isPhi {
							continue
						}
					}
				}
				if !ok || !isLenOfBuffer(bo.X) {
					other = true
					continue
				}
				v, isC := wv(bo.Y)
				if !isC {
					other = true
					continue
				}
				op := bo.Op
				if !f.Truth {
					switch op {
					case token.LSS:
						op = token.GEQ
					case token.LEQ:
						op = token.GTR
					case token.GEQ:
						op = token.LSS
					case token.GTR:
						op = token.LEQ
					case token.EQL:
						op = token.NEQ
					case token.NEQ:
						op = token.EQL
					}
				}
				switch {
				case op == token.GEQ && v == w, op == token.GTR && v == w-1:
					ge = true
				case op == token.GTR && v == w, op == token.GEQ && v == w+1:
					gt = true
				case op == token.EQL && v == w:
					eqT = true
				case op == token.NEQ && v == w:
					eqF = true
				default:
					other = true
				}
			}
			if other {
				continue
			}
			switch {
			case ge && eqT:
				coverEq = true
			case ge && eqF, gt:
				coverGt = true
			case ge:
				coverEq, coverGt = true, true
			case eqT:
				coverEq = true
			}
		}
		construct := "decode iff Length() >= " + itoa(int(w))
		if coverEq && coverGt {
			c.R.Ok(rule, FuncShort(fn), construct, c.pos(fn.Pos()), "a copy is reached both for Length() == W and for Length() > W", true)
		} else {
			c.R.Bad(rule, FuncShort(fn), construct, c.pos(fn.Pos()), fmt.Sprintf("the field is not decoded for every buffer that holds it (Length()==%d covered: %v, Length()>%d covered: %v): a value that is exactly the last %d bytes (or followed by more) reads as 0", w, coverEq, w, coverGt, w))
		}
	}
	// CanIRead widths
	cir := c.P.Func(PkgParser, "Parser.CanIRead")
	if cir == nil {
		c.R.Anchor(rule, "parser.Parser.CanIRead")
		return
	}
	want := map[string]int64{"ReadInt32": 4, "ReadBool": 4, "ReadInt64": 8, "ReadPointer": 8, "ReadBytes": 4}
	rt := c.readTypeNames()
	// each case: block dominated by Type == k; the first `BytesRead + W` add in that arm
	got := map[string]int64{}
	// the running "bytes consumed" counter: the subtrahend of `Length() - consumed`
	consumed := map[ssa.Value]bool{}
	for _, b := range cir.Blocks {
		for _, in := range b.Instrs {
			if bo, ok := in.(*ssa.BinOp); ok && bo.Op == token.SUB && DerivesFrom(bo.X, isLenOfBuffer) {
				consumed[bo.Y] = true
			}
		}
	}
	for _, b := range cir.Blocks {
		for _, in := range b.Instrs {
			bo, ok := in.(*ssa.BinOp)
			if !ok || bo.Op != token.ADD {
				continue
			}
			wv, ok := ConstInt(bo.Y)
			if !ok {
				continue
			}
			if !consumed[bo.X] {
				continue
			}
			for _, k := range caseKeysAt(b) {
				if name, ok := rt[k]; ok {
					if _, seen := got[name]; !seen {
						got[name] = wv
					}
				}
			}
		}
	}
	var ks []string
	for k := range want {
		ks = append(ks, k)
	}
	sort.Strings(ks)
	for _, k := range ks {
		construct := "CanIRead case " + k
		if got[k] == want[k] {
			c.R.Ok(rule, FuncShort(cir), construct, c.pos(cir.Pos()), fmt.Sprintf("advances by %d like its reader", want[k]), true)
		} else {
			c.R.Bad(rule, FuncShort(cir), construct, c.pos(cir.Pos()), fmt.Sprintf("the pre-flight advances by %d bytes for %s but the reader consumes %d", got[k], k, want[k]))
		}
	}
}

func isLenOfBuffer(v ssa.Value) bool {
	if call, ok := v.(*ssa.Call); ok {
		n := CalleeName(call)
		if n == "(*Havoc/pkg/common/parser.Parser).Length" {
			return true
		}
		if n == "builtin.len" {
			return DerivesFrom(call.Call.Args[0], IsFieldLoad(PkgParser+".Parser", "buffer"))
		}
	}
	return false
}

func hasLenEq(b *ssa.BasicBlock, w int64) bool {
	for _, f := range FactsAt(b) {
		if bo, ok := f.Cond.(*ssa.BinOp); ok && bo.Op == token.EQL && f.Truth {
			if v, ok := ConstInt(bo.Y); ok && v == w && isLenOfBuffer(bo.X) {
				return true
			}
		}
	}
	return false
}

// hasLenEqW is hasLenEq with a width evaluator (the width may be a helper's parameter).
func hasLenEqW(b *ssa.BasicBlock, w int64, wv func(ssa.Value) (int64, bool)) bool {
	for _, f := range FactsAt(b) {
		if bo, ok := f.Cond.(*ssa.BinOp); ok && bo.Op == token.EQL && f.Truth {
			if v, ok := wv(bo.Y); ok && v == w && isLenOfBuffer(bo.X) {
				return true
			}
		}
	}
	return false
}

// caseKeysAt: the switch-case constants under which block b runs. A case body is entered from the true edge of
// `tag == k`; a body shared by several labels (case A, B:) is entered from several such edges. b inherits the keys
// of the nearest case body that dominates it (or is it).
func caseKeysAt(b *ssa.BasicBlock) []int64 {
	fn := b.Parent()
	body := map[*ssa.BasicBlock][]int64{}
	for _, blk := range fn.Blocks {
		if len(blk.Instrs) == 0 {
			continue
		}
		iff, ok := blk.Instrs[len(blk.Instrs)-1].(*ssa.If)
		if !ok {
			continue
		}
		bo, ok := iff.Cond.(*ssa.BinOp)
		if !ok || bo.Op != token.EQL {
			continue
		}
		k, isC := ConstInt(bo.Y)
		if !isC {
			continue
		}
		t := blk.Succs[0]
		body[t] = append(body[t], k)
	}
	for d := b; d != nil; d = d.Idom() {
		if ks, ok := body[d]; ok {
			// every predecessor of the body must be such a case edge (otherwise it is also reachable otherwise)
			if len(ks) == len(d.Preds) {
				return ks
			}
			return nil
		}
	}
	return nil
}

// R2DecryptOnce — the remainder of a request is decrypted in the first round of the package loop, in every first round.
func R2DecryptOnce(c *Ctx) {
	const rule = "R2-decrypt-once"
	c.R.Rule(rule, "where a package loop (handleDemonAgent; the relayed-frame loop of TaskDispatch) decrypts the rest of the buffer with DecryptBuffer, the call is guarded by a first-round flag (true on entry, false on every back edge that passed the guard), and every way round the loop passes that guard — a `continue` before it would make the next round read its command/request id out of bytes that are still encrypted, and decrypt from the wrong offset afterwards", 2)
	n := 0
	for _, ref := range [][2]string{{PkgHandlers, "handleDemonAgent"}, {PkgAgent, "Agent.TaskDispatch"}} {
		root := c.P.Func(ref[0], ref[1])
		if root == nil {
			c.R.Anchor(rule, ref[0]+"."+ref[1])
			continue
		}
		for _, fn := range HelperClosure(root, 1) {
			loops := naturalLoops(fn)
			EachCall(fn, func(call ssa.CallInstruction) {
				if CalleeName(call) != "(*Havoc/pkg/common/parser.Parser).DecryptBuffer" {
					return
				}
				// innermost loop containing the call
				var l *natLoop
				for _, cand := range loops {
					if cand.body[call.Block()] && (l == nil || len(cand.body) < len(l.body)) {
						l = cand
					}
				}
				if l == nil {
					return
				}
				// a parser created inside the loop is a new buffer in every round: decrypting it each time is right
				recv := call.Common().Args[0]
				if DerivesFrom(recv, func(v ssa.Value) bool {
					mk, ok := v.(*ssa.Call)
					return ok && CalleeName(mk) == "Havoc/pkg/common/parser.NewParser" && l.body[mk.Block()]
				}) {
					return
				}
				n++
				construct := "DecryptBuffer in the first round of the package loop"
				// the guarding flag: a header phi, true on entry
				var guard *ssa.If
				var flag *ssa.Phi
				firstRound := true
				for _, f := range FactsAt(call.Block()) {
					cond, truth := StripNot(f.Cond, f.Truth)
					ph, ok := cond.(*ssa.Phi)
					if !ok || ph.Block() != l.header {
						continue
					}
					// the flag has the value `truth` here (first round) and the opposite value on every back edge
					entryOK, backOK := false, true
					for i, e := range ph.Edges {
						if !l.body[l.header.Preds[i]] {
							entryOK = isBoolConst(e, truth)
							continue
						}
						// back edge: the opposite constant, or the flag itself where the guard was not passed
						if !isBoolConst(e, !truth) {
							if ep, isPhi := e.(*ssa.Phi); isPhi {
								for _, e2 := range ep.Edges {
									if !isBoolConst(e2, !truth) && e2 != ssa.Value(ph) {
										backOK = false
									}
								}
							} else if e != ssa.Value(ph) {
								backOK = false
							}
						}
					}
					if entryOK && backOK {
						guard, flag = f.If, ph
						firstRound = truth
					}
				}
				if guard == nil {
					c.R.Bad(rule, FuncShort(fn), construct, c.pos(call.Pos()), "the call sits in the package loop without a first-round flag: the buffer is decrypted again in every round (the second pass undoes the first)")
					return
				}
				// every back edge passed the guard (or knows the flag is already false)
				g := guard.Block()
				for i, pred := range l.header.Preds {
					if !l.body[pred] {
						continue
					}
					_ = i
					if g == pred || g.Dominates(pred) {
						continue
					}
					known := false
					for _, f := range FactsAt(pred) {
						cond, truth := StripNot(f.Cond, f.Truth)
						if cond == ssa.Value(flag) && truth != firstRound {
							known = true
						}
					}
					if !known {
						c.R.Bad(rule, FuncShort(fn), construct, c.pos(pred.Instrs[len(pred.Instrs)-1].Pos()), "a path goes round the loop without passing the first-round test: the next round parses its header from the still encrypted buffer")
						return
					}
				}
				c.R.Ok(rule, FuncShort(fn), construct, c.pos(call.Pos()), "guarded by the first-round flag, and every round passes the guard", true)
			})
		}
	}
	if n == 0 {
		c.R.Anchor(rule, "a DecryptBuffer call inside a package loop")
	}
}

// existsNonZero: h is a boolean helper over a byte-slice parameter that answers true exactly when some element is
// non-zero: `return true` happens only inside the scan loop under elem != 0, and false is returned only after the loop.
func existsNonZero(h *ssa.Function) bool {
	if h.Blocks == nil || len(h.Params) != 1 || h.Signature.Results().Len() != 1 || !isBoolType(h.Signature.Results().At(0).Type()) {
		return false
	}
	loops := naturalLoops(h)
	if len(loops) != 1 {
		return false
	}
	l := loops[0]
	nTrue := 0
	for _, b := range h.Blocks {
		ret, ok := b.Instrs[len(b.Instrs)-1].(*ssa.Return)
		if !ok {
			continue
		}
		// is the return reached from inside the loop body directly (not via the loop's normal exit)?
		fromLoop := false
		for _, p := range b.Preds {
			if l.body[p] && p != l.header {
				fromLoop = true
			}
		}
		switch {
		case isBoolConst(ret.Results[0], true):
			nTrue++
			if !fromLoop {
				return false
			}
			okCmp := false
			for _, f := range FactsAt(b) {
				bo, isBin := f.Cond.(*ssa.BinOp)
				if !isBin {
					continue
				}
				k, isC := ConstInt(bo.Y)
				if !isC || k != 0 || !DerivesFrom(bo.X, func(v ssa.Value) bool { return v == ssa.Value(h.Params[0]) }) {
					continue
				}
				if (bo.Op == token.NEQ && f.Truth) || (bo.Op == token.EQL && !f.Truth) || (bo.Op == token.GTR && f.Truth) {
					okCmp = true
				}
			}
			if !okCmp {
				return false
			}
		case isBoolConst(ret.Results[0], false):
			if fromLoop {
				return false // gives up on one element: that is "all elements", not "some element"
			}
		default:
			return false
		}
	}
	return nTrue > 0
}

// R2KeyPresent — the registration body is decrypted exactly when the agent sent a key.
func R2KeyPresent(c *Ctx) {
	const rule = "R2-key-present"
	c.R.Rule(rule, "in ParseDemonRegisterRequest the DecryptBuffer call is conditional on `the 32-byte key differs from the all-zero key` and on nothing weaker or stronger: a bytes.Compare/bytes.Equal against a never-written make([]byte, n), or a helper that returns true exactly when some key byte is non-zero (a helper that wants every byte non-zero refuses one registration in eight)", 1)
	fn := c.P.Func(PkgAgent, "ParseDemonRegisterRequest")
	if fn == nil {
		c.R.Anchor(rule, "agent.ParseDemonRegisterRequest")
		return
	}
	n := 0
	for _, pf := range HelperClosure(fn, 1) {
		EachCall(pf, func(call ssa.CallInstruction) {
			if CalleeName(call) != "(*Havoc/pkg/common/parser.Parser).DecryptBuffer" {
				return
			}
			n++
			construct := "DecryptBuffer iff key != zero key"
			isKey := func(v ssa.Value) bool { return DerivesFrom(v, IsFieldLoad("", "AESKey")) }
			isZero := func(v ssa.Value) bool {
				untouched := func(x ssa.Value) bool {
					for _, r := range *x.Referrers() {
						switch u := r.(type) {
						case *ssa.IndexAddr, *ssa.Store:
							return false
						case *ssa.Call:
							if n := CalleeName(u); n != "bytes.Compare" && n != "bytes.Equal" {
								return false // copy(), append … may write it
							}
						}
					}
					return true
				}
				switch mk := v.(type) {
				case *ssa.MakeSlice:
					return untouched(mk)
				case *ssa.Slice:
					// make([]byte, <constant>) is an array allocation sliced whole
					al, ok := mk.X.(*ssa.Alloc)
					if !ok || al.Comment != "makeslice" || !untouched(mk) {
						return false
					}
					for _, r := range *al.Referrers() {
						if r != ssa.Instruction(mk) {
							return false
						}
					}
					return true
				}
				return false
			}
			good, seenKeyTest := false, false
			for _, f := range FactsAt(call.Block()) {
				cond, truth := StripNot(f.Cond, f.Truth)
				switch x := cond.(type) {
				case *ssa.BinOp:
					cmp, ok := x.X.(*ssa.Call)
					k, isC := ConstInt(x.Y)
					if !ok || !isC || k != 0 || CalleeName(cmp) != "bytes.Compare" || len(cmp.Call.Args) != 2 {
						continue
					}
					a, b := cmp.Call.Args[0], cmp.Call.Args[1]
					if (isKey(a) && isZero(b)) || (isKey(b) && isZero(a)) {
						seenKeyTest = true
						if (x.Op == token.NEQ) == truth {
							good = true
						}
					}
				case *ssa.Call:
					name := CalleeName(x)
					if name == "bytes.Equal" && len(x.Call.Args) == 2 {
						a, b := x.Call.Args[0], x.Call.Args[1]
						if (isKey(a) && isZero(b)) || (isKey(b) && isZero(a)) {
							seenKeyTest = true
							good = !truth
						}
						continue
					}
					if h := x.Call.StaticCallee(); h != nil && h.Blocks != nil && len(x.Call.Args) == 1 && isKey(x.Call.Args[0]) {
						seenKeyTest = true
						if truth && existsNonZero(h) {
							good = true
						}
					}
				}
			}
			switch {
			case good:
				c.R.Ok(rule, FuncShort(pf), construct, c.pos(call.Pos()), "decrypts exactly when the key is not the zero placeholder", true)
			case seenKeyTest:
				c.R.Bad(rule, FuncShort(pf), construct, c.pos(call.Pos()), "the test in front of DecryptBuffer is not `some key byte is non-zero`: registrations whose key passes the agent's test but not this one are read undecrypted and rejected (or the reverse)")
			default:
				c.R.Bad(rule, FuncShort(pf), construct, c.pos(call.Pos()), "DecryptBuffer is not conditional on a comparison of the session key with the all-zero key")
			}
		})
	}
	if n == 0 {
		c.R.Anchor(rule, "the DecryptBuffer call of ParseDemonRegisterRequest")
	}
}

// R2DecoderCovers — the UTF-16 decoder can reach the last code unit of its input.
func R2DecoderCovers(c *Ctx) {
	const rule = "R2-decoder-covers"
	c.R.Rule(rule, "in common.DecodeUTF16 the reads of the input slice are not all provably below its last position: a loop bound that keeps every index <= len-2 never decodes the final code unit, so every wide string sent by an agent loses its last character", 1)
	fn := c.P.Func(PkgCommon, "DecodeUTF16")
	if fn == nil || len(fn.Params) == 0 {
		c.R.Anchor(rule, "common.DecodeUTF16")
		return
	}
	in := fn.Params[0]
	loads := heapLoadsOf(fn)
	var uses []ssa.Instruction
	allBelow := true
	for _, b := range fn.Blocks {
		for _, i := range b.Instrs {
			var idx ssa.Value
			switch u := i.(type) {
			case *ssa.IndexAddr:
				if u.X == ssa.Value(in) {
					idx = u.Index
				}
			case *ssa.Index:
				if u.X == ssa.Value(in) {
					idx = u.Index
				}
			}
			if idx == nil {
				continue
			}
			uses = append(uses, i)
			pr := newProver(c, loads, fn, b)
			pr.lenFacts(in)
			t := pr.norm(idx)
			if !t.ok || !pr.g.prove(t.sym, lenKey(pr.canon(in)), -2-t.off) { // idx <= len-2
				allBelow = false
			}
		}
	}
	if len(uses) == 0 {
		c.R.Anchor(rule, "an indexed read of DecodeUTF16's input")
		return
	}
	construct := "reads of the input reach its last byte"
	if allBelow {
		c.R.Bad(rule, FuncShort(fn), construct, c.pos(uses[0].Pos()), "every index into the input is provably at most len-2: the last byte (the high half of the final code unit) is never read and the final character is dropped")
	} else {
		c.R.Ok(rule, FuncShort(fn), construct, c.pos(uses[0].Pos()), "the last position is within reach of the loop bound", true)
	}
}
