package rules

import (
	"fmt"
	"go/ast"
	"go/constant"
	"go/token"
	"go/types"
	"sort"
	"strings"

	"golang.org/x/tools/go/packages"
	"golang.org/x/tools/go/ssa"

	"hv/internal/core"
)

// configPrefix: ordinal -> (operator option key, Demon field it is read into).
var configPrefix = []struct{ Key, CField string }{
	{"Sleep", "Config.Sleeping"},
	{"Jitter", "Config.Jitter"},
	{"Alloc", "Config.Memory.Alloc"},
	{"Execute", "Config.Memory.Execute"},
	{"Spawn64", "Config.Process.Spawn64"},
	{"Spawn32", "Config.Process.Spawn86"},
	{"Sleep Technique", "Config.Implant.SleepMaskTechnique"},
	{"Sleep Jmp Gadget", "Config.Implant.SleepJmpBypass"},
	{"Stack Duplication", "Config.Implant.StackSpoof"},
	{"Proxy Loading", "Config.Implant.ProxyLoading"},
	{"Indirect Syscall", "Config.Implant.SysIndirect"},
	{"Amsi/Etw Patch", "Config.Implant.AmsiEtwPatch"},
}

// R15ConfigOrder — each of the twelve option fields is packed at the ordinal the Demon reads it from.
func R15ConfigOrder(c *Ctx) {
	const rule = "R15-config-order"
	c.R.Rule(rule, "the i-th field packed by PatchConfig before the listener part carries the value derived from the operator option the Demon expects at ordinal i (Sleep, Jitter, Alloc, Execute, Spawn64, Spawn32, Sleep Technique, Sleep Jmp Gadget, Stack Duplication, Proxy Loading, Indirect Syscall, Amsi/Etw Patch): every non-default value of the packed variable is assigned under a lookup of that option's key", 12)
	fn := c.P.Func(PkgBuilder, "Builder.PatchConfig")
	if fn == nil {
		c.R.Anchor(rule, "builder.(*Builder).PatchConfig")
		return
	}
	// Add* calls on the DemonConfig packer, ordered by position, before the first call that depends on ListenerType
	var calls []*ssa.Call
	EachCall(fn, func(ci ssa.CallInstruction) {
		call, ok := ci.(*ssa.Call)
		if !ok {
			return
		}
		n := CalleeName(call)
		if !strings.HasPrefix(n, "(*Havoc/pkg/common/packer.Packer).Add") {
			return
		}
		for _, f := range FactsAt(call.Block()) {
			if DerivesFrom(f.Cond, IsFieldLoad("", "ListenerType")) {
				return
			}
		}
		calls = append(calls, call)
	})
	sort.Slice(calls, func(i, j int) bool { return calls[i].Pos() < calls[j].Pos() })
	if len(calls) != len(configPrefix) {
		c.R.Bad(rule, FuncShort(fn), "common configuration prefix", c.pos(fn.Pos()), fmt.Sprintf("PatchConfig packs %d fields before the listener part; the Demon reads %d", len(calls), len(configPrefix)))
		return
	}
	keyOf := func(v ssa.Value) map[string]bool {
		keys := map[string]bool{}
		seen := map[ssa.Value]bool{}
		var rec func(v ssa.Value, from *ssa.BasicBlock)
		collectFacts := func(b *ssa.BasicBlock) {
			if b == nil {
				return
			}
			// the nearest controlling condition that is computed from an option lookup
			// (FactsAt lists the closest dominating branch first)
			for _, f := range FactsAt(b) {
				found := false
				DerivesFrom(f.Cond, func(w ssa.Value) bool {
					if lk, ok := w.(*ssa.Lookup); ok {
						if s, ok := ConstString(lk.Index); ok && s != "Injection" {
							keys[s] = true
							found = true
						}
					}
					return false
				})
				if found {
					return
				}
			}
		}
		rec = func(v ssa.Value, from *ssa.BasicBlock) {
			if seen[v] {
				return
			}
			seen[v] = true
			switch x := v.(type) {
			case *ssa.Phi:
				for i, e := range x.Edges {
					rec(e, x.Block().Preds[i])
				}
			case *ssa.Const:
				// a constant assigned on some path: which option lookups dominate that path?
				collectFacts(from)
			default:
				// direct derivation from a lookup
				DerivesFrom(v, func(w ssa.Value) bool {
					if lk, ok := w.(*ssa.Lookup); ok {
						if s, ok := ConstString(lk.Index); ok {
							keys[s] = true
						}
					}
					return false
				})
				collectFacts(from)
			}
		}
		rec(v, nil)
		return keys
	}
	for i, call := range calls {
		want := configPrefix[i]
		arg := call.Call.Args[1]
		keys := keyOf(arg)
		construct := fmt.Sprintf("ordinal %d ← option %q → Demon %s", i, want.Key, want.CField)
		// the value must depend on its own key and on no other option key of the prefix
		foreign := []string{}
		for k := range keys {
			if k == want.Key || k == "Injection" {
				continue
			}
			for _, o := range configPrefix {
				if o.Key == k {
					// Sleep Technique legitimately conditions the gadget and stack duplication options
					if k == "Sleep Technique" && (want.Key == "Sleep Jmp Gadget" || want.Key == "Stack Duplication") {
						continue
					}
					foreign = append(foreign, k)
				}
			}
		}
		sort.Strings(foreign)
		if keys[want.Key] && len(foreign) == 0 {
			c.R.Ok(rule, FuncShort(fn), construct, c.pos(call.Pos()), "the packed value is assigned only under the lookup of its own option", true)
		} else if !keys[want.Key] {
			c.R.Bad(rule, FuncShort(fn), construct, c.pos(call.Pos()), fmt.Sprintf("the value packed at this ordinal does not derive from option %q (derives from %v): the Demon reads another setting into %s", want.Key, keysList(keys), want.CField))
		} else {
			c.R.Bad(rule, FuncShort(fn), construct, c.pos(call.Pos()), fmt.Sprintf("the variable packed at this ordinal is also assigned under option(s) %v: choosing that option overwrites %s", foreign, want.CField))
		}
	}
}

func keysList(m map[string]bool) []string {
	var l []string
	for k := range m {
		l = append(l, k)
	}
	sort.Strings(l)
	return l
}

// R15EnumFam — one enum family per variable.
func R15EnumFam(c *Ctx) {
	const rule = "R15-enum-family"
	c.R.Rule(rule, "in PatchConfig every variable that receives named constants of builder.go's const blocks receives constants of one block (family) only", 3)
	fd, pk := c.P.FuncDecl(PkgBuilder, "Builder.PatchConfig")
	if fd == nil {
		c.R.Anchor(rule, "builder.(*Builder).PatchConfig")
		return
	}
	// const object -> family (position of its const block)
	family := map[types.Object]token.Pos{}
	famName := map[token.Pos]string{}
	for _, f := range pk.Syntax {
		for _, d := range f.Decls {
			gd, ok := d.(*ast.GenDecl)
			if !ok || gd.Tok != token.CONST || !gd.Lparen.IsValid() {
				continue
			}
			for _, sp := range gd.Specs {
				for _, n := range sp.(*ast.ValueSpec).Names {
					if obj := pk.TypesInfo.Defs[n]; obj != nil {
						family[obj] = gd.Pos()
						if famName[gd.Pos()] == "" {
							famName[gd.Pos()] = n.Name + "…"
						}
					}
				}
			}
		}
	}
	type rec struct {
		fams  map[token.Pos][]string
		first token.Pos
	}
	vars := map[types.Object]*rec{}
	note := func(lhs ast.Expr, rhs ast.Expr) {
		id, ok := lhs.(*ast.Ident)
		if !ok {
			return
		}
		rid, ok := ast.Unparen(rhs).(*ast.Ident)
		if !ok {
			return
		}
		cobj := pk.TypesInfo.Uses[rid]
		fam, isFam := family[cobj]
		if !isFam {
			return
		}
		vobj := pk.TypesInfo.Uses[id]
		if vobj == nil {
			vobj = pk.TypesInfo.Defs[id]
		}
		if vobj == nil {
			return
		}
		r := vars[vobj]
		if r == nil {
			r = &rec{fams: map[token.Pos][]string{}, first: lhs.Pos()}
			vars[vobj] = r
		}
		r.fams[fam] = append(r.fams[fam], rid.Name)
	}
	ast.Inspect(fd.Body, func(n ast.Node) bool {
		switch x := n.(type) {
		case *ast.AssignStmt:
			if len(x.Lhs) == len(x.Rhs) {
				for i := range x.Lhs {
					note(x.Lhs[i], x.Rhs[i])
				}
			}
		case *ast.ValueSpec:
			if len(x.Names) == len(x.Values) {
				for i := range x.Names {
					note(x.Names[i], x.Values[i])
				}
			}
		}
		return true
	})
	var objs []types.Object
	for o := range vars {
		objs = append(objs, o)
	}
	sort.Slice(objs, func(i, j int) bool { return objs[i].Pos() < objs[j].Pos() })
	for _, o := range objs {
		r := vars[o]
		construct := o.Name() + " ← named constants"
		if len(r.fams) == 1 {
			c.R.Ok(rule, DeclShort(pk, fd), construct, c.pos(r.first), "one family", true)
		} else {
			var parts []string
			for _, names := range r.fams {
				parts = append(parts, strings.Join(names, ","))
			}
			sort.Strings(parts)
			c.R.Bad(rule, DeclShort(pk, fd), construct, c.pos(r.first), "the variable receives constants of different enumerations ("+strings.Join(parts, " vs ")+"): one option overwrites the field of another")
		}
	}
}

// R16ShellSink — no operator string reaches a shell.
func R16ShellSink(c *Ctx) {
	const rule = "R16-shell-sink"
	c.R.Rule(rule, "no value derived from the operator's build options (b.config.Config[…]) reaches the command string of exec.Command(\"sh\", \"-c\", …): taint through string concatenation, fmt.Sprintf, append/Join and the Builder's fields and parameters", 1)
	var fns []*ssa.Function
	for _, fn := range c.P.ModuleFuncs(func(p string) bool { return p == PkgBuilder }) {
		fns = append(fns, fn)
	}
	tainted := map[ssa.Value]bool{}
	taintedField := map[string]bool{}
	taintedParam := map[*ssa.Parameter]bool{}
	paramWhy := map[*ssa.Parameter]string{}
	why := map[ssa.Value]string{}
	isSource := func(v ssa.Value) bool {
		lk, ok := v.(*ssa.Lookup)
		if !ok {
			return false
		}
		// b.config.Config[...] or a map obtained from it (Injection)
		return DerivesFrom(lk.X, IsFieldLoad("", "Config")) && strings.Contains(lk.X.Type().String(), "map[string]")
	}
	changed := true
	mark := func(v ssa.Value, reason string) {
		if !tainted[v] {
			tainted[v] = true
			why[v] = reason
			changed = true
		}
	}
	for changed {
		changed = false
		for _, fn := range fns {
			for _, p := range fn.Params {
				if taintedParam[p] {
					mark(p, paramWhy[p])
				}
			}
			for _, b := range fn.Blocks {
				for _, in := range b.Instrs {
					v, isVal := in.(ssa.Value)
					switch x := in.(type) {
					case *ssa.Lookup:
						if isSource(x) {
							if s, ok := ConstString(x.Index); ok {
								mark(x, "operator option "+s)
							} else {
								mark(x, "operator option")
							}
						}
					case *ssa.Store:
						if tainted[x.Val] {
							if t, f, _, ok := FieldOf(x.Addr); ok {
								if !taintedField[t+"."+f] {
									taintedField[t+"."+f] = true
									changed = true
								}
							}
							if ia, ok := x.Addr.(*ssa.IndexAddr); ok {
								mark(ia.X, why[x.Val])
								if al, ok := ia.X.(*ssa.Alloc); ok {
									mark(al, why[x.Val])
								}
							}
							if al, ok := x.Addr.(*ssa.Alloc); ok {
								mark(al, why[x.Val])
							}
						}
					case ssa.CallInstruction:
						cc := x.Common()
						anyT := ""
						for _, a := range cc.Args {
							if tainted[a] {
								anyT = why[a]
							}
						}
						if anyT != "" {
							if callee := cc.StaticCallee(); callee != nil && core.FuncPkgPath(callee) == PkgBuilder {
								for i, a := range cc.Args {
									if tainted[a] && i < len(callee.Params) && !taintedParam[callee.Params[i]] {
										taintedParam[callee.Params[i]] = true
										paramWhy[callee.Params[i]] = why[a]
										changed = true
									}
								}
							} else if isVal {
								n := CalleeName(x)
								if n == "fmt.Sprintf" || n == "builtin.append" || n == "strings.Join" || strings.HasPrefix(n, "strings.") || n == "fmt.Sprint" {
									mark(v, anyT)
								}
							}
						}
					}
					if !isVal {
						continue
					}
					switch x := in.(type) {
					case *ssa.BinOp:
						if x.Op == token.ADD && (tainted[x.X] || tainted[x.Y]) {
							r := why[x.X]
							if r == "" {
								r = why[x.Y]
							}
							mark(x, r)
						}
					case *ssa.Phi:
						for _, e := range x.Edges {
							if tainted[e] {
								mark(x, why[e])
							}
						}
					case *ssa.TypeAssert:
						if tainted[x.X] {
							mark(x, why[x.X])
						}
					case *ssa.Extract:
						if tainted[x.Tuple] {
							mark(x, why[x.Tuple])
						}
					case *ssa.MakeInterface:
						if tainted[x.X] {
							mark(x, why[x.X])
						}
					case *ssa.Slice:
						if tainted[x.X] {
							mark(x, why[x.X])
						}
					case *ssa.UnOp:
						if x.Op == token.MUL {
							if t, f, _, ok := FieldOf(x.X); ok && taintedField[t+"."+f] {
								mark(x, "field "+f+" (holds operator-derived text)")
							}
							if tainted[x.X] {
								mark(x, why[x.X])
							}
						}
					case *ssa.IndexAddr:
						if tainted[x.X] {
							mark(x, why[x.X])
						}
					case *ssa.Index:
						if tainted[x.X] {
							mark(x, why[x.X])
						}
					case *ssa.Next:
						if tainted[x.Iter] {
							mark(x, why[x.Iter])
						}
					case *ssa.Range:
						if tainted[x.X] {
							mark(x, why[x.X])
						}
					}
				}
			}
		}
	}
	nSinks := 0
	for _, fn := range fns {
		EachCall(fn, func(call ssa.CallInstruction) {
			if CalleeName(call) != "os/exec.Command" {
				return
			}
			args := call.Common().Args
			if len(args) < 2 {
				return
			}
			prog, _ := ConstString(args[0])
			isShell := prog == "sh" || prog == "bash" || prog == "/bin/sh" || prog == "/bin/bash" || prog == "cmd"
			if !isShell {
				return
			}
			nSinks++
			// variadic args: slice of an array with stores
			var cmdTainted string
			if sl, ok := args[1].(*ssa.Slice); ok {
				if al, ok := sl.X.(*ssa.Alloc); ok {
					for _, r := range *al.Referrers() {
						if ia, ok := r.(*ssa.IndexAddr); ok {
							for _, r2 := range *ia.Referrers() {
								if st, ok := r2.(*ssa.Store); ok && tainted[st.Val] {
									cmdTainted = why[st.Val]
								}
							}
						}
					}
				}
			}
			construct := "exec.Command(\"" + prog + "\", \"-c\", <command line>)"
			if cmdTainted == "" {
				c.R.Ok(rule, FuncShort(fn), construct, c.pos(call.Pos()), "no operator-derived text reaches the shell command", true)
			} else {
				c.R.Bad(rule, FuncShort(fn), construct, c.pos(call.Pos()), "text derived from "+cmdTainted+" is spliced into a command line that is run through a shell: shell metacharacters in a build option are executed on the teamserver")
			}
		})
	}
	if nSinks == 0 {
		c.R.Ok(rule, "builder", "no shell invocation", "-", "the builder no longer runs a shell", true)
	}
}

// R15ErrDiscipline — a listener setting that cannot be encoded fails the build.
func R15ErrDiscipline(c *Ctx) {
	const rule = "R15-build-errors"
	c.R.Rule(rule, "in PatchConfig every error from strconv.Atoi / ParseWorkingHours is tested and its failing edge returns (nil, err); Build returns false when PatchConfig fails", 4)
	fn := c.P.Func(PkgBuilder, "Builder.PatchConfig")
	if fn == nil {
		c.R.Anchor(rule, "builder.(*Builder).PatchConfig")
		return
	}
	EachCall(fn, func(ci ssa.CallInstruction) {
		call, ok := ci.(*ssa.Call)
		if !ok {
			return
		}
		n := CalleeName(call)
		if n != "strconv.Atoi" && n != "Havoc/pkg/common.ParseWorkingHours" {
			return
		}
		// the error result
		var errV ssa.Value
		for _, r := range *call.Referrers() {
			if ex, ok := r.(*ssa.Extract); ok && ex.Index == 1 {
				errV = ex
			}
		}
		construct := shortCallee(n) + "(" + AccessPath(call.Call.Args[0]) + ")"
		if errV == nil {
			c.R.Bad(rule, FuncShort(fn), construct, c.pos(call.Pos()), "the error result is discarded: an unparsable setting is packed as 0")
			return
		}
		// some If tests err != nil and that edge returns a non-nil error
		ok2 := false
		for _, b := range fn.Blocks {
			if len(b.Instrs) == 0 {
				continue
			}
			iff, isIf := b.Instrs[len(b.Instrs)-1].(*ssa.If)
			if !isIf {
				continue
			}
			uses := false
			DerivesFrom(iff.Cond, func(w ssa.Value) bool {
				if w == errV {
					uses = true
				}
				return false
			})
			if !uses {
				continue
			}
			for _, s := range b.Succs {
				// the edge's target dominates a return with a non-nil error
				for _, r := range fn.Blocks {
					if !s.Dominates(r) || len(r.Instrs) == 0 || len(s.Preds) != 1 {
						continue
					}
					if ret, isRet := r.Instrs[len(r.Instrs)-1].(*ssa.Return); isRet && len(ret.Results) == 2 && !isNilConst(ret.Results[1]) {
						ok2 = true
					}
				}
			}
		}
		if ok2 {
			c.R.Ok(rule, FuncShort(fn), construct, c.pos(call.Pos()), "its error is tested and the failing edge returns an error", true)
		} else {
			c.R.Bad(rule, FuncShort(fn), construct, c.pos(call.Pos()), "the error of this conversion does not make PatchConfig fail: a setting that cannot be encoded yields a payload with a zero field")
		}
	})
	// an error assigned to a variable and overwritten before anybody looked at it
	scope := HelperClosure(fn, 2)
	if pw := c.P.Func(PkgCommon, "ParseWorkingHours"); pw != nil {
		scope = append(scope, HelperClosure(pw, 2)...)
	}
	for _, sf := range scope {
		// calls whose error result is assigned to a named variable (not to _)
		named := map[token.Pos]bool{}
		if syn := sf.Syntax(); syn != nil {
			ast.Inspect(syn, func(n ast.Node) bool {
				as, ok := n.(*ast.AssignStmt)
				if !ok || len(as.Rhs) != 1 || len(as.Lhs) < 2 {
					return true
				}
				call, ok := as.Rhs[0].(*ast.CallExpr)
				if !ok {
					return true
				}
				if id, ok := as.Lhs[len(as.Lhs)-1].(*ast.Ident); ok && id.Name != "_" {
					named[call.Lparen] = true
				}
				return true
			})
		}
		for _, b := range sf.Blocks {
			for _, in := range b.Instrs {
				ex, ok := in.(*ssa.Extract)
				if !ok || !isErrorType(ex.Type()) || len(*ex.Referrers()) > 0 {
					continue
				}
				call, ok := ex.Tuple.(*ssa.Call)
				if !ok || !named[call.Pos()] {
					continue
				}
				c.R.Bad(rule, FuncShort(sf), "error of "+shortCallee(CalleeName(call))+" assigned and never read", c.pos(call.Pos()), "the error result is stored in a variable that is overwritten (or dropped) before it is tested: the failure it reports does not fail the build")
			}
		}
	}
	// Build: PatchConfig error -> return false
	bd := c.P.Func(PkgBuilder, "Builder.Build")
	if bd != nil {
		okB := false
		EachCall(bd, func(ci ssa.CallInstruction) {
			call, ok := ci.(*ssa.Call)
			if !ok || CalleeName(call) != "(*Havoc/pkg/common/builder.Builder).PatchConfig" {
				return
			}
			for _, b := range bd.Blocks {
				for _, f := range FactsAt(b) {
					bo, ok := f.Cond.(*ssa.BinOp)
					if !ok || !(isNilConst(bo.X) || isNilConst(bo.Y)) {
						continue
					}
					v := bo.X
					if isNilConst(bo.X) {
						v = bo.Y
					}
					ex, ok := v.(*ssa.Extract)
					if !ok || ex.Tuple != ssa.Value(call) || ex.Index != 1 {
						continue
					}
					if (bo.Op == token.NEQ) == f.Truth && len(b.Instrs) > 0 {
						if ret, isRet := b.Instrs[len(b.Instrs)-1].(*ssa.Return); isRet && len(ret.Results) == 1 && isBoolConst(ret.Results[0], false) {
							okB = true
						}
					}
				}
			}
		})
		if okB {
			c.R.Ok(rule, FuncShort(bd), "PatchConfig error → Build returns false", c.pos(bd.Pos()), "a configuration that cannot be encoded fails the build", true)
		} else {
			c.R.Bad(rule, FuncShort(bd), "PatchConfig error → Build returns false", c.pos(bd.Pos()), "Build goes on after PatchConfig failed")
		}
	}
	_ = constant.MakeBool
	_ = packages.NeedName
}

// R15WorkingHours — the working-hours word has the layout the Demon decodes.
func R15WorkingHours(c *Ctx) {
	const rule = "R15-working-hours"
	c.R.Rule(rule, "every successful result of common.ParseWorkingHours, evaluated symbolically through |, <<, & and small helpers, is 1<<22 | (startHour&0x1f)<<17 | (startMin&0x3f)<<11 | (endHour&0x1f)<<6 | (endMin&0x3f): four distinct sources, each masked to its width at its own position (the word goes into the payload configuration and into the `config workinghours` task)", 1)
	// ParseWorkingHours bit packing: (value & mask) << shift with disjoint fields
	pw := c.P.Func(PkgCommon, "ParseWorkingHours")
	if pw == nil {
		c.R.Anchor(rule, "common.ParseWorkingHours")
		return
	}
	// the packed word: every successful return of ParseWorkingHours, evaluated symbolically through helpers
	construct := "working hours: hour(5)<<17 | min(6)<<11 | hour(5)<<6 | min(6) | 1<<22"
	want := map[int]uint64{17: 0x1f, 11: 0x3f, 6: 0x1f, 0: 0x3f}
	nRet := 0
	problem := ""
	for _, b := range pw.Blocks {
		ret, isRet := b.Instrs[len(b.Instrs)-1].(*ssa.Return)
		if !isRet || len(ret.Results) != 2 || !isNilConst(ret.Results[1]) {
			continue
		}
		fields, ok := bitLayout(ret.Results[0], &bitEnv{fn: pw}, 0)
		if !ok {
			problem = "the packed value is no longer an or/shift/mask expression the rule can evaluate"
			continue
		}
		if len(fields) == 0 {
			continue // the disabled value 0
		}
		nRet++
		var used uint64
		enabled := false
		seenShift := map[int]string{}
		srcs := map[string]int{}
		for _, f := range fields {
			bits := f.mask << uint(f.shift)
			if f.src == "" {
				if bits == 1<<22 {
					enabled = true
				} else {
					problem = fmt.Sprintf("constant bits %#x are set besides the enabled bit", bits)
				}
				continue
			}
			if w, isField := want[f.shift]; !isField || w != f.mask {
				problem = fmt.Sprintf("a field is packed as (v & %#x) << %d", f.mask, f.shift)
			}
			if used&bits != 0 {
				problem = fmt.Sprintf("fields overlap at bits %#x", used&bits)
			}
			used |= bits
			seenShift[f.shift] = f.src
			srcs[f.src]++
		}
		if len(seenShift) != 4 && problem == "" {
			problem = fmt.Sprintf("%d of the four fields are packed", len(seenShift))
		}
		if !enabled && problem == "" {
			problem = "the enabled bit (1<<22) is not set"
		}
		for s, n := range srcs {
			if n > 1 && problem == "" {
				problem = "the same value (" + s + ") fills two fields"
			}
		}
	}
	if nRet == 0 && problem == "" {
		problem = "no successful return packs a value"
	}
	if problem == "" {
		c.R.Ok(rule, FuncShort(pw), construct, c.pos(pw.Pos()), "fields masked to their widths at disjoint positions below the enabled bit, four distinct sources", true)
	} else {
		c.R.Bad(rule, FuncShort(pw), construct, c.pos(pw.Pos()), "the bit layout of the working-hours word changed: "+problem)
	}
}

// R15NoCarry — per-element records of the listener part depend on their element only.
func R15NoCarry(c *Ctx) {
	const rule = "R15-no-carry"
	c.R.Rule(rule, "inside the loops of PatchConfig that pack one record per host / header / URI, no packed argument depends on a value carried over from an earlier iteration (a loop-header phi other than the range counter, or a variable declared outside the loop and assigned inside it): what is packed for one element is a function of that element and of loop-invariant listener settings", 4)
	fn := c.P.Func(PkgBuilder, "Builder.PatchConfig")
	if fn == nil {
		c.R.Anchor(rule, "builder.(*Builder).PatchConfig")
		return
	}
	fname := FuncShort(fn)
	loops := naturalLoops(fn)
	for _, b := range fn.Blocks {
		// innermost loop containing b
		var in *natLoop
		for _, l := range loops {
			if l.body[b] && (in == nil || len(l.body) < len(in.body)) {
				in = l
			}
		}
		if in == nil {
			continue
		}
		for _, ins := range b.Instrs {
			call, ok := ins.(*ssa.Call)
			if !ok {
				continue
			}
			name := CalleeName(call)
			if !strings.HasPrefix(name, "(*Havoc/pkg/common/packer.Packer).Add") {
				continue
			}
			args := CallArgs(call)
			if len(args) == 0 {
				continue
			}
			carried := carriedInto(args[0], in)
			construct := strings.TrimPrefix(name, "(*Havoc/pkg/common/packer.Packer).") + "(…) inside a per-element loop"
			if carried == nil {
				c.R.Ok(rule, fname, construct, c.pos(call.Pos()), "depends on the current element and loop-invariant values only", true)
			} else {
				c.R.Bad(rule, fname, construct, c.pos(call.Pos()), "the packed value depends on "+DescribeValue(carried)+", which is assigned in an earlier iteration of the loop: a setting of one element (e.g. the port of a host:port entry) leaks into the records after it")
			}
		}
	}
}

type natLoop struct {
	header *ssa.BasicBlock
	body   map[*ssa.BasicBlock]bool
}

// naturalLoops: for each back edge t→h (h dominates t) the blocks that reach t without passing h.
func naturalLoops(fn *ssa.Function) []*natLoop {
	byHeader := map[*ssa.BasicBlock]*natLoop{}
	var out []*natLoop
	for _, t := range fn.Blocks {
		for _, h := range t.Succs {
			if !h.Dominates(t) {
				continue
			}
			l := byHeader[h]
			if l == nil {
				l = &natLoop{header: h, body: map[*ssa.BasicBlock]bool{h: true}}
				byHeader[h] = l
				out = append(out, l)
			}
			stack := []*ssa.BasicBlock{t}
			for len(stack) > 0 {
				x := stack[len(stack)-1]
				stack = stack[:len(stack)-1]
				if l.body[x] {
					continue
				}
				l.body[x] = true
				stack = append(stack, x.Preds...)
			}
		}
	}
	return out
}

// carriedInto returns a value on which v depends and which flows around the loop's back edge.
func carriedInto(v ssa.Value, l *natLoop) ssa.Value {
	seen := map[ssa.Value]bool{}
	var rec func(v ssa.Value) ssa.Value
	rec = func(v ssa.Value) ssa.Value {
		if v == nil || seen[v] {
			return nil
		}
		seen[v] = true
		ins, isInstr := v.(ssa.Instruction)
		if isInstr && ins.Block() != nil && !l.body[ins.Block()] {
			// defined outside the loop: invariant, unless it is a cell written inside the loop
			if al, ok := v.(*ssa.Alloc); ok {
				for _, r := range *al.Referrers() {
					if st, ok := r.(*ssa.Store); ok && st.Addr == ssa.Value(al) && l.body[st.Block()] {
						return v
					}
				}
			}
			return nil
		}
		switch x := v.(type) {
		case *ssa.Phi:
			if x.Block() == l.header {
				for i, e := range x.Edges {
					if !l.body[x.Block().Preds[i]] {
						continue
					}
					// the range counter: phi + 1
					if bo, ok := e.(*ssa.BinOp); ok && bo.Op == token.ADD && bo.X == ssa.Value(x) {
						if k, ok := ConstInt(bo.Y); ok && k == 1 {
							continue
						}
					}
					if e == ssa.Value(x) {
						continue
					}
					return x
				}
				return nil
			}
			for _, e := range x.Edges {
				if r := rec(e); r != nil {
					return r
				}
			}
		case *ssa.UnOp:
			return rec(x.X)
		case *ssa.BinOp:
			if r := rec(x.X); r != nil {
				return r
			}
			return rec(x.Y)
		case *ssa.Convert:
			return rec(x.X)
		case *ssa.ChangeType:
			return rec(x.X)
		case *ssa.MakeInterface:
			return rec(x.X)
		case *ssa.Extract:
			return rec(x.Tuple)
		case *ssa.Index:
			if r := rec(x.X); r != nil {
				return r
			}
			return rec(x.Index)
		case *ssa.IndexAddr:
			if r := rec(x.X); r != nil {
				return r
			}
			return rec(x.Index)
		case *ssa.Slice:
			return rec(x.X)
		case *ssa.Lookup:
			return rec(x.X)
		case *ssa.FieldAddr:
			return rec(x.X)
		case *ssa.Field:
			return rec(x.X)
		case *ssa.Alloc:
			for _, r := range *x.Referrers() {
				if st, ok := r.(*ssa.Store); ok && st.Addr == ssa.Value(x) {
					if r := rec(st.Val); r != nil {
						return r
					}
				}
			}
		case *ssa.Call:
			for _, a := range x.Call.Args {
				if r := rec(a); r != nil {
					return r
				}
			}
			if x.Call.IsInvoke() {
				return rec(x.Call.Value)
			}
		}
		return nil
	}
	return rec(v)
}

// R15CountLoop — a packed element count and the loop that packs the elements talk about the same list.
func R15CountLoop(c *Ctx) {
	const rule = "R15-count-loop"
	c.R.Rule(rule, "in PatchConfig every AddInt(len(L)) that announces a list is followed by a loop that ranges over the same list L — the same SSA value, or two loads of the same field path with no possible store to it in between: a count taken before an element is appended (or from another list) makes the Demon read the wrong number of records and misparse everything after them", 3)
	fn := c.P.Func(PkgBuilder, "Builder.PatchConfig")
	if fn == nil {
		c.R.Anchor(rule, "builder.(*Builder).PatchConfig")
		return
	}
	fname := FuncShort(fn)
	loops := naturalLoops(fn)
	// the slice a range loop iterates: the header (or its preheader) computes len(y)
	rangedSlice := func(l *natLoop) (ssa.Value, ssa.Instruction) {
		// the rangeindex phi is compared with len(y) computed in a predecessor of the header outside the loop
		for _, p := range l.header.Preds {
			if l.body[p] {
				continue
			}
			for i := len(p.Instrs) - 1; i >= 0; i-- {
				if call, ok := p.Instrs[i].(*ssa.Call); ok && CalleeName(call) == "builtin.len" {
					return call.Call.Args[0], call
				}
			}
		}
		return nil, nil
	}
	for _, b := range fn.Blocks {
		for _, in := range b.Instrs {
			call, ok := in.(*ssa.Call)
			if !ok || CalleeName(call) != "(*Havoc/pkg/common/packer.Packer).AddInt" {
				continue
			}
			args := CallArgs(call)
			if len(args) != 1 {
				continue
			}
			ln, ok := args[0].(*ssa.Call)
			if !ok || CalleeName(ln) != "builtin.len" {
				continue
			}
			counted := ln.Call.Args[0]
			// the first loop after the count that packs something
			var best *natLoop
			var bestSlice ssa.Value
			var bestLen ssa.Instruction
			for _, l := range loops {
				if !b.Dominates(l.header) {
					continue
				}
				packs := false
				for lb := range l.body {
					for _, li := range lb.Instrs {
						if lc, ok := li.(*ssa.Call); ok && strings.HasPrefix(CalleeName(lc), "(*Havoc/pkg/common/packer.Packer).Add") {
							packs = true
						}
					}
				}
				if !packs {
					continue
				}
				y, li := rangedSlice(l)
				if y == nil {
					continue
				}
				if best == nil || best.header.Dominates(l.header) == false && l.header.Dominates(best.header) {
					best, bestSlice, bestLen = l, y, li
				}
			}
			construct := "AddInt(len(L)) then loop over L"
			if best == nil {
				c.R.NoteOb(rule, fname, construct, c.pos(call.Pos()), "no packing loop follows this count")
				continue
			}
			same := counted == bestSlice
			if !same {
				la, ok1 := counted.(*ssa.UnOp)
				lb2, ok2 := bestSlice.(*ssa.UnOp)
				if ok1 && ok2 {
					ka, fa := pathKey(la.X)
					kb, _ := pathKey(lb2.X)
					if ka != "" && ka == kb && c.stableBetween(la, bestLen, fa) {
						same = true
					}
				}
			}
			if same {
				c.R.Ok(rule, fname, construct, c.pos(call.Pos()), "the count and the loop read the same list", true)
			} else {
				c.R.Bad(rule, fname, construct, c.pos(call.Pos()), "the announced count is the length of "+DescribeValue(counted)+" but the records are packed from "+DescribeValue(bestSlice)+": when the two differ (an element appended after the count) the Demon reads too few records and takes the next one for the following field")
			}
		}
	}
}

// packTransformsAllowed: the functions a listener/operator setting may pass through on its way into a packed string
// (confirmed by reading PatchConfig; anything else changes the configured value).
var packTransformsAllowed = map[string]string{
	"strings.Split":                         "host:port split",
	"Havoc/pkg/common.GetInterfaceIpv4Addr": "an interface name is replaced by its address (documented listener feature)",
	"fmt.Sprintf":                           "formatting",
	"strconv.Itoa":                          "formatting",
	"strings.Join":                          "joining list elements",
}

// R15PackVerbatim — settings are packed as configured.
func R15PackVerbatim(c *Ctx) {
	const rule = "R15-pack-verbatim"
	c.R.Rule(rule, "every string PatchConfig packs (AddString/AddWString/AddBytes) that derives from a listener setting or an operator build option derives from it only through concatenation, conversions, joins and the reviewed transformations (host:port split, interface-name resolution, formatting): any other function applied on the way (trimming, case folding, replacing, …) means the payload is not built with the configured value", 10)
	fn := c.P.Func(PkgBuilder, "Builder.PatchConfig")
	if fn == nil {
		c.R.Anchor(rule, "builder.(*Builder).PatchConfig")
		return
	}
	isSetting := func(v ssa.Value) bool {
		switch x := v.(type) {
		case *ssa.FieldAddr, *ssa.Field:
			t, _, _, ok := FieldOf(x)
			if ok && (strings.HasPrefix(t, PkgHandlers+".") && strings.HasSuffix(t, "Config") || strings.HasSuffix(t, ".BuilderConfig") || strings.HasSuffix(t, ".Proxy")) {
				return true
			}
		case *ssa.Lookup:
			return true // b.config.Config["…"]
		}
		return false
	}
	for _, pf := range HelperClosure(fn, 1) {
		EachCall(pf, func(ci ssa.CallInstruction) {
			name := CalleeName(ci)
			if !(strings.HasSuffix(name, ".AddWString") || strings.HasSuffix(name, ".AddString") || strings.HasSuffix(name, ".AddBytes")) || !strings.Contains(name, "packer.Packer") {
				return
			}
			args := CallArgs(ci)
			if len(args) != 1 {
				return
			}
			var unexpected []string
			fromSetting := false
			seen := map[ssa.Value]bool{}
			var walk func(v ssa.Value, depth int)
			walk = func(v ssa.Value, depth int) {
				if v == nil || seen[v] || depth > 50 {
					return
				}
				seen[v] = true
				if isSetting(v) {
					fromSetting = true
				}
				switch x := v.(type) {
				case *ssa.BinOp:
					walk(x.X, depth+1)
					walk(x.Y, depth+1)
				case *ssa.Phi:
					for _, e := range x.Edges {
						walk(e, depth+1)
					}
				case *ssa.UnOp:
					walk(x.X, depth+1)
				case *ssa.FieldAddr:
					walk(x.X, depth+1)
				case *ssa.Field:
					walk(x.X, depth+1)
				case *ssa.IndexAddr:
					walk(x.X, depth+1)
				case *ssa.Index:
					walk(x.X, depth+1)
				case *ssa.Lookup:
					walk(x.X, depth+1)
				case *ssa.Slice:
					walk(x.X, depth+1)
				case *ssa.Convert:
					walk(x.X, depth+1)
				case *ssa.ChangeType:
					walk(x.X, depth+1)
				case *ssa.MakeInterface:
					walk(x.X, depth+1)
				case *ssa.TypeAssert:
					walk(x.X, depth+1)
				case *ssa.Extract:
					walk(x.Tuple, depth+1)
				case *ssa.Alloc:
					for _, r := range *x.Referrers() {
						switch st := r.(type) {
						case *ssa.Store:
							if st.Addr == ssa.Value(x) {
								walk(st.Val, depth+1)
							}
						case *ssa.IndexAddr: // variadic argument array
							for _, r2 := range *st.Referrers() {
								if s2, ok := r2.(*ssa.Store); ok && s2.Addr == ssa.Value(st) {
									walk(s2.Val, depth+1)
								}
							}
						}
					}
				case *ssa.Parameter:
					// a helper's parameter: the arguments of its static call sites
					h := x.Parent()
					if h == fn {
						return
					}
					for i, p := range h.Params {
						if p != x {
							continue
						}
						c.EveryCallSite(h, func(site ssa.CallInstruction) bool {
							if i < len(site.Common().Args) {
								walk(site.Common().Args[i], depth+1)
							}
							return true
						})
					}
				case *ssa.Call:
					cn := CalleeName(x)
					if b, ok := x.Call.Value.(*ssa.Builtin); ok {
						_ = b
						for _, a := range x.Call.Args {
							walk(a, depth+1)
						}
						return
					}
					if callee := x.Call.StaticCallee(); callee != nil && callee.Blocks != nil && FuncPkgPathOf(callee) == PkgBuilder {
						for _, bb := range callee.Blocks {
							if ret, ok := bb.Instrs[len(bb.Instrs)-1].(*ssa.Return); ok {
								for _, r := range ret.Results {
									walk(r, depth+1)
								}
							}
						}
						return
					}
					if _, ok := packTransformsAllowed[cn]; !ok {
						unexpected = append(unexpected, cn)
					}
					for _, a := range x.Call.Args {
						walk(a, depth+1)
					}
				}
			}
			walk(args[0], 0)
			if !fromSetting {
				return
			}
			construct := shortCallee(name) + "(" + AccessPath(args[0]) + ")"
			if len(unexpected) == 0 {
				c.R.Ok(rule, FuncShort(pf), construct, c.pos(ci.Pos()), "the setting reaches the packer through concatenation/conversion and reviewed transformations only", true)
			} else {
				sort.Strings(unexpected)
				c.R.Bad(rule, FuncShort(pf), construct, c.pos(ci.Pos()), "the packed value passes through "+strings.Join(unexpected, ", ")+" on its way from the setting: it is no longer the configured value")
			}
		})
	}
}

// R15FirstAddress: GetInterfaceIpv4Addr is on the reviewed list of transformations of a packed host. What it hands to
// the builder is the first IPv4 address of the interface; the search keeps its result in a loop-carried variable that
// is tested after the loop. The search may go round again only while that variable still holds nothing: a candidate
// that flows into the variable on a way back to the loop header must be known nil there (or the variable known nil, for
// a guarded assignment). Otherwise a later non-IPv4 address overwrites the one found (an unlabelled break that only
// leaves a switch, for instance). Shapes the rule cannot read are not judged.
func R15FirstAddress(c *Ctx) {
	const rule = "R15-first-address"
	c.R.Rule(rule, "in common.GetInterfaceIpv4Addr the address search goes round again only with nothing found: every value that reaches the loop-carried result on a path back to the loop header is the carried value itself, or is known nil on that path (or is assigned where the carried value is known nil)", 1)
	fn := c.P.Func(PkgCommon, "GetInterfaceIpv4Addr")
	if fn == nil || fn.Blocks == nil {
		c.R.Anchor(rule, "common.GetInterfaceIpv4Addr")
		return
	}
	isNilConst := func(v ssa.Value) bool {
		k, ok := v.(*ssa.Const)
		return ok && k.IsNil()
	}
	// nilness of v (or of one of alts) implied by a condition with a given truth
	knownNil := func(cond ssa.Value, truth bool, vs ...ssa.Value) bool {
		cond, truth = StripNot(cond, truth)
		bo, ok := cond.(*ssa.BinOp)
		if !ok || (bo.Op != token.EQL && bo.Op != token.NEQ) {
			return false
		}
		var x ssa.Value
		switch {
		case isNilConst(bo.Y):
			x = bo.X
		case isNilConst(bo.X):
			x = bo.Y
		default:
			return false
		}
		if (bo.Op == token.EQL) != truth {
			return false
		}
		for _, v := range vs {
			if x == v {
				return true
			}
		}
		return false
	}
	edgeKnowsNil := func(pred, to *ssa.BasicBlock, vs ...ssa.Value) bool {
		for _, f := range FactsAtDeep(pred) {
			if knownNil(f.Cond, f.Truth, vs...) {
				return true
			}
		}
		if len(pred.Instrs) > 0 {
			if iff, ok := pred.Instrs[len(pred.Instrs)-1].(*ssa.If); ok && pred.Succs[0] != pred.Succs[1] {
				if knownNil(iff.Cond, pred.Succs[0] == to, vs...) {
					return true
				}
			}
		}
		return false
	}
	n := 0
	root := fn
	var fns []*ssa.Function
	for _, h := range HelperClosure(root, 2) {
		if h.Blocks != nil && FuncPkgPathOf(h) == PkgCommon {
			fns = append(fns, h)
		}
	}
	for _, fn := range fns {
		for _, l := range naturalLoops(fn) {
			for _, in := range l.header.Instrs {
				phi, ok := in.(*ssa.Phi)
				if !ok {
					break
				}
				switch phi.Type().Underlying().(type) {
				case *types.Slice, *types.Pointer, *types.Interface, *types.Map:
				default:
					continue
				}
				// the carried value must be what a nil test after the loop reads
				tested := false
				for _, r := range *phi.Referrers() {
					if bo, ok := r.(*ssa.BinOp); ok && (isNilConst(bo.X) || isNilConst(bo.Y)) {
						tested = true
					}
					if p2, ok := r.(*ssa.Phi); ok && !l.body[p2.Block()] {
						for _, r2 := range *p2.Referrers() {
							if bo, ok := r2.(*ssa.BinOp); ok && (isNilConst(bo.X) || isNilConst(bo.Y)) {
								tested = true
							}
						}
					}
				}
				if !tested {
					continue
				}
				n++
				construct := "search result " + phi.Comment
				var bad ssa.Value
				var badAt *ssa.BasicBlock
				seen := map[ssa.Value]bool{}
				var check func(v ssa.Value, pred, to *ssa.BasicBlock)
				check = func(v ssa.Value, pred, to *ssa.BasicBlock) {
					if v == ssa.Value(phi) || isNilConst(v) || bad != nil {
						return
					}
					if p, ok := v.(*ssa.Phi); ok && l.body[p.Block()] && p.Block() != l.header {
						if seen[p] {
							return
						}
						seen[p] = true
						for i, e := range p.Edges {
							check(e, p.Block().Preds[i], p.Block())
						}
						return
					}
					if edgeKnowsNil(pred, to, v, phi) {
						return
					}
					// the nilness may have been settled further up the way: any dominating fact of the phi's own block
					bad, badAt = v, pred
				}
				for i, e := range phi.Edges {
					p := l.header.Preds[i]
					if !l.body[p] {
						continue
					}
					check(e, p, l.header)
				}
				if bad == nil {
					c.R.Ok(rule, FuncShort(fn), construct, c.pos(phi.Pos()), "the search continues only while nothing was found", true)
				} else {
					pos := phi.Pos()
					if bi, ok := bad.(ssa.Instruction); ok && bi.Pos().IsValid() {
						pos = bi.Pos()
					}
					_ = badAt
					c.R.Bad(rule, FuncShort(fn), construct, c.pos(pos), "a candidate that may be non-nil flows into the result on a way back to the loop header: the next address overwrites the IPv4 address already found (an unlabelled break that leaves only a switch has this effect), so the host handed to the builder is not the interface's first IPv4 address")
				}
			}
		}
	}
	if n == 0 {
		c.R.Ok(rule, FuncShort(root), "address search", c.pos(root.Pos()), "no loop of the function or its helpers carries a nil-tested result round: a search that returns from inside the loop has nothing to overwrite", false)
	}
}
