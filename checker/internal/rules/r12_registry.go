package rules

import (
	"fmt"
	"go/ast"
	"go/token"
	"go/types"
	"os"
	"strings"

	"golang.org/x/tools/go/packages"
	"golang.org/x/tools/go/ssa"

	"hv/internal/core"
)

// registries: struct field -> existence predicate suffix.
var registries = map[string]string{
	PkgServer + ".Teamserver.Listeners": ".ListenerExist",
	PkgService + ".Service.Listeners":   ".ListenerExist",
	PkgService + ".Service.Agents":      ".AgentExist",
}

// R12 — listener / service registries.
func R12Registry(c *Ctx) {
	const rule = "R12-registry"
	c.R.Rule(rule, "every growth of a listener/agent-type registry is preceded by a name-existence test over that registry; ListenerRemove deletes the database row before it stops/unregisters and, on the found path, stops the listener, removes it from the list and prunes its advertisement; ClientClose removes every registration of the closing connection (no early break on a match) and leaves its client loop after shrinking it", 8)
	// (a) uniqueness before growth
	for _, fn := range c.P.ModuleFuncs(NonYaotl) {
		for _, b := range fn.Blocks {
			for _, in := range b.Instrs {
				st, ok := in.(*ssa.Store)
				if !ok {
					continue
				}
				t, f, _, ok := FieldOf(st.Addr)
				if !ok {
					continue
				}
				pred, isReg := registries[t+"."+f]
				if !isReg {
					continue
				}
				ap, isApp := st.Val.(*ssa.Call)
				if !isApp || CalleeName(ap) != "builtin.append" {
					continue
				}
				if _, isSlice := ap.Call.Args[0].(*ssa.Slice); isSlice {
					continue // removal
				}
				if FuncShort(fn) == "(*server.Teamserver).Start" {
					continue // reset to an empty list at start-up
				}
				construct := f + " = append(" + f + ", …)"
				if c.uniqueBefore(fn, st, pred, t+"."+f) {
					c.R.Ok(rule, FuncShort(fn), construct, c.pos(st.Pos()), "an existence test on the name precedes the registration", true)
				} else {
					c.R.Bad(rule, FuncShort(fn), construct, c.pos(st.Pos()), "an entry is added to the registry without a preceding name-existence test: duplicate names")
				}
			}
		}
	}
	// (b) ListenerRemove
	lr := c.P.Func(PkgServer, "Teamserver.ListenerRemove")
	if lr == nil {
		c.R.Anchor(rule, "server.(*Teamserver).ListenerRemove")
	} else {
		var dbRem ssa.CallInstruction
		var stops []ssa.CallInstruction
		var listStore, evStore *ssa.Store
		for _, b := range lr.Blocks {
			for _, in := range b.Instrs {
				switch x := in.(type) {
				case ssa.CallInstruction:
					switch n := CalleeName(x); {
					case n == "(*Havoc/pkg/db.DB).ListenerRemove":
						dbRem = x
					case n == "(*Havoc/pkg/handlers.HTTP).Stop", strings.HasSuffix(n, ".EndpointRemove"):
						stops = append(stops, x)
					}
				case *ssa.Store:
					if t, f, _, ok := FieldOf(x.Addr); ok && t == PkgServer+".Teamserver" {
						if f == "Listeners" {
							listStore = x
						}
						if f == "EventsList" {
							evStore = x
						}
					}
				}
			}
		}
		fname := FuncShort(lr)
		evPresent := evStore != nil
		if !evPresent {
			// the pruning of the retained Listener.Add event may live in an unexported helper called from here
			for _, hf := range HelperClosure(lr, 2) {
				if hf == lr {
					continue
				}
				for _, hb := range hf.Blocks {
					for _, hin := range hb.Instrs {
						if st, ok := hin.(*ssa.Store); ok {
							if t, f, _, ok := FieldOf(st.Addr); ok && t == PkgServer+".Teamserver" && f == "EventsList" {
								evPresent = true
							}
						}
					}
				}
			}
		}
		if dbRem == nil || listStore == nil || !evPresent || len(stops) < 2 {
			c.R.Bad(rule, fname, "remove = delete row + stop + unregister + prune event", c.pos(lr.Pos()), "ListenerRemove no longer does all of: DB.ListenerRemove, Stop/EndpointRemove, removal from t.Listeners, pruning of the Listener.Add event")
		} else {
			okOrder := true
			for _, s := range stops {
				if !InstrDominates(dbRem, s) {
					okOrder = false
				}
			}
			if !InstrDominates(dbRem, listStore) {
				okOrder = false
			}
			// the error edge of the database call reaches a return without stop/unregister: by dominance above,
			// stops are after the call; require that they are on the err == nil edge
			errGuard := true
			for _, s := range append(stops, ssa.CallInstruction(nil)) {
				var blk *ssa.BasicBlock
				if s == nil {
					blk = listStore.Block()
				} else {
					blk = s.Block()
				}
				g := false
				for _, f := range FactsAt(blk) {
					if bo, ok := f.Cond.(*ssa.BinOp); ok && (isNilConst(bo.X) || isNilConst(bo.Y)) {
						v := bo.X
						if isNilConst(bo.X) {
							v = bo.Y
						}
						if v == dbRem.Value() && ((bo.Op == token.EQL) == f.Truth) {
							g = true
						}
					}
				}
				if !g {
					errGuard = false
				}
			}
			if okOrder && errGuard {
				c.R.Ok(rule, fname, "remove = delete row, then stop + unregister + prune event", c.pos(dbRem.Pos()), "the row is deleted first; stopping and unregistering happen only when that succeeded", true)
			} else {
				c.R.Bad(rule, fname, "remove = delete row, then stop + unregister + prune event", c.pos(dbRem.Pos()), "the listener is stopped or unregistered on a path where the database delete has not succeeded: running, persisted and advertised sets diverge")
			}
		}
	}
	// (c) ClientClose
	fd, pk := c.P.FuncDecl(PkgService, "Service.ClientClose")
	if fd == nil {
		c.R.Anchor(rule, "service.(*Service).ClientClose")
		return
	}
	fname := DeclShort(pk, fd)
	for _, reg := range []string{"Agents", "Listeners"} {
		ok, why := clientCloseRemovesAll(c, pk, fd, reg)
		construct := "remove every s." + reg + " entry owned by the client"
		if ok {
			c.R.Ok(rule, fname, construct, c.pos(fd.Pos()), why, true)
		} else {
			c.R.Bad(rule, fname, construct, c.pos(fd.Pos()), why)
		}
	}
}

// uniqueBefore: the store is preceded by an existence test of the registry.
func (c *Ctx) uniqueBefore(fn *ssa.Function, st *ssa.Store, pred, regField string) bool {
	// a dominating Exist(name) == false
	for _, f := range FactsAt(st.Block()) {
		if call, ok := f.Cond.(*ssa.Call); ok && strings.HasSuffix(CalleeName(call), pred) && !f.Truth {
			return true
		}
	}
	// an inline loop over the same registry that returns on a name match, before the store
	for _, b := range fn.Blocks {
		if !b.Dominates(st.Block()) && !BlockReaches(b, st.Block(), nil) {
			continue
		}
		for _, in := range b.Instrs {
			bo, ok := in.(*ssa.BinOp)
			if !ok || bo.Op != token.EQL {
				continue
			}
			if !(DerivesFrom(bo.X, IsFieldLoad("", "Name")) || DerivesFrom(bo.Y, IsFieldLoad("", "Name"))) {
				continue
			}
			tname := regField[:strings.LastIndex(regField, ".")]
			fld := regField[strings.LastIndex(regField, ".")+1:]
			if !(DerivesFrom(bo.X, IsFieldLoad(tname, fld)) || DerivesFrom(bo.Y, IsFieldLoad(tname, fld))) {
				continue
			}
			// its true edge returns
			for _, r := range *bo.Referrers() {
				if iff, ok := r.(*ssa.If); ok {
					tb := iff.Block().Succs[0]
					if len(tb.Instrs) > 0 {
						if _, isRet := tb.Instrs[len(tb.Instrs)-1].(*ssa.Return); isRet && !BlockReaches(tb, st.Block(), nil) {
							return true
						}
					}
				}
			}
		}
	}
	// the caller checks: every call site of fn is dominated by Exist(...) == false
	n := c.P.CHA().Nodes[fn]
	if n != nil && len(n.In) > 0 {
		all := true
		for _, e := range n.In {
			if e.Site == nil {
				all = false
				break
			}
			g := false
			for _, f := range FactsAt(e.Site.Block()) {
				if call, ok := f.Cond.(*ssa.Call); ok && strings.HasSuffix(CalleeName(call), pred) && !f.Truth {
					g = true
				}
			}
			if !g {
				all = false
			}
		}
		if all {
			return true
		}
	}
	return false
}

// clientCloseRemovesAll: the loop over s.<reg> that compares `.client` with the
// parameter does not leave early on a match, and s.<reg> is rewritten.
func clientCloseRemovesAll(c *Ctx, pk *packages.Package, fd *ast.FuncDecl, reg string) (bool, string) {
	var loop *ast.RangeStmt
	ast.Inspect(fd.Body, func(n ast.Node) bool {
		if r, ok := n.(*ast.RangeStmt); ok && strings.HasSuffix(ExprStr(r.X), "."+reg) && loop == nil {
			loop = r
		}
		return true
	})
	if loop == nil {
		return false, "ClientClose has no loop over s." + reg + ": registrations of a closed connection are never removed"
	}
	// the owner comparison
	var match *ast.IfStmt
	ast.Inspect(loop.Body, func(n ast.Node) bool {
		if ifs, ok := n.(*ast.IfStmt); ok && match == nil && ownerCompare(pk, fd, ifs.Cond) {
			match = ifs
		}
		return true
	})
	if match == nil {
		return false, "the loop over s." + reg + " does not compare the entry's owner with the closing client"
	}
	// no break / return inside the match branch
	early := false
	ast.Inspect(match.Body, func(n ast.Node) bool {
		switch x := n.(type) {
		case *ast.BranchStmt:
			if x.Tok == token.BREAK || x.Tok == token.GOTO {
				early = true
			}
		case *ast.ReturnStmt:
			early = true
		case *ast.FuncLit:
			return false
		}
		return true
	})
	if early {
		return false, "the loop over s." + reg + " leaves on the first entry owned by the client: a connection that registered several keeps the rest registered"
	}
	// removal inside the range must not continue the loop on the shrunk slice (R5 covers it); the registry is rewritten
	rewritten := false
	ast.Inspect(fd.Body, func(n ast.Node) bool {
		if as, ok := n.(*ast.AssignStmt); ok {
			for _, l := range as.Lhs {
				if strings.HasSuffix(ExprStr(l), "."+reg) {
					rewritten = true
				}
			}
		}
		return true
	})
	if !rewritten {
		return false, "s." + reg + " is never rewritten in ClientClose"
	}
	return true, "every entry owned by the client is visited and dropped; the loop does not stop at the first match"
}

var _ = core.Discharged

// R12OwnerEndpoints — ExternalC2 listeners started on behalf of a service
// connection must go away with it.
func R12OwnerEndpoints(c *Ctx) {
	const rule = "R12-owner-endpoints"
	c.R.Rule(rule, "the ExternalC2 listener/endpoint that ListenerServiceExc2Add registers for a service connection (Data[\"client\"]) is removed when that connection closes: the close path must reach a teamserver call that unregisters the owner's listeners", 1)
	cc := c.P.Func(PkgService, "Service.ClientClose")
	hc := c.P.Func(PkgService, "Service.handleConnection")
	if cc == nil || hc == nil {
		c.R.Anchor(rule, "service.(*Service).ClientClose / handleConnection")
		return
	}
	found := false
	for _, fn := range []*ssa.Function{cc, hc} {
		EachCall(fn, func(call ssa.CallInstruction) {
			n := CalleeName(call)
			if strings.HasPrefix(n, "(Havoc/pkg/service.Teamserver).") && (strings.Contains(n, "Remove") || strings.Contains(n, "Close") || strings.Contains(n, "Unregister")) {
				found = true
			}
		})
	}
	construct := "unregister the owner's ExternalC2 listeners on close"
	if found {
		c.R.Ok(rule, FuncShort(cc), construct, c.pos(cc.Pos()), "the close path calls back into the teamserver to drop the owner's listeners", true)
	} else {
		c.R.Bad(rule, FuncShort(cc), construct, c.pos(cc.Pos()), "nothing on the close path removes the t.Listeners entry and the /:endpoint route that ListenerServiceExc2Add registered for this connection (the service.Teamserver interface has no removal method): they stay advertised and routed after the service is gone")
	}
}

// R12EndpointKey — an external listener's route is registered and removed under the same key.
func R12EndpointKey(c *Ctx) {
	const rule = "R12-endpoint-key"
	c.R.Rule(rule, "the key stored in a registered Endpoint (Endpoint.Endpoint) and the key handed to EndpointRemove are both the listener's ExternalConfig.Endpoint: an external listener's route is removed under the name it was registered with", 3)
	isExtEndpoint := func(v ssa.Value) bool {
		ld, ok := v.(*ssa.UnOp)
		if !ok || ld.Op != token.MUL {
			return false
		}
		t, f, _, ok := FieldOf(ld.X)
		return ok && t == PkgHandlers+".ExternalConfig" && f == "Endpoint"
	}
	for _, fn := range c.P.ModuleFuncs(NonYaotl) {
		for _, b := range fn.Blocks {
			for _, in := range b.Instrs {
				switch x := in.(type) {
				case *ssa.Store:
					t, f, _, ok := FieldOf(x.Addr)
					if !ok || t != PkgServer+".Endpoint" || f != "Endpoint" {
						continue
					}
					if isExtEndpoint(x.Val) {
						c.R.Ok(rule, FuncShort(fn), "Endpoint.Endpoint = ExternalConfig.Endpoint", c.pos(x.Pos()), "registered under the configured endpoint", true)
					} else {
						c.R.Bad(rule, FuncShort(fn), "Endpoint.Endpoint = ExternalConfig.Endpoint", c.pos(x.Pos()), "the route is registered under "+DescribeValue(x.Val)+", not the listener's configured endpoint")
					}
				case ssa.CallInstruction:
					if CalleeName(x) != "(*Havoc/cmd/server.Teamserver).EndpointRemove" {
						continue
					}
					args := CallArgs(x)
					if len(args) == 1 && isExtEndpoint(args[0]) {
						c.R.Ok(rule, FuncShort(fn), "EndpointRemove(ExternalConfig.Endpoint)", c.pos(x.Pos()), "removed under the key it was registered with", true)
					} else {
						c.R.Bad(rule, FuncShort(fn), "EndpointRemove(ExternalConfig.Endpoint)", c.pos(x.Pos()), "the route is removed by a different key than the configured endpoint it was registered under: the endpoint keeps routing to the removed listener (or another listener's endpoint is dropped)")
					}
				}
			}
		}
	}
}

// R12RemoveIdempotent — removing what is not persisted is not an error.
func R12RemoveIdempotent(c *Ctx) {
	const rule = "R12-remove-idempotent"
	c.R.Rule(rule, "the db.*Remove functions return a non-nil error only when a database/sql call failed (every returned error value is the error result of a Prepare/Exec/Query call, or nil): Teamserver.ListenerRemove deletes the row first and gives up on an error, so a Remove that reports 'no such row' would make listeners that were never persisted (service and ExternalC2 listeners) impossible to remove", 3)
	for _, name := range []string{"DB.ListenerRemove", "DB.LinkRemove", "DB.AgentRemove"} {
		fn := c.P.Func(PkgDB, name)
		if fn == nil {
			c.R.Anchor(rule, "db.(*"+name+")")
			continue
		}
		bad := ""
		var at token.Pos = fn.Pos()
		for _, b := range fn.Blocks {
			if len(b.Instrs) == 0 {
				continue
			}
			ret, ok := b.Instrs[len(b.Instrs)-1].(*ssa.Return)
			if !ok || len(ret.Results) == 0 {
				continue
			}
			v := ret.Results[len(ret.Results)-1]
			seen := map[ssa.Value]bool{}
			depthOf := map[*ssa.Function]int{}
			var walk func(x ssa.Value)
			walk = func(x ssa.Value) {
				if seen[x] || bad != "" {
					return
				}
				seen[x] = true
				switch y := x.(type) {
				case *ssa.Const:
				case *ssa.Phi:
					for _, e := range y.Edges {
						walk(e)
					}
				case *ssa.Extract:
					if call, ok := y.Tuple.(*ssa.Call); ok && strings.Contains(CalleeName(call), "database/sql.") {
						return
					}
					if call, ok := y.Tuple.(*ssa.Call); ok {
						if h := call.Call.StaticCallee(); h != nil && h.Blocks != nil && FuncPkgPathOf(h) == PkgDB && depthOf[h] < 3 {
							// a package helper: its own error results
							depthOf[h]++
							for _, hb := range h.Blocks {
								if hr, ok := hb.Instrs[len(hb.Instrs)-1].(*ssa.Return); ok && y.Index < len(hr.Results) {
									walk(hr.Results[y.Index])
								}
							}
							return
						}
					}
					bad, at = "an error taken from "+DescribeValue(y.Tuple), ret.Pos()
				case *ssa.Call:
					if strings.Contains(CalleeName(y), "database/sql.") {
						return
					}
					if h := y.Call.StaticCallee(); h != nil && h.Blocks != nil && FuncPkgPathOf(h) == PkgDB && depthOf[h] < 3 {
						depthOf[h]++
						for _, hb := range h.Blocks {
							if hr, ok := hb.Instrs[len(hb.Instrs)-1].(*ssa.Return); ok && len(hr.Results) > 0 {
								walk(hr.Results[len(hr.Results)-1])
							}
						}
						return
					}
					bad, at = "an error made by "+CalleeName(y), ret.Pos()
				case *ssa.UnOp:
					if al, ok := y.X.(*ssa.Alloc); ok {
						for _, r := range *al.Referrers() {
							if st, ok := r.(*ssa.Store); ok && st.Addr == ssa.Value(al) {
								walk(st.Val)
							}
						}
						return
					}
					bad, at = "an error loaded from "+DescribeValue(y.X), ret.Pos()
				case *ssa.MakeInterface:
					bad, at = "a synthetic error value", ret.Pos()
				default:
					bad, at = "an error of unknown origin", ret.Pos()
				}
			}
			walk(v)
		}
		construct := "errors only from database/sql"
		if bad == "" {
			c.R.Ok(rule, FuncShort(fn), construct, c.pos(fn.Pos()), "every returned error is a database/sql error or nil", true)
		} else {
			c.R.Bad(rule, FuncShort(fn), construct, c.pos(at), "returns "+bad+": removing something that has no row now fails, and ListenerRemove then leaves the listener running, routed and advertised")
		}
	}
}

// R12PointerHandlers — a running listener sees edits of its configuration.
func R12PointerHandlers(c *Ctx) {
	const rule = "R12-pointer-handlers"
	c.R.Rule(rule, "every method of handlers.HTTP / handlers.External that reads the listener's Config has a pointer receiver: the request handler registered with the router is a bound method value, and with a value receiver it would bind a copy of the listener taken at start — ListenerEdit's in-place updates would never reach the next request", 3)
	pk := c.P.ByPath[PkgHandlers]
	if pk == nil {
		c.R.Anchor(rule, PkgHandlers)
		return
	}
	for _, f := range pk.Syntax {
		for _, d := range f.Decls {
			fd, ok := d.(*ast.FuncDecl)
			if !ok || fd.Recv == nil || fd.Body == nil || len(fd.Recv.List) != 1 {
				continue
			}
			rt := pk.TypesInfo.TypeOf(fd.Recv.List[0].Type)
			if rt == nil {
				continue
			}
			isPtr := false
			base := rt
			if p, ok := rt.(*types.Pointer); ok {
				isPtr, base = true, p.Elem()
			}
			n, ok := base.(*types.Named)
			if !ok || (n.Obj().Name() != "HTTP" && n.Obj().Name() != "External") {
				continue
			}
			readsConfig := false
			var recvName string
			if len(fd.Recv.List[0].Names) == 1 {
				recvName = fd.Recv.List[0].Names[0].Name
			}
			ast.Inspect(fd.Body, func(x ast.Node) bool {
				if sel, ok := x.(*ast.SelectorExpr); ok && sel.Sel.Name == "Config" {
					if id, ok := sel.X.(*ast.Ident); ok && id.Name == recvName {
						readsConfig = true
					}
				}
				return true
			})
			if !readsConfig {
				continue
			}
			construct := "method reading Config has a pointer receiver"
			if isPtr {
				c.R.Ok(rule, DeclShort(pk, fd), construct, c.pos(fd.Pos()), "operates on the listener itself", false)
			} else {
				c.R.Bad(rule, DeclShort(pk, fd), construct, c.pos(fd.Pos()), "value receiver: a method value of it (as registered with the router) works on a copy of the listener made when it was bound; later edits of the configuration are not seen by requests")
			}
		}
	}
}

// ownerCompare: cond contains `<entry>.client == <a parameter of fd>` (either order); the parameter is found
// by resolution, not by name.
func ownerCompare(pk *packages.Package, fd *ast.FuncDecl, cond ast.Expr) bool {
	params := map[types.Object]bool{}
	if fd.Type.Params != nil {
		for _, f := range fd.Type.Params.List {
			for _, n := range f.Names {
				if o := pk.TypesInfo.Defs[n]; o != nil {
					params[o] = true
				}
			}
		}
	}
	found := false
	ast.Inspect(cond, func(n ast.Node) bool {
		be, ok := n.(*ast.BinaryExpr)
		if !ok || be.Op != token.EQL {
			return true
		}
		for _, pr := range [][2]ast.Expr{{be.X, be.Y}, {be.Y, be.X}} {
			sel, ok1 := ast.Unparen(pr[0]).(*ast.SelectorExpr)
			id, ok2 := ast.Unparen(pr[1]).(*ast.Ident)
			if ok1 && ok2 && sel.Sel.Name == "client" && params[pk.TypesInfo.Uses[id]] {
				found = true
			}
		}
		return true
	})
	return found
}

// R12NameOfKind — the name tested for uniqueness is extracted for every kind of configuration that is started.
func R12NameOfKind(c *Ctx) {
	const rule = "R12-name-of-kind"
	c.R.Rule(rule, "in Teamserver.ListenerStart the requested name that is compared with the running listeners' names (inline, or handed to ListenerExist) is read out of `info` by type assertions/switch cases that cover every dynamic type the callers pass as `info`: a kind whose case is missing (or names a pointer type where values are passed) is tested with an empty name and duplicates are accepted", 3)
	ls := c.P.Func(PkgServer, "Teamserver.ListenerStart")
	if ls == nil || len(ls.Params) < 3 {
		c.R.Anchor(rule, "server.(*Teamserver).ListenerStart(ListenerType, info)")
		return
	}
	info := ls.Params[2]
	// dynamic types passed by the callers
	var dyn []types.Type
	unknown := 0
	if n := c.P.CHA().Nodes[ls]; n != nil {
		for _, e := range n.In {
			if e.Site == nil || len(e.Site.Common().Args) < 3 {
				continue
			}
			arg := e.Site.Common().Args[2]
			if e.Site.Common().IsInvoke() {
				arg = e.Site.Common().Args[1]
			}
			mi, ok := arg.(*ssa.MakeInterface)
			if !ok {
				unknown++
				continue
			}
			dup := false
			for _, d := range dyn {
				if types.Identical(d, mi.X.Type()) {
					dup = true
				}
			}
			if !dup {
				dyn = append(dyn, mi.X.Type())
			}
		}
	}
	if len(dyn) == 0 {
		c.R.Anchor(rule, "call sites of ListenerStart passing a concrete configuration")
		return
	}
	// the requested name in the uniqueness test
	var tested []ssa.Value
	for _, fn := range HelperClosure(ls, 1) {
		for _, b := range fn.Blocks {
			for _, in := range b.Instrs {
				switch x := in.(type) {
				case *ssa.Call:
					if strings.HasSuffix(CalleeName(x), registries[PkgServer+".Teamserver.Listeners"]) && fn == ls {
						args := CallArgs(x)
						if len(args) == 1 {
							tested = append(tested, args[0])
						}
					}
				case *ssa.BinOp:
					if x.Op != token.EQL || fn != ls {
						continue
					}
					isStored := func(v ssa.Value) bool {
						return DerivesFrom(v, IsFieldLoad(PkgServer+".Teamserver", "Listeners")) && DerivesFrom(v, IsFieldLoad("", "Name"))
					}
					switch {
					case isStored(x.X) && !isStored(x.Y):
						tested = append(tested, x.Y)
					case isStored(x.Y) && !isStored(x.X):
						tested = append(tested, x.X)
					}
				}
			}
		}
	}
	if len(tested) == 0 {
		c.R.Anchor(rule, "the comparison of the requested name with the running listeners in ListenerStart")
		return
	}
	// types asserted on `info` in the backward slice of the tested name
	var asserted []types.Type
	seen := map[ssa.Value]bool{}
	var walk func(v ssa.Value, depth int)
	walk = func(v ssa.Value, depth int) {
		if v == nil || seen[v] || depth > 40 {
			return
		}
		seen[v] = true
		switch x := v.(type) {
		case *ssa.TypeAssert:
			if os.Getenv("HV_DEBUG") != "" {
				fmt.Fprintf(os.Stderr, "name-of-kind: assert %v root=%v\n", x, c.RootParam(x.X, ls, 0))
			}
			if c.RootParam(x.X, ls, 0) == info {
				asserted = append(asserted, x.AssertedType)
			}
			walk(x.X, depth+1)
		case *ssa.Extract:
			walk(x.Tuple, depth+1)
		case *ssa.UnOp:
			walk(x.X, depth+1)
		case *ssa.FieldAddr:
			walk(x.X, depth+1)
		case *ssa.Field:
			walk(x.X, depth+1)
		case *ssa.ChangeType:
			walk(x.X, depth+1)
		case *ssa.Convert:
			walk(x.X, depth+1)
		case *ssa.MakeInterface:
			walk(x.X, depth+1)
		case *ssa.Phi:
			for _, e := range x.Edges {
				walk(e, depth+1)
			}
		case *ssa.Alloc:
			for _, r := range *x.Referrers() {
				if st, ok := r.(*ssa.Store); ok && st.Addr == ssa.Value(x) {
					walk(st.Val, depth+1)
				}
			}
		case *ssa.Call:
			if callee := x.Call.StaticCallee(); callee != nil && callee.Blocks != nil && c.P.InModule(FuncPkgPathOf(callee)) {
				for _, b := range callee.Blocks {
					if ret, ok := b.Instrs[len(b.Instrs)-1].(*ssa.Return); ok {
						for _, r := range ret.Results {
							walk(r, depth+1)
						}
					}
				}
			} else if x.Call.IsInvoke() {
				// a method of the configuration reached through an interface assertion
				walk(x.Call.Value, depth+1)
			}
		}
	}
	for _, v := range tested {
		walk(v, 0)
	}
	if os.Getenv("HV_DEBUG") != "" {
		fmt.Fprintf(os.Stderr, "name-of-kind: tested=%v asserted=%v dyn=%v\n", tested, asserted, dyn)
	}
	for _, d := range dyn {
		construct := "requested name of a " + types.TypeString(d, func(p *types.Package) string { return p.Name() })
		covered := false
		for _, a := range asserted {
			if types.Identical(a, d) {
				covered = true
			}
			if it, ok := a.Underlying().(*types.Interface); ok && types.Implements(d, it) {
				covered = true
			}
		}
		if covered {
			c.R.Ok(rule, FuncShort(ls), construct, c.pos(ls.Pos()), "the tested name is read from this kind of configuration", true)
		} else {
			c.R.Bad(rule, FuncShort(ls), construct, c.pos(tested[0].Pos()), "callers pass this type as info, but the name compared with the running listeners is never read from it (no assertion to this type feeds the test): the test runs with an empty name and a duplicate listener name is accepted")
		}
	}
	if unknown > 0 {
		c.R.Extra["R12-name-of-kind.unresolved_call_sites"] = unknown
	}
}

// R12RemoveWrites — an unregister function really shrinks the table it is named after.
func R12RemoveWrites(c *Ctx) {
	const rule = "R12-remove-writes"
	c.R.Rule(rule, "Teamserver.EndpointRemove (with its helpers) stores the shrunk list back into t.Endpoints, or every caller assigns its result to t.Endpoints: a removal computed on a local slice and dropped leaves the route of a removed listener registered", 1)
	type row struct{ fn, typ, field string }
	for _, r := range []row{{"Teamserver.EndpointRemove", PkgServer + ".Teamserver", "Endpoints"}} {
		fn := c.P.Func(PkgServer, r.fn)
		if fn == nil {
			c.R.Anchor(rule, "server.(*"+strings.Replace(r.fn, ".", ").", 1))
			continue
		}
		storesField := func(f *ssa.Function, val func(ssa.Value) bool) bool {
			found := false
			for _, b := range f.Blocks {
				for _, in := range b.Instrs {
					if st, ok := in.(*ssa.Store); ok {
						if t, fl, _, ok := FieldOf(st.Addr); ok && t == r.typ && fl == r.field && (val == nil || val(st.Val)) {
							found = true
						}
					}
				}
			}
			return found
		}
		inside := false
		for _, h := range HelperClosure(fn, 2) {
			if storesField(h, nil) {
				inside = true
			}
		}
		construct := "t." + r.field + " = <list without the entry>"
		if inside {
			c.R.Ok(rule, FuncShort(fn), construct, c.pos(fn.Pos()), "the function writes the table", true)
			continue
		}
		byCallers := c.EveryCallSite(fn, func(site ssa.CallInstruction) bool {
			v := site.Value()
			if v == nil {
				return false
			}
			return storesField(site.Parent(), func(x ssa.Value) bool { return x == ssa.Value(v) })
		})
		if byCallers {
			c.R.Ok(rule, FuncShort(fn), construct, c.pos(fn.Pos()), "every caller stores the result into the table", true)
		} else {
			c.R.Bad(rule, FuncShort(fn), construct, c.pos(fn.Pos()), "neither the function nor all of its callers store the shrunk list into t."+r.field+": the removed entry stays registered (its route keeps being served and its name stays taken)")
		}
	}
}

// R12StartBeforeRegister — a listener whose start can fail is registered only after it started.
func R12StartBeforeRegister(c *Ctx) {
	const rule = "R12-start-before-register"
	c.R.Rule(rule, "where a function both calls a listener's Start method that reports an error and appends to t.Listeners, the append comes after the call on the path where it returned nil; an append that precedes the call is accepted only when the failure edge removes the entry again — otherwise a listener whose start failed stays registered with its name taken", 1)
	n := 0
	for _, fn := range c.P.ModuleFuncs(NonYaotl) {
		var grows []*ssa.Store
		var starts []*ssa.Call
		for _, b := range fn.Blocks {
			for _, in := range b.Instrs {
				switch x := in.(type) {
				case *ssa.Store:
					if t, f, _, ok := FieldOf(x.Addr); ok && t == PkgServer+".Teamserver" && f == "Listeners" {
						if ap, isApp := x.Val.(*ssa.Call); isApp && CalleeName(ap) == "builtin.append" {
							if _, isSlice := ap.Call.Args[0].(*ssa.Slice); !isSlice {
								grows = append(grows, x)
							}
						}
					}
				case *ssa.Call:
					name := ""
					if x.Call.IsInvoke() {
						name = x.Call.Method.Name()
					} else if cal := x.Call.StaticCallee(); cal != nil && cal.Signature.Recv() != nil {
						name = cal.Name()
					}
					res := x.Call.Signature().Results()
					if name == "Start" && res.Len() == 1 && res.At(0).Type().String() == "error" {
						starts = append(starts, x)
					}
				}
			}
		}
		for _, st := range grows {
			for _, s := range starts {
				n++
				construct := "Start() == nil before Listeners = append(Listeners, …)"
				after := InstrDominates(s, st)
				guarded := false
				for _, f := range FactsAt(st.Block()) {
					if bo, ok := f.Cond.(*ssa.BinOp); ok && (isNilConst(bo.X) || isNilConst(bo.Y)) {
						v := bo.X
						if isNilConst(bo.X) {
							v = bo.Y
						}
						if DerivesFromNarrowCalls(v, func(x ssa.Value) bool { return x == ssa.Value(s) }) && ((bo.Op == token.EQL) == f.Truth) {
							guarded = true
						}
					}
				}
				switch {
				case after && guarded:
					c.R.Ok(rule, FuncShort(fn), construct, c.pos(st.Pos()), "registered on the path where Start returned nil", true)
				case !BlockReaches(st.Block(), s.Block(), nil) && !BlockReaches(s.Block(), st.Block(), nil):
					n-- // unrelated branches
				default:
					// registered first (or regardless of the outcome): the failure edge must undo it
					undone := false
					for _, b := range fn.Blocks {
						failEdge := false
						for _, f := range FactsAt(b) {
							if bo, ok := f.Cond.(*ssa.BinOp); ok && (isNilConst(bo.X) || isNilConst(bo.Y)) {
								v := bo.X
								if isNilConst(bo.X) {
									v = bo.Y
								}
								if DerivesFromNarrowCalls(v, func(x ssa.Value) bool { return x == ssa.Value(s) }) && ((bo.Op == token.NEQ) == f.Truth) {
									failEdge = true
								}
							}
						}
						if !failEdge {
							continue
						}
						for _, in := range b.Instrs {
							if x, ok := in.(*ssa.Store); ok {
								if t, f, _, ok := FieldOf(x.Addr); ok && t == PkgServer+".Teamserver" && f == "Listeners" {
									undone = true
								}
							}
							if ci, ok := in.(ssa.CallInstruction); ok && strings.HasSuffix(CalleeName(ci), ".ListenerRemove") {
								undone = true
							}
						}
					}
					if undone {
						c.R.Ok(rule, FuncShort(fn), construct, c.pos(st.Pos()), "registered before the start, and unregistered again on the failure edge", true)
					} else {
						c.R.Bad(rule, FuncShort(fn), construct, c.pos(st.Pos()), "the listener is appended to t.Listeners before (or regardless of) the outcome of its Start call and the failure path does not remove it: a listener that failed to start stays in the running set and its name cannot be used again")
					}
				}
			}
		}
	}
	if n == 0 {
		c.R.Anchor(rule, "a function that calls an error-returning Start and appends to t.Listeners")
	}
}

// R12ExistAllKinds — the name test that guards registrations sees listeners of every kind.
func R12ExistAllKinds(c *Ctx) {
	const rule = "R12-exist-all-kinds"
	c.R.Rule(rule, "Teamserver.ListenerExist (with the helpers it calls) decides by the listeners' names alone: nothing it executes asserts the dynamic type of a listener's Config or compares its Type — an existence test built on a per-kind accessor answers false for the kinds that accessor does not know, and a second listener of that name is accepted", 1)
	fn := c.P.Func(PkgServer, "Teamserver.ListenerExist")
	if fn == nil {
		c.R.Anchor(rule, "server.(*Teamserver).ListenerExist")
		return
	}
	bad := ""
	for _, f := range HelperClosure(fn, 2) {
		for _, b := range f.Blocks {
			for _, in := range b.Instrs {
				switch x := in.(type) {
				case *ssa.TypeAssert:
					if DerivesFrom(x.X, IsFieldLoad(PkgServer+".Listener", "Config")) {
						bad = c.pos(x.Pos())
					}
				case *ssa.BinOp:
					if (x.Op == token.EQL || x.Op == token.NEQ) && (DerivesFromNarrowCalls(x.X, IsFieldLoad(PkgServer+".Listener", "Type")) || DerivesFromNarrowCalls(x.Y, IsFieldLoad(PkgServer+".Listener", "Type"))) {
						bad = c.pos(x.Pos())
					}
				}
			}
		}
	}
	construct := "ListenerExist depends on names only"
	if bad == "" {
		c.R.Ok(rule, FuncShort(fn), construct, c.pos(fn.Pos()), "no kind-specific test on the way to the answer", true)
	} else {
		c.R.Bad(rule, FuncShort(fn), construct, bad, "the existence test goes through code that distinguishes listener kinds: a kind it does not handle is reported as absent and its name can be registered twice")
	}
}
