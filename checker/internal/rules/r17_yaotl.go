package rules

import (
	"go/ast"
	"go/types"
	"reflect"
	"sort"
	"strings"

	"golang.org/x/tools/go/ssa"

	"hv/internal/core"
)

// profileStructs returns the named struct types reachable from profile.HavocConfig.
func (c *Ctx) profileStructs() []*types.Named {
	pk := c.P.ByPath[PkgProfile]
	if pk == nil {
		return nil
	}
	root, ok := pk.Types.Scope().Lookup("HavocConfig").(*types.TypeName)
	if !ok {
		return nil
	}
	seen := map[*types.Named]bool{}
	var out []*types.Named
	var visit func(t types.Type)
	visit = func(t types.Type) {
		switch x := t.(type) {
		case *types.Pointer:
			visit(x.Elem())
		case *types.Slice:
			visit(x.Elem())
		case *types.Map:
			visit(x.Elem())
		case *types.Named:
			st, ok := x.Underlying().(*types.Struct)
			if !ok || seen[x] || x.Obj().Pkg() == nil || x.Obj().Pkg().Path() != PkgProfile {
				return
			}
			seen[x] = true
			out = append(out, x)
			for i := 0; i < st.NumFields(); i++ {
				visit(st.Field(i).Type())
			}
		}
	}
	visit(root.Type())
	return out
}

func decodableAttr(t types.Type) bool {
	switch x := t.Underlying().(type) {
	case *types.Basic:
		return x.Info()&(types.IsString|types.IsBoolean|types.IsInteger|types.IsFloat) != 0
	case *types.Slice:
		return decodableAttr(x.Elem())
	case *types.Map:
		k, ok := x.Key().Underlying().(*types.Basic)
		return ok && k.Info()&types.IsString != 0 && decodableAttr(x.Elem())
	case *types.Pointer:
		return decodableAttr(x.Elem())
	}
	return false
}

func blockType(t types.Type) bool {
	switch x := t.Underlying().(type) {
	case *types.Struct:
		return true
	case *types.Pointer:
		_, ok := x.Elem().Underlying().(*types.Struct)
		return ok
	case *types.Slice:
		return blockType(x.Elem())
	}
	return false
}

// R17 — the profile schema is well-formed.
func R17YaotlTags(c *Ctx) {
	const rule = "R17-yaotl-tags"
	c.R.Rule(rule, "every struct reachable from profile.HavocConfig: each exported field carries a yaotl tag whose kind is one of attr/optional/block/label/remain/body (anything else makes gohcl panic at load), names are unique within the struct, block fields are struct/*struct/[]struct/[]*struct, label fields are strings, attribute fields have types gocty can decode, at most one remain and one body", 30)
	structs := c.profileStructs()
	if len(structs) < 10 {
		c.R.Anchor(rule, "struct types reachable from profile.HavocConfig (found "+itoa(len(structs))+")")
		return
	}
	sort.Slice(structs, func(i, j int) bool { return structs[i].Obj().Pos() < structs[j].Obj().Pos() })
	for _, n := range structs {
		st := n.Underlying().(*types.Struct)
		names := map[string]string{}
		nRemain, nBody := 0, 0
		for i := 0; i < st.NumFields(); i++ {
			f := st.Field(i)
			where := n.Obj().Name() + "." + f.Name()
			tag := reflect.StructTag(st.Tag(i)).Get("yaotl")
			if tag == "" {
				if f.Exported() {
					c.R.Bad(rule, "profile."+n.Obj().Name(), "field "+where, c.pos(f.Pos()), "exported field without a yaotl tag: the decoder skips it, so the setting can never be loaded from a profile (and a profile that sets it is rejected as unknown attribute)")
				}
				continue
			}
			name, kind := tag, "attr"
			if k := strings.Index(tag, ","); k >= 0 {
				name, kind = tag[:k], tag[k+1:]
			}
			construct := "field " + where + " `yaotl:\"" + tag + "\"`"
			var problems []string
			switch kind {
			case "attr", "optional":
				if !decodableAttr(f.Type()) {
					problems = append(problems, "attribute of type "+f.Type().String()+" cannot be decoded from a yaotl value")
				}
			case "block":
				if !blockType(f.Type()) {
					problems = append(problems, "block field of type "+f.Type().String()+" (must be struct, *struct, []struct or []*struct)")
				}
			case "label":
				if b, ok := f.Type().Underlying().(*types.Basic); !ok || b.Info()&types.IsString == 0 {
					problems = append(problems, "label field must be a string")
				}
			case "remain":
				nRemain++
			case "body":
				nBody++
			default:
				problems = append(problems, "tag kind \""+kind+"\" is not one of attr/optional/block/label/remain/body: gohcl panics when the profile is loaded")
			}
			if kind == "attr" || kind == "optional" || kind == "block" {
				if prev, dup := names[name]; dup {
					problems = append(problems, "name \""+name+"\" is also used by field "+prev+": only one of them is ever set")
				}
				names[name] = f.Name()
			}
			if nRemain > 1 || nBody > 1 {
				problems = append(problems, "more than one remain/body field: gohcl panics")
			}
			if len(problems) == 0 {
				c.R.Ok(rule, "profile."+n.Obj().Name(), construct, c.pos(f.Pos()), "well-formed", kind != "attr")
			} else {
				c.R.Bad(rule, "profile."+n.Obj().Name(), construct, c.pos(f.Pos()), strings.Join(problems, "; "))
			}
		}
	}
}

// R17Consumers — optional profile blocks are nil-tested where they are used.
func R17Consumers(c *Ctx) {
	// every pointer-typed block field of the profile structs is optional
	opt := map[string]bool{}
	for _, n := range c.profileStructs() {
		st := n.Underlying().(*types.Struct)
		for i := 0; i < st.NumFields(); i++ {
			if _, isPtr := st.Field(i).Type().Underlying().(*types.Pointer); isPtr {
				opt[PkgProfile+"."+n.Obj().Name()+"."+st.Field(i).Name()] = true
			}
		}
	}
	// blocks that SetProfile replaces by an empty struct when the profile omits them are never nil afterwards
	if sp0 := c.P.Func(PkgProfile, "Profile.SetProfile"); sp0 != nil {
		// the normalisation may sit in SetProfile itself or in an unexported helper it calls unconditionally
		for _, sp := range HelperClosure(sp0, 2) {
			if sp != sp0 {
				// the helper must be called on SetProfile's success path: a call site in SetProfile's closure exists
				called := false
				for _, f := range HelperClosure(sp0, 2) {
					EachCall(f, func(call ssa.CallInstruction) {
						if call.Common().StaticCallee() == sp {
							called = true
						}
					})
				}
				if !called {
					continue
				}
			}
			for _, b := range sp.Blocks {
				for _, in := range b.Instrs {
					st, ok := in.(*ssa.Store)
					if !ok {
						continue
					}
					t, f, _, ok := FieldOf(st.Addr)
					if !ok || !opt[t+"."+f] {
						continue
					}
					if _, isNew := st.Val.(*ssa.Alloc); !isNew {
						continue
					}
					// under `field == nil`, and the store's block joins into every later use: it is in the function's main line
					under := false
					for _, fct := range FactsAt(b) {
						if bo, ok := fct.Cond.(*ssa.BinOp); ok && (isNilConst(bo.X) || isNilConst(bo.Y)) && DerivesFrom(bo.X, IsFieldLoad(t, f)) {
							under = true
						}
					}
					// only on the success path (after the decode error was tested)
					if under {
						delete(opt, t+"."+f)
						c.R.Ok("R1-nil-profile-blocks", FuncShort(sp), "normalise omitted block "+f, c.pos(st.Pos()), "an omitted "+f+" block is replaced by an empty one right after decoding", true)
					}
				}
			}
		}
	}
	var scope []*ssa.Function
	for _, fn := range c.P.ModuleFuncs(NonYaotl) {
		if core.FuncPkgPath(fn) == PkgProfile+"/x" {
			continue
		}
		scope = append(scope, fn)
	}
	R1NilOpt(c, scope, "-profile-blocks", 5, func(tf string) bool { return opt[tf] }, false)
	_ = ast.NewIdent
}
