package rules

import (
	"go/ast"
	"go/token"
	"go/types"
	"strings"

	"golang.org/x/tools/go/packages"
	"golang.org/x/tools/go/ssa"

	"hv/internal/core"
)

// R13 — the operator event stream.
func R13EventLog(c *Ctx) {
	const rule = "R13-eventlog"
	c.R.Rule(rule, "EventAppend retains an event exactly once and only when it is not one-shot; only ListenerRemove/EventRemove shrink the retained list; SendAllPackagesToNewClient replays the retained list in index order and then the live sessions (skipping inactive ones); SendEvent writes exactly one frame per call while holding the client's mutex; EventBroadcast skips the excluded client", 5)
	ea := c.P.Func(PkgServer, "Teamserver.EventAppend")
	sa := c.P.Func(PkgServer, "Teamserver.SendAllPackagesToNewClient")
	se := c.P.Func(PkgServer, "Teamserver.SendEvent")
	eb := c.P.Func(PkgServer, "Teamserver.EventBroadcast")
	if ea == nil || sa == nil || se == nil || eb == nil {
		c.R.Anchor(rule, "server.(*Teamserver).EventAppend / SendAllPackagesToNewClient / SendEvent / EventBroadcast")
		return
	}
	// --- EventAppend
	nStore := 0
	for _, b := range ea.Blocks {
		for _, in := range b.Instrs {
			st, ok := in.(*ssa.Store)
			if !ok || !isEventsList(st.Addr) {
				continue
			}
			nStore++
			okVal := false
			if ap, ok := st.Val.(*ssa.Call); ok && CalleeName(ap) == "builtin.append" {
				if l, ok := ap.Call.Args[0].(*ssa.UnOp); ok && l.Op == token.MUL && isEventsList(l.X) {
					if DerivesFrom(ap.Call.Args[1], func(v ssa.Value) bool { return IsParam(v, ea.Params[1]) }) {
						okVal = true
					}
				}
			}
			notOneShot := false
			for _, f := range FactsAt(b) {
				bo, ok := f.Cond.(*ssa.BinOp)
				if !ok {
					continue
				}
				if s, isC := ConstString(bo.Y); isC && s == "true" && DerivesFrom(bo.X, IsFieldLoad(PkgPackager+".Head", "OneTime")) {
					if (bo.Op == token.NEQ && f.Truth) || (bo.Op == token.EQL && !f.Truth) {
						notOneShot = true
					}
				}
			}
			// not in a loop
			inLoop := blockInCycle(b)
			if okVal && notOneShot && !inLoop {
				c.R.Ok(rule, FuncShort(ea), "t.EventsList = append(t.EventsList, event)", c.pos(st.Pos()), "appends its argument once, only when OneTime != \"true\"", true)
			} else {
				c.R.Bad(rule, FuncShort(ea), "t.EventsList = append(t.EventsList, event)", c.pos(st.Pos()), "the retained list is not grown by exactly the event on exactly the not-one-shot path (append of the argument: "+yn(okVal)+", under OneTime != \"true\": "+yn(notOneShot)+", outside a loop: "+yn(!inLoop)+")")
			}
		}
	}
	if nStore != 1 {
		c.R.Bad(rule, FuncShort(ea), "stores to t.EventsList", c.pos(ea.Pos()), "EventAppend stores to the retained list "+itoa(nStore)+" times (an event must be retained exactly once)")
	}
	// --- who may shrink EventsList
	for _, fn := range c.P.ModuleFuncs(NonYaotl) {
		for _, b := range fn.Blocks {
			for _, in := range b.Instrs {
				st, ok := in.(*ssa.Store)
				if !ok || !isEventsList(st.Addr) || fn == ea {
					continue
				}
				name := FuncShort(fn)
				if why := eventSplice(st.Val); why == "" {
					c.R.Ok(rule, name, "t.EventsList = append(t.EventsList[:i], t.EventsList[i+1:]...)", c.pos(st.Pos()), "removal of exactly one retained event, order of the others kept", true)
				} else {
					c.R.Bad(rule, name, "t.EventsList = …", c.pos(st.Pos()), "the retained event list is rewritten by something other than the append in EventAppend or a one-element splice ("+why+"): operators connecting later miss, or get twice, events")
				}
			}
		}
	}
	// an append onto a prefix of the retained list overwrites the entries behind it in place:
	// its result must become the list (and nothing else)
	for _, fn := range c.P.ModuleFuncs(NonYaotl) {
		for _, b := range fn.Blocks {
			for _, in := range b.Instrs {
				call, ok := in.(*ssa.Call)
				if !ok || CalleeName(call) != "builtin.append" || len(call.Call.Args) == 0 {
					continue
				}
				sl, ok := call.Call.Args[0].(*ssa.Slice)
				if !ok {
					continue
				}
				ld, ok := sl.X.(*ssa.UnOp)
				if !ok || !isEventsList(ld.X) {
					continue
				}
				stored := 0
				other := 0
				for _, r := range *call.Referrers() {
					if st, ok := r.(*ssa.Store); ok && isEventsList(st.Addr) && st.Val == ssa.Value(call) {
						stored++
					} else if _, isDbg := r.(*ssa.DebugRef); !isDbg {
						other++
					}
				}
				construct := "append(t.EventsList[:i], …) becomes t.EventsList"
				if stored == 1 && other == 0 {
					c.R.Ok(rule, FuncShort(fn), construct, c.pos(call.Pos()), "the in-place splice is assigned back to the list and used nowhere else", true)
				} else {
					c.R.Bad(rule, FuncShort(fn), construct, c.pos(call.Pos()), "an append onto a prefix of the retained list shifts the shared backing array but its result is not (only) assigned back to t.EventsList: a retained event is overwritten and the last one duplicated")
				}
			}
		}
	}
	// --- SendAllPackagesToNewClient: AST shape
	fd, pk := c.P.FuncDecl(PkgServer, "Teamserver.SendAllPackagesToNewClient")
	if fd != nil {
		var ranges []*ast.RangeStmt
		for _, st := range fd.Body.List {
			if r, ok := st.(*ast.RangeStmt); ok {
				ranges = append(ranges, r)
			}
		}
		okShape := len(ranges) == 2 && strings.HasSuffix(ExprStr(ranges[0].X), ".EventsList") && strings.HasSuffix(ExprStr(ranges[1].X), ".Agents.Agents")
		if okShape {
			// first loop sends the ranged element to the function's client id
			sendsElem := func(r *ast.RangeStmt, viaNew bool) bool {
				found := false
				ast.Inspect(r.Body, func(n ast.Node) bool {
					call, ok := n.(*ast.CallExpr)
					if !ok || FullName(Callee(pk.TypesInfo, call)) != PkgServer+".Teamserver.SendEvent" || len(call.Args) != 2 {
						return true
					}
					if id, ok := call.Args[0].(*ast.Ident); ok && id.Name == fd.Type.Params.List[0].Names[0].Name {
						if !viaNew {
							if v, ok := r.Value.(*ast.Ident); ok {
								if a, ok := call.Args[1].(*ast.Ident); ok && a.Name == v.Name {
									found = true
								}
							}
						} else {
							found = true
						}
					}
					return true
				})
				return found
			}
			skipsInactive := false
			ast.Inspect(ranges[1].Body, func(n ast.Node) bool {
				if ifs, ok := n.(*ast.IfStmt); ok && strings.Contains(ExprStr(ifs.Cond), ".Active") {
					for _, s := range ifs.Body.List {
						if br, ok := s.(*ast.BranchStmt); ok && br.Tok == token.CONTINUE {
							skipsInactive = true
						}
					}
				}
				return true
			})
			if sendsElem(ranges[0], false) && sendsElem(ranges[1], true) && skipsInactive && ranges[0].Key != nil {
				c.R.Ok(rule, DeclShort(pk, fd), "replay: range EventsList → SendEvent; then range Agents (skip !Active) → SendEvent", c.pos(fd.Pos()), "retained events are replayed in index order before the live sessions", true)
			} else {
				okShape = false
			}
		}
		if !okShape {
			c.R.Bad(rule, DeclShort(pk, fd), "replay: range EventsList → SendEvent; then range Agents (skip !Active) → SendEvent", c.pos(fd.Pos()), "the replay no longer sends every retained event in index order to the new client followed by the active sessions")
		}
	}
	// --- SendEvent: one WriteMessage under the mutex
	nWrite := 0
	pkSE := c.P.ByPath[PkgServer]
	var writeFn *ssa.Function
	for _, wf := range HelperClosure(se, 2) {
		wf := wf
		EachCall(wf, func(call ssa.CallInstruction) {
			n := CalleeName(call)
			if n == "(*github.com/gorilla/websocket.Conn).WriteMessage" || n == "(*github.com/gorilla/websocket.Conn).WriteJSON" {
				nWrite++
				writeFn = wf
				if blockInCycle(call.Block()) {
					nWrite += 100
				}
			}
		})
	}
	// the mutex is held at the write: in the function that writes, or — when the write sits in a helper — at the
	// call of that helper in SendEvent
	heldAt := func(fn *ssa.Function, calleeName string) bool {
		fd, ok := fn.Syntax().(*ast.FuncDecl)
		if !ok || fd.Body == nil || pkSE == nil {
			return false
		}
		lu := c.AnalyseLocks(pkSE, fd, fd.Body, fn.Name())
		if lu == nil {
			return false
		}
		for node, must := range lu.MustAt {
			found := false
			ast.Inspect(node, func(n ast.Node) bool {
				if ce, ok := n.(*ast.CallExpr); ok {
					if f := Callee(pkSE.TypesInfo, ce); f != nil && f.Name() == calleeName {
						found = true
					}
				}
				return true
			})
			if found {
				for k := range must {
					if strings.HasSuffix(k, ".Mutex") {
						return true
					}
				}
			}
		}
		return false
	}
	heldAtWrite := false
	if writeFn != nil {
		heldAtWrite = heldAt(writeFn, "WriteMessage")
		if !heldAtWrite && writeFn != se {
			heldAtWrite = heldAt(se, writeFn.Name())
		}
	}
	if nWrite == 1 && heldAtWrite {
		c.R.Ok(rule, FuncShort(se), "one WriteMessage under client.Mutex", c.pos(se.Pos()), "one whole frame per event, serialised per client", true)
	} else {
		c.R.Bad(rule, FuncShort(se), "one WriteMessage under client.Mutex", c.pos(se.Pos()), "SendEvent does not write exactly one frame per call while holding the client's mutex (writes: "+itoa(nWrite)+", mutex held: "+yn(heldAtWrite)+"): frames of concurrent broadcasters interleave or an event is split/duplicated")
	}
	// --- EventBroadcast exclusion
	exOK := false
	for _, an := range eb.AnonFuncs {
		EachCall(an, func(call ssa.CallInstruction) {
			if !sendsEvent(call) {
				return
			}
			for _, f := range FactsAtDeep(call.Block()) {
				bo, ok := f.Cond.(*ssa.BinOp)
				if !ok || !((bo.Op == token.NEQ && f.Truth) || (bo.Op == token.EQL && !f.Truth)) {
					continue
				}
				// ExceptClient (free variable) compared with the ranged key
				isEx := func(v ssa.Value) bool {
					return DerivesFrom(v, func(w ssa.Value) bool {
						// the captured string parameter of EventBroadcast (its only string parameter), not matched by name
						fv, ok := w.(*ssa.FreeVar)
						if !ok {
							return false
						}
						bt, isB := fv.Type().Underlying().(*types.Pointer)
						if isB {
							if sb, ok := bt.Elem().Underlying().(*types.Basic); ok && sb.Kind() == types.String {
								return true
							}
							return false
						}
						sb, ok2 := fv.Type().Underlying().(*types.Basic)
						return ok2 && sb.Kind() == types.String
					})
				}
				isKey := func(v ssa.Value) bool {
					return DerivesFrom(v, func(w ssa.Value) bool { return len(an.Params) > 0 && w == ssa.Value(an.Params[0]) })
				}
				if (isEx(bo.X) && isKey(bo.Y)) || (isEx(bo.Y) && isKey(bo.X)) {
					exOK = true
				}
			}
		})
	}
	if exOK {
		c.R.Ok(rule, FuncShort(eb), "SendEvent under ExceptClient != key", c.pos(eb.Pos()), "the excluded operator is skipped, everybody else is sent to", true)
	} else {
		c.R.Bad(rule, FuncShort(eb), "SendEvent under ExceptClient != key", c.pos(eb.Pos()), "the fan-out no longer skips exactly the excluded client")
	}
	_ = packages.NeedName
	_ = core.Discharged
}

func yn(b bool) string {
	if b {
		return "yes"
	}
	return "no"
}

// R13Deadline — a stalled operator must not block the others: writes to operator
// sockets made while a lock is held need a write deadline.
func R13Deadline(c *Ctx) {
	const rule = "R13-write-deadline"
	c.R.Rule(rule, "every websocket write on the broadcast path (SendEvent) is preceded, on the same connection, by SetWriteDeadline: a stalled peer makes the write fail instead of blocking the sequential fan-out and the agent request behind it", 1)
	se := c.P.Func(PkgServer, "Teamserver.SendEvent")
	if se == nil {
		c.R.Anchor(rule, "server.(*Teamserver).SendEvent")
		return
	}
	// the write (and its deadline) may have been moved into an unexported helper of SendEvent
	for _, wf := range HelperClosure(se, 2) {
		wf := wf
		EachCall(wf, func(call ssa.CallInstruction) {
			if CalleeName(call) != "(*github.com/gorilla/websocket.Conn).WriteMessage" {
				return
			}
			conn := call.Common().Args[0]
			ok := false
			EachCall(wf, func(c2 ssa.CallInstruction) {
				if CalleeName(c2) == "(*github.com/gorilla/websocket.Conn).SetWriteDeadline" && InstrDominates(c2, call) {
					if AccessPath(c2.Common().Args[0]) == AccessPath(conn) {
						ok = true
					}
				}
			})
			construct := "client.Connection.WriteMessage(…) without SetWriteDeadline"
			if ok {
				c.R.Ok(rule, FuncShort(se), "client.Connection.WriteMessage(…) with SetWriteDeadline", c.pos(call.Pos()), "a stalled peer times out", true)
			} else {
				c.R.Bad(rule, FuncShort(se), construct, c.pos(call.Pos()), "the write has no deadline: an operator whose connection stalls (peer stops reading) blocks this write indefinitely while holding its mutex; EventBroadcast is sequential, so every other operator and the agent request that triggered the broadcast wait behind it")
			}
		})
	}
}

// eventSplice reports "" when v is append(L[:i], L[i+1:]...) over the retained list L.
func eventSplice(v ssa.Value) string {
	call, ok := v.(*ssa.Call)
	if !ok || CalleeName(call) != "builtin.append" || len(call.Call.Args) != 2 {
		return "not an append"
	}
	a, ok1 := call.Call.Args[0].(*ssa.Slice)
	b, ok2 := call.Call.Args[1].(*ssa.Slice)
	if !ok1 || !ok2 {
		return "not a splice of two sub-slices"
	}
	la, ok1 := a.X.(*ssa.UnOp)
	lb, ok2 := b.X.(*ssa.UnOp)
	if !ok1 || !ok2 || !isEventsList(la.X) || !isEventsList(lb.X) {
		return "the sub-slices are not taken from the retained list"
	}
	if a.Low != nil || a.High == nil || b.High != nil || b.Low == nil {
		return "not prefix [:i] plus suffix [i+1:]"
	}
	bo, ok := b.Low.(*ssa.BinOp)
	if !ok || bo.Op != token.ADD {
		return "suffix does not start at i+1"
	}
	if n, ok := ConstInt(bo.Y); !ok || n != 1 || bo.X != a.High {
		return "suffix does not start at i+1 for the prefix's i"
	}
	return ""
}

func isEventsList(addr ssa.Value) bool {
	t, f, _, ok := FieldOf(addr)
	return ok && t == PkgServer+".Teamserver" && f == "EventsList"
}

// R13Regenerated — what the replay regenerates is not retained as well.
func R13Regenerated(c *Ctx) {
	const rule = "R13-regenerated-onetime"
	c.R.Rule(rule, "every event that SendAllPackagesToNewClient regenerates for a new operator from live state (the new-session announcement of each active agent) is built by a constructor that marks it one-time on every path (Head.OneTime = \"true\"), so EventAppend never retains it: otherwise a later operator gets it twice, or still gets it for a session that has died", 1)
	sa := c.P.Func(PkgServer, "Teamserver.SendAllPackagesToNewClient")
	if sa == nil {
		c.R.Anchor(rule, "server.(*Teamserver).SendAllPackagesToNewClient")
		return
	}
	// constructors reachable (static calls, module only, depth 3) from the calls in SendAllPackagesToNewClient
	// whose result type is packager.Package
	seen := map[*ssa.Function]bool{}
	var ctors []*ssa.Function
	var visit func(fn *ssa.Function, depth int)
	visit = func(fn *ssa.Function, depth int) {
		if seen[fn] || depth > 3 || fn.Blocks == nil {
			return
		}
		seen[fn] = true
		EachCall(fn, func(call ssa.CallInstruction) {
			callee := call.Common().StaticCallee()
			if callee == nil || !c.P.InModule(FuncPkgPathOf(callee)) {
				return
			}
			if strings.HasSuffix(CalleeName(call), ".SendEvent") {
				return
			}
			res := callee.Signature.Results()
			if res.Len() == 1 && strings.HasSuffix(res.At(0).Type().String(), "packager.Package") {
				if FuncPkgPathOf(callee) == "Havoc/pkg/events" {
					ctors = append(ctors, callee)
					return
				}
				visit(callee, depth+1)
			}
		})
	}
	visit(sa, 0)
	if len(ctors) == 0 {
		c.R.Anchor(rule, "an events.* constructor used by the replay of live sessions")
		return
	}
	for _, ctor := range ctors {
		marked := false
		for _, b := range ctor.Blocks {
			for _, in := range b.Instrs {
				st, ok := in.(*ssa.Store)
				if !ok {
					continue
				}
				if _, f, _, ok := FieldOf(st.Addr); ok && f == "OneTime" {
					if s, isC := ConstString(st.Val); isC && s == "true" {
						// on every path: the block dominates every return
						all := true
						for _, rb := range ctor.Blocks {
							if len(rb.Instrs) > 0 {
								if _, isRet := rb.Instrs[len(rb.Instrs)-1].(*ssa.Return); isRet && !b.Dominates(rb) {
									all = false
								}
							}
						}
						if all {
							marked = true
						}
					}
				}
			}
		}
		construct := "regenerated event built one-time"
		if marked {
			c.R.Ok(rule, FuncShort(ctor), construct, c.pos(ctor.Pos()), "Head.OneTime = \"true\" on every path", true)
		} else {
			c.R.Bad(rule, FuncShort(ctor), construct, c.pos(ctor.Pos()), "the replay regenerates this event from live state but its constructor does not mark it one-time: EventAppend retains every instance and a later operator receives the session twice — and still as new after it died")
		}
	}
}

// sendsEvent: the call is Teamserver.SendEvent, or a helper of cmd/server that passes one of its parameters on as
// the destination of a SendEvent call.
func sendsEvent(call ssa.CallInstruction) bool {
	if CalleeName(call) == "(*Havoc/cmd/server.Teamserver).SendEvent" {
		return true
	}
	h := call.Common().StaticCallee()
	if h == nil || h.Blocks == nil || FuncPkgPathOf(h) != PkgServer {
		return false
	}
	found := false
	EachCall(h, func(hc ssa.CallInstruction) {
		if CalleeName(hc) != "(*Havoc/cmd/server.Teamserver).SendEvent" {
			return
		}
		args := CallArgs(hc)
		if len(args) == 2 {
			if _, isP := args[0].(*ssa.Parameter); isP {
				found = true
			}
		}
	})
	return found
}
