package rules

import (
	"go/ast"
	"go/token"
	"go/types"

	"golang.org/x/tools/go/cfg"
	"golang.org/x/tools/go/packages"
)

// RangeRemoval is one `X = append(X[:i], X[i+1:]...)`-style shrink of the
// slice being ranged over.
type RangeRemoval struct {
	Pk        *packages.Package
	Fd        *ast.FuncDecl
	Range     *ast.RangeStmt
	Assign    *ast.AssignStmt
	X         string
	Continues bool          // the loop may run another iteration after the removal
	Via       *ast.CallExpr // removal happens inside this callee (interprocedural)
	Stmt      ast.Stmt      // the statement containing Via
}

// shrinkOf reports whether rhs shrinks/reslices the slice named x.
func shrinkOf(pk *packages.Package, rhs ast.Expr, x string) bool {
	rhs = ast.Unparen(rhs)
	switch e := rhs.(type) {
	case *ast.CallExpr:
		if IsBuiltin(pk.TypesInfo, e, "append") && len(e.Args) >= 1 {
			if s, ok := ast.Unparen(e.Args[0]).(*ast.SliceExpr); ok && ExprStr(s.X) == x {
				return true
			}
		}
	case *ast.SliceExpr:
		if ExprStr(e.X) == x {
			return true
		}
	}
	return false
}

// FindRangeRemovals enumerates the removals inside range loops over the same slice.
func (c *Ctx) FindRangeRemovals(filter func(string) bool) []*RangeRemoval {
	var out []*RangeRemoval
	c.EachFuncDecl(filter, func(pk *packages.Package, fd *ast.FuncDecl) {
		var stack []*ast.RangeStmt
		var visit func(n ast.Node) bool
		visit = func(n ast.Node) bool {
			switch s := n.(type) {
			case *ast.FuncLit:
				// closures: their own loops are analysed with a fresh stack
				saved := stack
				stack = nil
				ast.Inspect(s.Body, visit)
				stack = saved
				return false
			case *ast.RangeStmt:
				stack = append(stack, s)
				ast.Inspect(s.Body, visit)
				stack = stack[:len(stack)-1]
				return false
			case *ast.ExprStmt:
				if call, ok := s.X.(*ast.CallExpr); ok && len(stack) > 0 {
					if callee := Callee(pk.TypesInfo, call); callee != nil {
						for k := len(stack) - 1; k >= 0; k-- {
							if f := fieldOfSelector(pk, stack[k].X); f != nil && c.fieldShrinkers()[f][callee] {
								out = append(out, &RangeRemoval{Pk: pk, Fd: fd, Range: stack[k], X: ExprStr(stack[k].X), Via: call, Stmt: s})
								break
							}
						}
					}
				}
				return true
			case *ast.AssignStmt:
				if s.Tok != token.ASSIGN || len(s.Lhs) != len(s.Rhs) {
					return true
				}
				for i, l := range s.Lhs {
					lx := ExprStr(l)
					for k := len(stack) - 1; k >= 0; k-- {
						if ExprStr(stack[k].X) == lx && shrinkOf(pk, s.Rhs[i], lx) {
							out = append(out, &RangeRemoval{Pk: pk, Fd: fd, Range: stack[k], Assign: s, X: lx})
							break
						}
					}
				}
			}
			return true
		}
		ast.Inspect(fd.Body, visit)
	})
	return out
}

// loopContinues decides whether, after stmt executes, control can reach the
// head of loop again (another iteration). FuncLit bodies get their own CFG.
func (c *Ctx) loopContinues(pk *packages.Package, fd *ast.FuncDecl, loop ast.Stmt, stmt ast.Stmt) (bool, bool) {
	body := fd.Body
	// if the loop sits inside a function literal, build the CFG of that literal
	var lit *ast.FuncLit
	ast.Inspect(fd.Body, func(n ast.Node) bool {
		if fl, ok := n.(*ast.FuncLit); ok && fl.Body.Pos() <= loop.Pos() && loop.End() <= fl.Body.End() {
			lit = fl // innermost wins because Inspect goes outside-in
		}
		return true
	})
	var g *cfg.CFG
	if lit != nil {
		body = lit.Body
		g = cfg.New(body, func(call *ast.CallExpr) bool { return mayReturn(pk, call) })
	} else {
		g = c.CFG(pk, fd)
	}
	var head *cfg.Block
	for _, b := range g.Blocks {
		if (b.Kind == cfg.KindRangeLoop || b.Kind == cfg.KindForLoop || b.Kind == cfg.KindForPost) && b.Stmt == loop {
			if head == nil || b.Kind == cfg.KindForPost {
				head = b
			}
		}
	}
	// a `for {}` without condition/post has only a ForBody block; its head is the body
	if head == nil {
		for _, b := range g.Blocks {
			if b.Kind == cfg.KindForBody && b.Stmt == loop {
				head = b
			}
		}
	}
	start, _ := blockOf(g, stmt)
	if head == nil || start == nil {
		return false, false
	}
	seen := map[*cfg.Block]bool{}
	var stack []*cfg.Block
	stack = append(stack, start.Succs...)
	for len(stack) > 0 {
		b := stack[len(stack)-1]
		stack = stack[:len(stack)-1]
		if seen[b] {
			continue
		}
		seen[b] = true
		if b == head {
			return true, true
		}
		if !blockInLoop(b, loop) {
			continue // left the loop: a later fresh entry evaluates len(X) again
		}
		stack = append(stack, b.Succs...)
	}
	return false, true
}

// R5 — no structural mutation of the slice being ranged over unless the
// iteration ends. only: optional set of function short names to restrict to.
func R5RangeMut(c *Ctx, only func(fn string) bool, floor int) {
	const rule = "R5-rangemut"
	c.R.Rule(rule, "a removal `X = append(X[:i], X[i+1:]...)` (or re-slice) inside `for … range X` must leave the loop on every path; range evaluated len(X) once, so another iteration indexes past the new end (panic) or skips an element", floor)
	for _, rr := range c.FindRangeRemovals(NonYaotl) {
		fn := DeclShort(rr.Pk, rr.Fd)
		if only != nil && !only(fn) {
			continue
		}
		if rr.Via != nil {
			cont, ok := c.loopContinues(rr.Pk, rr.Fd, rr.Range, rr.Stmt)
			construct := "range " + rr.X + " { " + ExprStr(rr.Via.Fun) + "(…) shrinks it }"
			if !ok {
				c.R.Und(rule, fn, construct, c.pos(rr.Via.Pos()), "could not locate loop head / call in the CFG")
				continue
			}
			if cont {
				c.R.Bad(rule, fn, construct, c.pos(rr.Via.Pos()),
					"the callee removes an element from the very slice field this loop ranges over and the loop goes on: range evaluated the slice once, so every other element is skipped (or a stale tail element is visited)",
					"range head at "+c.pos(rr.Range.Pos()), "call at "+c.pos(rr.Via.Pos()))
			} else {
				c.R.Ok(rule, fn, construct, c.pos(rr.Via.Pos()), "every CFG path after the call leaves the loop", true)
			}
			continue
		}
		cont, ok := c.loopContinues(rr.Pk, rr.Fd, rr.Range, rr.Assign)
		construct := "range " + rr.X + " { " + rr.X + " = " + ExprStr(rr.Assign.Rhs[0]) + " }"
		if !ok {
			c.R.Und(rule, fn, construct, c.pos(rr.Assign.Pos()), "could not locate loop head / assignment in the CFG")
			continue
		}
		if cont {
			c.R.Bad(rule, fn, construct, c.pos(rr.Assign.Pos()),
				"after the removal a path leads back to the range head: the next index was computed from the old length (index/slice out of range with ≥2 elements, or an element is skipped)",
				"range head at "+c.pos(rr.Range.Pos()), "removal at "+c.pos(rr.Assign.Pos()), "no break/return/goto on every path after it")
		} else {
			c.R.Ok(rule, fn, construct, c.pos(rr.Assign.Pos()), "every CFG path after the removal leaves the loop", true)
		}
	}
}

// blockInLoop reports whether a CFG block belongs to the body of loop (so that
// reaching it does not mean the loop was left). Blocks are classified by the
// statement that gave rise to them.
func blockInLoop(b *cfg.Block, loop ast.Stmt) bool {
	if b.Stmt == nil {
		// fall back on node positions
		for _, n := range b.Nodes {
			if n.Pos() < loop.Pos() || n.End() > loop.End() {
				return false
			}
		}
		return len(b.Nodes) > 0
	}
	inside := loop.Pos() <= b.Stmt.Pos() && b.Stmt.End() <= loop.End()
	if !inside {
		return false
	}
	if b.Stmt == loop {
		switch b.Kind {
		case cfg.KindRangeDone, cfg.KindForDone:
			return false
		}
		return true
	}
	return true
}

// fieldOfSelector: the struct field object a selector expression ends in.
func fieldOfSelector(pk *packages.Package, e ast.Expr) *types.Var {
	sel, ok := ast.Unparen(e).(*ast.SelectorExpr)
	if !ok {
		return nil
	}
	if s := pk.TypesInfo.Selections[sel]; s != nil && s.Kind() == types.FieldVal {
		if v, ok := s.Obj().(*types.Var); ok {
			return v
		}
	}
	return nil
}

// fieldShrinkers: for each slice-typed struct field, the module functions that may remove elements from it
// (directly by `x.f = append(x.f[:i], …)` / `x.f = x.f[a:b]`, or through static calls).
func (c *Ctx) fieldShrinkers() map[*types.Var]map[*types.Func]bool {
	if c.shrinkers != nil {
		return c.shrinkers
	}
	out := map[*types.Var]map[*types.Func]bool{}
	calls := map[*types.Func][]*types.Func{}
	c.EachFuncDecl(NonYaotl, func(pk *packages.Package, fd *ast.FuncDecl) {
		self, _ := pk.TypesInfo.Defs[fd.Name].(*types.Func)
		if self == nil {
			return
		}
		ast.Inspect(fd.Body, func(n ast.Node) bool {
			switch x := n.(type) {
			case *ast.AssignStmt:
				if x.Tok == token.ASSIGN && len(x.Lhs) == len(x.Rhs) {
					for i, l := range x.Lhs {
						if f := fieldOfSelector(pk, l); f != nil && shrinkOf(pk, x.Rhs[i], ExprStr(l)) {
							if out[f] == nil {
								out[f] = map[*types.Func]bool{}
							}
							out[f][self] = true
						}
					}
				}
			case *ast.CallExpr:
				if callee := Callee(pk.TypesInfo, x); callee != nil && callee.Pkg() != nil && c.P.InModule(callee.Pkg().Path()) {
					calls[self] = append(calls[self], callee)
				}
			}
			return true
		})
	})
	for changed := true; changed; {
		changed = false
		for caller, cs := range calls {
			for _, callee := range cs {
				for f, set := range out {
					if set[callee] && !set[caller] {
						set[caller] = true
						changed = true
					}
					_ = f
				}
			}
		}
	}
	c.shrinkers = out
	return out
}
