package rules

import (
	"go/ast"
	"go/token"
	"go/types"
	"sort"
	"strings"

	"golang.org/x/tools/go/cfg"
	"golang.org/x/tools/go/packages"
)

// lockState is the dataflow fact at a program point.
type lockState struct {
	may      map[token.Pos]string // lock site -> lock name (union at joins)
	must     map[string]bool      // lock names certainly held (intersection)
	deferred map[string]bool      // names certainly released by a defer (intersection)
}

func (s *lockState) clone() *lockState {
	n := &lockState{may: map[token.Pos]string{}, must: map[string]bool{}, deferred: map[string]bool{}}
	for k, v := range s.may {
		n.may[k] = v
	}
	for k := range s.must {
		n.must[k] = true
	}
	for k := range s.deferred {
		n.deferred[k] = true
	}
	return n
}

// join merges o into s; reports whether s changed.
func (s *lockState) join(o *lockState) bool {
	ch := false
	for k, v := range o.may {
		if _, ok := s.may[k]; !ok {
			s.may[k] = v
			ch = true
		}
	}
	for k := range s.must {
		if !o.must[k] {
			delete(s.must, k)
			ch = true
		}
	}
	for k := range s.deferred {
		if !o.deferred[k] {
			delete(s.deferred, k)
			ch = true
		}
	}
	return ch
}

// lockOp classifies a call as Lock/Unlock on a sync.(RW)Mutex and names it.
func lockOp(info *types.Info, call *ast.CallExpr) (name string, op string) {
	sel, ok := ast.Unparen(call.Fun).(*ast.SelectorExpr)
	if !ok {
		return "", ""
	}
	fn, ok := info.Uses[sel.Sel].(*types.Func)
	if !ok || fn.Pkg() == nil || fn.Pkg().Path() != "sync" {
		return "", ""
	}
	full := FullName(fn)
	switch full {
	case "sync.Mutex.Lock", "sync.RWMutex.Lock", "sync.RWMutex.RLock":
		op = "lock"
	case "sync.Mutex.Unlock", "sync.RWMutex.Unlock", "sync.RWMutex.RUnlock":
		op = "unlock"
	default:
		return "", ""
	}
	return ExprStr(sel.X), op
}

// LockUnit is the lock analysis of one function body (declaration or literal).
type LockUnit struct {
	Pk     *packages.Package
	Fd     *ast.FuncDecl
	Body   *ast.BlockStmt
	Name   string
	G      *cfg.CFG
	In     map[*cfg.Block]*lockState
	Sites  map[token.Pos]string         // Lock call sites -> name
	Leaks  map[token.Pos][]token.Pos    // lock site -> exits reached with it held
	MustAt map[ast.Node]map[string]bool // must-held set in front of each CFG node
}

// walkCalls visits call expressions of a CFG node in source order without
// descending into function literals.
func walkCalls(n ast.Node, f func(call *ast.CallExpr, deferred bool)) {
	deferred := false
	if d, ok := n.(*ast.DeferStmt); ok {
		deferred = true
		// a deferred closure that only unlocks counts as a deferred unlock
		if fl, ok := d.Call.Fun.(*ast.FuncLit); ok {
			ast.Inspect(fl.Body, func(m ast.Node) bool {
				if c, ok := m.(*ast.CallExpr); ok {
					f(c, true)
				}
				return true
			})
			return
		}
		f(d.Call, true)
		return
	}
	if _, ok := n.(*ast.GoStmt); ok {
		return
	}
	ast.Inspect(n, func(m ast.Node) bool {
		switch x := m.(type) {
		case *ast.FuncLit:
			return false
		case *ast.CallExpr:
			// arguments first (evaluation order), then the call
			for _, a := range x.Args {
				walkCalls(a, f)
			}
			walkCalls(x.Fun, f)
			f(x, deferred)
			return false
		}
		return true
	})
}

// AnalyseLocks runs the forward lock dataflow on one body.
func (c *Ctx) AnalyseLocks(pk *packages.Package, fd *ast.FuncDecl, body *ast.BlockStmt, name string) *LockUnit {
	g := cfg.New(body, func(call *ast.CallExpr) bool { return mayReturn(pk, call) })
	u := &LockUnit{Pk: pk, Fd: fd, Body: body, Name: name, G: g, In: map[*cfg.Block]*lockState{}, Sites: map[token.Pos]string{},
		Leaks: map[token.Pos][]token.Pos{}, MustAt: map[ast.Node]map[string]bool{}}
	if len(g.Blocks) == 0 {
		return u
	}
	entry := g.Blocks[0]
	u.In[entry] = &lockState{may: map[token.Pos]string{}, must: map[string]bool{}, deferred: map[string]bool{}}
	work := []*cfg.Block{entry}
	transfer := func(b *cfg.Block, st *lockState, record bool) *lockState {
		st = st.clone()
		for _, n := range b.Nodes {
			if record {
				m := map[string]bool{}
				for k := range st.must {
					m[k] = true
				}
				u.MustAt[n] = m
			}
			walkCalls(n, func(call *ast.CallExpr, deferred bool) {
				nm, op := lockOp(pk.TypesInfo, call)
				if op == "" {
					return
				}
				if deferred {
					if op == "unlock" {
						st.deferred[nm] = true
					}
					return
				}
				if op == "lock" {
					st.may[call.Pos()] = nm
					st.must[nm] = true
					u.Sites[call.Pos()] = nm
				} else {
					for site, n2 := range st.may {
						if n2 == nm {
							delete(st.may, site)
						}
					}
					delete(st.must, nm)
				}
			})
		}
		return st
	}
	for len(work) > 0 {
		b := work[len(work)-1]
		work = work[:len(work)-1]
		out := transfer(b, u.In[b], false)
		for _, s := range b.Succs {
			if cur, ok := u.In[s]; !ok {
				u.In[s] = out.clone()
				work = append(work, s)
			} else if cur.join(out) {
				work = append(work, s)
			}
		}
	}
	for _, b := range g.Blocks {
		in, ok := u.In[b]
		if !ok {
			continue
		}
		out := transfer(b, in, true)
		if len(b.Succs) == 0 {
			exitPos := body.End()
			if len(b.Nodes) > 0 {
				exitPos = b.Nodes[len(b.Nodes)-1].Pos()
			}
			for site, nm := range out.may {
				if !out.deferred[nm] {
					u.Leaks[site] = append(u.Leaks[site], exitPos)
				}
			}
		}
	}
	return u
}

// EachBody visits every function declaration body and every function literal
// body (as its own unit) in the selected packages.
func (c *Ctx) EachBody(filter func(string) bool, f func(pk *packages.Package, fd *ast.FuncDecl, body *ast.BlockStmt, name string)) {
	c.EachFuncDecl(filter, func(pk *packages.Package, fd *ast.FuncDecl) {
		name := DeclShort(pk, fd)
		f(pk, fd, fd.Body, name)
		n := 0
		ast.Inspect(fd.Body, func(m ast.Node) bool {
			if fl, ok := m.(*ast.FuncLit); ok {
				n++
				f(pk, fd, fl.Body, name+"$"+itoa(n))
			}
			return true
		})
	})
}

func itoa(i int) string {
	if i == 0 {
		return "0"
	}
	s := ""
	for i > 0 {
		s = string(rune('0'+i%10)) + s
		i /= 10
	}
	return s
}

// R3 — every acquisition is released on every exit.
func R3LockPair(c *Ctx, lockFilter func(fn, lock string) bool, floor int) {
	const rule = "R3-lockpair"
	c.R.Rule(rule, "every sync.Mutex Lock is followed by an Unlock (or a deferred one) on every CFG path to a function exit", floor)
	c.EachBody(NonYaotl, func(pk *packages.Package, fd *ast.FuncDecl, body *ast.BlockStmt, name string) {
		// cheap pre-filter
		has := false
		ast.Inspect(body, func(m ast.Node) bool {
			if call, ok := m.(*ast.CallExpr); ok {
				if _, op := lockOp(pk.TypesInfo, call); op == "lock" {
					has = true
				}
			}
			return !has
		})
		if !has {
			return
		}
		u := c.AnalyseLocks(pk, fd, body, name)
		var sites []token.Pos
		for s := range u.Sites {
			sites = append(sites, s)
		}
		sort.Slice(sites, func(i, j int) bool { return sites[i] < sites[j] })
		for _, s := range sites {
			nm := u.Sites[s]
			// a literal nested in this body is its own unit
			if lockFilter != nil && !lockFilter(name, nm) {
				continue
			}
			construct := nm + ".Lock()"
			if exits := u.Leaks[s]; len(exits) > 0 {
				sort.Slice(exits, func(i, j int) bool { return exits[i] < exits[j] })
				var path []string
				path = append(path, "Lock at "+c.pos(s))
				for _, e := range exits {
					path = append(path, "exit reached with the lock still held at "+c.pos(e))
				}
				c.R.Bad(rule, name, construct, c.pos(s), "a path from this Lock reaches a function exit without Unlock: the next acquisition blocks forever", path...)
			} else {
				c.R.Ok(rule, name, construct, c.pos(s), "released on every path to an exit", true)
			}
		}
	})
}

func lockNameHas(lock string, subs ...string) bool {
	for _, s := range subs {
		if strings.Contains(lock, s) {
			return true
		}
	}
	return false
}
