package rules

import (
	"go/token"
	"sort"
	"strings"

	"golang.org/x/tools/go/ssa"

	"hv/internal/core"
)

// R2Identity — session identity: who writes NameID, exists-check before add,
// inner id equals the id the exists-check was made on.
func R2Identity(c *Ctx) {
	const rule = "R2-identity"
	c.R.Rule(rule, "Agent.NameID is stored only by the three constructors (ParseDemonRegisterRequest, RegisterInfoToInstance, db.AgentAll); in handleDemonAgent AgentAdd is on the !AgentExist(Header.AgentID) edge; ParseDemonRegisterRequest returns a session only on paths where the inner id was tested equal to the header id it was called with, formats NameID from that id and stores the key/IV read by ParseAtLeastBytes(32)/(16)", 5)
	allowed := map[string]bool{
		"Havoc/pkg/agent.ParseDemonRegisterRequest": true,
		"Havoc/pkg/agent.RegisterInfoToInstance":    true,
		"(*Havoc/pkg/db.DB).AgentAll":               true,
	}
	n := 0
	for fn := range c.P.AllFuncs() {
		if fn.Blocks == nil || !c.P.InModule(core.FuncPkgPath(fn)) {
			continue
		}
		for _, b := range fn.Blocks {
			for _, in := range b.Instrs {
				st, ok := in.(*ssa.Store)
				if !ok {
					continue
				}
				t, f, _, ok := FieldOf(st.Addr)
				if !ok || t != PkgAgent+".Agent" || f != "NameID" {
					continue
				}
				n++
				name := fn.String()
				if fn.Object() != nil {
					name = fn.Object().(interface{ FullName() string }).FullName()
				}
				if allowed[name] {
					c.R.Ok(rule, FuncShort(fn), "store Agent.NameID", c.pos(st.Pos()), "constructor of a session", true)
				} else {
					c.R.Bad(rule, FuncShort(fn), "store Agent.NameID", c.pos(st.Pos()), "a session's id is rewritten after registration (only the three constructors may set it): two sessions can end up with the same id")
				}
			}
		}
	}
	if n < 3 {
		c.R.Anchor(rule, "the three constructor stores to Agent.NameID (found "+itoa(n)+")")
	}
	// handleDemonAgent: AgentAdd under !AgentExist(Header.AgentID)
	hd := c.P.Func(PkgHandlers, "handleDemonAgent")
	if hd == nil {
		c.R.Anchor(rule, "handlers.handleDemonAgent")
	} else {
		found := false
		notExists := func(b *ssa.BasicBlock) bool {
			for _, f := range FactsAt(b) {
				if cl, isCall := f.Cond.(*ssa.Call); isCall && strings.HasSuffix(CalleeName(cl), ".AgentExist") && !f.Truth {
					if DerivesFrom(cl.Call.Args[0], IsFieldLoad(PkgAgent+".Header", "AgentID")) {
						return true
					}
				}
			}
			return false
		}
		// the registration branch may live in an unexported helper of handleDemonAgent
		for _, hf := range HelperClosure(hd, 2) {
			hf := hf
			EachCall(hf, func(call ssa.CallInstruction) {
				if !strings.HasSuffix(CalleeName(call), ".AgentAdd") {
					return
				}
				found = true
				ok := notExists(call.Block())
				if !ok && hf != hd {
					ok = c.EveryCallSite(hf, func(site ssa.CallInstruction) bool { return notExists(site.Block()) })
				}
				// the parsed agent is built from the same header id
				sameID := false
				EachCall(hf, func(c2 ssa.CallInstruction) {
					if CalleeName(c2) == "Havoc/pkg/agent.ParseDemonRegisterRequest" && InstrDominates(c2, call) {
						if DerivesFrom(c2.Common().Args[0], IsFieldLoad(PkgAgent+".Header", "AgentID")) {
							sameID = true
						}
					}
				})
				if ok && sameID {
					c.R.Ok(rule, FuncShort(hd), "AgentAdd under !AgentExist(Header.AgentID)", c.pos(call.Pos()), "a session is added only when no session with the sender's id exists, and is parsed for that same id", true)
				} else {
					c.R.Bad(rule, FuncShort(hd), "AgentAdd under !AgentExist(Header.AgentID)", c.pos(call.Pos()), "a session is added without the exists-check on the header id (or parsed for another id): two sessions may share an id")
				}
			})
		}
		if !found {
			c.R.Anchor(rule, "the AgentAdd call in handleDemonAgent")
		}
	}
	// ParseDemonRegisterRequest: returns non-nil only under DemonID == AgentID
	pr := c.P.Func(PkgAgent, "ParseDemonRegisterRequest")
	if pr == nil {
		c.R.Anchor(rule, "agent.ParseDemonRegisterRequest")
		return
	}
	nRet := 0
	for _, b := range pr.Blocks {
		if len(b.Instrs) == 0 {
			continue
		}
		ret, ok := b.Instrs[len(b.Instrs)-1].(*ssa.Return)
		if !ok || len(ret.Results) != 1 || isNilConst(ret.Results[0]) {
			continue
		}
		// collect the blocks from which a non-nil value flows
		var srcBlocks []*ssa.BasicBlock
		if ph, ok := ret.Results[0].(*ssa.Phi); ok {
			for i, e := range ph.Edges {
				if !isNilConst(e) {
					srcBlocks = append(srcBlocks, ph.Block().Preds[i])
				}
			}
		} else {
			srcBlocks = []*ssa.BasicBlock{b}
		}
		for _, sb := range srcBlocks {
			nRet++
			eq := false
			for _, f := range FactsAt(sb) {
				bo, ok := f.Cond.(*ssa.BinOp)
				if !ok || !((bo.Op == token.EQL && f.Truth) || (bo.Op == token.NEQ && !f.Truth)) {
					continue
				}
				isHdr := func(v ssa.Value) bool { return IsParam(v, pr.Params[0]) }
				isInner := func(v ssa.Value) bool {
					cl, ok := v.(*ssa.Call)
					return ok && CalleeName(cl) == "(*Havoc/pkg/common/parser.Parser).ParseInt32"
				}
				if (isHdr(bo.X) && isInner(bo.Y)) || (isHdr(bo.Y) && isInner(bo.X)) {
					eq = true
				}
			}
			if eq {
				c.R.Ok(rule, FuncShort(pr), "return Session", c.pos(ret.Pos()), "a session is returned only where the decrypted inner id was tested equal to the header id", true)
			} else {
				c.R.Bad(rule, FuncShort(pr), "return Session", c.pos(ret.Pos()), "a session is returned on a path where the inner id was not established equal to the header id: the exists-check and the stored id are about different numbers")
			}
		}
	}
	if nRet == 0 {
		c.R.Anchor(rule, "a non-nil return of ParseDemonRegisterRequest")
	}
	// key/IV stored are the ParseAtLeastBytes results
	keyOK, ivOK := false, false
	for _, b := range pr.Blocks {
		for _, in := range b.Instrs {
			st, ok := in.(*ssa.Store)
			if !ok {
				continue
			}
			_, f, _, ok := FieldOf(st.Addr)
			if !ok {
				continue
			}
			src := func(n int64) bool {
				cl, ok := st.Val.(*ssa.Call)
				if !ok || CalleeName(cl) != "(*Havoc/pkg/common/parser.Parser).ParseAtLeastBytes" {
					return false
				}
				v, ok := ConstInt(cl.Call.Args[1])
				return ok && v == n
			}
			if f == "AESKey" && src(32) {
				keyOK = true
			}
			if f == "AESIv" && src(16) {
				ivOK = true
			}
		}
	}
	if keyOK && ivOK {
		c.R.Ok(rule, FuncShort(pr), "Session.Encryption = {ParseAtLeastBytes(32), ParseAtLeastBytes(16)}", c.pos(pr.Pos()), "key and IV recorded are the 32+16 bytes sent", true)
	} else {
		c.R.Bad(rule, FuncShort(pr), "Session.Encryption = {ParseAtLeastBytes(32), ParseAtLeastBytes(16)}", c.pos(pr.Pos()), "the session key/IV stored are not the 32 and 16 bytes read from the registration")
	}
}

// R2NameIDFormat — an id is compared with NameID in the spelling NameID is stored in.
func R2NameIDFormat(c *Ctx) {
	const rule = "R2-nameid-format"
	c.R.Rule(rule, "every string that is computed from an integer and compared with (or stored into) Agent.NameID is produced by fmt.Sprintf with the one format the constructors use for NameID (zero-padded 8 hex digits): a different spelling (no padding, upper case, decimal) makes ids below 0x10000000 — or all ids — compare unequal to their own session", 3)
	isNameIDLoad := func(v ssa.Value) bool {
		u, ok := v.(*ssa.UnOp)
		if !ok || u.Op != token.MUL {
			return false
		}
		t, f, _, ok := FieldOf(u.X)
		return ok && t == PkgAgent+".Agent" && f == "NameID"
	}
	// how is a string made from a number?
	numberSpelling := func(v ssa.Value) (string, bool) {
		call, ok := v.(*ssa.Call)
		if !ok {
			return "", false
		}
		switch n := CalleeName(call); n {
		case "fmt.Sprintf":
			if f, ok := ConstString(call.Call.Args[0]); ok {
				return "Sprintf(" + f + ")", true
			}
			return "Sprintf(?)", true
		case "strconv.FormatInt", "strconv.FormatUint", "strconv.Itoa":
			return n, true
		}
		return "", false
	}
	formats := map[string]bool{}
	type site struct {
		fn   *ssa.Function
		pos  token.Pos
		sp   string
		kind string
	}
	var sites []site
	for _, fn := range c.P.ModuleFuncs(NonYaotl) {
		for _, b := range fn.Blocks {
			for _, in := range b.Instrs {
				switch x := in.(type) {
				case *ssa.Store:
					if t, f, _, ok := FieldOf(x.Addr); ok && t == PkgAgent+".Agent" && f == "NameID" {
						if sp, ok := numberSpelling(x.Val); ok {
							formats[sp] = true
							sites = append(sites, site{fn, x.Pos(), sp, "NameID = "})
						}
					}
				case *ssa.BinOp:
					if x.Op != token.EQL && x.Op != token.NEQ {
						continue
					}
					for _, pr := range [][2]ssa.Value{{x.X, x.Y}, {x.Y, x.X}} {
						if isNameIDLoad(pr[0]) {
							if sp, ok := numberSpelling(pr[1]); ok {
								sites = append(sites, site{fn, x.Pos(), sp, "NameID == "})
							}
						}
					}
				}
			}
		}
	}
	if len(formats) != 1 {
		var fs []string
		for f := range formats {
			fs = append(fs, f)
		}
		sort.Strings(fs)
		c.R.Bad(rule, "-", "one spelling of NameID", "-", "the constructors store NameID in "+itoa(len(formats))+" different spellings ("+strings.Join(fs, ", ")+"): sessions created on different paths cannot be compared")
		return
	}
	var want string
	for f := range formats {
		want = f
	}
	for _, s := range sites {
		construct := s.kind + s.sp
		if s.sp == want {
			c.R.Ok(rule, FuncShort(s.fn), construct, c.pos(s.pos), "the spelling NameID is stored in", true)
		} else {
			c.R.Bad(rule, FuncShort(s.fn), construct, c.pos(s.pos), "an id is spelled with "+s.sp+" but NameID is stored as "+want+": the comparison fails for this session's own id whenever the two spellings differ (e.g. ids below 0x10000000)")
		}
	}
}
