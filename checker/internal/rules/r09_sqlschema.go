package rules

import (
	"fmt"
	"go/ast"
	"go/constant"
	"go/token"
	"go/types"
	"regexp"
	"sort"
	"strings"

	"golang.org/x/tools/go/packages"
	"golang.org/x/tools/go/ssa"
)

// sqlStmt is one statement of the SQL subset used by pkg/db.
type sqlStmt struct {
	Kind    string // create | insert | update | select | delete
	Table   string
	Cols    []string          // insert/update(set)/select columns
	Types   map[string]string // create: column -> declared type
	Where   []string          // where columns
	Holders int               // number of ? placeholders
	Text    string
	WhereTx string
}

var (
	reCreate = regexp.MustCompile(`(?is)^\s*CREATE\s+TABLE\s+"?(\w+)"?\s*\((.*)\)\s*;?\s*$`)
	reInsert = regexp.MustCompile(`(?is)^\s*INSERT\s+INTO\s+"?(\w+)"?\s*\(([^)]*)\)\s*VALUES\s*\(([^)]*)\)`)
	reUpdate = regexp.MustCompile(`(?is)^\s*UPDATE\s+"?(\w+)"?\s+SET\s+(.*?)(?:\s+WHERE\s+(.*))?$`)
	reSelect = regexp.MustCompile(`(?is)^\s*SELECT\s+(.*?)\s+FROM\s+"?(\w+)"?(?:\s+WHERE\s+(.*))?$`)
	reDelete = regexp.MustCompile(`(?is)^\s*DELETE\s+FROM\s+"?(\w+)"?(?:\s+WHERE\s+(.*))?$`)
	reCond   = regexp.MustCompile(`(?i)"?(\w+)"?\s*=\s*(\?|\d+|'[^']*')`)
)

func parseSQL(s string) *sqlStmt {
	st := &sqlStmt{Text: s, Holders: strings.Count(s, "?")}
	unq := func(x string) string { return strings.Trim(strings.TrimSpace(x), `"`) }
	if m := reCreate.FindStringSubmatch(s); m != nil {
		st.Kind, st.Table, st.Types = "create", m[1], map[string]string{}
		for _, col := range strings.Split(m[2], ",") {
			f := strings.Fields(strings.TrimSpace(col))
			if len(f) == 0 {
				continue
			}
			name := unq(f[0])
			typ := ""
			if len(f) > 1 {
				typ = strings.ToLower(f[1])
			}
			st.Cols = append(st.Cols, name)
			st.Types[name] = typ
		}
		return st
	}
	where := func(w string) {
		st.WhereTx = w
		for _, m := range reCond.FindAllStringSubmatch(w, -1) {
			st.Where = append(st.Where, m[1])
		}
	}
	if m := reInsert.FindStringSubmatch(s); m != nil {
		st.Kind, st.Table = "insert", m[1]
		for _, c := range strings.Split(m[2], ",") {
			st.Cols = append(st.Cols, unq(c))
		}
		return st
	}
	if m := reUpdate.FindStringSubmatch(s); m != nil {
		st.Kind, st.Table = "update", m[1]
		for _, c := range strings.Split(m[2], ",") {
			if i := strings.Index(c, "="); i >= 0 {
				st.Cols = append(st.Cols, unq(c[:i]))
			}
		}
		where(m[3])
		return st
	}
	if m := reSelect.FindStringSubmatch(s); m != nil {
		st.Kind, st.Table = "select", m[2]
		for _, c := range strings.Split(m[1], ",") {
			st.Cols = append(st.Cols, unq(c))
		}
		where(m[3])
		return st
	}
	if m := reDelete.FindStringSubmatch(s); m != nil {
		st.Kind, st.Table = "delete", m[1]
		where(m[2])
		return st
	}
	return nil
}

// sqliteAffinity applies the documented column-affinity rules.
func sqliteAffinity(decl string) string {
	d := strings.ToUpper(decl)
	switch {
	case strings.Contains(d, "INT"):
		return "INTEGER"
	case strings.Contains(d, "CHAR"), strings.Contains(d, "CLOB"), strings.Contains(d, "TEXT"):
		return "TEXT"
	case strings.Contains(d, "BLOB"), d == "":
		return "BLOB"
	case strings.Contains(d, "REAL"), strings.Contains(d, "FLOA"), strings.Contains(d, "DOUB"):
		return "REAL"
	}
	return "NUMERIC"
}

type sqlSite struct {
	fd   *ast.FuncDecl
	call *ast.CallExpr
	st   *sqlStmt
	pk   *packages.Package
}

// lastName gives the final identifier of a selector / address-of expression.
func lastName(e ast.Expr) string {
	e = ast.Unparen(e)
	if u, ok := e.(*ast.UnaryExpr); ok {
		e = ast.Unparen(u.X)
	}
	switch x := e.(type) {
	case *ast.Ident:
		return x.Name
	case *ast.SelectorExpr:
		return x.Sel.Name
	case *ast.CallExpr:
		if len(x.Args) > 0 {
			return lastName(x.Args[len(x.Args)-1])
		}
	}
	return ""
}

// R9 — persistence layer agreement.
func R9SQLSchema(c *Ctx) {
	const rule = "R9-sqlschema"
	c.R.Rule(rule, "pkg/db: INSERT/UPDATE column, placeholder and bound-argument counts agree and the i-th bound value is the field named like the i-th column; SELECT columns agree with Scan destinations by count and name; insert, update and restore of one table use the same column set; text bound from Go strings goes to columns with TEXT/BLOB affinity; restore selects WHERE Active = 1 and copies every scanned column into the agent", 20)
	pk := c.P.ByPath[PkgDB]
	if pk == nil {
		c.R.Anchor(rule, PkgDB)
		return
	}
	var sites []*sqlSite
	tables := map[string]*sqlStmt{}
	for _, f := range pk.Syntax {
		for _, d := range f.Decls {
			fd, ok := d.(*ast.FuncDecl)
			if !ok || fd.Body == nil {
				continue
			}
			ast.Inspect(fd.Body, func(n ast.Node) bool {
				call, ok := n.(*ast.CallExpr)
				if !ok || len(call.Args) == 0 {
					return true
				}
				fn := Callee(pk.TypesInfo, call)
				if fn == nil || fn.Pkg() == nil || fn.Pkg().Path() != "database/sql" {
					return true
				}
				switch fn.Name() {
				case "Prepare", "Exec", "Query", "QueryRow":
				default:
					return true
				}
				tv, ok := pk.TypesInfo.Types[call.Args[0]]
				if !ok || tv.Value == nil || tv.Value.Kind() != constant.String {
					return true
				}
				txt := constant.StringVal(tv.Value)
				st := parseSQL(txt)
				fname := DeclShort(pk, fd)
				if st == nil {
					c.R.Und(rule, fname, "SQL "+trunc(txt, 60), c.pos(call.Pos()), "statement outside the SQL subset the reader understands")
					return true
				}
				if st.Kind == "create" {
					tables[st.Table] = st
				}
				sites = append(sites, &sqlSite{fd: fd, call: call, st: st, pk: pk})
				return true
			})
		}
	}
	// columns that carry Go strings
	strCols := map[string]map[string]bool{}
	noteStr := func(tab, col string) {
		if strCols[tab] == nil {
			strCols[tab] = map[string]bool{}
		}
		strCols[tab][col] = true
	}
	// column sets per table
	colsBy := map[string]map[string][]string{}
	for _, s := range sites {
		fname := DeclShort(pk, s.fd)
		st := s.st
		tab := tables[st.Table]
		construct := strings.ToUpper(st.Kind) + " " + st.Table
		if st.Kind == "create" {
			c.R.Ok(rule, fname, construct, c.pos(s.call.Pos()), fmt.Sprintf("%d columns", len(st.Cols)), false)
			continue
		}
		if tab == nil {
			c.R.Bad(rule, fname, construct, c.pos(s.call.Pos()), "statement on a table that init() never creates")
			continue
		}
		// every named column exists
		for _, col := range append(append([]string{}, st.Cols...), st.Where...) {
			if strings.Contains(col, "(") || col == "*" {
				continue
			}
			if _, ok := tab.Types[col]; !ok {
				c.R.Bad(rule, fname, construct+" column "+col, c.pos(s.call.Pos()), "column is not declared by CREATE TABLE "+st.Table)
			}
		}
		if colsBy[st.Table] == nil {
			colsBy[st.Table] = map[string][]string{}
		}
		// bound arguments: the Exec/Query call on the prepared statement in the same function (or this call's own args)
		var bound []ast.Expr
		var boundPos ast.Node = s.call
		if Callee(pk.TypesInfo, s.call).Name() != "Prepare" {
			bound = s.call.Args[1:]
		} else {
			ast.Inspect(s.fd.Body, func(n ast.Node) bool {
				call, ok := n.(*ast.CallExpr)
				if !ok || call.Pos() < s.call.End() {
					return true
				}
				fn := Callee(pk.TypesInfo, call)
				if fn != nil && fn.Pkg() != nil && fn.Pkg().Path() == "database/sql" && (fn.Name() == "Exec" || fn.Name() == "Query" || fn.Name() == "QueryRow") && FullName(fn) == "database/sql.Stmt."+fn.Name() && bound == nil {
					bound = call.Args
					boundPos = call
					if bound == nil {
						bound = []ast.Expr{}
					}
				}
				return true
			})
		}
		if len(bound) != st.Holders {
			c.R.Bad(rule, fname, construct, c.pos(boundPos.Pos()), fmt.Sprintf("%d placeholders but %d bound arguments", st.Holders, len(bound)))
			continue
		}
		switch st.Kind {
		case "insert", "update":
			if st.Kind == "insert" && len(st.Cols) != st.Holders {
				c.R.Bad(rule, fname, construct, c.pos(s.call.Pos()), fmt.Sprintf("%d columns but %d placeholders", len(st.Cols), st.Holders))
				continue
			}
			colsBy[st.Table][st.Kind] = st.Cols
			order := append(append([]string{}, st.Cols...), st.Where...)
			if st.Kind == "update" && len(order) != len(bound) {
				// constants in SET (Active = 0): keep only placeholder-bound columns
				order = nil
				for _, m := range reCond.FindAllStringSubmatch(st.Text, -1) {
					if m[2] == "?" {
						order = append(order, m[1])
					}
				}
			}
			mism := []string{}
			for i, col := range order {
				if i >= len(bound) {
					break
				}
				arg := bound[i]
				ln := lastName(arg)
				t := pk.TypesInfo.TypeOf(arg)
				// name agreement (where the bound expression names a field/variable). A local variable is followed
				// through its single definition: `id := int(AgentID)` stands for AgentID, so hoisting or renaming a
				// local does not matter; only a chain that ends in a differently named field or parameter is a mismatch.
				if ln != "" && !strings.EqualFold(ln, col) && !nameAlias(ln, col) {
					if _, isLit := ast.Unparen(arg).(*ast.BasicLit); !isLit {
						agree, judged := chainNameAgrees(pk, s.fd, arg, col, 0)
						if !agree && judged {
							mism = append(mism, fmt.Sprintf("column %s is bound from %s", col, ExprStr(arg)))
						}
					}
				}
				// affinity: remember which columns receive Go strings
				if t != nil {
					if b, ok := t.Underlying().(*types.Basic); ok && b.Info()&types.IsString != 0 {
						noteStr(st.Table, col)
					}
				}
			}
			if len(mism) == 0 {
				c.R.Ok(rule, fname, construct+" binding order", c.pos(boundPos.Pos()), fmt.Sprintf("%d bound values agree with the column list by position and name", len(bound)), true)
			} else {
				c.R.Bad(rule, fname, construct+" binding order", c.pos(boundPos.Pos()), "bound values do not line up with the column list: "+strings.Join(mism, "; "))
			}
		case "select":
			// Scan destinations
			var scan *ast.CallExpr
			ast.Inspect(s.fd.Body, func(n ast.Node) bool {
				call, ok := n.(*ast.CallExpr)
				if !ok {
					return true
				}
				if fn := Callee(pk.TypesInfo, call); fn != nil && fn.Name() == "Scan" && fn.Pkg() != nil && fn.Pkg().Path() == "database/sql" && scan == nil {
					scan = call
				}
				return true
			})
			if scan == nil {
				c.R.Bad(rule, fname, construct, c.pos(s.call.Pos()), "SELECT without a Scan of its rows")
				continue
			}
			if len(scan.Args) != len(st.Cols) {
				c.R.Bad(rule, fname, construct, c.pos(scan.Pos()), fmt.Sprintf("%d selected columns but %d Scan destinations", len(st.Cols), len(scan.Args)))
				continue
			}
			colsBy[st.Table]["select:"+s.fd.Name.Name] = st.Cols
			mism := []string{}
			for i, col := range st.Cols {
				if strings.Contains(col, "(") {
					continue
				}
				ln := lastName(scan.Args[i])
				if len(st.Cols) > 1 && ln != "" && !strings.EqualFold(ln, col) && !nameAlias(ln, col) {
					mism = append(mism, fmt.Sprintf("column %s scanned into %s", col, ln))
				}
				t := pk.TypesInfo.TypeOf(scan.Args[i])
				if p, ok := t.(*types.Pointer); ok {
					if b, ok := p.Elem().Underlying().(*types.Basic); ok && b.Info()&types.IsString != 0 {
						noteStr(st.Table, col)
					}
				}
			}
			if len(mism) == 0 {
				c.R.Ok(rule, fname, construct+" scan order", c.pos(scan.Pos()), fmt.Sprintf("%d columns scanned into like-named destinations", len(st.Cols)), len(st.Cols) > 1)
			} else {
				c.R.Bad(rule, fname, construct+" scan order", c.pos(scan.Pos()), strings.Join(mism, "; "))
			}
		case "delete":
			c.R.Ok(rule, fname, construct, c.pos(s.call.Pos()), "placeholders and arguments agree", false)
		}
	}
	// same column sets for insert / update / full-row select
	for tab, kinds := range colsBy {
		ins := kinds["insert"]
		if ins == nil {
			continue
		}
		set := func(l []string) map[string]bool {
			m := map[string]bool{}
			for _, x := range l {
				m[x] = true
			}
			return m
		}
		for k, cols := range kinds {
			if k == "insert" || len(cols) < 3 {
				continue
			}
			a, b := set(ins), set(cols)
			var diff []string
			for x := range a {
				if !b[x] && !(k == "update" && isKeyCol(x)) {
					diff = append(diff, x+" (inserted, not in "+k+")")
				}
			}
			for x := range b {
				if !a[x] {
					diff = append(diff, x+" (in "+k+", never inserted)")
				}
			}
			sort.Strings(diff)
			if len(diff) == 0 {
				c.R.Ok(rule, "db", "column set "+tab+" insert vs "+k, "-", "same columns", true)
			} else {
				c.R.Bad(rule, "db", "column set "+tab+" insert vs "+k, "-", "a field is persisted but not restored/updated (or vice versa): "+strings.Join(diff, ", "))
			}
		}
	}
	// affinity: one obligation per (table, column) that carries a Go string
	var createPos = map[string]string{}
	for _, s := range sites {
		if s.st.Kind == "create" {
			createPos[s.st.Table] = c.pos(s.call.Pos())
		}
	}
	var tabs []string
	for t := range strCols {
		tabs = append(tabs, t)
	}
	sort.Strings(tabs)
	for _, t := range tabs {
		var cols []string
		for col := range strCols[t] {
			cols = append(cols, col)
		}
		sort.Strings(cols)
		for _, col := range cols {
			if tables[t] == nil {
				continue
			}
			decl := tables[t].Types[col]
			aff := sqliteAffinity(decl)
			construct := "column " + t + "." + col + " " + decl
			if aff == "TEXT" || aff == "BLOB" {
				c.R.Ok(rule, "db.(*DB).init", construct, createPos[t], "Go string stored in a column with "+aff+" affinity: text round-trips byte for byte", true)
			} else {
				c.R.Bad(rule, "db.(*DB).init", construct, createPos[t], fmt.Sprintf("Go strings are bound to / scanned from a column declared %q (SQLite %s affinity): numeric-looking text such as \"007\", \"1e3\" or \" 12 \" is stored as a number and restored as \"7\" / \"1000\" / \"12\"", decl, aff))
			}
		}
	}
	// restore filter and field copy in AgentAll
	r9Restore(c, rule, sites)
}

func isKeyCol(c string) bool { return c == "AgentID" || c == "Name" }

func nameAlias(goName, col string) bool {
	al := map[string]string{"active": "Active", "Prot": "Protocol", "Conf": "Config", "QueryName": "Name", "ID": "", "NumRows": "", "Count": ""}
	if v, ok := al[goName]; ok {
		return v == "" || v == col
	}
	return false
}

func trunc(s string, n int) string {
	if len(s) > n {
		return s[:n] + "…"
	}
	return s
}

func r9Restore(c *Ctx, rule string, sites []*sqlSite) {
	var all *sqlSite
	for _, s := range sites {
		if s.fd.Name.Name == "AgentAll" && s.st.Kind == "select" {
			all = s
		}
	}
	if all == nil {
		c.R.Anchor(rule, "the SELECT feeding db.AgentAll")
		return
	}
	fname := DeclShort(all.pk, all.fd)
	w := strings.ReplaceAll(strings.ToLower(all.st.WhereTx), " ", "")
	if w == "active=1" {
		c.R.Ok(rule, fname, "WHERE Active = 1", c.pos(all.call.Pos()), "only live agents are restored", true)
	} else {
		c.R.Bad(rule, fname, "WHERE "+all.st.WhereTx, c.pos(all.call.Pos()), "the restore query no longer filters on Active = 1: dead agents come back (or live ones do not)")
	}
	// every scanned column variable is copied into the agent (assignment or literal) — AST def-use
	used := map[string]bool{}
	ast.Inspect(all.fd.Body, func(n ast.Node) bool {
		switch x := n.(type) {
		case *ast.AssignStmt:
			for _, r := range x.Rhs {
				if call, ok := ast.Unparen(r).(*ast.CallExpr); ok {
					if fn := Callee(all.pk.TypesInfo, call); fn != nil && fn.Name() == "Scan" {
						continue // the Scan that fills the variables is not a use
					}
				}
				ast.Inspect(r, func(m ast.Node) bool {
					if id, ok := m.(*ast.Ident); ok {
						used[id.Name] = true
					}
					return true
				})
			}
		case *ast.KeyValueExpr:
			ast.Inspect(x.Value, func(m ast.Node) bool {
				if id, ok := m.(*ast.Ident); ok {
					used[id.Name] = true
				}
				return true
			})
		}
		return true
	})
	var dropped []string
	for _, col := range all.st.Cols {
		if !used[col] {
			dropped = append(dropped, col)
		}
	}
	if len(dropped) == 0 {
		c.R.Ok(rule, fname, "restore copies every selected column", c.pos(all.fd.Pos()), fmt.Sprintf("all %d scanned values flow into the restored agent", len(all.st.Cols)), true)
	} else {
		c.R.Bad(rule, fname, "restore copies every selected column", c.pos(all.fd.Pos()), "scanned but never copied into the restored agent: "+strings.Join(dropped, ", "))
	}
	// the restored field is the like-named one: Agent.Info.X = X
	var swapped []string
	ast.Inspect(all.fd.Body, func(n ast.Node) bool {
		as, ok := n.(*ast.AssignStmt)
		if !ok || len(as.Lhs) != 1 || len(as.Rhs) != 1 {
			return true
		}
		sel, ok := as.Lhs[0].(*ast.SelectorExpr)
		if !ok {
			return true
		}
		id, ok := as.Rhs[0].(*ast.Ident)
		if !ok {
			return true
		}
		for _, col := range all.st.Cols {
			if id.Name == col && sel.Sel.Name != col {
				swapped = append(swapped, ExprStr(as.Lhs[0])+" = "+id.Name)
			}
		}
		return true
	})
	if len(swapped) == 0 {
		c.R.Ok(rule, fname, "restore assigns like-named fields", c.pos(all.fd.Pos()), "each scanned column is assigned to the field of the same name", true)
	} else {
		c.R.Bad(rule, fname, "restore assigns like-named fields", c.pos(all.fd.Pos()), "restored into a different field: "+strings.Join(swapped, "; "))
	}
}

// R9Order — the registration is persisted before it is acknowledged.
func R9AckOrder(c *Ctx) {
	const rule = "R9-persist-before-ack"
	c.R.Rule(rule, "in the registration branch of handleDemonAgent the call that persists the new agent (Teamserver.AgentAdd → DB.AgentAdd) dominates the write of the acknowledgement; Teamserver.AgentAdd calls DB.AgentAdd on every path", 2)
	hd := c.P.Func(PkgHandlers, "handleDemonAgent")
	ta := c.P.Func(PkgServer, "Teamserver.AgentAdd")
	if hd == nil || ta == nil {
		c.R.Anchor(rule, "handlers.handleDemonAgent / server.(*Teamserver).AgentAdd")
		return
	}
	var add ssa.CallInstruction
	var regFn *ssa.Function
	// the registration branch may live in an unexported helper of handleDemonAgent
	for _, hf := range HelperClosure(hd, 2) {
		hf := hf
		EachCall(hf, func(call ssa.CallInstruction) {
			if strings.HasSuffix(CalleeName(call), ".AgentAdd") {
				add, regFn = call, hf
			}
		})
	}
	if add == nil {
		c.R.Bad(rule, FuncShort(hd), "Teamserver.AgentAdd(Agent)", c.pos(hd.Pos()), "a registration is no longer added/persisted")
	} else {
		n := 0
		writes := func(call ssa.CallInstruction) bool {
			if CalleeName(call) == "(*bytes.Buffer).Write" {
				return true
			}
			// a helper of this package that writes the reply
			h := call.Common().StaticCallee()
			if h == nil || h.Blocks == nil || FuncPkgPathOf(h) != PkgHandlers || h == regFn {
				return false
			}
			found := false
			for _, hf := range HelperClosure(h, 1) {
				EachCall(hf, func(c2 ssa.CallInstruction) {
					if CalleeName(c2) == "(*bytes.Buffer).Write" {
						found = true
					}
				})
			}
			return found
		}
		EachCall(regFn, func(call ssa.CallInstruction) {
			if !writes(call) {
				return
			}
			// only writes in the registration branch: those the parse of a register request dominates
			reg := false
			EachCall(regFn, func(c2 ssa.CallInstruction) {
				if CalleeName(c2) == "Havoc/pkg/agent.ParseDemonRegisterRequest" && InstrDominates(c2, call) {
					reg = true
				}
			})
			if !reg {
				return
			}
			n++
			if InstrDominates(add, call) {
				c.R.Ok(rule, FuncShort(hd), "Response.Write(ack) after AgentAdd", c.pos(call.Pos()), "the acknowledgement is written only after the agent was added and persisted", true)
			} else {
				c.R.Bad(rule, FuncShort(hd), "Response.Write(ack) before AgentAdd", c.pos(call.Pos()), "a registration can be acknowledged without having been persisted: a crash in between loses an acknowledged session")
			}
		})
		if n == 0 {
			c.R.Anchor(rule, "the acknowledgement write in the registration branch")
		}
	}
	var dbAdd ssa.CallInstruction
	EachCall(ta, func(call ssa.CallInstruction) {
		if CalleeName(call) == "(*Havoc/pkg/db.DB).AgentAdd" {
			dbAdd = call
		}
	})
	okAll := dbAdd != nil
	if dbAdd != nil {
		for _, b := range ta.Blocks {
			if len(b.Instrs) > 0 {
				if _, isRet := b.Instrs[len(b.Instrs)-1].(*ssa.Return); isRet && !(dbAdd.Block() == b || dbAdd.Block().Dominates(b)) {
					okAll = false
				}
			}
		}
	}
	if okAll {
		c.R.Ok(rule, FuncShort(ta), "t.DB.AgentAdd(Agent)", c.pos(dbAdd.Pos()), "every path of Teamserver.AgentAdd inserts the agent", true)
	} else {
		c.R.Bad(rule, FuncShort(ta), "t.DB.AgentAdd(Agent)", c.pos(ta.Pos()), "Teamserver.AgentAdd has a path that does not insert the agent into the database")
	}
}

// R9ScanWidth — an integer column is restored into a type at least as wide as
// the type it was bound from.
func R9ScanWidth(c *Ctx) {
	const rule = "R9-scan-width"
	c.R.Rule(rule, "for every integer column the Scan destination is at least as wide as the Go type bound on INSERT/UPDATE (a narrower destination makes Scan fail for large values and aborts the restore loop)", 5)
	pk := c.P.ByPath[PkgDB]
	if pk == nil {
		c.R.Anchor(rule, PkgDB)
		return
	}
	width := func(t types.Type) int {
		if p, ok := t.(*types.Pointer); ok {
			t = p.Elem()
		}
		b, ok := t.Underlying().(*types.Basic)
		if !ok || b.Info()&types.IsInteger == 0 {
			return 0
		}
		s, _ := intInfo(t)
		return s
	}
	bound := map[string]int{} // table.col -> widest bound
	type scanRec struct {
		col string
		w   int
		pos ast.Expr
		fn  string
	}
	var scans []scanRec
	for _, f := range pk.Syntax {
		for _, d := range f.Decls {
			fd, ok := d.(*ast.FuncDecl)
			if !ok || fd.Body == nil {
				continue
			}
			var st *sqlStmt
			var bind, scan []ast.Expr
			ast.Inspect(fd.Body, func(n ast.Node) bool {
				call, ok := n.(*ast.CallExpr)
				if !ok {
					return true
				}
				fn := Callee(pk.TypesInfo, call)
				if fn == nil || fn.Pkg() == nil || fn.Pkg().Path() != "database/sql" {
					return true
				}
				switch fn.Name() {
				case "Prepare", "Query", "QueryRow", "Exec":
					if len(call.Args) > 0 {
						if tv, ok := pk.TypesInfo.Types[call.Args[0]]; ok && tv.Value != nil && tv.Value.Kind() == constant.String {
							if s := parseSQL(constant.StringVal(tv.Value)); s != nil && st == nil {
								st = s
								if fn.Name() != "Prepare" {
									bind = call.Args[1:]
								}
								return true
							}
						}
					}
					if FullName(fn) == "database/sql.Stmt.Exec" || FullName(fn) == "database/sql.Stmt.Query" {
						bind = call.Args
					}
				case "Scan":
					scan = call.Args
				}
				return true
			})
			if st == nil {
				continue
			}
			switch st.Kind {
			case "insert":
				for i, col := range st.Cols {
					if i < len(bind) {
						if w := width(pk.TypesInfo.TypeOf(bind[i])); w > bound[st.Table+"."+col] {
							bound[st.Table+"."+col] = w
						}
					}
				}
			case "update":
				var order []string
				for _, m := range reCond.FindAllStringSubmatch(st.Text, -1) {
					if m[2] == "?" {
						order = append(order, m[1])
					}
				}
				for i, col := range order {
					if i < len(bind) {
						if w := width(pk.TypesInfo.TypeOf(bind[i])); w > bound[st.Table+"."+col] {
							bound[st.Table+"."+col] = w
						}
					}
				}
			case "select":
				if len(scan) == len(st.Cols) {
					for i, col := range st.Cols {
						if w := width(pk.TypesInfo.TypeOf(scan[i])); w > 0 {
							scans = append(scans, scanRec{st.Table + "." + col, w, scan[i], DeclShort(pk, fd)})
						}
					}
				}
			}
		}
	}
	for _, s := range scans {
		bw, ok := bound[s.col]
		if !ok {
			continue
		}
		construct := "Scan " + s.col + " into " + itoa(s.w*8) + "-bit (bound from " + itoa(bw*8) + "-bit)"
		if s.w >= bw {
			c.R.Ok(rule, s.fn, "Scan "+s.col, c.pos(s.pos.Pos()), "destination is at least as wide as the bound type", true)
		} else {
			c.R.Bad(rule, s.fn, construct, c.pos(s.pos.Pos()), "the column is written from a wider integer than it is restored into: values that do not fit make rows.Scan fail, and the restore loop stops (that row and every later one are lost)")
		}
	}
}

// R9NameIdentity — listener names are compared exactly everywhere.
func R9NameIdentity(c *Ctx) {
	const rule = "R9-name-identity"
	c.R.Rule(rule, "the existence tests for listener names (db.ListenerExist, service.ListenerExist, the uniqueness loops in cmd/server/listener.go) compare with == on the name itself: the persisted set, the running set and the advertised set use the same identity", 3)
	check := func(fn *ssa.Function) {
		n := 0
		for _, b := range fn.Blocks {
			if len(b.Instrs) == 0 {
				continue
			}
			ret, ok := b.Instrs[len(b.Instrs)-1].(*ssa.Return)
			if !ok || len(ret.Results) == 0 {
				continue
			}
			srcs, _ := trueSources(ret.Results[0])
			if isBoolConst(ret.Results[0], true) {
				srcs = []*ssa.BasicBlock{b}
			}
			for _, sb := range srcs {
				if sb == nil {
					sb = b
				}
				n++
				exact := false
				for _, f := range FactsAt(sb) {
					if bo, ok := f.Cond.(*ssa.BinOp); ok && bo.Op == token.EQL && f.Truth {
						if bt, ok := bo.X.Type().Underlying().(*types.Basic); ok && bt.Info()&types.IsString != 0 {
							if ParamOf(bo.X) != nil || ParamOf(bo.Y) != nil {
								exact = true
							}
						}
					}
				}
				if exact {
					c.R.Ok(rule, FuncShort(fn), "return true under Name == <stored name>", c.pos(ret.Pos()), "exact string comparison with the parameter", true)
				} else {
					c.R.Bad(rule, FuncShort(fn), "return true under Name == <stored name>", c.pos(ret.Pos()), "existence is not decided by an exact == comparison with the name parameter: two spellings count as the same listener here but as different ones elsewhere, so the running and the persisted sets diverge")
				}
			}
		}
		if n == 0 {
			// the other idiom: let SQL decide — `return rows.Next()` of a query with `WHERE Name = ?` bound to the parameter
			for _, b := range fn.Blocks {
				for _, in := range b.Instrs {
					call, ok := in.(*ssa.Call)
					if !ok || !strings.HasSuffix(CalleeName(call), "sql.DB).Query") && !strings.HasSuffix(CalleeName(call), "sql.DB).QueryRow") {
						continue
					}
					args := CallArgs(call)
					if len(args) == 0 {
						continue
					}
					q, ok := ConstString(args[0])
					if !ok {
						continue
					}
					n++
					up := strings.ToUpper(q)
					exact := regexp.MustCompile(`(?i)\bWHERE\s+Name\s*=\s*\?`).MatchString(q) && !strings.Contains(up, "LIKE") && !strings.Contains(up, "GLOB") && !strings.Contains(up, "NOCASE") && !strings.Contains(up, "LOWER(") && !strings.Contains(up, "UPPER(")
					bound := false
					for _, a := range args[1:] {
						if DerivesFrom(a, func(v ssa.Value) bool { return ParamOf(v) != nil }) {
							bound = true
						}
					}
					if exact && bound {
						c.R.Ok(rule, FuncShort(fn), "existence by SQL `WHERE Name = ?` bound to the parameter", c.pos(call.Pos()), "exact (BINARY) comparison in SQL", true)
					} else {
						c.R.Bad(rule, FuncShort(fn), "existence by SQL `WHERE Name = ?` bound to the parameter", c.pos(call.Pos()), "existence is decided by `"+q+"`, not by an exact = comparison with the name parameter (LIKE is case-insensitive and treats _ and % as wildcards): two spellings count as the same listener here but as different ones elsewhere, so the running and the persisted sets diverge")
					}
				}
			}
		}
		if n == 0 {
			c.R.Anchor(rule, "an exact name comparison deciding "+FuncShort(fn))
		}
	}
	for _, ref := range [][2]string{{PkgDB, "DB.ListenerExist"}, {PkgService, "Service.ListenerExist"}, {PkgService, "Service.AgentExist"}} {
		if fn := c.P.Func(ref[0], ref[1]); fn != nil {
			check(fn)
		} else {
			c.R.Anchor(rule, ref[0]+"."+ref[1])
		}
	}
}

// R9DBShape — statement shapes in pkg/db that decide which rows are touched and how values are spelled.
func R9DBShape(c *Ctx) {
	const rule = "R9-db-shape"
	c.R.Rule(rule, "pkg/db: the WHERE clause of every DELETE and UPDATE is a conjunction of `column = ?` tests (no OR, LIKE or range), so it touches exactly the keyed row(s); a function that returns a slice reads its SELECT through Query and a rows.Next() loop (QueryRow yields at most one row); every base64 codec used to store or restore a column is the same encoding object", 6)
	pk := c.P.ByPath[PkgDB]
	if pk == nil {
		c.R.Anchor(rule, PkgDB)
		return
	}
	codecs := map[string][]token.Pos{}
	for _, f := range pk.Syntax {
		for _, d := range f.Decls {
			fd, ok := d.(*ast.FuncDecl)
			if !ok || fd.Body == nil {
				continue
			}
			fname := DeclShort(pk, fd)
			returnsSlice := false
			if fd.Type.Results != nil {
				for _, r := range fd.Type.Results.List {
					if t := pk.TypesInfo.TypeOf(r.Type); t != nil {
						if _, ok := t.Underlying().(*types.Slice); ok {
							returnsSlice = true
						}
					}
				}
			}
			hasNextLoop := false
			ast.Inspect(fd.Body, func(n ast.Node) bool {
				if fs, ok := n.(*ast.ForStmt); ok && fs.Cond != nil && isRowsNext(pk, fs.Cond) {
					hasNextLoop = true
				}
				return true
			})
			ast.Inspect(fd.Body, func(n ast.Node) bool {
				switch x := n.(type) {
				case *ast.SelectorExpr:
					if obj, ok := pk.TypesInfo.Uses[x.Sel].(*types.Var); ok && obj.Pkg() != nil && obj.Pkg().Path() == "encoding/base64" {
						codecs[obj.Name()] = append(codecs[obj.Name()], x.Pos())
					}
				case *ast.CallExpr:
					if len(x.Args) == 0 {
						return true
					}
					fn := Callee(pk.TypesInfo, x)
					if fn == nil || fn.Pkg() == nil || fn.Pkg().Path() != "database/sql" {
						return true
					}
					switch fn.Name() {
					case "Prepare", "Exec", "Query", "QueryRow":
					default:
						return true
					}
					tv, ok := pk.TypesInfo.Types[x.Args[0]]
					if !ok || tv.Value == nil || tv.Value.Kind() != constant.String {
						return true
					}
					st := parseSQL(constant.StringVal(tv.Value))
					if st == nil {
						return true
					}
					if (st.Kind == "delete" || st.Kind == "update") && strings.TrimSpace(st.WhereTx) != "" {
						w := " " + strings.ToUpper(st.WhereTx) + " "
						bad := ""
						for _, kw := range []string{" OR ", " LIKE ", " GLOB ", " IN ", " NOT ", "<", ">", "!="} {
							if strings.Contains(w, kw) {
								bad = strings.TrimSpace(kw)
							}
						}
						terms := len(reCond.FindAllString(st.WhereTx, -1))
						ands := strings.Count(w, " AND ")
						construct := strings.ToUpper(st.Kind) + " " + st.Table + " WHERE " + strings.Join(st.Where, " AND ")
						if bad == "" && terms >= 1 && ands == terms-1 {
							c.R.Ok(rule, fname, construct, c.pos(x.Pos()), "a conjunction of "+itoa(terms)+" key test(s)", true)
						} else {
							c.R.Bad(rule, fname, strings.ToUpper(st.Kind)+" "+st.Table+" WHERE …", c.pos(x.Pos()), "the WHERE clause `"+st.WhereTx+"` is not a plain conjunction of `column = ?` tests: the statement touches rows other than the keyed one (e.g. every link of the parent, or every row naming the child)")
						}
					}
					if st.Kind == "select" && returnsSlice {
						construct := "SELECT " + st.Table + " into a slice: Query + rows.Next() loop"
						if fn.Name() == "QueryRow" || !hasNextLoop {
							c.R.Bad(rule, fname, construct, c.pos(x.Pos()), "a function that returns a list reads its SELECT with QueryRow / without a rows.Next() loop: at most the first row is returned, the other persisted rows are lost at restore")
						} else {
							c.R.Ok(rule, fname, construct, c.pos(x.Pos()), "all rows are iterated", true)
						}
					}
				}
				return true
			})
		}
	}
	// one codec
	if len(codecs) > 1 {
		var names []string
		for n := range codecs {
			names = append(names, n)
		}
		sort.Strings(names)
		// the minority is the defect
		minor := names[0]
		for _, n := range names {
			if len(codecs[n]) < len(codecs[minor]) {
				minor = n
			}
		}
		for _, p := range codecs[minor] {
			c.R.Bad(rule, "db", "one base64 codec for stored columns", c.pos(p), "base64."+minor+" is used here while the other "+itoa(totalLen(codecs)-len(codecs[minor]))+" sites use a different encoding: a value written with one alphabet and read with the other decodes to nothing or to truncated bytes (keys containing + or /)")
		}
	} else if len(codecs) == 1 {
		for n, ps := range codecs {
			c.R.Ok(rule, "db", "one base64 codec for stored columns", c.pos(ps[0]), "all "+itoa(len(ps))+" sites use base64."+n, true)
		}
	}
}

func totalLen(m map[string][]token.Pos) int {
	n := 0
	for _, v := range m {
		n += len(v)
	}
	return n
}

// chainNameAgrees follows a bound expression through single-definition locals. agree: some name on the chain
// matches the column. judged: the chain ended in something whose name is schema-level (a field or a parameter),
// so a mismatch means something; a chain that ends in an unnamed computation is not judged.
func chainNameAgrees(pk *packages.Package, fd *ast.FuncDecl, e ast.Expr, col string, depth int) (agree, judged bool) {
	if depth > 4 {
		return false, false
	}
	e = ast.Unparen(e)
	if u, ok := e.(*ast.UnaryExpr); ok {
		e = ast.Unparen(u.X)
	}
	match := func(n string) bool { return n != "" && (strings.EqualFold(n, col) || nameAlias(n, col)) }
	switch x := e.(type) {
	case *ast.SelectorExpr:
		return match(x.Sel.Name), true
	case *ast.CallExpr:
		if len(x.Args) > 0 {
			// conversions and wrappers: judged by their (last) argument, like lastName; a parse/format call by its first
			if a, j := chainNameAgrees(pk, fd, x.Args[len(x.Args)-1], col, depth+1); a || j {
				return a, j
			}
			return chainNameAgrees(pk, fd, x.Args[0], col, depth+1)
		}
		return false, false
	case *ast.Ident:
		if match(x.Name) {
			return true, true
		}
		obj, _ := pk.TypesInfo.Uses[x].(*types.Var)
		if obj == nil {
			return false, false
		}
		// parameter?
		if fd.Type.Params != nil {
			for _, f := range fd.Type.Params.List {
				for _, n := range f.Names {
					if pk.TypesInfo.Defs[n] == types.Object(obj) {
						return false, true
					}
				}
			}
		}
		// local: its single definition
		var def ast.Expr
		n := 0
		ast.Inspect(fd.Body, func(m ast.Node) bool {
			as, ok := m.(*ast.AssignStmt)
			if !ok {
				return true
			}
			for i, l := range as.Lhs {
				id, ok := l.(*ast.Ident)
				if !ok {
					continue
				}
				if pk.TypesInfo.Defs[id] == types.Object(obj) || pk.TypesInfo.Uses[id] == types.Object(obj) {
					n++
					if len(as.Rhs) == len(as.Lhs) {
						def = as.Rhs[i]
					} else if len(as.Rhs) == 1 {
						def = as.Rhs[0]
					}
				}
			}
			return true
		})
		if n != 1 || def == nil {
			return false, false
		}
		return chainNameAgrees(pk, fd, def, col, depth+1)
	}
	return false, false
}

// R9DBAnswers — existence answers come from the database, or from a cache that every delete keeps in step.
func R9DBAnswers(c *Ctx) {
	const rule = "R9-db-answers"
	c.R.Rule(rule, "in pkg/db every path on which a boolean *Exist method returns true passes a database/sql call of that invocation; a true answer given without asking (a remembered row) is accepted only when the remembering field of DB is also written by every function of the package that executes a DELETE statement — otherwise a removed row is still reported present and the next insert of it is skipped", 3)
	var fns []*ssa.Function
	for _, fn := range c.P.ModuleFuncs(func(p string) bool { return p == PkgDB }) {
		fns = append(fns, fn)
	}
	isSQL := func(in ssa.Instruction) bool {
		ci, ok := in.(ssa.CallInstruction)
		if !ok {
			return false
		}
		n := CalleeName(ci)
		return strings.HasPrefix(n, "(*database/sql.") || strings.HasPrefix(n, "database/sql.")
	}
	writesField := func(fn *ssa.Function, field string) bool {
		for _, h := range HelperClosure(fn, 2) {
			for _, b := range h.Blocks {
				for _, in := range b.Instrs {
					switch x := in.(type) {
					case *ssa.Store:
						if t, f, _, ok := FieldOf(x.Addr); ok && t == PkgDB+".DB" && f == field {
							return true
						}
					case *ssa.MapUpdate:
						if DerivesFromNarrowCalls(x.Map, IsFieldLoad(PkgDB+".DB", field)) {
							return true
						}
					case ssa.CallInstruction:
						if bi, ok := x.Common().Value.(*ssa.Builtin); ok && bi.Name() == "delete" && DerivesFromNarrowCalls(x.Common().Args[0], IsFieldLoad(PkgDB+".DB", field)) {
							return true
						}
						if strings.HasPrefix(CalleeName(x), "(*sync.Map).") && len(x.Common().Args) > 0 {
							nm := CalleeName(x)
							if (strings.HasSuffix(nm, ".Delete") || strings.HasSuffix(nm, ".Store") || strings.HasSuffix(nm, ".Clear") || strings.HasSuffix(nm, ".LoadAndDelete")) && DerivesFrom(x.Common().Args[0], IsFieldLoad(PkgDB+".DB", field)) {
								return true
							}
						}
					}
				}
			}
		}
		return false
	}
	var deleters []*ssa.Function
	for _, fn := range fns {
		has := false
		for _, b := range fn.Blocks {
			for _, in := range b.Instrs {
				for _, op := range in.Operands(nil) {
					if s, ok := ConstString(*op); ok && strings.Contains(strings.ToUpper(s), "DELETE FROM") {
						has = true
					}
				}
			}
		}
		if has {
			deleters = append(deleters, fn)
		}
	}
	n := 0
	for _, fn := range fns {
		if fn.Signature.Recv() == nil || !strings.HasSuffix(fn.Name(), "Exist") || fn.Signature.Results().Len() != 1 || !isBoolType(fn.Signature.Results().At(0).Type()) {
			continue
		}
		// blocks reachable from the entry without executing a database call
		free := map[*ssa.BasicBlock]bool{}
		var stack []*ssa.BasicBlock
		if len(fn.Blocks) > 0 {
			stack = append(stack, fn.Blocks[0])
		}
		for len(stack) > 0 {
			b := stack[len(stack)-1]
			stack = stack[:len(stack)-1]
			if free[b] {
				continue
			}
			asks := false
			for _, in := range b.Instrs {
				if isSQL(in) {
					asks = true
				}
			}
			if asks {
				continue
			}
			free[b] = true
			stack = append(stack, b.Succs...)
		}
		n++
		construct := "true only after asking the database"
		var offending *ssa.BasicBlock
		for _, b := range fn.Blocks {
			ret, ok := b.Instrs[len(b.Instrs)-1].(*ssa.Return)
			if !ok || !free[b] {
				continue
			}
			if isBoolConst(ret.Results[0], false) {
				continue
			}
			offending = b
		}
		if offending == nil {
			c.R.Ok(rule, FuncShort(fn), construct, c.pos(fn.Pos()), "every true answer follows a query of this call", true)
			continue
		}
		// which DB fields decide that path?
		fields := map[string]bool{}
		for _, f := range FactsAt(offending) {
			DerivesFrom(f.Cond, func(v ssa.Value) bool {
				if t, fl, _, ok := FieldOf(derefOr(v)); ok && t == PkgDB+".DB" && fl != "db" {
					fields[fl] = true
				}
				return false
			})
		}
		why := ""
		if len(fields) == 0 {
			why = "a true answer is returned without any database call"
		}
		for fl := range fields {
			for _, d := range deleters {
				if !writesField(d, fl) {
					why = "a true answer is taken from DB." + fl + " without a query, and " + FuncShort(d) + ", which deletes rows, never updates that field: a removed row keeps being reported as present"
				}
			}
		}
		if why == "" {
			c.R.Ok(rule, FuncShort(fn), construct, c.pos(fn.Pos()), "remembered answers are invalidated by every deleting function", true)
		} else {
			c.R.Bad(rule, FuncShort(fn), construct, c.pos(offending.Instrs[len(offending.Instrs)-1].Pos()), why)
		}
	}
	if n == 0 {
		c.R.Anchor(rule, "the *Exist methods of db.DB")
	}
}

// R9PersistAfterMark — a liveness change made next to AgentUpdate is part of what AgentUpdate writes.
func R9PersistAfterMark(c *Ctx) {
	const rule = "R9-persist-after-mark"
	c.R.Rule(rule, "in cmd/server, a function that both changes an agent's persisted liveness (store to Agent.Active or Agent.Reason) and persists that agent (AgentUpdate) does the change first: from every such store every path to the function's end passes an AgentUpdate call — a row written before the flag is flipped keeps the old state and the agent comes back alive after a restart", 1)
	n := 0
	for _, fn := range c.P.ModuleFuncs(func(p string) bool { return p == PkgServer }) {
		var updates []*ssa.BasicBlock
		updIdx := map[*ssa.BasicBlock]int{}
		EachCall(fn, func(call ssa.CallInstruction) {
			// AgentUpdate writes the row; Died does so after flipping the flag itself
			if n := CalleeName(call); strings.HasSuffix(n, ".AgentUpdate") || strings.HasSuffix(n, "Teamserver).Died") {
				in := call.(ssa.Instruction)
				updates = append(updates, in.Block())
				if i := InstrBlockIndex(in); i > updIdx[in.Block()] {
					updIdx[in.Block()] = i
				}
			}
		})
		// event handlers and the link bookkeeping change liveness on their own: every such change must be persisted,
		// whether or not the function persists anything today
		standalone := fn.Name() == "DispatchEvent" || fn.Name() == "LinkRemove" || fn.Name() == "Died"
		if len(updates) == 0 && !standalone {
			continue
		}
		isUpd := map[*ssa.BasicBlock]bool{}
		for _, b := range updates {
			isUpd[b] = true
		}
		for _, b := range fn.Blocks {
			for i, in := range b.Instrs {
				st, ok := in.(*ssa.Store)
				if !ok {
					continue
				}
				t, f, _, ok := FieldOf(st.Addr)
				if !ok || t != PkgAgent+".Agent" || (f != "Active" && f != "Reason") {
					continue
				}
				n++
				construct := "Agent." + f + " changed before AgentUpdate"
				// an update later in the same block?
				if isUpd[b] && updIdx[b] > i {
					c.R.Ok(rule, FuncShort(fn), construct, c.pos(st.Pos()), "persisted afterwards", true)
					continue
				}
				// can the end be reached from here without passing an update block?
				leak := false
				seen := map[*ssa.BasicBlock]bool{}
				var walk func(x *ssa.BasicBlock)
				walk = func(x *ssa.BasicBlock) {
					if seen[x] || leak {
						return
					}
					seen[x] = true
					if isUpd[x] && x != b {
						return
					}
					if len(x.Succs) == 0 {
						if _, isRet := x.Instrs[len(x.Instrs)-1].(*ssa.Return); isRet {
							leak = true
						}
						return
					}
					for _, s := range x.Succs {
						walk(s)
					}
				}
				walk(b)
				if leak {
					c.R.Bad(rule, FuncShort(fn), construct, c.pos(st.Pos()), "the function can end after this change without an AgentUpdate: the row it persisted earlier does not contain it")
				} else {
					c.R.Ok(rule, FuncShort(fn), construct, c.pos(st.Pos()), "every path to the end persists the agent afterwards", true)
				}
			}
		}
	}
	if n == 0 {
		c.R.Anchor(rule, "a cmd/server function that changes Agent.Active/Reason and calls AgentUpdate")
	}
}
