package rules

import (
	"go/token"
	"strings"

	"golang.org/x/tools/go/ssa"
)

// mutatorCall reports whether a call may change teamserver state: every method
// of the agent.TeamServer interface and of *agent.Agent except the enumerated
// read-only ones.
func mutatorCall(name string) bool {
	readOnly := []string{".AgentExist", ".AgentInstance", ".ServiceAgent", ".ServiceAgentExist", ".SendLogs", ".GetDotNetPipeTemplate", ".EventNewDemon",
		".ToMap", ".ToJson", ".IsKnownRequestID", ".DownloadGet", ".PortFwdGet", ".SocksClientGet", ".PortFwdIsOpen"}
	isTS := strings.HasPrefix(name, "(Havoc/pkg/agent.TeamServer).") || strings.HasPrefix(name, "(*Havoc/cmd/server.Teamserver).")
	isAgent := strings.HasPrefix(name, "(*Havoc/pkg/agent.Agent).")
	isSvc := strings.HasPrefix(name, "(Havoc/pkg/agent.ServiceAgentInterface).")
	if !isTS && !isAgent && !isSvc {
		return false
	}
	for _, r := range readOnly {
		if strings.HasSuffix(name, r) {
			return false
		}
	}
	return true
}

// R1RejectEffects — rejected requests change nothing and get the decoy.
func R1RejectEffects(c *Ctx) {
	const rule = "R1-reject-effects"
	c.R.Rule(rule, "in parseAgentRequest / handleDemonAgent / handleServiceAgent no state-changing call can precede a `return …, false` (paths through a bytes.Buffer.Write error are infeasible); in the listeners the failing edge of parseAgentRequest reaches the decoy (fake404 / 404 status) and no body write", 6)
	for _, name := range []string{"parseAgentRequest", "handleDemonAgent", "handleServiceAgent"} {
		fn := c.P.Func(PkgHandlers, name)
		if fn == nil {
			c.R.Anchor(rule, "handlers."+name)
			continue
		}
		nRet := 0
		for _, b := range fn.Blocks {
			if len(b.Instrs) == 0 {
				continue
			}
			ret, ok := b.Instrs[len(b.Instrs)-1].(*ssa.Return)
			if !ok || len(ret.Results) != 2 || !isBoolConst(ret.Results[1], false) {
				continue
			}
			nRet++
			// infeasible: dominated by err != nil of bytes.Buffer.Write
			infeasible := false
			for _, f := range FactsAt(b) {
				if DerivesFrom(f.Cond, func(v ssa.Value) bool {
					cl, ok := v.(*ssa.Call)
					return ok && CalleeName(cl) == "(*bytes.Buffer).Write"
				}) {
					infeasible = true
				}
				// … or a boolean helper that answers false only after a failed Buffer.Write
				if cnd, truth := StripNot(f.Cond, f.Truth); !truth {
					if hc, ok := cnd.(*ssa.Call); ok {
						if h := hc.Call.StaticCallee(); h != nil && h.Blocks != nil && FuncPkgPathOf(h) == PkgHandlers && falseOnlyOnBufferWriteErr(h) {
							infeasible = true
						}
					}
				}
				// the write may sit in a helper of this package whose error result is that write's error
				if bo, ok := f.Cond.(*ssa.BinOp); ok && (isNilConst(bo.X) || isNilConst(bo.Y)) {
					v := bo.X
					if isNilConst(bo.X) {
						v = bo.Y
					}
					if errOnlyFromBufferWrite(v, 0) {
						infeasible = true
					}
				}
			}
			if infeasible {
				c.R.Ok(rule, FuncShort(fn), "return Response, false [after Buffer.Write error]", c.pos(ret.Pos()), "infeasible: bytes.Buffer.Write never returns an error", false)
				continue
			}
			var bad []string
			for _, mb := range fn.Blocks {
				if !BlockReaches(mb, b, nil) {
					continue
				}
				for _, in := range mb.Instrs {
					call, ok := in.(ssa.CallInstruction)
					if !ok {
						continue
					}
					if n := CalleeName(call); mutatorCall(n) {
						// a mutator inside the same block after the return cannot exist; before it counts
						bad = append(bad, shortCallee(n)+" at "+c.pos(call.Pos()))
					}
				}
			}
			if len(bad) == 0 {
				c.R.Ok(rule, FuncShort(fn), "return Response, false", c.pos(ret.Pos()), "no state-changing call can precede this rejection", true)
			} else {
				c.R.Bad(rule, FuncShort(fn), "return Response, false", c.pos(ret.Pos()), "a request that is rejected (decoy 404) has already changed state: "+strings.Join(bad, ", "))
			}
		}
		if nRet == 0 && name != "parseAgentRequest" {
			c.R.Anchor(rule, "a rejecting return in handlers."+name)
		}
	}
	// listeners: failing edge -> decoy
	for _, ref := range [][2]string{{"HTTP.request", "(*Havoc/pkg/handlers.HTTP).fake404"}, {"External.Request", "(*github.com/gin-gonic/gin.Context).AbortWithStatus"}} {
		fn := c.P.Func(PkgHandlers, ref[0])
		if fn == nil {
			c.R.Anchor(rule, "handlers."+ref[0])
			continue
		}
		var par *ssa.Call
		EachCall(fn, func(call ssa.CallInstruction) {
			if CalleeName(call) == "Havoc/pkg/handlers.parseAgentRequest" {
				par, _ = call.(*ssa.Call)
			}
		})
		if par == nil {
			c.R.Anchor(rule, "call of parseAgentRequest in "+ref[0])
			continue
		}
		// blocks on the Success == false edge
		okDecoy, wroteBody := false, false
		for _, b := range fn.Blocks {
			onFail := false
			for _, f := range FactsAt(b) {
				if ex, ok := f.Cond.(*ssa.Extract); ok && ex.Tuple == ssa.Value(par) && ex.Index == 1 && !f.Truth {
					onFail = true
				}
			}
			if !onFail {
				continue
			}
			for _, in := range b.Instrs {
				if call, ok := in.(ssa.CallInstruction); ok {
					n := CalleeName(call)
					if n == ref[1] {
						okDecoy = true
					}
					if strings.HasSuffix(n, ".Write") && strings.Contains(n, "ResponseWriter") {
						wroteBody = true
					}
				}
			}
		}
		if okDecoy && !wroteBody {
			c.R.Ok(rule, FuncShort(fn), "Success == false → decoy", c.pos(par.Pos()), "the failing edge answers with the decoy and writes no protocol reply", true)
		} else {
			c.R.Bad(rule, FuncShort(fn), "Success == false → decoy", c.pos(par.Pos()), "a rejected request is not answered with the decoy 404 (or a protocol reply is written on the failing edge)")
		}
	}
}

// errOnlyFromBufferWrite: v is the error result of a same-package helper all of whose returns hand back nil or the
// error of a (*bytes.Buffer).Write (which is always nil).
func errOnlyFromBufferWrite(v ssa.Value, depth int) bool {
	if depth > 2 {
		return false
	}
	var call *ssa.Call
	idx := 0
	switch x := v.(type) {
	case *ssa.Extract:
		call, _ = x.Tuple.(*ssa.Call)
		idx = x.Index
	case *ssa.Call:
		call = x
	}
	if call == nil {
		return false
	}
	if CalleeName(call) == "(*bytes.Buffer).Write" {
		return idx == 1
	}
	h := call.Call.StaticCallee()
	if h == nil || h.Blocks == nil || FuncPkgPathOf(h) != PkgHandlers {
		return false
	}
	n := 0
	for _, b := range h.Blocks {
		ret, ok := b.Instrs[len(b.Instrs)-1].(*ssa.Return)
		if !ok || idx >= len(ret.Results) {
			continue
		}
		n++
		r := ret.Results[idx]
		if isNilConst(r) {
			continue
		}
		if !errOnlyFromBufferWrite(r, depth+1) {
			return false
		}
	}
	return n > 0
}

// falseOnlyOnBufferWriteErr: h returns a bool, and every `return false` of h lies on the err != nil edge of a
// (*bytes.Buffer).Write error (which never happens).
func falseOnlyOnBufferWriteErr(h *ssa.Function) bool {
	if h.Signature.Results().Len() != 1 || !isBoolType(h.Signature.Results().At(0).Type()) {
		return false
	}
	n := 0
	for _, b := range h.Blocks {
		ret, ok := b.Instrs[len(b.Instrs)-1].(*ssa.Return)
		if !ok {
			continue
		}
		if isBoolConst(ret.Results[0], true) {
			continue
		}
		if !isBoolConst(ret.Results[0], false) {
			return false
		}
		n++
		under := false
		for _, f := range FactsAt(b) {
			bo, ok := f.Cond.(*ssa.BinOp)
			if !ok || !(isNilConst(bo.X) || isNilConst(bo.Y)) || !((bo.Op == token.NEQ) == f.Truth) {
				continue
			}
			v := bo.X
			if isNilConst(bo.X) {
				v = bo.Y
			}
			if errOnlyFromBufferWrite(v, 0) {
				under = true
			}
		}
		if !under {
			return false
		}
	}
	return n > 0
}
