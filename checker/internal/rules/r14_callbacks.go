package rules

import (
	"go/token"
	"os"
	"path/filepath"
	"regexp"
	"sort"
	"strconv"
	"strings"

	"golang.org/x/tools/go/ssa"
)

var reCAdd = regexp.MustCompile(`PackageAdd(Int32|Int64|Bool|Ptr|Bytes|String|WString)\s*\(`)

func cAddKind(name string) string {
	switch name {
	case "Int32", "Bool":
		return "I32"
	case "Int64", "Ptr":
		return "I64"
	}
	return "BYTES"
}

func goReadKind(rt string) string {
	switch rt {
	case "I32", "I64", "BYTES":
		return rt
	case "ReadInt32", "ReadBool":
		return "I32"
	case "ReadInt64", "ReadPointer":
		return "I64"
	case "ReadBytes":
		return "BYTES"
	}
	return "?" + rt
}

// straightPrefix: the leading kinds of a shape before the first loop{/opt{.
func straightPrefix(shape []string) (pre []string, whole bool) {
	for _, t := range shape {
		if strings.HasPrefix(t, "loop{") || strings.HasPrefix(t, "opt{") {
			return pre, false
		}
		pre = append(pre, t)
	}
	return pre, true
}

type cCallback struct {
	fn     string
	prefix []string // adds before the sub-command switch
	preAll bool
	cases  map[string][]string
	hasSw  bool
}

func cParseCallback(text, fn string) *cCallback {
	h := &cCallback{fn: fn, cases: map[string][]string{}}
	sw := indexKeywordTop(text, "switch")
	if sw < 0 {
		h.prefix, h.preAll = straightPrefix(cShapeWith(text, reCAdd, cAddKind))
		return h
	}
	h.hasSw = true
	h.prefix, h.preAll = straightPrefix(cShapeWith(text[:sw], reCAdd, cAddKind))
	hs := strings.Index(text[sw:], "(")
	he := matchParen(text, sw+hs, '(', ')')
	if hs < 0 || he < 0 {
		return h
	}
	bs := strings.Index(text[he:], "{")
	if bs < 0 {
		return h
	}
	be := matchParen(text, he+bs, '{', '}')
	if be < 0 {
		return h
	}
	body := text[he+bs+1 : be]
	type lab struct {
		name    string
		at, end int
	}
	var labs []lab
	depth := 0
	for k := 0; k < len(body); k++ {
		switch body[k] {
		case '{':
			depth++
		case '}':
			depth--
		}
		if depth == 0 {
			if m := reCase.FindStringSubmatchIndex(body[k:]); m != nil && m[0] == 0 {
				labs = append(labs, lab{name: body[k+m[2] : k+m[3]], at: k + m[1]})
				k += m[1] - 1
			}
		}
	}
	for i := range labs {
		labs[i].end = len(body)
		if i+1 < len(labs) {
			labs[i].end = labs[i+1].at
		}
		seg := body[labs[i].at:labs[i].end]
		if j := reCase.FindStringIndex(seg); j != nil {
			seg = seg[:j[0]]
		}
		pre, _ := straightPrefix(cShapeWith(seg, reCAdd, cAddKind))
		h.cases[labs[i].name] = pre
	}
	return h
}

// R14Callbacks — the first fields the teamserver expects of a callback are the first fields the Demon packs.
func R14Callbacks(c *Ctx) {
	const rule = "R14-callback-schema"
	c.R.Rule(rule, "for the CanIRead guards of TaskDispatch that open a callback arm (command id, and sub-command when the Demon's handler switches on one), the guard's literal list agrees, kind by kind and as far as both sides are straight-line, with the PackageAdd* sequence the Demon's handler for that command packs in that case after the sub-command (payloads/Demon/src/core/Command.c, re-read on every run): the teamserver reads a callback the way the Demon wrote it", 30)
	td := c.P.Func(PkgAgent, "Agent.TaskDispatch")
	if td == nil {
		c.R.Anchor(rule, "agent.(*Agent).TaskDispatch")
		return
	}
	csrcB, err := os.ReadFile(filepath.Join(c.Repo, "payloads/Demon/src/core/Command.c"))
	if err != nil {
		c.R.Anchor(rule, "payloads/Demon/src/core/Command.c")
		return
	}
	csrc := string(csrcB)
	defs := map[string]int64{}
	ambiguous := map[string]bool{}
	filepath.Walk(filepath.Join(c.Repo, "payloads/Demon/include"), func(path string, info os.FileInfo, err error) error {
		if err == nil && !info.IsDir() && strings.HasSuffix(path, ".h") {
			if b, err := os.ReadFile(path); err == nil {
				for _, m := range reDefine.FindAllStringSubmatch(string(b), -1) {
					if v, err := strconv.ParseInt(m[2], 0, 64); err == nil {
						if old, have := defs[m[1]]; have && old != v {
							ambiguous[m[1]] = true
						}
						defs[m[1]] = v
					}
				}
			}
		}
		return nil
	})
	handlers := map[int64]*cCallback{}
	for _, m := range reCmdTable.FindAllStringSubmatch(csrc, -1) {
		id, ok := defs[m[1]]
		if !ok || m[2] == "NULL" {
			continue
		}
		if text, ok := cFuncText(csrc, m[2]); ok {
			handlers[id] = cParseCallback(text, m[2])
		}
	}
	if len(handlers) < 15 {
		c.R.Anchor(rule, "the DemonCommands[] table")
		return
	}
	names := c.readTypeNames()
	var cmdParam *ssa.Parameter
	cmdParam = switchedParam(td)
	if cmdParam == nil {
		c.R.Anchor(rule, "TaskDispatch parameter CommandID")
		return
	}
	type guard struct {
		call *ssa.Call
		list []string
		blk  *ssa.BasicBlock
	}
	var guards []guard
	EachCall(td, func(ci ssa.CallInstruction) {
		call, ok := ci.(*ssa.Call)
		if !ok || CalleeName(call) != canIReadName {
			return
		}
		if ParamOf(call.Call.Args[0]) == nil { // only the callback parser itself, not sub-parsers
			return
		}
		opts, ok := resolveList(call.Call.Args[1], names)
		if !ok || len(opts) != 1 || opts[0].cond != nil {
			return
		}
		guards = append(guards, guard{call, opts[0].list, call.Block()})
	})
	sort.Slice(guards, func(i, j int) bool { return guards[i].call.Pos() < guards[j].call.Pos() })
	// guard truth facts: which guards are known true at a block
	guardTrueAt := func(b *ssa.BasicBlock) []*ssa.Call {
		var out []*ssa.Call
		for _, f := range FactsAtDeep(b) {
			if call, ok := f.Cond.(*ssa.Call); ok && f.Truth && CalleeName(call) == canIReadName {
				out = append(out, call)
			}
		}
		return out
	}
	fname := FuncShort(td)
	compared := 0
	for _, g := range guards {
		// command and sub-command context
		cmd, sub := int64(-1), int64(-1)
		hasSub := false
		for _, f := range FactsAt(g.blk) {
			bo, ok := f.Cond.(*ssa.BinOp)
			if !ok || bo.Op != token.EQL || !f.Truth {
				continue
			}
			k, isC := ConstInt(bo.Y)
			if !isC {
				continue
			}
			if IsParam(bo.X, cmdParam) {
				cmd = k
				continue
			}
			// a value read from the parser (ParseInt32) — the sub-command
			if DerivesFrom(bo.X, func(v ssa.Value) bool {
				cl, ok := v.(*ssa.Call)
				return ok && strings.HasSuffix(CalleeName(cl), "parser.Parser).ParseInt32")
			}) && !hasSub {
				sub, hasSub = k, true
			}
		}
		if cmd < 0 {
			continue
		}
		h := handlers[cmd]
		if h == nil {
			continue
		}
		// opening guard: the guards already known true here are at most the one that read the sub-command
		outer := guardTrueAt(g.blk)
		if (h.hasSw && hasSub && len(outer) != 1) || (!h.hasSw && len(outer) != 0) || (h.hasSw && !hasSub) {
			continue
		}
		var want []string
		label := ""
		if h.hasSw {
			for name := range h.cases {
				if v, ok := defs[name]; ok && !ambiguous[name] && v == sub {
					if label == "" || name < label {
						label = name
					}
				}
			}
			if label == "" {
				continue
			}
			if len(h.prefix) < 1 || !h.preAll {
				continue
			}
			want = append(append([]string{}, h.prefix[1:]...), h.cases[label]...)
		} else {
			want = h.prefix
		}
		var got []string
		for _, rt := range g.list {
			got = append(got, goReadKind(rt))
		}
		n := len(got)
		if len(want) < n {
			n = len(want)
		}
		if n == 0 {
			continue
		}
		compared++
		construct := "callback " + itoa(int(cmd))
		if h.hasSw {
			construct += "/" + itoa(int(sub)) + " ↔ " + h.fn + " case " + label
		} else {
			construct += " ↔ " + h.fn
		}
		if strings.Join(got[:n], " ") == strings.Join(want[:n], " ") {
			c.R.Ok(rule, fname, construct, c.pos(g.call.Pos()), "first "+itoa(n)+" field kinds agree: ["+strings.Join(got[:n], " ")+"]", true)
		} else {
			c.R.Bad(rule, fname, construct, c.pos(g.call.Pos()), "the teamserver expects ["+strings.Join(got, " ")+"] but the Demon packs ["+strings.Join(want, " ")+"…]: the callback is rejected by the guard or its fields are misread")
		}
	}
	c.R.Extra["callback_arms_compared"] = compared
}

// switchedParam: the integer parameter that is compared (==) with the largest number of distinct constants —
// the one the function's command switch is on; found by use, not by name.
func switchedParam(fn *ssa.Function) *ssa.Parameter {
	count := map[*ssa.Parameter]map[int64]bool{}
	for _, b := range fn.Blocks {
		for _, in := range b.Instrs {
			bo, ok := in.(*ssa.BinOp)
			if !ok || bo.Op != token.EQL {
				continue
			}
			k, isC := ConstInt(bo.Y)
			if !isC {
				continue
			}
			if p := ParamOf(bo.X); p != nil && p.Parent() == fn {
				if count[p] == nil {
					count[p] = map[int64]bool{}
				}
				count[p][k] = true
			}
		}
	}
	var best *ssa.Parameter
	for p, ks := range count {
		if best == nil || len(ks) > len(count[best]) || (len(ks) == len(count[best]) && p.Name() < best.Name()) {
			best = p
		}
	}
	if best != nil && len(count[best]) < 5 {
		return nil
	}
	return best
}
