package rules

import (
	"go/constant"
	"go/token"
	"go/types"
	"reflect"
	"sort"
	"strings"

	"golang.org/x/tools/go/ssa"

	"hv/internal/core"
)

const PkgGohcl = PkgYaotl + "/gohcl"

// reflectKinds returns name → value of reflect's Kind constants (from the type-checked reflect package).
func (c *Ctx) reflectKinds() map[string]int64 {
	out := map[string]int64{}
	for _, pk := range c.P.SSA.AllPackages() {
		if pk.Pkg.Path() != "reflect" {
			continue
		}
		sc := pk.Pkg.Scope()
		for _, n := range sc.Names() {
			if cn, ok := sc.Lookup(n).(*types.Const); ok && strings.HasSuffix(cn.Type().String(), "reflect.Kind") {
				if v, ok := constant.Int64Val(constant.ToInt(cn.Val())); ok {
					out[n] = v
				}
			}
		}
	}
	return out
}

type kindSet map[int64]bool

func allKinds(kinds map[string]int64) kindSet {
	s := kindSet{}
	for _, v := range kinds {
		s[v] = true
	}
	return s
}

// isKindOf: v is x.Kind() with x accepted by recv.
func isKindOf(v ssa.Value, recv func(ssa.Value) bool) bool {
	call, ok := v.(*ssa.Call)
	if !ok {
		return false
	}
	if call.Call.IsInvoke() {
		return call.Call.Method.Name() == "Kind" && recv(call.Call.Value)
	}
	if strings.HasSuffix(CalleeName(call), ".Kind") && len(call.Call.Args) == 1 {
		return recv(call.Call.Args[0])
	}
	return false
}

// restrict narrows the allowed kinds by the facts that test recv's Kind()
// directly or through a one-level helper taking recv.
func (c *Ctx) restrictKinds(allowed kindSet, facts []CondFact, recv func(ssa.Value) bool, kinds map[string]int64) kindSet {
	out := kindSet{}
	for k := range allowed {
		out[k] = true
	}
	for _, f := range facts {
		cond, truth := StripNot(f.Cond, f.Truth)
		switch x := cond.(type) {
		case *ssa.BinOp:
			if x.Op != token.EQL && x.Op != token.NEQ {
				continue
			}
			var k int64
			var ok bool
			if isKindOf(x.X, recv) {
				k, ok = ConstInt(x.Y)
			} else if isKindOf(x.Y, recv) {
				k, ok = ConstInt(x.X)
			}
			if !ok {
				continue
			}
			eq := (x.Op == token.EQL) == truth
			for kk := range out {
				if eq && kk != k {
					delete(out, kk)
				}
				if !eq && kk == k {
					delete(out, kk)
				}
			}
		case *ssa.Call:
			callee := x.Call.StaticCallee()
			if callee == nil || callee.Blocks == nil || !c.P.InModule(FuncPkgPathOf(callee)) || len(x.Call.Args) != 1 || !recv(x.Call.Args[0]) || len(callee.Params) != 1 {
				continue
			}
			p := callee.Params[0]
			sub := kindSet{}
			precv := func(v ssa.Value) bool { return IsParam(v, p) }
			for _, b := range callee.Blocks {
				if len(b.Instrs) == 0 {
					continue
				}
				ret, ok := b.Instrs[len(b.Instrs)-1].(*ssa.Return)
				if !ok || len(ret.Results) != 1 {
					continue
				}
				// which results can this return give?
				canTrue, canFalse := true, true
				if k, ok := ret.Results[0].(*ssa.Const); ok {
					canTrue, canFalse = isBoolConst(k, true), isBoolConst(k, false)
				} else if ph, ok := ret.Results[0].(*ssa.Phi); ok {
					// per-edge constants with the facts of the edge's source
					for i, e := range ph.Edges {
						ek, isC := e.(*ssa.Const)
						if isC && ((truth && !isBoolConst(ek, true)) || (!truth && !isBoolConst(ek, false))) {
							continue
						}
						for kk := range c.restrictKinds(allKinds(kinds), FactsAtDeep(ph.Block().Preds[i]), precv, kinds) {
							sub[kk] = true
						}
					}
					continue
				}
				if (truth && !canTrue) || (!truth && !canFalse) {
					continue
				}
				for kk := range c.restrictKinds(allKinds(kinds), FactsAtDeep(b), precv, kinds) {
					sub[kk] = true
				}
			}
			for kk := range out {
				if !sub[kk] {
					delete(out, kk)
				}
			}
		}
	}
	return out
}

// isStructFieldType: v is a load of reflect.StructField.Type (field.Type).
func isStructFieldType(v ssa.Value) bool {
	switch x := v.(type) {
	case *ssa.UnOp:
		if x.Op == token.MUL {
			if t, f, _, ok := FieldOf(x.X); ok && t == "reflect.StructField" && f == "Type" {
				return true
			}
		}
	case *ssa.Field:
		if t, f, _, ok := FieldOf(x); ok && t == "reflect.StructField" && f == "Type" {
			return true
		}
	}
	return false
}

// possibleTrue lists (block, extra facts) from which the value true can flow into v.
func possibleTrue(v ssa.Value) []*ssa.BasicBlock {
	var out []*ssa.BasicBlock
	seen := map[ssa.Value]bool{}
	var rec func(v ssa.Value, from *ssa.BasicBlock)
	rec = func(v ssa.Value, from *ssa.BasicBlock) {
		switch x := v.(type) {
		case *ssa.Const:
			if isBoolConst(x, true) {
				out = append(out, from)
			}
		case *ssa.Phi:
			if seen[x] {
				return
			}
			seen[x] = true
			for i, e := range x.Edges {
				rec(e, x.Block().Preds[i])
			}
		default:
			if in, ok := v.(ssa.Instruction); ok && from == nil {
				from = in.Block()
			}
			out = append(out, from)
		}
	}
	var start *ssa.BasicBlock
	if in, ok := v.(ssa.Instruction); ok {
		start = in.Block()
	}
	rec(v, start)
	return out
}

// R17Gohcl — the tag-driven decoder enforces what the schema says.
func R17Gohcl(c *Ctx) {
	const rule = "R17-gohcl-decode"
	c.R.Rule(rule, "gohcl.ImpliedBodySchema can mark an attribute required for every Go kind the profile's non-optional attribute fields have (string, int, bool, slice, map ...: only pointers and `optional` fields may be left out); decodeBodyToStruct appends an error diagnostic and skips decoding when a single-block field has more than one block, and when a required (non-slice, non-pointer) block is missing; every element of a repeated pointer block list is allocated inside the per-block loop (no two blocks share one struct)", 6)
	kinds := c.reflectKinds()
	if len(kinds) < 20 {
		c.R.Anchor(rule, "reflect.Kind constants")
		return
	}
	kindName := map[int64]string{}
	for n, v := range kinds {
		kindName[v] = n
	}
	// kinds used by non-optional attribute fields of the profile schema
	used := map[int64][]string{}
	for _, nt := range c.profileStructs() {
		st := nt.Underlying().(*types.Struct)
		for i := 0; i < st.NumFields(); i++ {
			tag := reflectTag(st.Tag(i), "yaotl")
			if tag == "" {
				continue
			}
			parts := strings.Split(tag, ",")
			kind := "attr"
			if len(parts) > 1 {
				kind = parts[1]
			}
			if kind != "attr" {
				continue
			}
			k := goKindOf(st.Field(i).Type(), kinds)
			if k >= 0 {
				used[k] = append(used[k], nt.Obj().Name()+"."+st.Field(i).Name())
			}
		}
	}
	ibs := c.P.Func(PkgGohcl, "ImpliedBodySchema")
	if ibs == nil {
		c.R.Anchor(rule, "gohcl.ImpliedBodySchema")
	} else {
		var st *ssa.Store
		for _, b := range ibs.Blocks {
			for _, in := range b.Instrs {
				if s, ok := in.(*ssa.Store); ok {
					if t, f, _, ok := FieldOf(s.Addr); ok && strings.HasSuffix(t, "yaotl.AttributeSchema") && f == "Required" {
						st = s
					}
				}
			}
		}
		if st == nil {
			c.R.Anchor(rule, "the store to AttributeSchema.Required in ImpliedBodySchema")
		} else {
			can := kindSet{}
			for _, src := range possibleTrue(st.Val) {
				if src == nil {
					continue
				}
				for k := range c.restrictKinds(allKinds(kinds), FactsAtDeep(src), isStructFieldType, kinds) {
					can[k] = true
				}
			}
			var ks []int64
			for k := range used {
				ks = append(ks, k)
			}
			sort.Slice(ks, func(i, j int) bool { return ks[i] < ks[j] })
			for _, k := range ks {
				if kindName[k] == "Ptr" || kindName[k] == "Pointer" {
					continue
				}
				construct := "a non-optional " + strings.ToLower(kindName[k]) + " attribute can be required"
				if can[k] {
					c.R.Ok(rule, FuncShort(ibs), construct, c.pos(st.Pos()), "Required = true is reachable for this kind (e.g. "+used[k][0]+")", true)
				} else {
					sort.Strings(used[k])
					c.R.Bad(rule, FuncShort(ibs), construct, c.pos(st.Pos()), "Required can never be true for fields of kind "+kindName[k]+": a profile that omits "+strings.Join(firstN(used[k], 4), ", ")+" is accepted with the field left empty")
				}
			}
		}
	}
	// decodeBodyToStruct
	dec := c.P.Func(PkgGohcl, "decodeBodyToStruct")
	if dec == nil {
		c.R.Anchor(rule, "gohcl.decodeBodyToStruct")
		return
	}
	fname := FuncShort(dec)
	isBlocksLen := func(v ssa.Value) bool {
		call, ok := v.(*ssa.Call)
		if !ok || CalleeName(call) != "builtin.len" {
			return false
		}
		return strings.HasSuffix(call.Call.Args[0].Type().String(), "yaotl.Blocks") || strings.HasSuffix(call.Call.Args[0].Type().String(), "[]*Havoc/pkg/profile/yaotl.Block")
	}
	// blocks where an error diagnostic literal is built
	type diagSite struct {
		b   *ssa.BasicBlock
		pos token.Pos
	}
	var diagsAt []diagSite
	for _, b := range dec.Blocks {
		for _, in := range b.Instrs {
			if al, ok := in.(*ssa.Alloc); ok && strings.HasSuffix(al.Type().String(), "yaotl.Diagnostic") {
				diagsAt = append(diagsAt, diagSite{b, al.Pos()})
			}
		}
	}
	reachesDecode := func(b *ssa.BasicBlock) bool {
		// can decodeBlockToValue be reached from b without going through the loop header again?
		loops := naturalLoops(dec)
		var in *natLoop
		for _, l := range loops {
			if l.body[b] && (in == nil || len(l.body) < len(in.body)) {
				in = l
			}
		}
		seen := map[*ssa.BasicBlock]bool{}
		found := false
		var walk func(x *ssa.BasicBlock)
		walk = func(x *ssa.BasicBlock) {
			if seen[x] || found {
				return
			}
			seen[x] = true
			for _, ins := range x.Instrs {
				if call, ok := ins.(ssa.CallInstruction); ok && strings.HasSuffix(CalleeName(call), "gohcl.decodeBlockToValue") {
					found = true
					return
				}
			}
			for _, s := range x.Succs {
				if in != nil && s == in.header {
					continue
				}
				walk(s)
			}
		}
		walk(b)
		return found
	}
	type want struct {
		construct string
		preds     []func(f CondFact) bool
		bad       string
	}
	lenPred := func(pred func(op token.Token, k int64, truth bool) bool) func(f CondFact) bool {
		return func(f CondFact) bool {
			if bo, ok := f.Cond.(*ssa.BinOp); ok && isBlocksLen(bo.X) {
				if k, ok := ConstInt(bo.Y); ok && pred(bo.Op, k, f.Truth) {
					return true
				}
			}
			return false
		}
	}
	// a bool flag set under Kind()==K
	flagUnder := func(v ssa.Value, kind string) bool {
		srcs, other := trueSources(v)
		if len(other) > 0 || len(srcs) == 0 {
			return false
		}
		for _, sb := range srcs {
			if sb == nil {
				return false
			}
			ks := c.restrictKinds(allKinds(kinds), FactsAtDeep(sb), func(ssa.Value) bool { return true }, kinds)
			if len(ks) != 1 || !ks[kinds[kind]] {
				return false
			}
		}
		return true
	}
	negFlag := func(kindNames ...string) func(f CondFact) bool {
		return func(f CondFact) bool {
			cond, truth := StripNot(f.Cond, f.Truth)
			if _, ok := cond.(*ssa.Phi); ok && !truth {
				for _, k := range kindNames {
					if _, have := kinds[k]; have && flagUnder(cond, k) {
						return true
					}
				}
			}
			return false
		}
	}
	wants := []want{
		{"more than one block for a single-block field → error, not decoded",
			[]func(f CondFact) bool{
				lenPred(func(op token.Token, k int64, truth bool) bool {
					return (op == token.GTR && k == 1 && truth) || (op == token.GEQ && k == 2 && truth) || (op == token.LEQ && k == 1 && !truth) || (op == token.LSS && k == 2 && !truth)
				}),
				negFlag("Slice"),
			},
			"no error diagnostic is produced (and decoding skipped) exactly when len(blocks) > 1 and the field is not a slice: a repeated single block is applied in part or silently"},
		{"no block for a required (non-slice, non-pointer) block field → error",
			[]func(f CondFact) bool{
				lenPred(func(op token.Token, k int64, truth bool) bool {
					return (op == token.EQL && k == 0 && truth) || (op == token.NEQ && k == 0 && !truth) || (op == token.LSS && k == 1 && truth) || (op == token.GTR && k == 0 && !truth)
				}),
				negFlag("Slice"),
				negFlag("Ptr", "Pointer"),
			},
			"no error diagnostic is produced exactly when a non-slice, non-pointer block field has no block: a profile that omits a required block is accepted"},
	}
	decLoops := naturalLoops(dec)
	for _, w := range wants {
		found := false
		var at token.Pos
		for _, d := range diagsAt {
			var in *natLoop
			for _, l := range decLoops {
				if l.body[d.b] && (in == nil || len(l.body) < len(in.body)) {
					in = l
				}
			}
			facts := FactsAtDeep(d.b)
			matched := make([]bool, len(w.preds))
			exact := true
			for _, f := range facts {
				// ambient: decided outside the per-field loop or by its header
				if in != nil && f.If != nil && (!in.body[f.If.Block()] || f.If.Block() == in.header) {
					continue
				}
				hit := false
				for i, p := range w.preds {
					if p(f) {
						matched[i] = true
						hit = true
					}
				}
				if !hit {
					// the complementary length test of the other diagnostic is implied, not restricting
					if bo, ok := f.Cond.(*ssa.BinOp); ok && isBlocksLen(bo.X) {
						continue
					}
					exact = false
				}
			}
			all := true
			for _, mm := range matched {
				if !mm {
					all = false
				}
			}
			if all && exact && !reachesDecode(d.b) {
				found = true
				at = d.pos
			}
		}
		if found {
			c.R.Ok(rule, fname, w.construct, c.pos(at), "an error diagnostic is built under exactly this condition and the iteration ends without decoding", true)
		} else {
			c.R.Bad(rule, fname, w.construct, c.pos(dec.Pos()), w.bad)
		}
	}
	// fresh elements
	loops := naturalLoops(dec)
	nFresh := 0
	for _, b := range dec.Blocks {
		var inner *natLoop
		depth := 0
		for _, l := range loops {
			if l.body[b] {
				depth++
				if inner == nil || len(l.body) < len(inner.body) {
					inner = l
				}
			}
		}
		if inner == nil || depth < 2 {
			continue
		}
		for _, in := range b.Instrs {
			call, ok := in.(*ssa.Call)
			if !ok {
				continue
			}
			n := CalleeName(call)
			if n != "reflect.Append" && n != "(reflect.Value).Set" {
				continue
			}
			args := call.Call.Args
			elem := args[len(args)-1]
			if n == "reflect.Append" {
				// variadic: the element slice
				elem = args[1]
			}
			news := reflectNews(elem)
			if len(news) == 0 {
				continue
			}
			nFresh++
			shared := false
			for _, nw := range news {
				if !inner.body[nw.Block()] {
					shared = true
				}
			}
			construct := strings.TrimPrefix(n, "(reflect.Value).") + "(element) in the per-block loop uses a reflect.New made in that loop"
			if !shared {
				c.R.Ok(rule, fname, construct, c.pos(call.Pos()), "each block gets its own freshly allocated element", true)
			} else {
				c.R.Bad(rule, fname, construct, c.pos(call.Pos()), "the element stored for a block comes from a reflect.New outside the per-block loop: all blocks of the list share one struct and hold the last block's values")
			}
		}
	}
	if nFresh == 0 {
		c.R.Anchor(rule, "element allocation in the repeated-block loop of decodeBodyToStruct")
	}
}

// reflectNews collects the reflect.New calls a value may come from (through phis, Elem/Indirect and variadic slices).
func reflectNews(v ssa.Value) []*ssa.Call {
	var out []*ssa.Call
	seen := map[ssa.Value]bool{}
	var rec func(v ssa.Value)
	rec = func(v ssa.Value) {
		if v == nil || seen[v] {
			return
		}
		seen[v] = true
		switch x := v.(type) {
		case *ssa.Phi:
			for _, e := range x.Edges {
				rec(e)
			}
		case *ssa.Call:
			n := CalleeName(x)
			switch n {
			case "reflect.New":
				out = append(out, x)
			case "reflect.Indirect", "(reflect.Value).Elem", "(reflect.Value).Addr":
				rec(x.Call.Args[0])
			}
		case *ssa.Slice:
			rec(x.X)
		case *ssa.Alloc:
			for _, r := range *x.Referrers() {
				switch y := r.(type) {
				case *ssa.Store:
					if y.Addr == ssa.Value(x) {
						rec(y.Val)
					}
				case *ssa.IndexAddr:
					for _, r2 := range *y.Referrers() {
						if s2, ok := r2.(*ssa.Store); ok && s2.Addr == ssa.Value(y) {
							rec(s2.Val)
						}
					}
				}
			}
		case *ssa.UnOp:
			rec(x.X)
		}
	}
	rec(v)
	return out
}

func firstN(s []string, n int) []string {
	if len(s) > n {
		return s[:n]
	}
	return s
}

// goKindOf maps a Go type to its reflect.Kind value.
func goKindOf(t types.Type, kinds map[string]int64) int64 {
	name := ""
	switch u := t.Underlying().(type) {
	case *types.Basic:
		switch u.Kind() {
		case types.String:
			name = "String"
		case types.Bool:
			name = "Bool"
		case types.Int:
			name = "Int"
		case types.Int8:
			name = "Int8"
		case types.Int16:
			name = "Int16"
		case types.Int32:
			name = "Int32"
		case types.Int64:
			name = "Int64"
		case types.Uint:
			name = "Uint"
		case types.Uint8:
			name = "Uint8"
		case types.Uint16:
			name = "Uint16"
		case types.Uint32:
			name = "Uint32"
		case types.Uint64:
			name = "Uint64"
		case types.Float32:
			name = "Float32"
		case types.Float64:
			name = "Float64"
		}
	case *types.Slice:
		name = "Slice"
	case *types.Map:
		name = "Map"
	case *types.Pointer:
		name = "Ptr"
		if _, ok := kinds["Ptr"]; !ok {
			name = "Pointer"
		}
	case *types.Struct:
		name = "Struct"
	case *types.Interface:
		name = "Interface"
	case *types.Array:
		name = "Array"
	}
	if v, ok := kinds[name]; ok {
		return v
	}
	return -1
}

func reflectTag(tag, key string) string { return reflect.StructTag(tag).Get(key) }

// R17Severity — every problem found while loading a profile is an error.
func R17Severity(c *Ctx) {
	const rule = "R17-diag-severity"
	c.R.Rule(rule, "every hcl.Diagnostic literal built in the functions of hclsimple, gohcl, hclsyntax and the yaotl root package that are reachable from hclsimple.DecodeFile has Severity = DiagError: hclsimple stops only on errors, so a problem reported as a warning (a redefined attribute, an extraneous label …) is applied without the load failing", 40)
	root := c.P.Func(PkgYaotl+"/hclsimple", "DecodeFile")
	if root == nil {
		c.R.Anchor(rule, "hclsimple.DecodeFile")
		return
	}
	inPkgs := func(p string) bool {
		return p == PkgYaotl+"/hclsimple" || p == PkgYaotl+"/gohcl" || p == PkgYaotl+"/hclsyntax" || p == PkgYaotl
	}
	reach := core.Reachable(c.P.CHA(), []*ssa.Function{root}, func(fn *ssa.Function) bool { return inPkgs(core.FuncPkgPath(fn)) })
	var fns []*ssa.Function
	for fn := range reach {
		if fn.Blocks != nil {
			fns = append(fns, fn)
		}
	}
	sort.Slice(fns, func(i, j int) bool { return fns[i].Pos() < fns[j].Pos() })
	errVal, ok := c.pkgConst(PkgYaotl, "DiagError")
	if !ok {
		c.R.Anchor(rule, "yaotl.DiagError")
		return
	}
	for _, fn := range fns {
		for _, b := range fn.Blocks {
			for _, in := range b.Instrs {
				al, ok := in.(*ssa.Alloc)
				if !ok || al.Type().String() != "*"+PkgYaotl+".Diagnostic" {
					continue
				}
				sev := int64(0) // zero value = DiagInvalid
				set := false
				for _, r := range *al.Referrers() {
					fa, ok := r.(*ssa.FieldAddr)
					if !ok {
						continue
					}
					if _, f, _, ok := FieldOf(fa); !ok || f != "Severity" {
						continue
					}
					for _, r2 := range *fa.Referrers() {
						if st, ok := r2.(*ssa.Store); ok && st.Addr == ssa.Value(fa) {
							if k, ok := ConstInt(st.Val); ok {
								sev, set = k, true
							} else {
								set = true
								sev = -1
							}
						}
					}
				}
				construct := "Diagnostic{Severity: DiagError}"
				switch {
				case set && sev == errVal:
					c.R.Ok(rule, FuncShort(fn), construct, c.pos(al.Pos()), "reported as an error", false)
				case set && sev == -1:
					c.R.Ok(rule, FuncShort(fn), "Diagnostic{Severity: <copied>}", c.pos(al.Pos()), "severity copied from another diagnostic", false)
				default:
					c.R.Bad(rule, FuncShort(fn), construct, c.pos(al.Pos()), "a problem found while loading the profile is reported with a severity other than DiagError: the load succeeds and the offending part is applied (or dropped) silently")
				}
			}
		}
	}
}

// R17LabelArity — a block reaches the decoder only with the number of labels its schema names.
func R17LabelArity(c *Ctx) {
	const rule = "R17-label-arity"
	c.R.Rule(rule, "in hclsyntax (*Body).PartialContent a block is handed on (append of block.AsHCLBlock()) only where both len(block.Labels) > len(schema labels) and len(block.Labels) < len(schema labels) are known false: gohcl indexes its label fields by the block's labels without a check of its own, so a block with a label its type does not take would crash the load instead of being rejected", 1)
	fn := c.P.Func(PkgHclsyntax, "Body.PartialContent")
	if fn == nil {
		c.R.Anchor(rule, "hclsyntax.(*Body).PartialContent")
		return
	}
	isLen := func(v ssa.Value, field string) bool {
		call, ok := v.(*ssa.Call)
		if !ok || CalleeName(call) != "builtin.len" {
			return false
		}
		return DerivesFromNarrow(call.Call.Args[0], func(x ssa.Value) bool {
			_, f, _, ok := FieldOf(x)
			return ok && f == field
		})
	}
	n := 0
	for _, b := range fn.Blocks {
		for _, in := range b.Instrs {
			call, ok := in.(*ssa.Call)
			if !ok || !strings.HasSuffix(CalleeName(call), "hclsyntax.Block).AsHCLBlock") {
				continue
			}
			n++
			gtFalse, ltFalse := false, false
			for _, f := range FactsAtDeep(b) {
				bo, ok := f.Cond.(*ssa.BinOp)
				if !ok {
					continue
				}
				l1, l2 := isLen(bo.X, "Labels"), isLen(bo.Y, "LabelNames")
				r1, r2 := isLen(bo.X, "LabelNames"), isLen(bo.Y, "Labels")
				switch {
				case l1 && l2:
					if (bo.Op == token.GTR && !f.Truth) || (bo.Op == token.LEQ && f.Truth) || (bo.Op == token.EQL && f.Truth) {
						gtFalse = true
					}
					if (bo.Op == token.LSS && !f.Truth) || (bo.Op == token.GEQ && f.Truth) || (bo.Op == token.EQL && f.Truth) {
						ltFalse = true
					}
					if bo.Op == token.NEQ && !f.Truth {
						gtFalse, ltFalse = true, true
					}
				case r1 && r2:
					if (bo.Op == token.LSS && !f.Truth) || (bo.Op == token.GEQ && f.Truth) || (bo.Op == token.EQL && f.Truth) {
						gtFalse = true
					}
					if (bo.Op == token.GTR && !f.Truth) || (bo.Op == token.LEQ && f.Truth) || (bo.Op == token.EQL && f.Truth) {
						ltFalse = true
					}
					if bo.Op == token.NEQ && !f.Truth {
						gtFalse, ltFalse = true, true
					}
				}
			}
			construct := "block handed on only with exactly the schema's label count"
			if gtFalse && ltFalse {
				c.R.Ok(rule, FuncShort(fn), construct, c.pos(call.Pos()), "both the too-many and the too-few test are known false here", true)
			} else {
				c.R.Bad(rule, FuncShort(fn), construct, c.pos(call.Pos()), "a block can be handed to the decoder without its label count having been compared with the schema (too many: "+yn(gtFalse)+" excluded, too few: "+yn(ltFalse)+" excluded): gohcl then indexes label fields that do not exist and the load panics")
			}
		}
	}
	if n == 0 {
		c.R.Anchor(rule, "the AsHCLBlock append in PartialContent")
	}
}

// R17Extraneous — an item the schema does not know is always reported.
func R17Extraneous(c *Ctx) {
	const rule = "R17-extraneous"
	c.R.Rule(rule, "in hclsyntax.(*Body).Content the diagnostics \"Unsupported argument\" / \"Unsupported block type\" are raised for every attribute/block of the body that PartialContent did not consume: inside the loop over the body's items nothing but the lookup in hiddenAttrs/hiddenBlocks stands between an item and its diagnostic (a second, more tolerant membership test lets mis-spelled settings through unreported and undecoded)", 2)
	fn := c.P.Func(PkgYaotl+"/hclsyntax", "Body.Content")
	if fn == nil {
		c.R.Anchor(rule, "hclsyntax.(*Body).Content")
		return
	}
	loops := naturalLoops(fn)
	n := 0
	for _, b := range fn.Blocks {
		for _, in := range b.Instrs {
			st, ok := in.(*ssa.Store)
			if !ok {
				continue
			}
			s, isS := ConstString(st.Val)
			if !isS || (s != "Unsupported argument" && s != "Unsupported block type") {
				continue
			}
			if _, f, _, ok := FieldOf(st.Addr); !ok || f != "Summary" {
				continue
			}
			n++
			construct := "\"" + s + "\" for every item not consumed"
			var l *natLoop
			for _, cand := range loops {
				if cand.body[b] && (l == nil || len(cand.body) < len(l.body)) {
					l = cand
				}
			}
			if l == nil {
				c.R.Bad(rule, FuncShort(fn), construct, c.pos(st.Pos()), "the diagnostic is no longer raised inside a loop over the body's items")
				continue
			}
			extra := ""
			for _, f := range FactsAt(b) {
				if !l.body[f.If.Block()] || f.If.Block() == l.header {
					continue
				}
				innerHeader := false
				for _, il := range loops {
					if il.header == f.If.Block() {
						innerHeader = true // the exit of a nested loop (building the suggestion list)
					}
				}
				if innerHeader {
					continue
				}
				cond, _ := StripNot(f.Cond, f.Truth)
				okFact := false
				if ex, isEx := cond.(*ssa.Extract); isEx && ex.Index == 1 {
					switch t := ex.Tuple.(type) {
					case *ssa.Lookup:
						if DerivesFrom(t.X, func(v ssa.Value) bool {
							return IsFieldLoad("", "hiddenAttrs")(v) || IsFieldLoad("", "hiddenBlocks")(v)
						}) {
							okFact = true
						}
					case *ssa.Next:
						okFact = true
					}
				}
				if !okFact {
					extra = c.pos(f.If.Cond.Pos())
				}
			}
			if extra == "" {
				c.R.Ok(rule, FuncShort(fn), construct, c.pos(st.Pos()), "only the hidden-item lookup guards the diagnostic", true)
			} else {
				c.R.Bad(rule, FuncShort(fn), construct, extra, "another condition inside the loop decides whether an unconsumed item is reported: some items the schema does not contain are accepted silently and their values never decoded")
			}
		}
	}
	if n < 2 {
		c.R.Anchor(rule, "the two \"Unsupported …\" diagnostics of (*Body).Content")
	}
}
