package rules

import (
	"fmt"
	"go/ast"
	"go/token"
	"go/types"
	"sort"
	"strings"

	"golang.org/x/tools/go/packages"
	"golang.org/x/tools/go/ssa"

	"hv/internal/core"
)

// typeSwitchCases returns the case types (as strings) of the first type switch
// in the named function, and the body of each clause.
func (c *Ctx) typeSwitchCases(pkgPath, fn string) (map[string]*ast.CaseClause, *packages.Package, *ast.FuncDecl) {
	fd, pk := c.P.FuncDecl(pkgPath, fn)
	if fd == nil {
		return nil, nil, nil
	}
	out := map[string]*ast.CaseClause{}
	found := false
	ast.Inspect(fd.Body, func(n ast.Node) bool {
		ts, ok := n.(*ast.TypeSwitchStmt)
		if !ok || found {
			return !found
		}
		found = true
		for _, st := range ts.Body.List {
			cc := st.(*ast.CaseClause)
			for _, e := range cc.List {
				if t := pk.TypesInfo.TypeOf(e); t != nil {
					out[types.TypeString(t, nil)] = cc
				}
			}
		}
		return false
	})
	if !found {
		// the switch may have been moved into an unexported helper of the same package (two levels)
		seen := map[*ast.FuncDecl]bool{fd: true}
		frontier := []*ast.FuncDecl{fd}
		for depth := 0; depth < 2 && !found; depth++ {
			var next []*ast.FuncDecl
			for _, f := range frontier {
				ast.Inspect(f.Body, func(n ast.Node) bool {
					call, ok := n.(*ast.CallExpr)
					if !ok || found {
						return !found
					}
					callee := Callee(pk.TypesInfo, call)
					if callee == nil || callee.Pkg() == nil || callee.Pkg().Path() != pkgPath {
						return true
					}
					for _, file := range pk.Syntax {
						for _, d := range file.Decls {
							hd, ok := d.(*ast.FuncDecl)
							if !ok || hd.Body == nil || seen[hd] || pk.TypesInfo.Defs[hd.Name] != types.Object(callee) {
								continue
							}
							seen[hd] = true
							next = append(next, hd)
							ast.Inspect(hd.Body, func(m ast.Node) bool {
								ts, ok := m.(*ast.TypeSwitchStmt)
								if !ok || found {
									return !found
								}
								found = true
								for _, st := range ts.Body.List {
									cc := st.(*ast.CaseClause)
									for _, e := range cc.List {
										if t := pk.TypesInfo.TypeOf(e); t != nil {
											out[types.TypeString(t, nil)] = cc
										}
									}
								}
								return false
							})
						}
					}
					return true
				})
			}
			frontier = next
		}
	}
	if !found {
		return nil, pk, fd
	}
	return out, pk, fd
}

// R8Exhaustive — every value placed in a task's argument list has a type the encoder handles.
func R8Exhaustive(c *Ctx) {
	const rule = "R8-encoder-exhaustive"
	c.R.Rule(rule, "every element of every []interface{} literal that becomes a Job's Data (and every append to a Job's Data) has a static type among the case types of BuildPayloadMessage's type switch; any other type is silently dropped by its default arm and shifts every later argument", 60)
	cases, _, _ := c.typeSwitchCases(PkgAgent, "BuildPayloadMessage")
	if cases == nil {
		c.R.Anchor(rule, "type switch in agent.BuildPayloadMessage")
		return
	}
	var tl []string
	for t := range cases {
		tl = append(tl, t)
	}
	sort.Strings(tl)
	c.R.Extra["encoder_case_types"] = tl
	isJobData := func(pk *packages.Package, e ast.Expr) bool {
		sel, ok := ast.Unparen(e).(*ast.SelectorExpr)
		if !ok || sel.Sel.Name != "Data" {
			return false
		}
		t := pk.TypesInfo.TypeOf(sel.X)
		if t == nil {
			return false
		}
		if p, ok := t.Underlying().(*types.Pointer); ok {
			t = p.Elem()
		}
		n, ok := t.(*types.Named)
		return ok && n.Obj().Name() == "Job" && n.Obj().Pkg() != nil && n.Obj().Pkg().Path() == PkgAgent
	}
	isAnySlice := func(t types.Type) bool {
		s, ok := t.Underlying().(*types.Slice)
		if !ok {
			return false
		}
		i, ok := s.Elem().Underlying().(*types.Interface)
		return ok && i.Empty()
	}
	var curFd *ast.FuncDecl
	checkElems := func(pk *packages.Package, fn string, lit *ast.CompositeLit) {
		bad := []string{}
		for _, el := range lit.Elts {
			if kv, ok := el.(*ast.KeyValueExpr); ok {
				el = kv.Value
			}
			t := pk.TypesInfo.TypeOf(el)
			if t == nil {
				continue
			}
			if b, ok := t.(*types.Basic); ok && b.Info()&types.IsUntyped != 0 {
				t = types.Default(t)
			}
			ts := types.TypeString(t, nil)
			if _, ok := cases[ts]; !ok {
				// interface-typed local: every assignment to it in this function must
				// come from a value whose static type is an encoder case
				if id, isId := ast.Unparen(el).(*ast.Ident); isId {
					if _, isIface := t.Underlying().(*types.Interface); isIface {
						if ok, why := ifaceLocalTypes(pk, curFd, id, cases); ok {
							continue
						} else {
							bad = append(bad, ExprStr(el)+" : "+ts+" ("+why+")")
							continue
						}
					}
				}
				bad = append(bad, ExprStr(el)+" : "+ts)
			}
		}
		construct := fmt.Sprintf("[]interface{}{… %d elements}", len(lit.Elts))
		if len(bad) == 0 {
			c.R.Ok(rule, fn, construct, c.pos(lit.Pos()), "all element types are encoder cases", len(lit.Elts) > 0)
		} else {
			c.R.Bad(rule, fn, construct, c.pos(lit.Pos()), "element(s) with a type BuildPayloadMessage has no case for (dropped on the wire; the agent reads the next argument in its place): "+strings.Join(bad, "; "))
		}
	}
	c.EachFuncDecl(NonYaotl, func(pk *packages.Package, fd *ast.FuncDecl) {
		fn := DeclShort(pk, fd)
		curFd = fd
		ast.Inspect(fd.Body, func(n ast.Node) bool {
			switch x := n.(type) {
			case *ast.CompositeLit:
				// Job{… Data: []interface{}{…}}
				t := pk.TypesInfo.TypeOf(x)
				if t == nil {
					return true
				}
				if nn, ok := t.(*types.Named); ok && nn.Obj().Name() == "Job" && nn.Obj().Pkg() != nil && nn.Obj().Pkg().Path() == PkgAgent {
					for _, el := range x.Elts {
						if kv, ok := el.(*ast.KeyValueExpr); ok {
							if id, ok := kv.Key.(*ast.Ident); ok && id.Name == "Data" {
								if lit, ok := ast.Unparen(kv.Value).(*ast.CompositeLit); ok {
									checkElems(pk, fn, lit)
								}
							}
						}
					}
				}
			case *ast.AssignStmt:
				for i, l := range x.Lhs {
					if i < len(x.Rhs) && isJobData(pk, l) {
						switch r := ast.Unparen(x.Rhs[i]).(type) {
						case *ast.CompositeLit:
							if isAnySlice(pk.TypesInfo.TypeOf(r)) {
								checkElems(pk, fn, r)
							}
						case *ast.CallExpr:
							if IsBuiltin(pk.TypesInfo, r, "append") && len(r.Args) > 1 && !r.Ellipsis.IsValid() {
								lit := &ast.CompositeLit{Elts: r.Args[1:], Lbrace: r.Lparen}
								checkElems(pk, fn, lit)
							}
						}
					}
				}
			}
			return true
		})
	})
}

// R8Sibling — GetQueuedJobs sizes the same types BuildPayloadMessage encodes.
func R8Sibling(c *Ctx) {
	const rule = "R8-sibling-cases"
	c.R.Rule(rule, "GetQueuedJobs (batch size accounting) has the same type-switch case set as BuildPayloadMessage, and for each fixed-width type the size it adds equals the width the encoder emits", 8)
	enc, pkE, _ := c.typeSwitchCases(PkgAgent, "BuildPayloadMessage")
	siz, pkS, _ := c.typeSwitchCases(PkgAgent, "Agent.GetQueuedJobs")
	if enc == nil || siz == nil {
		c.R.Anchor(rule, "type switches of BuildPayloadMessage / GetQueuedJobs")
		return
	}
	// width emitted by the encoder: the constant in make([]byte, N)
	encWidth := func(cc *ast.CaseClause) (int64, bool) {
		var w int64 = -1
		ast.Inspect(cc, func(n ast.Node) bool {
			if call, ok := n.(*ast.CallExpr); ok && IsBuiltin(pkE.TypesInfo, call, "make") && len(call.Args) == 2 {
				if tv, ok := pkE.TypesInfo.Types[call.Args[1]]; ok && tv.Value != nil {
					if v, ok := constInt64(tv); ok {
						w = v
					}
				}
			}
			return true
		})
		return w, w >= 0
	}
	sizWidth := func(cc *ast.CaseClause) (int64, bool, bool) {
		var w int64 = -1
		hasLen := false
		ast.Inspect(cc, func(n ast.Node) bool {
			if as, ok := n.(*ast.AssignStmt); ok && as.Tok == token.ADD_ASSIGN && len(as.Rhs) == 1 {
				ast.Inspect(as.Rhs[0], func(m ast.Node) bool {
					if call, ok := m.(*ast.CallExpr); ok && IsBuiltin(pkS.TypesInfo, call, "len") {
						hasLen = true
					}
					return true
				})
				if tv, ok := pkS.TypesInfo.Types[as.Rhs[0]]; ok && tv.Value != nil {
					if v, ok := constInt64(tv); ok {
						w = v
					}
				} else if be, ok := as.Rhs[0].(*ast.BinaryExpr); ok {
					if tv, ok := pkS.TypesInfo.Types[be.X]; ok && tv.Value != nil {
						if v, ok := constInt64(tv); ok {
							w = v
						}
					}
				}
			}
			return true
		})
		return w, w >= 0, hasLen
	}
	var names []string
	for t := range enc {
		names = append(names, t)
	}
	sort.Strings(names)
	for _, t := range names {
		sc, ok := siz[t]
		if !ok {
			c.R.Bad(rule, "agent.(*Agent).GetQueuedJobs", "case "+t, c.pos(enc[t].Pos()), "the encoder handles "+t+" but the batch-size accounting does not: such arguments are not counted towards the 30 MB limit")
			continue
		}
		ew, eok := encWidth(enc[t])
		sw, sok, hasLen := sizWidth(sc)
		switch {
		case t == "string" || t == "[]byte":
			if sok && sw == 4 && hasLen && eok && ew == 4 {
				c.R.Ok(rule, "agent.(*Agent).GetQueuedJobs", "case "+t, c.pos(sc.Pos()), "4-byte length prefix + len on both sides (the encoder's NUL terminator for strings is not counted: size accounting only)", true)
			} else {
				c.R.Bad(rule, "agent.(*Agent).GetQueuedJobs", "case "+t, c.pos(sc.Pos()), fmt.Sprintf("length-prefixed type sized as %d(+len=%v) but encoded with a %d-byte prefix", sw, hasLen, ew))
			}
		case eok && sok && ew == sw:
			c.R.Ok(rule, "agent.(*Agent).GetQueuedJobs", "case "+t, c.pos(sc.Pos()), fmt.Sprintf("%d bytes on both sides", ew), true)
		default:
			c.R.Bad(rule, "agent.(*Agent).GetQueuedJobs", "case "+t, c.pos(sc.Pos()), fmt.Sprintf("encoder emits %d bytes, accounting adds %d", ew, sw))
		}
	}
	for t, sc := range siz {
		if _, ok := enc[t]; !ok {
			c.R.Bad(rule, "agent.BuildPayloadMessage", "case "+t, c.pos(sc.Pos()), "GetQueuedJobs sizes "+t+" but BuildPayloadMessage has no case for it: the value is dropped on the wire")
		}
	}
}

func constInt64(tv types.TypeAndValue) (int64, bool) {
	if tv.Value == nil {
		return 0, false
	}
	s := tv.Value.ExactString()
	var v int64
	if _, err := fmt.Sscanf(s, "%d", &v); err != nil {
		return 0, false
	}
	return v, true
}

// R8ByteOrder — teamserver→agent data is little endian; agent→teamserver reads default to big endian.
func R8ByteOrder(c *Ctx) {
	const rule = "R8-byte-order"
	c.R.Rule(rule, "every encoding/binary byte-order selector inside BuildPayloadMessage and the packer package is LittleEndian; parser.NewParser sets bigEndian=true and SetBigEndian is called only from the handlers' own task-size display code", 10)
	check := func(pkgPath string, only func(fd *ast.FuncDecl) bool) {
		pk := c.P.ByPath[pkgPath]
		if pk == nil {
			c.R.Anchor(rule, pkgPath)
			return
		}
		for _, f := range pk.Syntax {
			for _, d := range f.Decls {
				fd, ok := d.(*ast.FuncDecl)
				if !ok || fd.Body == nil || (only != nil && !only(fd)) {
					continue
				}
				ast.Inspect(fd.Body, func(n ast.Node) bool {
					sel, ok := n.(*ast.SelectorExpr)
					if !ok {
						return true
					}
					obj, ok := pk.TypesInfo.Uses[sel.Sel].(*types.Var)
					if !ok || obj.Pkg() == nil || obj.Pkg().Path() != "encoding/binary" {
						return true
					}
					fn := DeclShort(pk, fd)
					if obj.Name() == "LittleEndian" {
						c.R.Ok(rule, fn, "binary."+obj.Name(), c.pos(sel.Pos()), "little endian as the Demon reads it", false)
					} else {
						c.R.Bad(rule, fn, "binary."+obj.Name(), c.pos(sel.Pos()), "teamserver→agent field written in "+obj.Name()+"; the Demon reads ids, sizes and integers little-endian")
					}
					return true
				})
			}
		}
	}
	check(PkgAgent, func(fd *ast.FuncDecl) bool { return fd.Name.Name == "BuildPayloadMessage" && fd.Recv == nil })
	check(PkgPacker, nil)
	// parser default
	np := c.P.Func(PkgParser, "NewParser")
	if np == nil {
		c.R.Anchor(rule, "parser.NewParser")
	} else {
		ok := false
		for _, b := range np.Blocks {
			for _, in := range b.Instrs {
				if st, isSt := in.(*ssa.Store); isSt {
					if _, f, _, okF := FieldOf(st.Addr); okF && f == "bigEndian" && isBoolConst(st.Val, true) {
						ok = true
					}
				}
			}
		}
		if ok {
			c.R.Ok(rule, FuncShort(np), "parser.bigEndian = true", c.pos(np.Pos()), "agent→teamserver integers are read big-endian by default", true)
		} else {
			c.R.Bad(rule, FuncShort(np), "parser.bigEndian = true", c.pos(np.Pos()), "a new parser no longer defaults to big-endian: every Demon-built integer is byte-swapped")
		}
	}
	// readers: BigEndian on the bigEndian==true edge
	for _, name := range []string{"Parser.ParseInt32", "Parser.ParseInt64", "Parser.ParseBool", "Parser.CanIRead"} {
		fn := c.P.Func(PkgParser, name)
		if fn == nil {
			c.R.Anchor(rule, "parser."+name)
			continue
		}
		good, bad := 0, 0
		// the decode may live in an unexported helper of the reader
		for _, rf := range HelperClosure(fn, 2) {
			EachCall(rf, func(call ssa.CallInstruction) {
				n := CalleeName(call)
				isBig := strings.HasPrefix(n, "(encoding/binary.bigEndian).Uint")
				isLittle := strings.HasPrefix(n, "(encoding/binary.littleEndian).Uint")
				if !isBig && !isLittle {
					return
				}
				for _, f := range FactsAt(call.Block()) {
					if DerivesFrom(f.Cond, IsFieldLoad(PkgParser+".Parser", "bigEndian")) {
						if f.Truth == isBig {
							good++
						} else {
							bad++
						}
					}
				}
			})
		}
		if bad == 0 && good >= 2 {
			c.R.Ok(rule, FuncShort(fn), "if p.bigEndian {BigEndian} else {LittleEndian}", c.pos(fn.Pos()), "byte order follows the parser's flag", true)
		} else {
			c.R.Bad(rule, FuncShort(fn), "if p.bigEndian {BigEndian} else {LittleEndian}", c.pos(fn.Pos()), fmt.Sprintf("byte-order selection does not follow p.bigEndian (consistent=%d inverted=%d)", good, bad))
		}
	}
	// SetBigEndian callers
	for fn := range c.P.AllFuncs() {
		if fn.Blocks == nil || !c.P.InModule(core.FuncPkgPath(fn)) {
			continue
		}
		EachCall(fn, func(call ssa.CallInstruction) {
			if CalleeName(call) != "(*Havoc/pkg/common/parser.Parser).SetBigEndian" {
				return
			}
			if core.FuncPkgPath(fn) == PkgHandlers {
				c.R.Ok(rule, FuncShort(fn), "SetBigEndian(…)", c.pos(call.Pos()), "flipped only on a parser over a task buffer the teamserver built itself", false)
			} else {
				c.R.Bad(rule, FuncShort(fn), "SetBigEndian(…)", c.pos(call.Pos()), "byte order of an agent-data parser is flipped outside the handlers' own task-size code")
			}
		})
	}
}

// R8Encrypt — task bodies leave only through XCryptBytesAES256 under the session key.
func R8Encrypt(c *Ctx) {
	const rule = "R8-encrypt-dominance"
	c.R.Rule(rule, "in BuildPayloadMessage every append to the returned package is either a 4-byte header field or the result of crypt.XCryptBytesAES256(body, AesKey, AesIv) on the function's own key/IV parameters; XCryptBytesAES256 builds a fresh AES-CTR stream from its key/IV parameters per call; every caller passes AESKey and AESIv of one and the same agent", 8)
	bpm := c.P.Func(PkgAgent, "BuildPayloadMessage")
	xc := c.P.Func(PkgCrypt, "XCryptBytesAES256")
	if bpm == nil || xc == nil {
		c.R.Anchor(rule, "agent.BuildPayloadMessage / crypt.XCryptBytesAES256")
		return
	}
	fname := FuncShort(bpm)
	// values that flow to the return
	retSet := map[ssa.Value]bool{}
	var mark func(v ssa.Value)
	mark = func(v ssa.Value) {
		if retSet[v] {
			return
		}
		retSet[v] = true
		switch x := v.(type) {
		case *ssa.Phi:
			for _, e := range x.Edges {
				mark(e)
			}
		case *ssa.Call:
			if CalleeName(x) == "builtin.append" {
				mark(x.Call.Args[0])
			}
		}
	}
	for _, b := range bpm.Blocks {
		if len(b.Instrs) > 0 {
			if r, ok := b.Instrs[len(b.Instrs)-1].(*ssa.Return); ok {
				for _, v := range r.Results {
					mark(v)
				}
			}
		}
	}
	nApp := 0
	for v := range retSet {
		call, ok := v.(*ssa.Call)
		if !ok || CalleeName(call) != "builtin.append" {
			continue
		}
		nApp++
		x := call.Call.Args[1]
		construct := "append(PayloadPackage, " + AccessPath(x) + "...)"
		// header field: make([]byte, 4)
		if mk, ok := x.(*ssa.MakeSlice); ok {
			if n, ok := ConstInt(mk.Len); ok && n == 4 {
				c.R.Ok(rule, fname, construct, c.pos(call.Pos()), "4-byte header field (command id / request id / size)", false)
				continue
			}
		}
		if sl, ok := x.(*ssa.Slice); ok {
			if al, ok := sl.X.(*ssa.Alloc); ok {
				if at, ok := al.Type().Underlying().(*types.Pointer); ok {
					if arr, ok := at.Elem().Underlying().(*types.Array); ok && arr.Len() == 4 {
						c.R.Ok(rule, fname, construct, c.pos(call.Pos()), "4-byte header field (command id / request id / size)", false)
						continue
					}
				}
			}
		}
		// encrypted body: reaching definitions of x are XCrypt calls with the params
		okEnc := true
		var why string
		seen := map[ssa.Value]bool{}
		var chk func(v ssa.Value)
		chk = func(v ssa.Value) {
			if seen[v] {
				return
			}
			seen[v] = true
			switch y := v.(type) {
			case *ssa.Phi:
				for _, e := range y.Edges {
					chk(e)
				}
			case *ssa.Call:
				if CalleeName(y) == "Havoc/pkg/common/crypt.XCryptBytesAES256" && len(y.Call.Args) == 3 && IsParam(y.Call.Args[1], bpm.Params[1]) && IsParam(y.Call.Args[2], bpm.Params[2]) {
					return
				}
				okEnc = false
				why = "body bytes come from " + CalleeName(y) + " instead of XCryptBytesAES256(body, AesKey, AesIv)"
			default:
				okEnc = false
				why = "body bytes (" + AccessPath(v) + ") are appended without passing XCryptBytesAES256(body, AesKey, AesIv)"
			}
		}
		chk(x)
		if okEnc {
			c.R.Ok(rule, fname, construct, c.pos(call.Pos()), "the only body bytes appended are XCryptBytesAES256(body, AesKey, AesIv)", true)
		} else {
			c.R.Bad(rule, fname, construct, c.pos(call.Pos()), why+": part of a task body would be sent in clear")
		}
	}
	if nApp < 4 {
		c.R.Anchor(rule, "the header/body appends of BuildPayloadMessage (found "+itoa(nApp)+")")
	}
	// XCryptBytesAES256 shape
	var newCipher, newCTR, xor bool
	// the cipher set-up may live in an unexported helper: parameters are resolved back to XCryptBytesAES256's own
	for _, xf := range HelperClosure(xc, 2) {
		EachCall(xf, func(call ssa.CallInstruction) {
			args := call.Common().Args
			switch CalleeName(call) {
			case "crypto/aes.NewCipher":
				newCipher = len(args) == 1 && c.RootParam(args[0], xc, 0) == xc.Params[1]
			case "crypto/cipher.NewCTR":
				newCTR = len(args) == 2 && c.RootParam(args[1], xc, 0) == xc.Params[2]
			case "(crypto/cipher.Stream).XORKeyStream":
				xor = len(args) == 2 && c.RootParam(args[1], xc, 0) == xc.Params[0]
			}
		})
	}
	if newCipher && newCTR && xor {
		c.R.Ok(rule, FuncShort(xc), "aes.NewCipher(key) → cipher.NewCTR(block, iv) → XORKeyStream(dst, src)", c.pos(xc.Pos()), "fresh AES-CTR keystream from the key/IV parameters on every call (per-task restart at the session IV)", true)
	} else {
		c.R.Bad(rule, FuncShort(xc), "aes.NewCipher(key) → cipher.NewCTR(block, iv) → XORKeyStream(dst, src)", c.pos(xc.Pos()), fmt.Sprintf("XCryptBytesAES256 no longer keys AES-CTR from its own parameters (NewCipher(key)=%v NewCTR(iv)=%v XOR(src)=%v)", newCipher, newCTR, xor))
	}
	// callers: key and IV of the same agent
	for fn := range c.P.AllFuncs() {
		if fn.Blocks == nil || !c.P.InModule(core.FuncPkgPath(fn)) {
			continue
		}
		EachCall(fn, func(call ssa.CallInstruction) {
			n := CalleeName(call)
			var k, iv ssa.Value
			switch n {
			case "Havoc/pkg/agent.BuildPayloadMessage":
				k, iv = call.Common().Args[1], call.Common().Args[2]
			case "Havoc/pkg/common/packer.NewPacker":
				k, iv = call.Common().Args[0], call.Common().Args[1]
			case "(*Havoc/pkg/common/parser.Parser).DecryptBuffer":
				k, iv = call.Common().Args[1], call.Common().Args[2]
			default:
				return
			}
			c.R.CallSites++
			if isNilConst(k) && isNilConst(iv) {
				return
			}
			kb, kf := encBase(k)
			ib, ifd := encBase(iv)
			construct := shortCallee(n) + "(…, " + AccessPath(k) + ", " + AccessPath(iv) + ")"
			if kf == "AESKey" && ifd == "AESIv" && kb != "" && kb == ib {
				c.R.Ok(rule, FuncShort(fn), construct, c.pos(call.Pos()), "key and IV are the Encryption fields of the same agent value "+kb, true)
			} else if p1, p2 := ParamOf(k), ParamOf(iv); p1 != nil && p2 != nil {
				c.R.Ok(rule, FuncShort(fn), construct, c.pos(call.Pos()), "forwards its own key/IV parameters", false)
			} else {
				c.R.Bad(rule, FuncShort(fn), construct, c.pos(call.Pos()), "key and IV are not the AESKey/AESIv pair of one and the same agent ("+kb+"."+kf+" vs "+ib+"."+ifd+")")
			}
		})
	}
}

func isNilConst(v ssa.Value) bool {
	c, ok := v.(*ssa.Const)
	return ok && c.Value == nil
}

// encBase: v is a load of <base>.Encryption.<field> → (access path of base, field).
func encBase(v ssa.Value) (string, string) {
	addr, ok := Deref(v)
	if !ok {
		return "", ""
	}
	_, f, base, ok := FieldOf(addr)
	if !ok {
		return "", ""
	}
	_, f2, base2, ok := FieldOf(base)
	if !ok || f2 != "Encryption" {
		return "", ""
	}
	return AccessPath(base2), f
}

// R8IDWidth — agent ids are parsed with enough bits.
func R8IDWidth(c *Ctx) {
	const rule = "R8-id-width"
	c.R.Rule(rule, "every strconv.ParseInt(<x>.NameID, 16, N) uses N = 64 (or ParseUint with ≥ 32): NameID is %08x of a 32-bit id, so N = 32 rejects every id with the top bit set", 4)
	for _, fn := range c.P.ModuleFuncs(NonYaotl) {
		EachCall(fn, func(call ssa.CallInstruction) {
			n := CalleeName(call)
			if n != "strconv.ParseInt" && n != "strconv.ParseUint" {
				return
			}
			args := call.Common().Args
			if len(args) != 3 || !DerivesFrom(args[0], IsFieldLoad(PkgAgent+".Agent", "NameID")) {
				return
			}
			base, _ := ConstInt(args[1])
			bits, ok := ConstInt(args[2])
			construct := fmt.Sprintf("%s(%s, %d, %d)", strings.TrimPrefix(n, "strconv."), AccessPath(args[0]), base, bits)
			if !ok {
				c.R.Und(rule, FuncShort(fn), construct, c.pos(call.Pos()), "bit size is not a constant")
				return
			}
			if (n == "strconv.ParseInt" && bits == 64) || (n == "strconv.ParseInt" && bits == 0) || (n == "strconv.ParseUint" && (bits >= 32 || bits == 0)) {
				c.R.Ok(rule, FuncShort(fn), construct, c.pos(call.Pos()), "wide enough for every 32-bit agent id", true)
			} else {
				c.R.Bad(rule, FuncShort(fn), construct, c.pos(call.Pos()), "ids ≥ 0x80000000 fail to parse (value out of range): the agent is never persisted / its pivot tasks are silently dropped")
			}
		})
	}
}

// R8Pivot — same-object rules of the pivot wrapping and relay unwrapping.
func R8Pivot(c *Ctx) {
	const rule = "R8-pivot-same-object"
	c.R.Rule(rule, "PivotAddJob: each layer is encrypted with the key/IV of the agent whose NameID is packed as that layer's destination id; relay unwrapping: the agent returned by AgentInstance(inner header id) is the one whose key decrypts the frame and on which TaskDispatch is re-entered (nil-checked), never the relaying parent", 3)
	pa := c.P.Func(PkgAgent, "Agent.PivotAddJob")
	td := c.P.Func(PkgAgent, "Agent.TaskDispatch")
	if pa == nil || td == nil {
		c.R.Anchor(rule, "agent.(*Agent).PivotAddJob / TaskDispatch")
		return
	}
	// PivotAddJob: pair each BuildPayloadMessage with the next ParseInt(NameID)
	type ev struct {
		in   ssa.CallInstruction
		kind string
		base string
	}
	var evs []ev
	for _, b := range pa.Blocks {
		for _, in := range b.Instrs {
			call, ok := in.(ssa.CallInstruction)
			if !ok {
				continue
			}
			switch CalleeName(call) {
			case "Havoc/pkg/agent.BuildPayloadMessage":
				kb, _ := encBase(call.Common().Args[1])
				evs = append(evs, ev{call, "enc", kb})
			case "strconv.ParseInt", "strconv.ParseUint":
				a0 := call.Common().Args[0]
				if addr, ok := Deref(a0); ok {
					if _, f, base, ok := FieldOf(addr); ok && f == "NameID" {
						evs = append(evs, ev{call, "id", AccessPath(base)})
					}
				}
			default:
				// a helper of this package that parses the name id it is given
				h := call.Common().StaticCallee()
				if h == nil || h.Blocks == nil || FuncPkgPathOf(h) != PkgAgent {
					continue
				}
				for i, a := range call.Common().Args {
					addr, ok := Deref(a)
					if !ok || i >= len(h.Params) {
						continue
					}
					_, f, base, ok := FieldOf(addr)
					if !ok || f != "NameID" {
						continue
					}
					parses := false
					EachCall(h, func(hc ssa.CallInstruction) {
						if n := CalleeName(hc); (n == "strconv.ParseInt" || n == "strconv.ParseUint") && hc.Common().Args[0] == ssa.Value(h.Params[i]) {
							parses = true
						}
					})
					if parses {
						evs = append(evs, ev{call, "id", AccessPath(base)})
					}
				}
			}
		}
	}
	pairs := 0
	for i, e := range evs {
		if e.kind != "enc" {
			continue
		}
		// next id event in the same block or a block dominated by it
		for j := i + 1; j < len(evs); j++ {
			if evs[j].kind != "id" {
				continue
			}
			if !InstrDominates(e.in, evs[j].in) {
				continue
			}
			pairs++
			construct := "layer: key of " + e.base + " / id of " + evs[j].base
			if e.base != "" && e.base == evs[j].base {
				c.R.Ok(rule, FuncShort(pa), construct, c.pos(e.in.Pos()), "the layer's key and destination id come from the same agent", true)
			} else {
				c.R.Bad(rule, FuncShort(pa), construct, c.pos(e.in.Pos()), "a pivot layer is encrypted with one agent's key but addressed to another agent's id: the hop that decrypts it finds garbage")
			}
			break
		}
	}
	if pairs < 2 {
		c.R.Anchor(rule, "the two (encrypt, id) pairs of PivotAddJob (found "+itoa(pairs)+")")
	}
	// the final enqueue goes to the chain's first hop (agent without parent) — structural: store to JobQueue of pivots.Parent after the loop
	// relay: recursive TaskDispatch receiver
	n := 0
	EachCall(td, func(call ssa.CallInstruction) {
		if CalleeName(call) != "(*Havoc/pkg/agent.Agent).TaskDispatch" {
			return
		}
		n++
		recv := call.Common().Args[0]
		isInst := func(v ssa.Value) bool {
			cl, ok := v.(*ssa.Call)
			return ok && strings.HasSuffix(CalleeName(cl), ".AgentInstance")
		}
		fromInstance := isInst(recv)
		var inst *ssa.Call
		if fromInstance {
			inst = recv.(*ssa.Call)
		}
		construct := "re-dispatch " + AccessPath(recv) + ".TaskDispatch(…)"
		if !fromInstance {
			c.R.Bad(rule, FuncShort(td), construct, c.pos(call.Pos()), "a relayed callback is dispatched on a value that is not the result of AgentInstance(<inner header id>): it would be gated by and attributed to the wrong session")
			return
		}
		// id argument derives from ParseHeader(...).AgentID
		idOK := DerivesFrom(inst.Call.Args[0], IsFieldLoad(PkgAgent+".Header", "AgentID"))
		// nil check dominates
		nilOK := false
		for _, f := range FactsAt(call.Block()) {
			if bo, ok := f.Cond.(*ssa.BinOp); ok && (bo.X == ssa.Value(inst) || bo.Y == ssa.Value(inst)) && (isNilConst(bo.X) || isNilConst(bo.Y)) {
				if (bo.Op == token.NEQ && f.Truth) || (bo.Op == token.EQL && !f.Truth) {
					nilOK = true
				}
			}
		}
		// DecryptBuffer in the same region uses the same agent's key
		decOK := false
		EachCall(td, func(c2 ssa.CallInstruction) {
			if CalleeName(c2) != "(*Havoc/pkg/common/parser.Parser).DecryptBuffer" {
				return
			}
			if !InstrDominates(inst, c2) {
				return
			}
			a := c2.Common().Args
			if addr, ok := Deref(a[1]); ok {
				if _, f, base, ok := FieldOf(addr); ok && f == "AESKey" {
					if _, f2, b2, ok := FieldOf(base); ok && f2 == "Encryption" && b2 == ssa.Value(inst) {
						decOK = true
					}
				}
			}
		})
		// the sub-parser comes from ParseBytes of the header's data (strictly shorter input: recursion terminates)
		args := call.Common().Args
		subOK := len(args) >= 4 && DerivesFrom(args[3], func(v ssa.Value) bool {
			cl, ok := v.(*ssa.Call)
			return ok && CalleeName(cl) == "(*Havoc/pkg/common/parser.Parser).ParseBytes"
		})
		var miss []string
		if !idOK {
			miss = append(miss, "AgentInstance is not looked up by the inner header's AgentID")
		}
		if !nilOK {
			miss = append(miss, "the AgentInstance result is not nil-checked before use")
		}
		if !decOK {
			miss = append(miss, "the frame is not decrypted with that agent's own AESKey/AESIv")
		}
		if !subOK {
			miss = append(miss, "the nested parser is not built from ParseBytes() of the relayed frame")
		}
		if len(miss) == 0 {
			c.R.Ok(rule, FuncShort(td), construct, c.pos(call.Pos()), "child looked up by inner header id, nil-checked, frame decrypted with the child's key, nested parser over ParseBytes() of the frame", true)
		} else {
			c.R.Bad(rule, FuncShort(td), construct, c.pos(call.Pos()), strings.Join(miss, "; "))
		}
	})
	if n == 0 {
		c.R.Anchor(rule, "the relay re-dispatch (recursive TaskDispatch call)")
	}
}

// R8RequestID — request id provenance in TaskPrepare.
func R8RequestID(c *Ctx) {
	const rule = "R8-requestid-provenance"
	c.R.Rule(rule, "in TaskPrepare the only stores to job.RequestID are the random default and the parse of the operator's TaskID (base 16, ≥ 32 bits); the request id the operator was told is the one sent", 2)
	tp := c.P.Func(PkgAgent, "Agent.TaskPrepare")
	if tp == nil {
		c.R.Anchor(rule, "agent.(*Agent).TaskPrepare")
		return
	}
	n, fromTask := 0, 0
	for _, b := range tp.Blocks {
		for _, in := range b.Instrs {
			st, ok := in.(*ssa.Store)
			if !ok {
				continue
			}
			t, f, _, ok := FieldOf(st.Addr)
			if !ok || t != PkgAgent+".Job" || f != "RequestID" {
				continue
			}
			n++
			construct := "job.RequestID = " + AccessPath(st.Val)
			isRand := DerivesFrom(st.Val, func(v ssa.Value) bool {
				cl, ok := v.(*ssa.Call)
				return ok && strings.HasPrefix(CalleeName(cl), "math/rand.")
			})
			isTask := DerivesFrom(st.Val, func(v ssa.Value) bool {
				cl, ok := v.(*ssa.Call)
				if !ok || (CalleeName(cl) != "strconv.ParseInt" && CalleeName(cl) != "strconv.ParseUint") {
					return false
				}
				base, _ := ConstInt(cl.Call.Args[1])
				bits, _ := ConstInt(cl.Call.Args[2])
				return base == 16 && (bits >= 32 || bits == 0) && !(CalleeName(cl) == "strconv.ParseInt" && bits == 32) &&
					(DerivesFrom(cl.Call.Args[0], IsFieldLoad(PkgAgent+".Job", "TaskID")) || DerivesFrom(cl.Call.Args[0], IsMapLookupConst("TaskID")))
			})
			switch {
			case isTask:
				fromTask++
				// must be under err == nil
				c.R.Ok(rule, FuncShort(tp), construct, c.pos(st.Pos()), "request id is the hexadecimal TaskID the operator was told", true)
			case isRand:
				c.R.Ok(rule, FuncShort(tp), construct, c.pos(st.Pos()), "random default for tasks without a TaskID", false)
			default:
				c.R.Bad(rule, FuncShort(tp), construct, c.pos(st.Pos()), "the request id sent to the agent is derived from something other than the operator's TaskID (or the random default)")
			}
		}
	}
	if fromTask == 0 {
		c.R.Bad(rule, FuncShort(tp), "job.RequestID = parse(TaskID)", c.pos(tp.Pos()), "TaskPrepare no longer derives the request id from the operator's TaskID: callbacks are reported under an id the operator was never told")
	}
	_ = n
}

// R8Terminators — NUL terminators of string encodings.
func R8Terminators(c *Ctx) {
	const rule = "R8-terminators"
	c.R.Rule(rule, "EncodeUTF8, EncodeUTF16 and the string arm of BuildPayloadMessage append \"\\x00\" exactly on the edge where strings.HasSuffix(s, \"\\x00\") is false, before the bytes are produced", 3)
	for _, ref := range [][2]string{{PkgCommon, "EncodeUTF8"}, {PkgCommon, "EncodeUTF16"}, {PkgAgent, "BuildPayloadMessage"}} {
		fn := c.P.Func(ref[0], ref[1])
		if fn == nil {
			c.R.Anchor(rule, ref[0]+"."+ref[1])
			continue
		}
		ok := false
		for _, b := range fn.Blocks {
			for _, in := range b.Instrs {
				bo, isBin := in.(*ssa.BinOp)
				if !isBin || bo.Op != token.ADD {
					continue
				}
				if s, isC := ConstString(bo.Y); !isC || s != "\x00" {
					continue
				}
				for _, f := range FactsAt(b) {
					if call, isCall := f.Cond.(*ssa.Call); isCall && CalleeName(call) == "strings.HasSuffix" && !f.Truth {
						if s, isC := ConstString(call.Call.Args[1]); isC && s == "\x00" && call.Call.Args[0] == bo.X {
							ok = true
						}
					}
				}
			}
		}
		construct := "if !HasSuffix(s, \"\\x00\") { s += \"\\x00\" }"
		if ok {
			c.R.Ok(rule, FuncShort(fn), construct, c.pos(fn.Pos()), "terminator appended exactly when missing", true)
		} else {
			c.R.Bad(rule, FuncShort(fn), construct, c.pos(fn.Pos()), "the C-string terminator is no longer appended when missing (or is appended unconditionally): the Demon reads past the argument / gets a doubled terminator")
		}
	}
}

// ifaceLocalTypes checks that every assignment to the interface-typed local id
// inside fd stores a value whose static type is one of the encoder's cases.
func ifaceLocalTypes(pk *packages.Package, fd *ast.FuncDecl, id *ast.Ident, cases map[string]*ast.CaseClause) (bool, string) {
	obj := pk.TypesInfo.Uses[id]
	if obj == nil {
		obj = pk.TypesInfo.Defs[id]
	}
	if obj == nil || fd == nil {
		return false, "unresolved"
	}
	n := 0
	why := ""
	ok := true
	ast.Inspect(fd.Body, func(m ast.Node) bool {
		as, isAs := m.(*ast.AssignStmt)
		if !isAs || len(as.Lhs) != len(as.Rhs) {
			return true
		}
		for i, l := range as.Lhs {
			lid, isId := l.(*ast.Ident)
			if !isId {
				continue
			}
			o := pk.TypesInfo.Uses[lid]
			if o == nil {
				o = pk.TypesInfo.Defs[lid]
			}
			if o != obj {
				continue
			}
			n++
			t := pk.TypesInfo.TypeOf(as.Rhs[i])
			if t == nil {
				continue
			}
			if b, isB := t.(*types.Basic); isB && b.Info()&types.IsUntyped != 0 {
				t = types.Default(t)
			}
			if _, in := cases[types.TypeString(t, nil)]; !in {
				ok = false
				why = "assigned a " + types.TypeString(t, nil)
			}
		}
		return true
	})
	if n == 0 {
		return false, "never assigned"
	}
	return ok, why
}

// R8PackerWidth — the packer writes every fixed-width integer at its full width.
func R8PackerWidth(c *Ctx) {
	const rule = "R8-packer-width"
	c.R.Rule(rule, "in the packer package every binary.PutUintN writes into a buffer of exactly N/8 bytes, N/8 is the size of the sized integer parameter it encodes (int64→8, int32/uint32→4; platform int and len() are 32-bit on the wire), the value is not narrowed before it is written, and the bookkeeping size grows by the same number of bytes", 2)
	pk := c.P.SSAPkg[PkgPacker]
	if pk == nil {
		c.R.Anchor(rule, "package packer")
		return
	}
	var fns []*ssa.Function
	for _, fn := range c.P.ModuleFuncs(func(p string) bool { return p == PkgPacker }) {
		fns = append(fns, fn)
	}
	for _, fn := range fns {
		for _, b := range fn.Blocks {
			for _, in := range b.Instrs {
				call, ok := in.(*ssa.Call)
				if !ok {
					continue
				}
				name := CalleeName(call)
				if !strings.HasPrefix(name, "(encoding/binary.") || !strings.Contains(name, ").PutUint") {
					continue
				}
				var n int
				fmt.Sscanf(name[strings.Index(name, ").PutUint")+len(").PutUint"):], "%d", &n)
				args := CallArgs(call)
				if n == 0 || len(args) < 2 {
					continue
				}
				want := int64(n / 8)
				// buffer length
				blen := int64(-1)
				switch x := args[0].(type) {
				case *ssa.Slice:
					if al, ok := x.X.(*ssa.Alloc); ok {
						if arr, ok := al.Type().Underlying().(*types.Pointer).Elem().Underlying().(*types.Array); ok && x.Low == nil {
							blen = arr.Len()
							if x.High != nil {
								if k, ok := ConstInt(x.High); ok {
									blen = k
								} else {
									blen = -1
								}
							}
						}
					}
				case *ssa.MakeSlice:
					if k, ok := ConstInt(x.Len); ok {
						blen = k
					}
				}
				// encoded value
				why := ""
				if blen != want {
					why = "the buffer has " + itoa(int(blen)) + " bytes for a " + itoa(n) + "-bit write"
				}
				src := args[1]
				if cv, ok := src.(*ssa.Convert); ok {
					src = cv.X
				}
				if bt, ok := src.Type().Underlying().(*types.Basic); ok {
					sz := int64(0)
					switch bt.Kind() {
					case types.Int64, types.Uint64:
						sz = 8
					case types.Int32, types.Uint32:
						sz = 4
					case types.Int16, types.Uint16:
						sz = 2
					case types.Int8, types.Uint8:
						sz = 1
					case types.Int, types.Uint:
						sz = 4 // 32-bit on the wire by protocol
					}
					if sz != 0 && sz != want && why == "" {
						why = "a " + bt.Name() + " (" + itoa(int(sz)) + " bytes on the wire) is written with PutUint" + itoa(n) + ": the upper half is lost or the field is short"
					}
				}
				// size bookkeeping: some p.size += K in the function with K == want
				sizeOK := false
				for _, b2 := range fn.Blocks {
					for _, in2 := range b2.Instrs {
						if st, ok := in2.(*ssa.Store); ok {
							if _, f, _, ok := FieldOf(st.Addr); ok && f == "size" {
								if bo, ok := st.Val.(*ssa.BinOp); ok && bo.Op == token.ADD {
									if k, ok := ConstInt(bo.Y); ok && k == want {
										sizeOK = true
									}
								}
							}
						}
					}
				}
				if !sizeOK && why == "" {
					why = "the packer's size is not advanced by " + itoa(int(want))
				}
				construct := "PutUint" + itoa(n) + " of a " + itoa(int(want)) + "-byte field"
				if why == "" {
					c.R.Ok(rule, FuncShort(fn), construct, c.pos(call.Pos()), "buffer, value width and size bookkeeping agree", true)
				} else {
					c.R.Bad(rule, FuncShort(fn), construct, c.pos(call.Pos()), why)
				}
			}
		}
	}
}

// R8CmpWidth — 32-bit identifiers are compared at 32 bits.
func R8CmpWidth(c *Ctx, floor int) {
	const rule = "R8-cmp-width"
	c.R.Rule(rule, "an equality test involving a signed 32-bit identifier field (socket ids, file ids, agent ids kept as int32) compares at 32 bits: the wider operand is narrowed to int32; the field is never sign-extended to int and compared with a wide value that was parsed unsigned (ids ≥ 0x80000000 would never match)", floor)
	is32 := func(t types.Type) bool {
		b, ok := t.Underlying().(*types.Basic)
		return ok && b.Kind() == types.Int32
	}
	wide := func(t types.Type) bool {
		b, ok := t.Underlying().(*types.Basic)
		return ok && (b.Kind() == types.Int || b.Kind() == types.Int64 || b.Kind() == types.Uint || b.Kind() == types.Uint64)
	}
	fieldLoad := func(v ssa.Value) (string, bool) {
		if u, ok := v.(*ssa.UnOp); ok && u.Op == token.MUL {
			if t, f, _, ok := FieldOf(u.X); ok {
				return shortType(t) + "." + f, true
			}
		}
		if t, f, _, ok := FieldOf(v); ok {
			return shortType(t) + "." + f, true
		}
		return "", false
	}
	for _, fn := range c.P.ModuleFuncs(NonYaotl) {
		for _, b := range fn.Blocks {
			for _, in := range b.Instrs {
				bo, ok := in.(*ssa.BinOp)
				if !ok || (bo.Op != token.EQL && bo.Op != token.NEQ) {
					continue
				}
				for _, pair := range [][2]ssa.Value{{bo.X, bo.Y}, {bo.Y, bo.X}} {
					a, other := pair[0], pair[1]
					// narrow form: field(int32) == int32(wide)
					if fl, ok := fieldLoad(a); ok && is32(a.Type()) {
						if cv, ok := other.(*ssa.Convert); ok && wide(cv.X.Type()) {
							c.R.Ok(rule, FuncShort(fn), fl+" == int32(wide value)", c.pos(bo.Pos()), "compared at 32 bits", true)
						}
						continue
					}
					// widened form: int(field int32) == wide value
					cv, ok := a.(*ssa.Convert)
					if !ok || !is32(cv.X.Type()) || !wide(cv.Type()) {
						continue
					}
					fl, ok := fieldLoad(cv.X)
					if !ok {
						continue
					}
					if _, isConst := other.(*ssa.Const); isConst {
						continue
					}
					if ocv, ok := other.(*ssa.Convert); ok && is32(ocv.X.Type()) {
						continue // both sides sign-extended from int32
					}
					c.R.Bad(rule, FuncShort(fn), "int("+fl+") == wide value", c.pos(bo.Pos()), "the int32 field is sign-extended and compared with a wide integer; ids arrive as unsigned 32-bit values widened to int, so every id with the top bit set compares unequal and its socket/file is never found")
				}
			}
		}
	}
}

// R8UnwrittenElement — no task argument is read from an element of a local array that nothing can have written.
func R8UnwrittenElement(c *Ctx) {
	const rule = "R8-unwritten-element"
	c.R.Rule(rule, "in TaskPrepare (and its helpers) every element of a local fixed-size array that is read at a constant index can have been written: some store into the array uses that index, or an index the prover cannot separate from it (a fill loop that stops one short leaves the last task argument at its zero value)", 0)
	td := c.P.Func(PkgAgent, "Agent.TaskPrepare")
	if td == nil {
		c.R.Anchor(rule, "agent.(*Agent).TaskPrepare")
		return
	}
	n := 0
	for _, fn := range HelperClosure(td, 1) {
		loads := heapLoadsOf(fn)
		for _, b := range fn.Blocks {
			for _, in := range b.Instrs {
				al, ok := in.(*ssa.Alloc)
				if !ok {
					continue
				}
				arr, ok := al.Type().Underlying().(*types.Pointer).Elem().Underlying().(*types.Array)
				if !ok || arr.Len() > 64 {
					continue
				}
				type acc struct {
					ia    *ssa.IndexAddr
					write bool
					read  bool
				}
				var accs []acc
				escapes := false
				for _, r := range *al.Referrers() {
					ia, ok := r.(*ssa.IndexAddr)
					if !ok {
						if _, isDbg := r.(*ssa.DebugRef); !isDbg {
							escapes = true // sliced, copied, passed on: writes are not visible here
						}
						continue
					}
					a := acc{ia: ia}
					for _, r2 := range *ia.Referrers() {
						switch u := r2.(type) {
						case *ssa.Store:
							if u.Addr == ssa.Value(ia) {
								a.write = true
							} else {
								escapes = true
							}
						case *ssa.UnOp:
							a.read = true
						default:
							escapes = true
						}
					}
					accs = append(accs, a)
				}
				if escapes {
					continue
				}
				hasWrite := false
				for _, a := range accs {
					if a.write {
						hasWrite = true
					}
				}
				if !hasWrite {
					continue // a zero-valued array used as such
				}
				for _, a := range accs {
					k, isC := ConstInt(a.ia.Index)
					if !a.read || !isC {
						continue
					}
					n++
					may := false
					for _, w := range accs {
						if !w.write {
							continue
						}
						if wk, wc := ConstInt(w.ia.Index); wc {
							if wk == k {
								may = true
							}
							continue
						}
						pr := newProver(c, loads, fn, w.ia.Block())
						t := pr.norm(w.ia.Index)
						if !t.ok {
							may = true
							continue
						}
						below := pr.g.prove(t.sym, "0", k-1-t.off) // idx <= k-1
						above := pr.g.prove("0", t.sym, t.off-k-1) // idx >= k+1
						if !below && !above {
							may = true
						}
					}
					construct := AccessPath(al) + "[" + itoa(int(k)) + "] read"
					if al.Comment != "" {
						construct = al.Comment + "[" + itoa(int(k)) + "] read"
					}
					if may {
						c.R.Ok(rule, FuncShort(fn), construct, c.pos(a.ia.Pos()), "some store can write this element", true)
					} else {
						c.R.Bad(rule, FuncShort(fn), construct, c.pos(a.ia.Pos()), "no store into the array can reach this index (every written index is provably different): the element still holds its zero value when it is packed into the task")
					}
				}
			}
		}
	}
	c.R.Extra["R8-unwritten-element.reads"] = n
}

// R8SizeField — the size field of a task frame is the length of the body that follows it.
func R8SizeField(c *Ctx) {
	const rule = "R8-size-field"
	c.R.Rule(rule, "in BuildPayloadMessage one of the 4-byte header fields is written from uint32(len(B)) where B is the very buffer handed to XCryptBytesAES256 for that task (the same SSA value): the Demon cuts the task stream by this field, a size computed any other way (an estimate, another buffer) mis-frames the task and every task after it", 1)
	bpm := c.P.Func(PkgAgent, "BuildPayloadMessage")
	if bpm == nil {
		c.R.Anchor(rule, "agent.BuildPayloadMessage")
		return
	}
	var bodies []ssa.Value
	var sizes []ssa.Value
	var firstPut token.Pos
	for _, fn := range HelperClosure(bpm, 1) {
		EachCall(fn, func(call ssa.CallInstruction) {
			args := call.Common().Args
			switch CalleeName(call) {
			case "Havoc/pkg/common/crypt.XCryptBytesAES256":
				if len(args) == 3 {
					bodies = append(bodies, args[0])
				}
			case "(encoding/binary.littleEndian).PutUint32":
				if len(args) == 3 {
					if firstPut == token.NoPos {
						firstPut = call.Pos()
					}
					v := args[2]
					for {
						if cv, ok := v.(*ssa.Convert); ok {
							v = cv.X
							continue
						}
						break
					}
					if arg, isLen := isLenCall(v); isLen {
						sizes = append(sizes, arg)
					}
				}
			}
		})
	}
	if len(bodies) == 0 {
		c.R.Anchor(rule, "the XCryptBytesAES256(body, …) call of BuildPayloadMessage")
		return
	}
	same := func(a, b ssa.Value) bool {
		if a == b {
			return true
		}
		// two loads of one local cell with no store in between are rare here; phis of identical edges
		pa, oka := a.(*ssa.Phi)
		pb, okb := b.(*ssa.Phi)
		if oka && okb && pa.Block() == pb.Block() && len(pa.Edges) == len(pb.Edges) {
			for i := range pa.Edges {
				if pa.Edges[i] != pb.Edges[i] {
					return false
				}
			}
			return true
		}
		return false
	}
	ok := false
	for _, s := range sizes {
		for _, b := range bodies {
			if same(s, b) {
				ok = true
			}
		}
	}
	construct := "size field = uint32(len(<body>))"
	if ok {
		c.R.Ok(rule, FuncShort(bpm), construct, c.pos(firstPut), "the size written is the length of the buffer that is encrypted and appended", true)
	} else {
		c.R.Bad(rule, FuncShort(bpm), construct, c.pos(firstPut), "no header field is written from len() of the buffer handed to XCryptBytesAES256: the size the Demon reads does not have to equal the number of body bytes that follow, and the rest of the batch is mis-framed")
	}
}

// R14TableReach — every entry of a local lookup table can be selected.
func R14TableReach(c *Ctx) {
	const rule = "R14-table-reach"
	c.R.Rule(rule, "in TaskDispatch/TaskPrepare (and helpers) a table written as a composite literal and only ever indexed under range guards has no entry that the guards make unreachable: if every index into it is provably below its last position (or above its first), the table and the guard disagree by one and the value that should map to that entry is reported as unknown", 0)
	n := 0
	for _, ref := range []string{"Agent.TaskDispatch", "Agent.TaskPrepare"} {
		root := c.P.Func(PkgAgent, ref)
		if root == nil {
			c.R.Anchor(rule, "agent.(*Agent)."+ref)
			continue
		}
		for _, fn := range HelperClosure(root, 1) {
			loads := heapLoadsOf(fn)
			for _, b := range fn.Blocks {
				for _, in := range b.Instrs {
					sl, ok := in.(*ssa.Slice)
					if !ok || sl.Low != nil || sl.High != nil {
						continue
					}
					al, ok := sl.X.(*ssa.Alloc)
					if !ok || al.Comment != "slicelit" {
						continue
					}
					arr, ok := al.Type().Underlying().(*types.Pointer).Elem().Underlying().(*types.Array)
					if !ok || arr.Len() < 2 {
						continue
					}
					N := arr.Len()
					var uses []*ssa.IndexAddr
					other := false
					for _, r := range *sl.Referrers() {
						switch u := r.(type) {
						case *ssa.IndexAddr:
							if _, isC := ConstInt(u.Index); isC {
								other = true
							}
							uses = append(uses, u)
						case *ssa.DebugRef:
						case *ssa.Call:
							if bi, isB := u.Call.Value.(*ssa.Builtin); isB && bi.Name() == "len" {
								continue
							}
							other = true
						default:
							other = true // ranged over, passed on, stored: every entry is reachable some other way
						}
					}
					if other || len(uses) == 0 {
						continue
					}
					n++
					allBelow, allAbove := true, true
					for _, u := range uses {
						pr := newProver(c, loads, fn, u.Block())
						t := pr.norm(u.Index)
						if !t.ok {
							allBelow, allAbove = false, false
							break
						}
						if !pr.g.prove(t.sym, "0", N-2-t.off) { // idx <= N-2
							allBelow = false
						}
						if !pr.g.prove("0", t.sym, t.off-1) { // idx >= 1
							allAbove = false
						}
					}
					construct := "table of " + itoa(int(N)) + " entries indexed under guards"
					switch {
					case allBelow:
						c.R.Bad(rule, FuncShort(fn), construct, c.pos(uses[0].Pos()), "every index into the table is provably below its last position: the last entry can never be selected (guard and table disagree by one)")
					case allAbove:
						c.R.Bad(rule, FuncShort(fn), construct, c.pos(uses[0].Pos()), "every index into the table is provably above its first position: the first entry can never be selected")
					default:
						c.R.Ok(rule, FuncShort(fn), construct, c.pos(uses[0].Pos()), "first and last entry are within reach of the guards", true)
					}
				}
			}
		}
	}
	c.R.Extra["R14-table-reach.tables"] = n
}

// R8PackerBuffer — the packer's buffer only grows by what is added to it.
func R8PackerBuffer(c *Ctx) {
	const rule = "R8-packer-buffer"
	c.R.Rule(rule, "every store to Packer.data is append(p.data, …), the length-preserving XCryptBytesAES256(p.data, …), or a value of length zero (nil, make([]byte, 0, n), x[:0]): a buffer (re)initialised with a non-zero length starts every package with bytes nobody added", 2)
	n := 0
	for _, fn := range c.P.ModuleFuncs(NonYaotl) {
		for _, b := range fn.Blocks {
			for _, in := range b.Instrs {
				st, ok := in.(*ssa.Store)
				if !ok {
					continue
				}
				t, f, base, ok := FieldOf(st.Addr)
				if !ok || t != PkgPacker+".Packer" || f != "data" {
					continue
				}
				n++
				selfLoad := func(v ssa.Value) bool {
					ld, ok := v.(*ssa.UnOp)
					if !ok || ld.Op != token.MUL {
						return false
					}
					t2, f2, b2, ok := FieldOf(ld.X)
					return ok && t2 == t && f2 == f && AccessPath(b2) == AccessPath(base)
				}
				construct := "p.data = " + AccessPath(st.Val)
				good := ""
				switch x := st.Val.(type) {
				case *ssa.Const:
					if x.IsNil() {
						good = "nil"
					}
				case *ssa.Call:
					switch CalleeName(x) {
					case "builtin.append":
						if selfLoad(x.Call.Args[0]) {
							good = "append onto itself"
						}
					case "Havoc/pkg/common/crypt.XCryptBytesAES256":
						if selfLoad(x.Call.Args[0]) {
							good = "stream cipher over itself (same length)"
						}
					}
				case *ssa.MakeSlice:
					if k, isC := ConstInt(x.Len); isC && k == 0 {
						good = "empty make"
					}
				case *ssa.Slice:
					if k, isC := ConstInt(x.High); x.High != nil && isC && k == 0 {
						good = "re-sliced to length 0"
					}
				}
				if good != "" {
					c.R.Ok(rule, FuncShort(fn), construct, c.pos(st.Pos()), good, true)
				} else {
					c.R.Bad(rule, FuncShort(fn), construct, c.pos(st.Pos()), "the buffer is replaced by a value that is neither itself grown/encrypted nor provably empty: the next package starts with bytes that were never added (a relayed frame then begins with a bogus agent id and size)")
				}
			}
		}
	}
	if n == 0 {
		c.R.Anchor(rule, "stores to packer.Packer.data")
	}
}

// R8UTF16Encoder — wide strings are produced by a library transcoder.
func R8UTF16Encoder(c *Ctx) {
	const rule = "R8-utf16-encoder"
	c.R.Rule(rule, "the bytes common.EncodeUTF16 returns derive from the result of a library UTF-16 transcoder — golang.org/x/text's unicode.UTF16(LittleEndian, …) encoder, or unicode/utf16 (Encode, EncodeRune, AppendRune) — and not from arithmetic on the string's bytes or runes: a hand-written widening loop sends UTF-8 bytes as code units, or code points above U+FFFF as one truncated unit, and the agent reads a different string than the operator typed", 1)
	fn := c.P.Func(PkgCommon, "EncodeUTF16")
	if fn == nil {
		c.R.Anchor(rule, "common.EncodeUTF16")
		return
	}
	lib := func(v ssa.Value) bool {
		cl, ok := v.(*ssa.Call)
		if !ok {
			return false
		}
		switch CalleeName(cl) {
		case "(*golang.org/x/text/encoding.Encoder).String", "(*golang.org/x/text/encoding.Encoder).Bytes",
			"unicode/utf16.Encode", "unicode/utf16.EncodeRune", "unicode/utf16.AppendRune":
			return true
		}
		return false
	}
	n := 0
	bad := ""
	for _, f := range HelperClosure(fn, 1) {
		if f != fn {
			continue
		}
		for _, b := range f.Blocks {
			ret, ok := b.Instrs[len(b.Instrs)-1].(*ssa.Return)
			if !ok || len(ret.Results) == 0 {
				continue
			}
			n++
			// a constant answer on the error path carries no text
			rv := ret.Results[0]
			for {
				if cv, ok := rv.(*ssa.Convert); ok {
					rv = cv.X
					continue
				}
				break
			}
			if _, isConst := rv.(*ssa.Const); isConst {
				continue
			}
			if !DerivesFrom(ret.Results[0], lib) {
				bad = c.pos(ret.Pos())
			}
		}
	}
	// little endian, if the x/text encoder is used
	EachCall(fn, func(call ssa.CallInstruction) {
		if CalleeName(call) == "golang.org/x/text/encoding/unicode.UTF16" {
			if k, isC := ConstInt(call.Common().Args[0]); !isC || k != 1 { // unicode.LittleEndian == 1? resolved below
				_ = k
			}
		}
	})
	construct := "EncodeUTF16 result comes from a library transcoder"
	if n == 0 {
		c.R.Anchor(rule, "a return of common.EncodeUTF16")
		return
	}
	if bad == "" {
		c.R.Ok(rule, FuncShort(fn), construct, c.pos(fn.Pos()), "transcoding is delegated to the library", true)
	} else {
		c.R.Bad(rule, FuncShort(fn), construct, bad, "the returned bytes are not the output of a UTF-16 transcoder of x/text or unicode/utf16: it cannot be shown that non-ASCII text and code points above U+FFFF reach the agent as valid UTF-16")
	}
}
