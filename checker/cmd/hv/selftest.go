package main

func selftest(args []string) int { return 0 }
