package main

import (
	"encoding/json"
	"flag"
	"fmt"
	"os"
	"os/exec"
	"path/filepath"
	"sort"
	"strings"
	"sync"
)

type mutantSpec struct {
	File     string `json:"file"`
	Old      string `json:"old"`
	New      string `json:"new"`
	Property string `json:"property"`
	Rule     string `json:"rule"`   // substring expected in a violation line
	Expect   string `json:"expect"` // "violation" (default) or "silent" (behaviour-preserving edit)
	Note     string `json:"note"`
}

// selftest replays the mutant corpus: each single-site edit of /repo (applied
// in memory through an overlay) must make the named property's check fail with
// a violation of the named rule; "silent" mutants are behaviour-preserving
// edits that must not raise an alarm. This validates the checker; it is not
// what decides the properties.
func selftest(args []string) int {
	fs := flag.NewFlagSet("selftest", flag.ExitOnError)
	dir := fs.String("dir", "/verif/mutants", "mutant corpus")
	only := fs.String("property", "", "restrict to one property")
	jobs := fs.Int("j", 6, "parallel checks")
	verbose := fs.Bool("v", false, "print outputs of failing mutants")
	fs.Parse(args)
	files, _ := filepath.Glob(filepath.Join(*dir, "*", "*.json"))
	sort.Strings(files)
	self, err := os.Executable()
	if err != nil {
		fmt.Println(err)
		return 2
	}
	type res struct {
		file string
		ok   bool
		msg  string
		out  string
	}
	var mu sync.Mutex
	var results []res
	sem := make(chan struct{}, *jobs)
	var wg sync.WaitGroup
	for _, f := range files {
		b, err := os.ReadFile(f)
		if err != nil {
			fmt.Println(err)
			return 2
		}
		var m mutantSpec
		if err := json.Unmarshal(b, &m); err != nil {
			fmt.Printf("%s: %v\n", f, err)
			return 2
		}
		if *only != "" && m.Property != *only {
			continue
		}
		wg.Add(1)
		go func(f string, m mutantSpec) {
			defer wg.Done()
			sem <- struct{}{}
			defer func() { <-sem }()
			cmd := exec.Command(self, "check", "--property", m.Property, "--mutant", f, "--no-evidence")
			out, _ := cmd.CombinedOutput()
			code := cmd.ProcessState.ExitCode()
			r := res{file: f, out: string(out)}
			want := m.Expect
			if want == "" {
				want = "violation"
			}
			switch want {
			case "violation":
				hit := false
				for _, l := range strings.Split(string(out), "\n") {
					if anyRule(l, m.Rule) || (m.Rule == "" && strings.HasPrefix(l, "VIOLATION")) {
						hit = true
					}
				}
				r.ok = code == 1 && hit
				if !r.ok {
					r.msg = fmt.Sprintf("expected a violation of %s, got exit %d", m.Rule, code)
				}
			case "silent":
				r.ok = code == 0
				if !r.ok {
					r.msg = fmt.Sprintf("behaviour-preserving edit raised an alarm (exit %d)", code)
				}
			}
			mu.Lock()
			results = append(results, r)
			mu.Unlock()
		}(f, m)
	}
	wg.Wait()
	sort.Slice(results, func(i, j int) bool { return results[i].file < results[j].file })
	bad := 0
	for _, r := range results {
		st := "ok  "
		if !r.ok {
			st = "FAIL"
			bad++
		}
		rel, _ := filepath.Rel(*dir, r.file)
		fmt.Printf("%s %s %s\n", st, rel, r.msg)
		if !r.ok && *verbose {
			fmt.Println(r.out)
		}
	}
	fmt.Printf("selftest: %d mutants, %d failed\n", len(results), bad)
	if bad > 0 {
		return 1
	}
	return 0
}

// replayCorpus runs the mutants of one property against the current tree and
// returns counts for the evidence file (thorough tier). It never influences the
// verdict: a mutant whose anchor text is gone from a changed tree is skipped.
func replayCorpus(prop, repo, verif string, jobs int) map[string]any {
	files, _ := filepath.Glob(filepath.Join(verif, "mutants", prop, "*.json"))
	sort.Strings(files)
	self, err := os.Executable()
	if err != nil {
		return map[string]any{"error": err.Error()}
	}
	var mu sync.Mutex
	killed, silentOK, skipped := 0, 0, 0
	var failed []string
	sem := make(chan struct{}, jobs)
	var wg sync.WaitGroup
	for _, f := range files {
		b, err := os.ReadFile(f)
		if err != nil {
			continue
		}
		var m mutantSpec
		if json.Unmarshal(b, &m) != nil {
			continue
		}
		wg.Add(1)
		go func(f string, m mutantSpec) {
			defer wg.Done()
			sem <- struct{}{}
			defer func() { <-sem }()
			cmd := exec.Command(self, "check", "--property", m.Property, "--mutant", f, "--no-evidence", "--repo", repo, "--verif", verif)
			out, _ := cmd.CombinedOutput()
			code := cmd.ProcessState.ExitCode()
			mu.Lock()
			defer mu.Unlock()
			switch {
			case code == 3 || code == 2:
				skipped++
			case m.Expect == "silent":
				if code == 0 {
					silentOK++
				} else {
					failed = append(failed, filepath.Base(f))
				}
			default:
				if code == 1 && anyRule(string(out), m.Rule) {
					killed++
				} else {
					failed = append(failed, filepath.Base(f))
				}
			}
		}(f, m)
	}
	wg.Wait()
	sort.Strings(failed)
	return map[string]any{"mutants": len(files), "killed": killed, "behaviour_preserving_silent": silentOK, "skipped_anchor_text_absent": skipped, "not_as_expected": failed,
		"note": "checker validation only: single-site edits of /repo applied in memory through a go/packages overlay, one process each; does not influence the verdict"}
}

// anyRule: the output names one of the rules in spec ("A|B" lists alternatives).
func anyRule(out, spec string) bool {
	for _, r := range strings.Split(spec, "|") {
		if strings.Contains(out, "rule="+r) {
			return true
		}
	}
	return false
}
