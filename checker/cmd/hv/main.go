// hv — repository-specific static checker for the Havoc teamserver properties.
package main

import (
	"encoding/json"
	"flag"
	"fmt"
	"os"
	"path/filepath"
	"runtime/debug"
	"strconv"
	"strings"

	"hv/internal/core"
	"hv/internal/rules"
)

type overlayEdit struct {
	File string `json:"file"` // relative to repo root (/repo)
	Old  string `json:"old"`
	New  string `json:"new"`
	Nth  int    `json:"nth"` // when > 0: old occurs several times, edit the nth occurrence (1-based)
	// Patch, when set, replaces file/old/new: a unified diff (path relative to the verification directory) applied in memory
	Patch string `json:"patch"`
}

func main() {
	if len(os.Args) < 2 {
		usage()
	}
	switch os.Args[1] {
	case "check":
		os.Exit(check(os.Args[2:]))
	case "replay":
		os.Exit(replay(os.Args[2:]))
	case "selftest":
		os.Exit(selftest(os.Args[2:]))
	case "gen":
		os.Exit(gen(os.Args[2:]))
	default:
		usage()
	}
}

func usage() {
	fmt.Fprintln(os.Stderr, "usage: hv check --property Cxx [--tier quick|thorough] [--repo /repo] [--verif /verif] [--mutant file.json]\n       hv replay <replay.json>\n       hv selftest [--rule R]")
	os.Exit(2)
}

func check(args []string) (code int) {
	fs := flag.NewFlagSet("check", flag.ExitOnError)
	prop := fs.String("property", "", "property id")
	tier := fs.String("tier", os.Getenv("VERIF_TIER"), "quick|thorough")
	repo := fs.String("repo", "/repo", "repository root")
	verif := fs.String("verif", "/verif", "verif dir")
	mutant := fs.String("mutant", "", "apply a single-site edit through an overlay (selftest)")
	noEvidence := fs.Bool("no-evidence", false, "write evidence under a temp dir (selftest)")
	fs.Parse(args)
	if *tier == "" {
		*tier = "quick"
	}
	seed, _ := strconv.ParseInt(os.Getenv("VERIF_SEED"), 10, 64)
	defer func() {
		if r := recover(); r != nil {
			fmt.Printf("BROKEN: analyser panic: %v\n%s\n", r, debug.Stack())
			code = 2
		}
	}()
	vdir := *verif
	if *noEvidence {
		d, err := os.MkdirTemp("", "hv-ev")
		if err != nil {
			fmt.Println("BROKEN:", err)
			return 2
		}
		defer os.RemoveAll(d)
		// known findings still come from the real dir
		if b, err := os.ReadFile(filepath.Join(*verif, "known_findings.json")); err == nil {
			os.WriteFile(filepath.Join(d, "known_findings.json"), b, 0o644)
		}
		vdir = d
	}
	rep, err := core.NewReport(vdir, *prop, *tier, seed)
	if err != nil {
		fmt.Println("BROKEN:", err)
		return 2
	}
	opts := core.LoadOptions{Dir: filepath.Join(*repo, "teamserver")}
	if *mutant != "" {
		b, err := os.ReadFile(*mutant)
		if err != nil {
			fmt.Println("BROKEN:", err)
			return 2
		}
		var m overlayEdit
		if err := json.Unmarshal(b, &m); err != nil {
			fmt.Println("BROKEN:", err)
			return 2
		}
		if m.Patch != "" {
			pb, err := os.ReadFile(filepath.Join(*verif, m.Patch))
			if err != nil {
				fmt.Println("BROKEN:", err)
				return 2
			}
			ov, err := applyUnifiedDiff(*repo, string(pb))
			if err != nil {
				fmt.Printf("BROKEN: mutant %s: %v\n", *mutant, err)
				return 3
			}
			opts.Overlay = ov
		}
		abs := filepath.Join(*repo, m.File)
		src, err := os.ReadFile(abs)
		if err != nil && m.Patch == "" {
			fmt.Println("BROKEN:", err)
			return 2
		}
		cnt := strings.Count(string(src), m.Old)
		if m.Patch != "" {
			cnt, m.Nth, m.Old = 1, 0, ""
		}
		if (m.Nth == 0 && cnt != 1) || (m.Nth > 0 && cnt < m.Nth) {
			fmt.Printf("BROKEN: mutant %s: old text occurs %d times in %s\n", *mutant, cnt, m.File)
			return 3
		}
		edited := string(src)
		if m.Nth > 0 {
			at := -1
			off := 0
			for k := 0; k < m.Nth; k++ {
				i := strings.Index(edited[off:], m.Old)
				at = off + i
				off = at + len(m.Old)
			}
			edited = edited[:at] + m.New + edited[at+len(m.Old):]
		} else {
			edited = strings.Replace(edited, m.Old, m.New, 1)
		}
		if m.Patch == "" {
			opts.Overlay = map[string][]byte{abs: []byte(edited)}
		}
	}
	p, err := core.Load(opts)
	if err != nil {
		fmt.Println("BROKEN: load:", err)
		return 2
	}
	ctx := &rules.Ctx{P: p, R: rep, Repo: *repo, Verif: *verif, Thorough: *tier == "thorough"}
	if !rules.Run(ctx, *prop) {
		fmt.Printf("BROKEN: unknown or unclaimed property %q\n", *prop)
		return 2
	}
	if *tier == "thorough" && *mutant == "" {
		rep.Extra["mutant_replay"] = replayCorpus(*prop, *repo, *verif, 8)
	}
	return rep.Finish()
}

func replay(args []string) int {
	if len(args) < 1 {
		usage()
	}
	b, err := os.ReadFile(args[0])
	if err != nil {
		fmt.Println(err)
		return 2
	}
	var o core.Ob
	if err := json.Unmarshal(b, &o); err != nil {
		fmt.Println(err)
		return 2
	}
	fmt.Printf("replaying obligation %s (property %s)\n", o.Key, o.Property)
	// re-decide the property and report the verdict of that key on the current tree
	self, _ := os.Executable()
	_ = self
	rep, err := core.NewReport("/verif", o.Property, "quick", 0)
	if err != nil {
		fmt.Println(err)
		return 2
	}
	p, err := core.Load(core.LoadOptions{Dir: "/repo/teamserver"})
	if err != nil {
		fmt.Println("BROKEN: load:", err)
		return 2
	}
	ctx := &rules.Ctx{P: p, R: rep, Repo: "/repo", Verif: "/verif"}
	rules.Run(ctx, o.Property)
	for _, x := range rep.Obs {
		if x.Key == o.Key {
			fmt.Printf("%s: %s at %s — %s\n", x.Status, x.Construct, x.Pos, x.Reason)
			for _, p := range x.Path {
				fmt.Println("   ", p)
			}
			if x.Status == core.Violated || x.Status == core.Undecided {
				return 1
			}
			return 0
		}
	}
	fmt.Println("obligation no longer present on the current tree")
	return 0
}

// gen prints tables derived from the current tree for review (never used by checks directly).
func gen(args []string) int {
	if len(args) < 1 {
		usage()
	}
	p, err := core.Load(core.LoadOptions{Dir: "/repo/teamserver"})
	if err != nil {
		fmt.Println("BROKEN: load:", err)
		return 2
	}
	rep, _ := core.NewReport(os.TempDir(), "gen", "quick", 0)
	ctx := &rules.Ctx{P: p, R: rep, Repo: "/repo", Verif: "/verif"}
	return rules.Gen(ctx, args[0])
}
