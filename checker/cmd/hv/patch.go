package main

import (
	"fmt"
	"os"
	"path/filepath"
	"regexp"
	"strconv"
	"strings"
)

var hunkRe = regexp.MustCompile(`^@@ -(\d+)(?:,(\d+))? \+(\d+)(?:,(\d+))? @@`)

// applyUnifiedDiff applies a `git diff` style patch to the files under repo, in memory: it returns the new contents
// keyed by absolute path. Hunks are placed at their recorded line when the context matches there, otherwise at the
// nearest place where the removed/context lines match; a hunk that matches nowhere is an error.
func applyUnifiedDiff(repo, patch string) (map[string][]byte, error) {
	out := map[string][]byte{}
	lines := strings.Split(patch, "\n")
	var cur string
	var src []string
	var delta int
	flush := func() {
		if cur != "" {
			out[cur] = []byte(strings.Join(src, "\n"))
		}
	}
	for i := 0; i < len(lines); i++ {
		l := lines[i]
		switch {
		case strings.HasPrefix(l, "--- "):
			continue
		case strings.HasPrefix(l, "+++ "):
			flush()
			name := strings.TrimPrefix(l, "+++ ")
			name = strings.TrimPrefix(name, "b/")
			if name == "/dev/null" {
				cur = ""
				continue
			}
			cur = filepath.Join(repo, name)
			b, err := os.ReadFile(cur)
			if err != nil {
				src = nil // new file
			} else {
				src = strings.Split(string(b), "\n")
			}
			delta = 0
		case strings.HasPrefix(l, "@@ "):
			m := hunkRe.FindStringSubmatch(l)
			if m == nil || cur == "" {
				return nil, fmt.Errorf("bad hunk header %q", l)
			}
			start, _ := strconv.Atoi(m[1])
			var old, neu []string
			j := i + 1
			for ; j < len(lines); j++ {
				h := lines[j]
				if strings.HasPrefix(h, "@@ ") || strings.HasPrefix(h, "diff --git") || strings.HasPrefix(h, "--- ") {
					break
				}
				if h == `\ No newline at end of file` {
					continue
				}
				if h == "" && j == len(lines)-1 {
					break
				}
				switch {
				case strings.HasPrefix(h, "-"):
					old = append(old, h[1:])
				case strings.HasPrefix(h, "+"):
					neu = append(neu, h[1:])
				default:
					t := strings.TrimPrefix(h, " ")
					old = append(old, t)
					neu = append(neu, t)
				}
			}
			i = j - 1
			matchAt := func(at int) bool {
				if at < 0 || at+len(old) > len(src) {
					return false
				}
				for k := range old {
					if src[at+k] != old[k] {
						return false
					}
				}
				return true
			}
			at := start - 1 + delta
			if len(old) == 0 {
				at = start + delta
			}
			if !matchAt(at) {
				found := -1
				for d := 1; d < len(src) && found < 0; d++ {
					if matchAt(at - d) {
						found = at - d
					} else if matchAt(at + d) {
						found = at + d
					}
				}
				if found < 0 {
					return nil, fmt.Errorf("hunk %q does not apply to %s", l, cur)
				}
				at = found
			}
			src = append(append(append([]string{}, src[:at]...), neu...), src[at+len(old):]...)
			delta += len(neu) - len(old)
		}
	}
	flush()
	return out, nil
}
